(* Lair.v — executable model of contracts/liquidity_hub/whale_lair (bond / unbond / withdraw).
   Transcribed operation by operation from src/commands.rs, src/state.rs, src/helpers.rs, src/queries.rs.
   Addresses and denoms are integers. Block time is in nanoseconds (Timestamp).
   The two guards of bond/unbond that query the fee distributor (validate_claimed,
   validate_bonding_for_current_epoch) are ORACLES: each op carries the boolean `guard` = "a guard rejects",
   which the harness computes from the real fee distributor's own queries before the call.
   `fixed = true` is the code after the fix: commit (an Unbond in a block that already holds an unbonding
   record of the same address and denom accumulates into it); `fixed = false` is the code before
   (Map::save overwrites), kept for the refutation witness. *)
From WW Require Import Prim Params.

Definition NS : Z := 1000000000.                       (* Timestamp::seconds = nanos / 10^9 *)
Definition PAGE : nat := Z.to_nat Params.LAIR_MAX_PAGE_LIMIT.   (* MAX_PAGE_LIMIT = 30 *)

Record cfg := mkCfg {
  c_period : Z;            (* unbonding_period, nanoseconds *)
  c_growth : Z;            (* growth_rate, Decimal atomics, <= 10^18 (validated at instantiate) *)
  c_whitelist : list Z     (* bonding_assets (native denoms) *)
}.

Record bondrec := mkBond { b_amt : Z; b_w : Z; b_ts : Z }.
Definition bkey := (Z * Z)%type.              (* (address, denom) *)
Definition ukey := (Z * Z * Z)%type.          (* (address, denom, timestamp nanos) *)

Record state := mkSt {
  bonds : list (bkey * bondrec);              (* BOND *)
  unbonds : list (ukey * Z);                  (* UNBOND: amount (weight 0, timestamp = key) ; ascending by timestamp *)
  g_amt : Z;                                  (* GLOBAL.bonded_amount *)
  g_assets : list (Z * Z);                    (* GLOBAL.bonded_assets: denom -> amount, in insertion order *)
  g_w : Z;                                    (* GLOBAL.weight *)
  g_ts : Z;                                   (* GLOBAL.timestamp *)
  bal : list (Z * Z)                          (* bank balance of the contract: denom -> amount *)
}.
Definition init : state := mkSt [] [] 0 [] 0 0 [].

(* ---- small association lists ------------------------------------------------------------ *)
Definition bkey_eqb (a b : bkey) : bool := (fst a =? fst b) && (snd a =? snd b).
Definition ukey_eqb (a b : ukey) : bool :=
  match a, b with (a1, a2, a3), (b1, b2, b3) => (a1 =? b1) && (a2 =? b2) && (a3 =? b3) end.

Fixpoint bfind (k : bkey) (l : list (bkey * bondrec)) : option bondrec :=
  match l with [] => None | (k', v) :: r => if bkey_eqb k k' then Some v else bfind k r end.
Fixpoint bset (k : bkey) (v : bondrec) (l : list (bkey * bondrec)) : list (bkey * bondrec) :=
  match l with [] => [(k, v)] | (k', v') :: r => if bkey_eqb k k' then (k', v) :: r else (k', v') :: bset k v r end.
Fixpoint bdel (k : bkey) (l : list (bkey * bondrec)) : list (bkey * bondrec) :=
  match l with [] => [] | (k', v') :: r => if bkey_eqb k k' then r else (k', v') :: bdel k r end.

Fixpoint zget (k : Z) (l : list (Z * Z)) : Z :=
  match l with [] => 0 | (k', v) :: r => if k =? k' then v else zget k r end.
Fixpoint zfind (k : Z) (l : list (Z * Z)) : option Z :=
  match l with [] => None | (k', v) :: r => if k =? k' then Some v else zfind k r end.
Fixpoint zset (k v : Z) (l : list (Z * Z)) : list (Z * Z) :=
  match l with [] => [(k, v)] | (k', v') :: r => if k =? k' then (k', v) :: r else (k', v') :: zset k v r end.

(* UNBOND.save under key (addr, denom, ts): records are kept in ascending timestamp order (the storage
   iteration order of the u64 big-endian key suffix). Equal key: overwrite (old code) / accumulate (fixed code). *)
Fixpoint uins (fixed : bool) (k : ukey) (amt : Z) (l : list (ukey * Z)) : outcome (list (ukey * Z)) :=
  match l with
  | [] => Ok [(k, amt)]
  | (k', v) :: r =>
      if ukey_eqb k k' then
        (if fixed then (do s <- cadd P128 v amt; Ok ((k', s) :: r)) else Ok ((k', amt) :: r))
      else if snd k <? snd k' then Ok ((k, amt) :: (k', v) :: r)
      else do r' <- uins fixed k amt r; Ok ((k', v) :: r')
  end.

(* ---- sums (the quantities the property talks about) -------------------------------------- *)
Definition bsum (d : Z) (l : list (bkey * bondrec)) : Z :=
  sumZ (map (fun e => if snd (fst e) =? d then b_amt (snd e) else 0) l).
Definition btotal (l : list (bkey * bondrec)) : Z := sumZ (map (fun e => b_amt (snd e)) l).
Definition umatch (who d : Z) (k : ukey) : bool := match k with (a, dd, _) => (a =? who) && (dd =? d) end.
Definition udenom (k : ukey) : Z := match k with (_, dd, _) => dd end.
Definition uts (k : ukey) : Z := match k with (_, _, t) => t end.
Definition usum (d : Z) (l : list (ukey * Z)) : Z :=
  sumZ (map (fun e => if udenom (fst e) =? d then snd e else 0) l).
Definition usum_who (who d : Z) (l : list (ukey * Z)) : Z :=
  sumZ (map (fun e => if umatch who d (fst e) then snd e else 0) l).

(* ---- state.rs::get_weight ----------------------------------------------------------------- *)
Definition get_weight (now w amt growth ts : Z) : outcome Z :=
  do tf <- (if ts =? 0 then Ok 0 else csub (now / NS) (ts / NS));   (* checked_sub -> generic_err *)
  do m <- cmul P128 amt tf;                                          (* checked_mul? *)
  do g <- mul_dec P128 m growth;                                     (* Uint128 * Decimal *)
  cadd P128 w g.

(* asset::aggregate_assets(bonded_assets, [asset]) / deduct_assets *)
Definition aggregate (d amt : Z) (l : list (Z * Z)) : outcome (list (Z * Z)) :=
  match zfind d l with
  | Some v => do s <- cadd P128 v amt; Ok (zset d s l)
  | None => Ok (l ++ [(d, amt)])
  end.
Definition deduct (d amt : Z) (l : list (Z * Z)) : outcome (list (Z * Z)) :=
  match zfind d l with
  | Some v => do s <- csub v amt; Ok (zset d s l)
  | None => Err E_OTHER
  end.

(* helpers::validate_funds *)
Definition funds_ok (funds : list (Z * Z)) (denom amt : Z) (wl : list Z) : bool :=
  match funds with
  | [(fd, fa)] => negb (fa =? 0) && (fa =? amt) && (fd =? denom) && existsb (Z.eqb denom) wl
  | _ => false
  end.

Inductive op :=
| Bond (who : Z) (native : bool) (denom amt : Z) (funds : list (Z * Z)) (guard : bool)
| Unbond (who : Z) (native : bool) (denom amt : Z) (guard : bool)
| Withdraw (who denom : Z)
| Donate (denom amt : Z).       (* anything that credits the contract without a Bond: a plain bank transfer, or
                                   coins attached to an Unbond / Withdraw call (those handlers ignore info.funds) *)

(* what an accepted call moved / recorded (ghost for the history theorems; the bank transfer for Withdraw) *)
Inductive effect :=
| EBond (who d amt : Z)
| EUnbond (who d amt : Z)
| EPay (who d amt : Z)
| EDonate (d amt : Z).

Definition bond_step (c : cfg) (now : Z) (s : state) (who : Z) (native : bool) (d amt : Z)
           (funds : list (Z * Z)) (guard : bool) : outcome (state * effect) :=
  do _ <- ensure native E_OTHER;                                  (* InvalidBondingAsset *)
  do _ <- ensure (funds_ok funds d amt (c_whitelist c)) E_OTHER;  (* AssetMismatch *)
  do _ <- ensure (negb guard) E_OTHER;                            (* UnclaimedRewards / NewEpochNotCreatedYet *)
  let b := match bfind (who, d) (bonds s) with Some b => b | None => mkBond 0 0 0 end in
  do a1 <- cadd P128 (b_amt b) amt;
  do w1 <- cadd P128 (b_w b) amt;
  do w2 <- get_weight now w1 a1 (c_growth c) (b_ts b);            (* update_local_weight *)
  let bonds' := bset (who, d) (mkBond a1 w2 now) (bonds s) in
  do gw1 <- cadd P128 (g_w s) amt;
  do ga1 <- cadd P128 (g_amt s) amt;
  do gas <- aggregate d amt (g_assets s);
  do gw2 <- get_weight now gw1 ga1 (c_growth c) (g_ts s);         (* update_global_weight *)
  Ok (mkSt bonds' (unbonds s) ga1 gas gw2 now (zset d (zget d (bal s) + amt) (bal s)), EBond who d amt).

Definition unbond_step (fixed : bool) (c : cfg) (now : Z) (s : state) (who : Z) (native : bool) (d amt : Z)
           (guard : bool) : outcome (state * effect) :=
  do _ <- ensure (negb (amt =? 0)) E_OTHER;                       (* InvalidUnbondingAmount *)
  do _ <- ensure native E_OTHER;
  do _ <- ensure (negb guard) E_OTHER;
  match bfind (who, d) (bonds s) with
  | None => Err E_OTHER                                            (* NothingToUnbond *)
  | Some b =>
      do _ <- ensure (amt <=? b_amt b) E_OTHER;                    (* InsufficientBond *)
      do w1 <- get_weight now (b_w b) (b_amt b) (c_growth c) (b_ts b);
      do r <- dec_from_ratio P128 amt (b_amt b);
      do slash <- mul_dec P128 w1 r;
      do w2 <- csub w1 slash;
      do a2 <- csub (b_amt b) amt;
      let bonds' := if a2 =? 0 then bdel (who, d) (bonds s) else bset (who, d) (mkBond a2 w2 now) (bonds s) in
      do unbonds' <- uins fixed (who, d, now) amt (unbonds s);
      do gw1 <- get_weight now (g_w s) (g_amt s) (c_growth c) (g_ts s);
      do ga <- csub (g_amt s) amt;
      do gas <- deduct d amt (g_assets s);
      do gw2 <- csub gw1 slash;
      Ok (mkSt bonds' unbonds' ga gas gw2 now (bal s), EUnbond who d amt)
  end.

(* the loop of commands::withdraw / queries::query_withdrawable over the first MAX_PAGE_LIMIT records of
   (who, d) in ascending timestamp order: returns (sum of the matured ones, the list without them) *)
Fixpoint wd_walk (who d cutoff : Z) (cnt : nat) (l : list (ukey * Z)) : Z * list (ukey * Z) :=
  match l with
  | [] => (0, [])
  | e :: r =>
      if umatch who d (fst e) then
        match cnt with
        | O => (0, l)
        | S c => let sr := wd_walk who d cutoff c r in
                 if uts (fst e) <=? cutoff then (snd e + fst sr, snd sr) else (fst sr, e :: snd sr)
        end
      else let sr := wd_walk who d cutoff cnt r in (fst sr, e :: snd sr)
  end.

Definition has_records (who d : Z) (l : list (ukey * Z)) : bool := existsb (fun e => umatch who d (fst e)) l.

Definition withdraw_step (c : cfg) (now : Z) (s : state) (who d : Z) : outcome (state * effect) :=
  do _ <- ensure (has_records who d (unbonds s)) E_OTHER;          (* NothingToWithdraw *)
  do _ <- must (c_period c <=? now);                               (* Timestamp::minus_nanos underflow *)
  let sr := wd_walk who d (now - c_period c) PAGE (unbonds s) in
  do _ <- ensure (fits128 (fst sr)) E_OTHER;                       (* checked_add of the refund *)
  do _ <- ensure (0 <? fst sr) E_OTHER;                            (* bank: "Cannot transfer empty coins amount" *)
  do _ <- ensure (fst sr <=? zget d (bal s)) E_OTHER;              (* bank: insufficient funds *)
  Ok (mkSt (bonds s) (snd sr) (g_amt s) (g_assets s) (g_w s) (g_ts s) (zset d (zget d (bal s) - fst sr) (bal s)),
      EPay who d (fst sr)).

Definition step (fixed : bool) (c : cfg) (now : Z) (s : state) (o : op) : outcome (state * effect) :=
  match o with
  | Bond who native d amt funds guard => bond_step c now s who native d amt funds guard
  | Unbond who native d amt guard => unbond_step fixed c now s who native d amt guard
  | Withdraw who d => withdraw_step c now s who d
  | Donate d amt =>
      do _ <- ensure (0 <? amt) E_OTHER;                             (* bank: empty coins amount *)
      Ok (mkSt (bonds s) (unbonds s) (g_amt s) (g_assets s) (g_w s) (g_ts s) (zset d (zget d (bal s) + amt) (bal s)),
          EDonate d amt)
  end.

(* histories: (block time, op); a rejected call leaves the state as it was (transaction atomicity) *)
Definition event := (Z * op)%type.
Definition hstep (fixed : bool) (c : cfg) (s : state) (e : event) : state :=
  match step fixed c (fst e) s (snd e) with Ok (s', _) => s' | _ => s end.
Definition run (fixed : bool) (c : cfg) (h : list event) : state := fold_left (hstep fixed c) h init.

(* the effects of the accepted calls of a history, oldest first *)
Fixpoint effects_from (fixed : bool) (c : cfg) (s : state) (h : list event) : list effect :=
  match h with
  | [] => []
  | e :: r => match step fixed c (fst e) s (snd e) with
              | Ok (s', f) => f :: effects_from fixed c s' r
              | _ => effects_from fixed c s r
              end
  end.
Definition effects (fixed : bool) (c : cfg) (h : list event) : list effect := effects_from fixed c init h.

Definition unbonded_of (who d : Z) (f : effect) : Z :=
  match f with EUnbond a dd x => if (a =? who) && (dd =? d) then x else 0 | _ => 0 end.
Definition paid_of (who d : Z) (f : effect) : Z :=
  match f with EPay a dd x => if (a =? who) && (dd =? d) then x else 0 | _ => 0 end.
Definition donated_of (d : Z) (f : effect) : Z :=
  match f with EDonate dd x => if dd =? d then x else 0 | _ => 0 end.
Definition donated_total (d : Z) (fs : list effect) : Z := sumZ (map (donated_of d) fs).
Definition unbonded_total (who d : Z) (fs : list effect) : Z := sumZ (map (unbonded_of who d) fs).
Definition paid_total (who d : Z) (fs : list effect) : Z := sumZ (map (paid_of who d) fs).

(* ---- queries -------------------------------------------------------------------------------- *)
Definition q_bonded (who d : Z) (s : state) : Z :=
  match bfind (who, d) (bonds s) with Some b => b_amt b | None => 0 end.
(* QueryMsg::Unbonding {limit: 30}.total_amount : first 30 records *)
Fixpoint first_sum (who d : Z) (cnt : nat) (l : list (ukey * Z)) : Z :=
  match l with
  | [] => 0
  | e :: r => if umatch who d (fst e) then match cnt with O => 0 | S c => snd e + first_sum who d c r end
              else first_sum who d cnt r
  end.
Definition q_unbonding (who d : Z) (s : state) : Z :=
  let t := first_sum who d PAGE (unbonds s) in if fits128 t then t else (-1).
(* QueryMsg::Withdrawable: -1 encodes a failing query *)
Definition q_withdrawable (c : cfg) (now who d : Z) (s : state) : Z :=
  if has_records who d (unbonds s) && (now <? c_period c) then (-1)
  else let t := fst (wd_walk who d (now - c_period c) PAGE (unbonds s)) in if fits128 t then t else (-1).
