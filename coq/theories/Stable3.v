(* Stable3.v — stableswap_3pool/src/stableswap_math/curve.rs and helpers::compute_swap, operation by operation.
   Uint128 / Uint256 / u64 `checked_*().unwrap()` -> Panic; `?` on an Option -> None (Err E_NONE, see Amp.v);
   loops -> structural recursion on fuel = the code's own iteration bound (generated into Params.v). *)
From WW Require Import Prim Params Amp CPSwap.

(* N_COINS = 3 is written as the literal 3 (and N_COINS + 1 as 4): Stable3Proofs.n_coins_is_3 ties it to Params *)

(* |a - b| <= 1, written in the code as two branches on a > b *)
Definition close1 (a b : Z) : bool := if b <? a then a - b <=? 1 else b - a <=? 1.

(* ---- compute_next_d -------------------------------------------------------------------------- *)
Definition compute_next_d (amp d_init d_prod sum_x : Z) : outcome Z :=
  do ann <- omul64 amp 3;                         (* amp_factor.checked_mul(N_COINS)? *)
  do leverage <- pmul P256 sum_x ann;
  do t1 <- pmul P256 d_prod 3;
  do t2 <- padd P256 t1 leverage;
  do num <- pmul P256 d_init t2;
  do am1 <- osub ann 1;                           (* ann.checked_sub(1)? *)
  do t3 <- pmul P256 d_init am1;
  do t4 <- pmul P256 d_prod 4;                    (* N_COINS.checked_add(1)? = 4 on u8: never None *)
  do den <- padd P256 t3 t4;
  pdiv num den.

(* one round of the D loop: d_prod = d^4 / (27 a b c) with three truncating divisions, then compute_next_d(..).unwrap() *)
Definition d_step (amp a3 b3 c3 sum d : Z) : outcome Z :=
  do p <- pmul P256 d d; do p <- pdiv p a3;
  do p <- pmul P256 p d; do p <- pdiv p b3;
  do p <- pmul P256 p d; do p <- pdiv p c3;
  unwrap (compute_next_d amp d p sum).

Fixpoint d_loop (fuel : nat) (amp a3 b3 c3 sum d : Z) : outcome Z :=
  match fuel with
  | O => Ok d                                      (* falls out of the loop with the last iterate *)
  | S f => do d' <- d_step amp a3 b3 c3 sum d;
           if close1 d' d then Ok d' else d_loop f amp a3 b3 c3 sum d'
  end.

Definition D_FUEL : nat := Z.to_nat Params.TRIO_D_ITERATIONS.
Definition Y_FUEL : nat := Z.to_nat Params.TRIO_Y_ITERATIONS.

Definition compute_d_fuel (fuel : nat) (r : ramp) (a b c : Z) : outcome Z :=
  do bc <- padd P128 b c;
  do sum <- padd P128 a bc;
  if sum =? 0 then Ok 0 else
  do amp <- compute_amp_factor r;
  do a3 <- pmul P128 a 3;
  do b3 <- pmul P128 b 3;
  do c3 <- pmul P128 c 3;
  d_loop fuel amp a3 b3 c3 sum sum.
Definition compute_d := compute_d_fuel D_FUEL.

(* ---- compute_mint_amount_for_deposit ------------------------------------------------------------ *)
Definition compute_mint (r : ramp) (da db dc sa sb sc supply : Z) : outcome Z :=
  do d0 <- compute_d r sa sb sc;
  do na <- padd P128 sa da;
  do nb <- padd P128 sb db;
  do nc <- padd P128 sc dc;
  do d1 <- compute_d r na nb nc;
  if d1 <=? d0 then none else
  do diff <- psub d1 d0;
  do m <- pmul P256 supply diff;
  do q <- pdiv m d0;
  if fits128 q then Ok q else Panic.

(* ---- compute_y_raw / compute_y ------------------------------------------------------------------ *)
Definition y_step (b c d y : Z) : outcome Z :=
  do yy <- pmul P256 y y;
  do num <- padd P256 yy c;
  do y2 <- pmul P256 y 2;
  do t <- padd P256 y2 b;
  do den <- psub t d;
  pdiv num den.

Fixpoint y_loop (fuel : nat) (b c d y : Z) : outcome Z :=
  match fuel with
  | O => Ok y
  | S f => do y' <- y_step b c d y;
           if close1 y' y then Ok y' else y_loop f b c d y'
  end.

(* the coefficients of the quadratic y^2 + (b - d) y = c the code solves *)
Definition y_coeffs (ann swap_in no_swap d : Z) : outcome (Z * Z) :=
  do c <- pmul P256 d d; do s3 <- pmul P128 swap_in 3; do c <- pdiv c s3;
  do c <- pmul P256 c d; do n3 <- pmul P128 no_swap 3; do c <- pdiv c n3;
  do c <- pmul P256 c d; do a3 <- pmul P64 ann 3; do c <- pdiv c a3;
  do b0 <- pdiv d ann;
  do b1 <- padd P256 b0 swap_in;
  do b <- padd P256 b1 no_swap;
  Ok (b, c).

Definition compute_y_raw_fuel (fuel : nat) (r : ramp) (swap_in no_swap d : Z) : outcome Z :=
  do amp <- compute_amp_factor r;
  do ann <- omul64 amp 3;
  do bc <- y_coeffs ann swap_in no_swap d;
  y_loop fuel (fst bc) (snd bc) d d.
Definition compute_y_raw := compute_y_raw_fuel Y_FUEL.

Definition compute_y (r : ramp) (x no_swap d : Z) : outcome Z :=
  do y <- compute_y_raw r x no_swap d;
  if fits128 y then Ok y else Panic.

(* ---- swap_to / reverse_sim ---------------------------------------------------------------------- *)
Record swapres := mkRes { new_src : Z; new_dst : Z; swapped : Z }.

Definition swap_to (r : ramp) (amount src dst uns : Z) : outcome swapres :=
  do x <- padd P128 src amount;
  do d <- unwrap (compute_d r src dst uns);
  do y <- compute_y r x uns d;
  do t <- psub dst y;
  do dy <- psub t 1;
  do nd <- psub dst dy;
  do ns <- padd P128 src amount;
  Ok (mkRes ns nd dy).

Definition reverse_sim (r : ramp) (ask src dst uns : Z) : outcome Z :=
  do x <- psub dst ask;
  do d <- unwrap (compute_d r src dst uns);
  do y <- compute_y r x uns d;
  psub y src.

(* ---- helpers::compute_swap (default build) ------------------------------------------------------- *)
Definition compute_swap3 (r : ramp) (op ask uns x : Z) (f : fees) : outcome swapc :=
  do res <- unwrap (swap_to r x op ask uns);
  let ret := swapped res in
  let spread := if ret <? x then x - ret else ret - x in
  do sf <- fee_compute (f_swap f) ret;
  do pf <- fee_compute (f_protocol f) ret;
  do bf <- fee_compute (f_burn f) ret;
  do r1 <- psub ret sf;
  do r2 <- psub r1 pf;
  do r3 <- psub r2 bf;
  do a <- to128 r3; do b <- to128 spread; do c <- to128 sf; do d <- to128 pf; do e <- to128 bf;
  Ok (mkSwap a b c d e).

(* ---- selection of (offer, ask, unswapped) pools by asset identity (commands::swap, queries) ------- *)
(* assets are identified by the index of the pool they equal (0,1,2); any other number = an asset that is not in the pool *)
Definition select_pools {A} (offer ask : Z) (p0 p1 p2 : A) : outcome (A * A * A) :=   (* (offer_pool, ask_pool, unswapped_pool) *)
  if ask =? 0 then
    if offer =? 1 then Ok (p1, p0, p2) else if offer =? 2 then Ok (p2, p0, p1) else Err E_OTHER
  else if ask =? 1 then
    if offer =? 0 then Ok (p0, p1, p2) else if offer =? 2 then Ok (p2, p1, p0) else Err E_OTHER
  else if ask =? 2 then
    if offer =? 0 then Ok (p0, p2, p1) else if offer =? 1 then Ok (p1, p2, p0) else Err E_OTHER
  else Err E_OTHER.
