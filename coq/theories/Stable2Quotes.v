(* Stable2Quotes.v — StableSwap pair: queries.rs::query_simulation against commands.rs::swap as it runs (C14). *)
From WW Require Import Prim Params Amp CPSwap Stable2 Stable2Pool.

(* query path: pools = balance - pending protocol fee (the offer has not arrived); the offer asset selects which pool is the
   offer pool AND which of `asset_decimals` is the offer's precision; helpers::compute_swap (StableSwap arm) *)
Definition simulate2 (p : pool2) (i x : Z) : outcome swapc :=
  do r0 <- reserve2 0 p; do r1 <- reserve2 1 p;
  do _ <- ensure ((i =? 0) || (i =? 1)) E_OTHER;                                (* AssetMismatch *)
  let j := 1 - i in
  let opool := if i =? 0 then r0 else r1 in
  let apool := if i =? 0 then r1 else r0 in
  compute_swap_stable opool apool x (q_fees p) (q_amp p) (get2 i (q_dec p)) (get2 j (q_dec p)).

(* execution path: the contract's balance of the offer asset already contains the offer; each pool is
   balance.checked_sub(protocol fee) and, for the offer asset, .checked_sub(offer) after that *)
Definition exec_reserve2 (i x k : Z) (p : pool2) : outcome Z :=
  let b := get2 k (q_bal p) + (if k =? i then x else 0) in
  do a <- csub b (get2 k (q_fee p));
  if k =? i then csub a x else Ok a.

Definition swap2_exec (p : pool2) (i x : Z) (max_spread : option Z) : outcome (pool2 * eff2) :=
  do r0 <- exec_reserve2 i x 0 p; do r1 <- exec_reserve2 i x 1 p;
  do _ <- ensure ((i =? 0) || (i =? 1)) E_OTHER;
  let j := 1 - i in
  let opool := if i =? 0 then r0 else r1 in
  let apool := if i =? 0 then r1 else r0 in
  do s <- compute_swap_stable opool apool x (q_fees p) (q_amp p) (get2 i (q_dec p)) (get2 j (q_dec p));
  do f1 <- cadd P128 (s_swapfee s) (s_protfee s);
  do fsum <- cadd P128 f1 (s_burnfee s);
  do tot <- cadd P128 (s_ret s) fsum;
  do _ <- assert_max_spread2 max_spread tot (s_spread s);
  let out := s_ret s + s_burnfee s in
  do _ <- ensure (out <=? get2 j (q_bal p)) E_OTHER;
  Ok (mkPool2 (upd2 j (fun b => b - out) (upd2 i (fun b => b + x) (q_bal p)))
              (upd2 j (fun f => f + s_protfee s) (q_fee p))
              (upd2 j (fun f => f + s_protfee s) (q_all p))
              (upd2 j (fun f => f + s_burnfee s) (q_burn p))
              (q_supply p) (q_lp p) (q_lp_self p) (q_amp p) (q_dec p) (q_fees p) (q_cw20 p),
      mkEff2 (upd2 j (fun _ => s_ret s) (upd2 i (fun _ => - x) zero2)) zero2 (upd2 j (fun _ => s_burnfee s) zero2)).
