(* Stable3Quotes.v — the two code paths of the three-asset pool that must agree (C14):
   queries.rs::query_simulation and commands.rs::swap as it runs inside a transaction. *)
From WW Require Import Prim Params Amp CPSwap Stable3 Stable3Pool.

(* queries.rs::query_simulation: every pool = balance - pending protocol fee, taken from the state as it is when the query is
   made (the offer has not arrived); pools selected by asset identity; helpers::compute_swap *)
Definition simulate3 (p : pool) (i j x : Z) : outcome swapc :=
  do r0 <- reserve 0 p; do r1 <- reserve 1 p; do r2 <- reserve 2 p;
  do sel <- select_pools i j r0 r1 r2;
  let '(opool, apool, upool) := sel in
  compute_swap3 (ramp_of (p_cfg p) (p_height p)) opool apool upool x (p_fees p).

(* commands.rs::swap: when the contract runs, its balance of the offer asset already contains the offer (attached coins, or the
   cw20 Send that triggered the hook). Each pool is `balance.checked_sub(protocol fee)` and, for the asset equal to the offer,
   `.checked_sub(offer)` after that - in this order. `p` is the state before the offer arrives, as for `Stable3Pool.swap`. *)
Definition exec_reserve (i x k : Z) (p : pool) : outcome Z :=
  let b := get3 k (p_bal p) + (if k =? i then x else 0) in
  do a <- csub b (get3 k (p_fee p));
  if k =? i then csub a x else Ok a.

Definition swap_exec (p : pool) (i j x : Z) (max_spread : option Z) : outcome (pool * effects) :=
  do r0 <- exec_reserve i x 0 p; do r1 <- exec_reserve i x 1 p; do r2 <- exec_reserve i x 2 p;
  do sel <- select_pools i j r0 r1 r2;
  let '(opool, apool, upool) := sel in
  let r := ramp_of (p_cfg p) (p_height p) in
  do s <- compute_swap3 r opool apool upool x (p_fees p);
  do f1 <- cadd P128 (s_swapfee s) (s_protfee s);
  do fsum <- cadd P128 f1 (s_burnfee s);
  do tot <- cadd P128 (s_ret s) fsum;
  do _ <- assert_max_spread_none max_spread tot (s_spread s);
  let out := s_ret s + s_burnfee s in
  do _ <- ensure (out <=? get3 j (p_bal p)) E_OTHER;
  Ok (mkPool (upd3 j (fun b => b - out) (upd3 i (fun b => b + x) (p_bal p)))
             (upd3 j (fun f => f + s_protfee s) (p_fee p))
             (upd3 j (fun f => f + s_protfee s) (p_all p))
             (upd3 j (fun f => f + s_burnfee s) (p_burn p))
             (p_supply p) (p_lp p) (p_lp_self p) (p_cfg p) (p_height p) (p_fees p) (p_cw20 p),
      mkEff (upd3 j (fun _ => s_ret s) (upd3 i (fun _ => - x) zero3)) zero3 (upd3 j (fun _ => s_burnfee s) zero3) 0).
