(* CPSwap.v — constant-product arm of terraswap_pair::helpers::compute_swap, operation by operation
   (default build: no osmosis fee), and PoolFee::is_valid / Fee::compute from white-whale-std. *)
From WW Require Import Prim.

Record fees := mkFees { f_protocol : Z; f_swap : Z; f_burn : Z }.   (* Decimal atomics *)

(* Fee::is_valid: share >= 100% is invalid; PoolFee::is_valid: each valid, checked_add sum (Decimal is
   128-bit: overflow -> Err), total >= 100% invalid *)
Definition fee_valid (s : Z) : bool := s <? DEC.
Definition poolfee_valid (f : fees) : bool :=
  fee_valid (f_protocol f) && fee_valid (f_swap f) && fee_valid (f_burn f) &&
  fits128 (f_protocol f + f_swap f + f_burn f) &&
  (f_protocol f + f_swap f + f_burn f <? DEC).

(* Fee::compute: amount(Uint256) * Decimal256::from(share) : floor; panics on 256-bit overflow *)
Definition fee_compute (share amount : Z) : outcome Z := mul_dec P256 amount share.

Record swapc := mkSwap { s_ret : Z; s_spread : Z; s_swapfee : Z; s_protfee : Z; s_burnfee : Z }.

Definition to128 (z : Z) : outcome Z := if fits128 z then Ok z else Err E_OTHER. (* SwapOverflowError *)

Definition compute_swap_cp (op ask x : Z) (f : fees) : outcome swapc :=
  (* ask_pool.mul(offer_amount), offer_pool + offer_amount : Uint256 operators *)
  do num <- pmul P256 ask x;
  do den <- padd P256 op x;
  do r   <- dec_from_ratio P256 num den;
  do gross <- mul_dec P256 1 r;                       (* Uint256::one() * Decimal256 *)
  do rate <- dec_from_ratio P256 ask op;              (* exchange_rate *)
  do t    <- mul_dec P256 x rate;
  let spread := ssub t gross in                       (* saturating_sub (fix: was unchecked `-`) *)
  do sf <- fee_compute (f_swap f) gross;
  do pf <- fee_compute (f_protocol f) gross;
  do bf <- fee_compute (f_burn f) gross;
  do r1 <- psub gross sf;
  do r2 <- psub r1 pf;
  do r3 <- psub r2 bf;
  do a <- to128 r3; do b <- to128 spread; do c <- to128 sf; do d <- to128 pf; do e <- to128 bf;
  Ok (mkSwap a b c d e).

(* the code before the fix: unchecked subtraction panics *)
Definition compute_swap_cp_unfixed (op ask x : Z) (f : fees) : outcome swapc :=
  do num <- pmul P256 ask x;
  do den <- padd P256 op x;
  do r   <- dec_from_ratio P256 num den;
  do gross <- mul_dec P256 1 r;
  do rate <- dec_from_ratio P256 ask op;
  do t    <- mul_dec P256 x rate;
  do spread <- psub t gross;
  do sf <- fee_compute (f_swap f) gross;
  do pf <- fee_compute (f_protocol f) gross;
  do bf <- fee_compute (f_burn f) gross;
  do r1 <- psub gross sf;
  do r2 <- psub r1 pf;
  do r3 <- psub r2 bf;
  do a <- to128 r3; do b <- to128 spread; do c <- to128 sf; do d <- to128 pf; do e <- to128 bf;
  Ok (mkSwap a b c d e).

Definition swapc_obs (s : swapc) : list Z :=
  [s_ret s; s_spread s; s_swapfee s; s_protfee s; s_burnfee s].
