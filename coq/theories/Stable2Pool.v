(* Stable2Pool.v — terraswap_pair with PairType::StableSwap { amp } as a machine: commands.rs provide_liquidity (StableSwap
   branch), withdraw_liquidity, swap, collect_protocol_fees (as repaired), over token balances, fee ledgers and the cw20 LP token.
   Default build; slippage_tolerance / belief_price = None. *)
From WW Require Import Prim Params Amp CPSwap Stable2.

Definition t2 : Type := (Z * Z)%type.
Definition get2 (i : Z) (t : t2) : Z := if i =? 0 then fst t else snd t.
Definition upd2 (i : Z) (f : Z -> Z) (t : t2) : t2 := if i =? 0 then (f (fst t), snd t) else (fst t, f (snd t)).
Definition map2 (f : Z -> Z) (t : t2) : t2 := (f (fst t), f (snd t)).
Definition zip2 (f : Z -> Z -> Z) (t u : t2) : t2 := (f (fst t) (fst u), f (snd t) (snd u)).
Definition list2 (t : t2) : list Z := [fst t; snd t].
Definition zero2 : t2 := (0, 0).

Record pool2 := mkPool2 {
  q_bal : t2; q_fee : t2; q_all : t2; q_burn : t2;
  q_supply : Z; q_lp : list Z; q_lp_self : Z;
  q_amp : Z; q_dec : t2;                 (* amp and asset_decimals of the pair *)
  q_fees : fees;
  q_cw20 : (bool * bool)
}.
Definition is_cw20_2 (i : Z) (p : pool2) : bool := if i =? 0 then fst (q_cw20 p) else snd (q_cw20 p).

Inductive op2 :=
| Provide2 (u : nat) (d : t2)
| Withdraw2 (u : nat) (amount : Z)
| Swap2 (u : nat) (i : Z) (x : Z) (max_spread : option Z)      (* i = index of the offer asset; the ask asset is the other one *)
| Collect2
| Donate2 (i : Z) (x : Z)
| SetFees2 (f : fees).          (* the owner's UpdateConfig { pool_fees }: PoolFee::is_valid, then stored; ledgers and balances untouched *)

Record eff2 := mkEff2 { f_user : t2; f_coll : t2; f_burned : t2 }.

Definition MIN_LIQ2 : Z := Params.MINIMUM_LIQUIDITY_AMOUNT.
Definition MIN_COLLECT2 : Z := Params.PAIR_MINIMUM_COLLECTABLE_BALANCE.

Definition set_nth2 (n : nat) (v : Z) (l : list Z) : list Z :=
  (fix go (k : nat) (l : list Z) := match l with [] => [] | x :: r => (if Nat.eqb k n then v else x) :: go (S k) r end) O l.
Definition lp_of2 (u : nat) (p : pool2) : Z := nth u (q_lp p) 0.
Definition reserve2 (i : Z) (p : pool2) : outcome Z := csub (get2 i (q_bal p)) (get2 i (q_fee p)).

Definition provide2 (p : pool2) (u : nat) (d : t2) : outcome (pool2 * eff2) :=
  let '(d0, d1) := d in
  do _ <- ensure (negb ((d0 =? 0) || (d1 =? 0))) E_OTHER;
  do r0 <- reserve2 0 p; do r1 <- reserve2 1 p;
  let S := q_supply p in
  do sh <- (if S =? 0 then
      do dd <- unwrap (compute_d2 (q_amp p) d0 d1);
      do dd <- (if fits128 dd then Ok dd else Err E_OTHER);                    (* Uint128::try_from(..)? *)
      let minl := MIN_LIQ2 * 2 in
      let share := ssub dd minl in                                             (* saturating_sub *)
      do _ <- ensure (negb (share =? 0)) E_OTHER;
      Ok (share, minl)
    else
      do amount <- unwrap (compute_mint2 (q_amp p) d0 d1 r0 r1 S);
      Ok (amount, 0));
  let '(share, locked) := sh in
  do s1 <- padd P128 S locked;
  do s2 <- padd P128 s1 share;
  Ok (mkPool2 (zip2 Z.add (q_bal p) d) (q_fee p) (q_all p) (q_burn p) s2
              (set_nth2 u (lp_of2 u p + share) (q_lp p)) (q_lp_self p + locked) (q_amp p) (q_dec p) (q_fees p) (q_cw20 p),
      mkEff2 (map2 Z.opp d) zero2 zero2).

Definition withdraw2 (p : pool2) (u : nat) (amount : Z) : outcome (pool2 * eff2) :=
  do _ <- ensure (amount <=? lp_of2 u p) E_OTHER;
  let S := q_supply p in
  do ratio <- dec_from_ratio P128 amount S;
  do r0 <- reserve2 0 p; do r1 <- reserve2 1 p;
  let f0 := r0 * ratio / DEC in let f1 := r1 * ratio / DEC in
  do _ <- ensure (negb ((f0 =? 0) && negb (is_cw20_2 0 p))) E_OTHER;
  do _ <- ensure (negb ((f1 =? 0) && negb (is_cw20_2 1 p))) E_OTHER;
  Ok (mkPool2 (zip2 Z.sub (q_bal p) (f0, f1)) (q_fee p) (q_all p) (q_burn p) (S - amount)
              (set_nth2 u (lp_of2 u p - amount) (q_lp p)) (q_lp_self p) (q_amp p) (q_dec p) (q_fees p) (q_cw20 p),
      mkEff2 (f0, f1) zero2 zero2).

Definition DEFAULT_SPREAD2 : Z := 10000000000000000.
Definition MAX_SPREAD_CAP2 : Z := 500000000000000000.
Definition assert_max_spread2 (max_spread : option Z) (ret_plus_fees spread : Z) : outcome unit :=
  let ms := Z.min (match max_spread with Some m => m | None => DEFAULT_SPREAD2 end) MAX_SPREAD_CAP2 in
  do den <- padd P128 ret_plus_fees spread;
  do q <- dec_from_ratio P256 spread den;
  ensure (negb (ms <? q)) E_SLIPPAGE.

Definition swap2 (p : pool2) (i x : Z) (max_spread : option Z) : outcome (pool2 * eff2) :=
  do r0 <- reserve2 0 p; do r1 <- reserve2 1 p;
  do _ <- ensure ((i =? 0) || (i =? 1)) E_OTHER;                                (* AssetMismatch *)
  let j := 1 - i in
  let opool := if i =? 0 then r0 else r1 in
  let apool := if i =? 0 then r1 else r0 in
  do s <- compute_swap_stable opool apool x (q_fees p) (q_amp p) (get2 i (q_dec p)) (get2 j (q_dec p));
  do f1 <- cadd P128 (s_swapfee s) (s_protfee s);
  do fsum <- cadd P128 f1 (s_burnfee s);
  do tot <- cadd P128 (s_ret s) fsum;
  do _ <- assert_max_spread2 max_spread tot (s_spread s);
  let out := s_ret s + s_burnfee s in
  do _ <- ensure (out <=? get2 j (q_bal p)) E_OTHER;
  Ok (mkPool2 (upd2 j (fun b => b - out) (upd2 i (fun b => b + x) (q_bal p)))
              (upd2 j (fun f => f + s_protfee s) (q_fee p))
              (upd2 j (fun f => f + s_protfee s) (q_all p))
              (upd2 j (fun f => f + s_burnfee s) (q_burn p))
              (q_supply p) (q_lp p) (q_lp_self p) (q_amp p) (q_dec p) (q_fees p) (q_cw20 p),
      mkEff2 (upd2 j (fun _ => s_ret s) (upd2 i (fun _ => - x) zero2)) zero2 (upd2 j (fun _ => s_burnfee s) zero2)).

Definition collect2 (p : pool2) : outcome (pool2 * eff2) :=
  let send := map2 (fun f => if MIN_COLLECT2 <? f then f else 0) (q_fee p) in
  Ok (mkPool2 (zip2 Z.sub (q_bal p) send) (zip2 Z.sub (q_fee p) send) (q_all p) (q_burn p)
              (q_supply p) (q_lp p) (q_lp_self p) (q_amp p) (q_dec p) (q_fees p) (q_cw20 p),
      mkEff2 zero2 send zero2).

Definition step2 (p : pool2) (o : op2) : outcome (pool2 * eff2) :=
  match o with
  | Provide2 u d => provide2 p u d
  | Withdraw2 u a => withdraw2 p u a
  | Swap2 u i x ms => swap2 p i x ms
  | Collect2 => collect2 p
  | Donate2 i x => Ok (mkPool2 (upd2 i (fun b => b + x) (q_bal p)) (q_fee p) (q_all p) (q_burn p) (q_supply p) (q_lp p) (q_lp_self p)
                               (q_amp p) (q_dec p) (q_fees p) (q_cw20 p), mkEff2 zero2 zero2 zero2)
  | SetFees2 f => if poolfee_valid f
                  then Ok (mkPool2 (q_bal p) (q_fee p) (q_all p) (q_burn p) (q_supply p) (q_lp p) (q_lp_self p)
                                   (q_amp p) (q_dec p) f (q_cw20 p), mkEff2 zero2 zero2 zero2)
                  else Err E_OTHER
  end.

Definition apply_op2 (p : pool2) (o : op2) : pool2 * outcome eff2 :=
  match step2 p o with
  | Ok (p', e) => (p', Ok e)
  | Err c => (p, Err c)
  | Panic => (p, Panic)
  end.

Fixpoint run2 (p : pool2) (l : list op2) : pool2 :=
  match l with [] => p | o :: l' => run2 (fst (apply_op2 p o)) l' end.

Definition init_pool2 (amp : Z) (dec : t2) (f : fees) (kinds : bool * bool) (users : nat) : pool2 :=
  mkPool2 zero2 zero2 zero2 zero2 0 (repeat 0 users) 0 amp dec f kinds.
