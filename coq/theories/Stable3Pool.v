(* Stable3Pool.v — the stableswap_3pool contract as a machine: commands.rs (provide_liquidity, withdraw_liquidity, swap,
   update_config/ramp, collect_protocol_fees as repaired by the `fix:` commits) over token balances, the three fee ledgers
   and the cw20 LP token. Default build (cw20 LP, no osmosis fee); slippage_tolerance / belief_price = None. *)
From WW Require Import Prim Params Amp CPSwap Stable3.

Definition t3 : Type := (Z * Z * Z)%type.
Definition get3 (i : Z) (t : t3) : Z := match t with (a, b, c) => if i =? 0 then a else if i =? 1 then b else c end.
Definition upd3 (i : Z) (f : Z -> Z) (t : t3) : t3 :=
  match t with (a, b, c) => if i =? 0 then (f a, b, c) else if i =? 1 then (a, f b, c) else (a, b, f c) end.
Definition map3 (f : Z -> Z) (t : t3) : t3 := match t with (a, b, c) => (f a, f b, f c) end.
Definition zip3 (f : Z -> Z -> Z) (t u : t3) : t3 := match t, u with (a, b, c), (x, y, z) => (f a x, f b y, f c z) end.
Definition list3 (t : t3) : list Z := match t with (a, b, c) => [a; b; c] end.
Definition zero3 : t3 := (0, 0, 0).

Record pool := mkPool {
  p_bal : t3;            (* token balances held by the contract *)
  p_fee : t3;            (* COLLECTED_PROTOCOL_FEES (pending) *)
  p_all : t3;            (* ALL_TIME_COLLECTED_PROTOCOL_FEES *)
  p_burn : t3;           (* ALL_TIME_BURNED_FEES *)
  p_supply : Z;          (* LP total supply *)
  p_lp : list Z;         (* LP balances of the users (index = user) *)
  p_lp_self : Z;         (* LP held by the contract itself (the locked minimum liquidity) *)
  p_cfg : ampcfg;
  p_height : Z;
  p_fees : fees;
  p_cw20 : (bool * bool * bool)   (* asset kinds: true = cw20, false = native *)
}.

Definition is_cw20 (i : Z) (p : pool) : bool :=
  match p_cw20 p with (a, b, c) => if i =? 0 then a else if i =? 1 then b else c end.

Inductive op :=
| Provide (u : nat) (d : t3)
| Withdraw (u : nat) (amount : Z)
| Swap (u : nat) (i j : Z) (x : Z) (max_spread : option Z)
| Collect
| Ramp (owner : bool) (fa fb : Z)
| Donate (i : Z) (x : Z)
| Advance (dh : Z)
| SetFees (owner : bool) (f : fees).    (* UpdateConfig { pool_fees }: PoolFee::is_valid, then stored; ledgers and balances untouched *)

(* what an operation moved: to the acting user (signed, per asset), to the fee collector, burned *)
Record effects := mkEff { e_user : t3; e_coll : t3; e_burned : t3; e_lp : Z }.
Definition no_eff : effects := mkEff zero3 zero3 zero3 0.

Definition MIN_LIQ : Z := Params.MINIMUM_LIQUIDITY_AMOUNT.
Definition MIN_COLLECT : Z := Params.TRIO_MINIMUM_COLLECTABLE_BALANCE.

Definition set_nth (n : nat) (v : Z) (l : list Z) : list Z :=
  (fix go (k : nat) (l : list Z) := match l with [] => [] | x :: r => (if Nat.eqb k n then v else x) :: go (S k) r end) O l.
Definition lp_of (u : nat) (p : pool) : Z := nth u (p_lp p) 0.

(* reported reserves: balance - pending protocol fee (checked_sub -> Err) *)
Definition reserve (i : Z) (p : pool) : outcome Z := csub (get3 i (p_bal p)) (get3 i (p_fee p)).

Definition with_bal p b := mkPool b (p_fee p) (p_all p) (p_burn p) (p_supply p) (p_lp p) (p_lp_self p) (p_cfg p) (p_height p) (p_fees p) (p_cw20 p).

(* ---- provide_liquidity ---- *)
Definition provide (p : pool) (u : nat) (d : t3) : outcome (pool * effects) :=
  let '(d0, d1, d2) := d in
  do _ <- ensure (negb ((d0 =? 0) || (d1 =? 0) || (d2 =? 0))) E_OTHER;          (* InvalidZeroAmount *)
  do r0 <- reserve 0 p; do r1 <- reserve 1 p; do r2 <- reserve 2 p;
  let r := ramp_of (p_cfg p) (p_height p) in
  let S := p_supply p in
  do sh <- (if S =? 0 then
      do dd <- unwrap (compute_d r d0 d1 d2);
      do dd <- (if fits128 dd then Ok dd else Panic);                          (* Uint128::try_from(..).unwrap() *)
      let minl := MIN_LIQ * 3 in
      do share <- csub dd minl;                                                (* InvalidInitialLiquidityAmount *)
      do _ <- ensure (negb (share =? 0)) E_OTHER;
      Ok (share, minl)
    else
      do amount <- unwrap (compute_mint r d0 d1 d2 r0 r1 r2 S);
      Ok (amount, 0));
  let '(share, locked) := sh in
  do s1 <- padd P128 S locked;                                                  (* cw20 mint: total_supply += amount *)
  do s2 <- padd P128 s1 share;
  Ok (mkPool (zip3 Z.add (p_bal p) d) (p_fee p) (p_all p) (p_burn p) s2
             (set_nth u (lp_of u p + share) (p_lp p)) (p_lp_self p + locked) (p_cfg p) (p_height p) (p_fees p) (p_cw20 p),
      mkEff (map3 Z.opp d) zero3 zero3 share).

(* ---- withdraw_liquidity (through cw20 Send of the LP token) ---- *)
Definition withdraw (p : pool) (u : nat) (amount : Z) : outcome (pool * effects) :=
  do _ <- ensure (amount <=? lp_of u p) E_OTHER;                                (* cw20 Send: insufficient LP balance *)
  let S := p_supply p in
  do ratio <- dec_from_ratio P128 amount S;                                     (* Decimal::from_ratio: panics on S = 0 *)
  do r0 <- reserve 0 p; do r1 <- reserve 1 p; do r2 <- reserve 2 p;
  let f0 := r0 * ratio / DEC in let f1 := r1 * ratio / DEC in let f2 := r2 * ratio / DEC in
  (* native transfers of a zero amount are rejected by the bank module; cw20 transfers of zero are accepted *)
  do _ <- ensure (negb ((f0 =? 0) && negb (is_cw20 0 p))) E_OTHER;
  do _ <- ensure (negb ((f1 =? 0) && negb (is_cw20 1 p))) E_OTHER;
  do _ <- ensure (negb ((f2 =? 0) && negb (is_cw20 2 p))) E_OTHER;
  let refund := (f0, f1, f2) in
  Ok (mkPool (zip3 Z.sub (p_bal p) refund) (p_fee p) (p_all p) (p_burn p) (S - amount)
             (set_nth u (lp_of u p - amount) (p_lp p)) (p_lp_self p) (p_cfg p) (p_height p) (p_fees p) (p_cw20 p),
      mkEff refund zero3 zero3 (- amount)).

(* ---- swap ---- *)
Definition DEFAULT_SPREAD : Z := 10000000000000000.       (* "0.01" *)
Definition MAX_SPREAD_CAP : Z := 500000000000000000.       (* "0.5"  *)

Definition assert_max_spread_none (max_spread : option Z) (ret_plus_fees spread : Z) : outcome unit :=
  let ms := Z.min (match max_spread with Some m => m | None => DEFAULT_SPREAD end) MAX_SPREAD_CAP in
  do den <- padd P128 ret_plus_fees spread;
  do q <- dec_from_ratio P256 spread den;
  ensure (negb (ms <? q)) E_SLIPPAGE.

Definition swap (p : pool) (i j x : Z) (max_spread : option Z) : outcome (pool * effects) :=
  (* reserves without the protocol fee and, for the offer asset, without the amount just received *)
  do r0 <- reserve 0 p; do r1 <- reserve 1 p; do r2 <- reserve 2 p;
  do sel <- select_pools i j r0 r1 r2;
  let '(opool, apool, upool) := sel in
  let r := ramp_of (p_cfg p) (p_height p) in
  do s <- compute_swap3 r opool apool upool x (p_fees p);
  do f1 <- cadd P128 (s_swapfee s) (s_protfee s);
  do fsum <- cadd P128 f1 (s_burnfee s);
  do tot <- cadd P128 (s_ret s) fsum;
  do _ <- assert_max_spread_none max_spread tot (s_spread s);
  let out := s_ret s + s_burnfee s in
  (* the pool must hold what it sends and burns *)
  do _ <- ensure (out <=? get3 j (p_bal p)) E_OTHER;
  Ok (mkPool (upd3 j (fun b => b - out) (upd3 i (fun b => b + x) (p_bal p)))
             (upd3 j (fun f => f + s_protfee s) (p_fee p))
             (upd3 j (fun f => f + s_protfee s) (p_all p))
             (upd3 j (fun f => f + s_burnfee s) (p_burn p))
             (p_supply p) (p_lp p) (p_lp_self p) (p_cfg p) (p_height p) (p_fees p) (p_cw20 p),
      mkEff (upd3 j (fun _ => s_ret s) (upd3 i (fun _ => - x) zero3)) zero3 (upd3 j (fun _ => s_burnfee s) zero3) 0).

(* ---- collect_protocol_fees (after the fix: entries that are not sent stay pending) ---- *)
Definition collect (p : pool) : outcome (pool * effects) :=
  let send := map3 (fun f => if MIN_COLLECT <? f then f else 0) (p_fee p) in
  Ok (mkPool (zip3 Z.sub (p_bal p) send) (zip3 Z.sub (p_fee p) send) (p_all p) (p_burn p)
             (p_supply p) (p_lp p) (p_lp_self p) (p_cfg p) (p_height p) (p_fees p) (p_cw20 p),
      mkEff zero3 send zero3 0).

Definition step (p : pool) (o : op) : outcome (pool * effects) :=
  match o with
  | Provide u d => provide p u d
  | Withdraw u a => withdraw p u a
  | Swap u i j x ms =>
      (* the offer is received before the contract runs: reserves are computed on balance - offer, see `swap` *)
      swap p i j x ms
  | Collect => collect p
  | Ramp owner fa fb =>
      if owner then
        do c <- trio_ramp_step (p_cfg p) (p_height p) fa fb;
        Ok (mkPool (p_bal p) (p_fee p) (p_all p) (p_burn p) (p_supply p) (p_lp p) (p_lp_self p) c (p_height p) (p_fees p) (p_cw20 p), no_eff)
      else Err E_UNAUTH
  | Donate i x => Ok (with_bal p (upd3 i (fun b => b + x) (p_bal p)), no_eff)
  | Advance dh => Ok (mkPool (p_bal p) (p_fee p) (p_all p) (p_burn p) (p_supply p) (p_lp p) (p_lp_self p) (p_cfg p) (p_height p + dh) (p_fees p) (p_cw20 p), no_eff)
  | SetFees owner f =>
      if owner then
        if poolfee_valid f
        then Ok (mkPool (p_bal p) (p_fee p) (p_all p) (p_burn p) (p_supply p) (p_lp p) (p_lp_self p) (p_cfg p) (p_height p) f (p_cw20 p), no_eff)
        else Err E_OTHER
      else Err E_UNAUTH
  end.

(* a failed call leaves the state untouched (transaction atomicity: platform semantics, observed by the harness) *)
Definition apply_op (p : pool) (o : op) : pool * outcome effects :=
  match step p o with
  | Ok (p', e) => (p', Ok e)
  | Err c => (p, Err c)
  | Panic => (p, Panic)
  end.

Fixpoint run (p : pool) (l : list op) : pool :=
  match l with [] => p | o :: l' => run (fst (apply_op p o)) l' end.

Definition init_pool (amp h : Z) (f : fees) (kinds : bool * bool * bool) (users : nat) : outcome pool :=
  do c <- trio_amp_init amp h;
  Ok (mkPool zero3 zero3 zero3 zero3 0 (repeat 0 users) 0 c h f kinds).
