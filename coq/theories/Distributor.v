(* Distributor.v — executable model of the fee distributor's ledgers:
   contracts/liquidity_hub/fee_distributor/src/{commands.rs::claim, contract.rs::reply, state.rs::{get_expiring_epoch,
   get_claimable_epochs, query_claimable}, commands.rs::update_config (grace period)}; the clock part of
   create_new_epoch is Epochs.dcreate.
   SINGLE DISTRIBUTION ASSET: the fee collector forwards one native asset, so each of total / available / claimed is
   either the empty vector (None) or one entry (Some amount). (The code's handling of a second asset in `claimed` is
   reachable only if the owner changes distribution_asset between epochs; that operation is outside this model.)
   ORACLES: the bonding-weight share of (address, epoch) — what whale_lair's Weight query answers, an arbitrary
   Decimal, or a failing / aborting query — and the address's first bonded epoch come with the Claim op. *)
From WW Require Import Prim Params Epochs.

Record depoch := mkDE {
  de_id : Z; de_start : Z;
  de_total : option Z; de_avail : option Z; de_claimed : option Z
}.

Record dstate := mkD {
  d_epochs : list depoch;            (* EPOCHS, newest first (descending id = Order::Descending) *)
  d_cursor : list (Z * Z);           (* LAST_CLAIMED_EPOCH: address -> epoch id *)
  d_grace : Z;                       (* config.grace_period *)
  d_bal : Z                          (* bank balance of the distributor in the distribution asset *)
}.

Record dcfg := mkDC { dc_duration : Z; dc_genesis : Z }.

Definition dinit (grace : Z) : dstate := mkD [] [] grace 0.

Definition oz (o : option Z) : Z := match o with Some x => x | None => 0 end.

(* asset::aggregate_assets on at-most-one-entry vectors of the same asset *)
Definition agg1 (a b : option Z) : outcome (option Z) :=
  match a, b with
  | None, None => Ok None
  | Some x, None => Ok (Some x)
  | None, Some y => Ok (Some y)
  | Some x, Some y => do s <- cadd P128 x y; Ok (Some s)
  end.

Fixpoint cfind (k : Z) (l : list (Z * Z)) : option Z :=
  match l with [] => None | (k', v) :: r => if k =? k' then Some v else cfind k r end.
Fixpoint cset (k v : Z) (l : list (Z * Z)) : list (Z * Z) :=
  match l with [] => [(k, v)] | (k', v') :: r => if k =? k' then (k', v) :: r else (k', v') :: cset k v r end.

Definition cur_epoch (s : dstate) : epoch :=
  match d_epochs s with [] => mkEpoch 0 0 | e :: _ => mkEpoch (de_id e) (de_start e) end.

(* replace the epoch stored under id (EPOCHS.save) *)
Fixpoint esave (e : depoch) (l : list depoch) : list depoch :=
  match l with [] => [] | x :: r => if de_id x =? de_id e then e :: r else x :: esave e r end.

(* ---- NewEpoch ----------------------------------------------------------------------------------- *)
(* fee = what the fee collector forwards (its whole balance of the distribution asset after the take rate):
   total = available = [fee] if fee > 0, else []. collector_ok: the ForwardFees submessage succeeded. *)
Definition new_epoch (c : dcfg) (now : Z) (s : dstate) (collector_ok : bool) (fee : Z) : outcome dstate :=
  do e' <- dcreate (dc_duration c) (dc_genesis c) now (cur_epoch s) collector_ok;
  let tot := if 0 <? fee then Some fee else None in
  let g := Z.to_nat (d_grace s) in
  let window := firstn g (d_epochs s) in
  if (length window =? g)%nat then
    (* get_expiring_epoch = Some(last of the window) *)
    match rev window with
    | x :: _ =>
        do fees <- agg1 tot (de_avail x);
        let x' := mkDE (de_id x) (de_start x) (de_total x) None (de_claimed x) in
        let ne := mkDE (e_id e') (e_start e') fees fees None in
        Ok (mkD (ne :: esave x' (d_epochs s)) (d_cursor s) (d_grace s) (d_bal s + fee))
    | [] => (* grace = 0: unwrap_or_default — not reachable (grace >= 1 is validated) *)
        Ok (mkD (mkDE (e_id e') (e_start e') tot tot None :: d_epochs s) (d_cursor s) (d_grace s) (d_bal s + fee))
    end
  else
    Ok (mkD (mkDE (e_id e') (e_start e') tot tot None :: d_epochs s) (d_cursor s) (d_grace s) (d_bal s + fee)).

(* ---- Claim --------------------------------------------------------------------------------------- *)
Inductive share := SOk (atomics : Z) | SErr | SPanic.

(* state.rs::query_claimable *)
Definition claimable (s : dstate) (who : Z) (first_bonded : option Z) : list depoch :=
  let window := firstn (Z.to_nat (d_grace s)) (d_epochs s) in
  let l := match cfind who (d_cursor s) with
           | Some cur => filter (fun e => cur <? de_id e) window
           | None => match first_bonded with
                     | None => []
                     | Some fb => filter (fun e => fb <? de_id e) window
                     end
           end in
  filter (fun e => match de_avail e with Some _ => true | None => false end) l.

Fixpoint sfind (k : Z) (l : list (Z * share)) : share :=
  match l with [] => SErr | (k', v) :: r => if k =? k' then v else sfind k r end.

(* one epoch of the claim loop: returns the updated epoch and the reward taken from it *)
Definition claim_epoch (e : depoch) (sh : share) : outcome (depoch * Z) :=
  match sh with
  | SPanic => Panic
  | SErr => Err E_OTHER
  | SOk d =>
      match de_total e with
      | None => Ok (e, 0)                                          (* no fee entries to iterate *)
      | Some tot =>
          let reward := tot * d / DEC in                            (* checked_mul_floor *)
          do _ <- ensure (reward <? P128) E_OTHER;
          if reward =? 0 then Ok (e, 0)
          else match de_avail e with
               | None => Err E_OTHER                                (* "Invalid fee" *)
               | Some av =>
                   do _ <- ensure (reward <=? av) E_OTHER;          (* InvalidReward *)
                   do cl <- (match de_claimed e with
                             | None => Ok reward
                             | Some c0 => cadd P128 c0 reward end);
                   Ok (mkDE (de_id e) (de_start e) (de_total e) (Some (av - reward)) (Some cl), reward)
               end
      end
  end.

Fixpoint claim_loop (es : list depoch) (shares : list (Z * share)) (all : list depoch) (acc : Z)
  : outcome (list depoch * Z) :=
  match es with
  | [] => Ok (all, acc)
  | e :: r =>
      do er <- claim_epoch e (sfind (de_id e) shares);
      do acc' <- cadd P128 acc (snd er);                             (* aggregate_assets(claimable_fees, [reward]) *)
      claim_loop r shares (esave (fst er) all) acc'
  end.

Definition claim (s : dstate) (who : Z) (first_bonded : option Z) (shares : list (Z * share)) : outcome (dstate * Z) :=
  let cl := claimable s who first_bonded in
  match cl with
  | [] => Err E_OTHER                                               (* NothingToClaim *)
  | newest :: _ =>
      do r <- claim_loop cl shares (d_epochs s) 0;
      do _ <- ensure (snd r <=? d_bal s) E_OTHER;                   (* bank: insufficient funds *)
      Ok (mkD (fst r) (cset who (de_id newest) (d_cursor s)) (d_grace s) (d_bal s - snd r), snd r)
  end.

(* ---- UpdateConfig { grace_period } ------------------------------------------------------------------ *)
Definition set_grace (s : dstate) (admin : bool) (g : Z) : outcome dstate :=
  do _ <- ensure admin E_UNAUTH;
  do _ <- ensure ((1 <=? g) && (g <=? Params.MAX_GRACE_PERIOD)) E_OTHER;    (* InvalidGracePeriod *)
  do _ <- ensure (d_grace s <=? g) E_OTHER;                                  (* GracePeriodDecrease *)
  Ok (mkD (d_epochs s) (d_cursor s) g (d_bal s)).

Inductive dop :=
| DNewEpoch (collector_ok : bool) (fee : Z)
| DClaim (who : Z) (first_bonded : option Z) (shares : list (Z * share))
| DSetGrace (admin : bool) (g : Z)
| DNewEpochF (collector_ok : bool) (fee : Z) (x : Z)   (* NewEpoch with x > 0 of the distribution asset attached to the message:
                                       the coins reach the distributor with the call and belong to no epoch *)
| DStray (x : Z).                   (* a plain bank transfer of x > 0 of the distribution asset to the distributor's address by
                                       anybody: no contract code runs, the amount belongs to no epoch *)

(* effect of an accepted call: what was paid to whom, for which epochs *)
Inductive deffect :=
| FNew (id : Z) (fee : Z)
| FPaid (who : Z) (ids : list Z) (amount : Z)
| FGrace (g : Z)
| FStray (x : Z)
| FNewF (id : Z) (fee : Z) (x : Z).

Definition dstep (c : dcfg) (now : Z) (s : dstate) (o : dop) : outcome (dstate * deffect) :=
  match o with
  | DNewEpoch ok fee => do s' <- new_epoch c now s ok fee; Ok (s', FNew (e_id (cur_epoch s')) fee)
  | DClaim who fb shares =>
      do r <- claim s who fb shares;
      Ok (fst r, FPaid who (map de_id (claimable s who fb)) (snd r))
  | DSetGrace admin g => do s' <- set_grace s admin g; Ok (s', FGrace g)
  | DNewEpochF ok fee x =>
      do _ <- ensure (0 <? x) E_OTHER;                              (* bank: an empty amount cannot be attached *)
      do s' <- new_epoch c now s ok fee;
      Ok (mkD (d_epochs s') (d_cursor s') (d_grace s') (d_bal s' + x), FNewF (e_id (cur_epoch s')) fee x)
  | DStray x =>
      do _ <- ensure (0 <? x) E_OTHER;                              (* bank: an empty amount cannot be sent *)
      Ok (mkD (d_epochs s) (d_cursor s) (d_grace s) (d_bal s + x), FStray x)
  end.

Definition dsevent := (Z * dop)%type.
Definition dshstep (c : dcfg) (s : dstate) (e : dsevent) : dstate :=
  match dstep c (fst e) s (snd e) with Ok (s', _) => s' | _ => s end.
Definition dsrun (c : dcfg) (grace : Z) (h : list dsevent) : dstate := fold_left (dshstep c) h (dinit grace).
Fixpoint dseffects (c : dcfg) (s : dstate) (h : list dsevent) : list deffect :=
  match h with
  | [] => []
  | e :: r => match dstep c (fst e) s (snd e) with
              | Ok (s', f) => f :: dseffects c s' r
              | _ => dseffects c s r
              end
  end.

(* what plain transfers added to the balance over the accepted steps *)
Definition stray_of (f : deffect) : Z := match f with FStray x => x | FNewF _ _ x => x | _ => 0 end.
Definition strays (fs : list deffect) : Z := sumZ (map stray_of fs).

Definition sum_avail (l : list depoch) : Z := sumZ (map (fun e => oz (de_avail e)) l).
Definition sum_claimed (l : list depoch) : Z := sumZ (map (fun e => oz (de_claimed e)) l).
