(* Corr.v — generic machinery for the correspondence check: the harness writes
   (index, input, observation-of-the-implementation) triples; `bad_cases run cases` evaluates the
   model on every input inside Coq (vm_compute) and returns the indices that disagree. *)
From WW Require Import Prim.

Fixpoint list_eqb (a b : list Z) : bool :=
  match a, b with
  | [], [] => true
  | x :: a', y :: b' => (x =? y) && list_eqb a' b'
  | _, _ => false
  end.

Lemma list_eqb_eq a b : list_eqb a b = true <-> a = b.
Proof.
  revert b; induction a as [|x a IH]; intros [|y b]; cbn; split; intro H; try congruence; try discriminate.
  - apply andb_true_iff in H as [H1 H2]. apply Z.eqb_eq in H1. apply IH in H2. congruence.
  - inversion H; subst. rewrite Z.eqb_refl. apply IH. reflexivity.
Qed.

Definition bad_cases {I : Type} (run : I -> list Z) (cases : list (Z * I * list Z)) : list Z :=
  fold_right (fun c acc => match c with (i, inp, expected) =>
      if list_eqb (run inp) expected then acc else i :: acc end) [] cases.

(* for diagnostics: what the model says on the listed cases *)
Definition model_says {I : Type} (run : I -> list Z) (cases : list (Z * I * list Z)) : list (Z * list Z) :=
  map (fun c => match c with (i, inp, _) => (i, run inp) end) cases.
