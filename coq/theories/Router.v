(* Router.v — terraswap_router multi-hop execution and simulation over constant-product pools.
   contract.rs execute_swap_operations / assert_minimum_receive / simulate_swap_operations and
   operations.rs execute_swap_operation (the router swaps its WHOLE balance of the hop's offer asset). *)
From WW Require Import Prim CPSwap Slippage CP.

Definition hop := (nat * bool)%type.      (* (pool index, direction): dir = false offers asset 0 of that pool *)

Fixpoint upd {A} (l : list A) (i : nat) (v : A) : list A :=
  match l, i with
  | [], _ => []
  | _ :: r, O => v :: r
  | x :: r, S j => x :: upd r j v
  end.

(* `pre` = what the router already holds of each hop's offer asset before the operation (third-party donations) *)
Fixpoint route_exec (k : consts) (pools : list pstate) (hops : list hop) (amount : Z) (pre : list Z)
  (ms : option Z) : outcome (list pstate * Z) :=
  match hops with
  | [] => Ok (pools, amount)
  | (i, dir) :: rest =>
      match nth_error pools i with
      | None => Err E_OTHER                            (* no such pair registered in the factory *)
      | Some s =>
          let x := amount + hd 0 pre in
          do r <- step k s (Swap 1%nat dir x None ms None);
          let '(s', p) := r in
          route_exec k (upd pools i s') rest (p_ret p) (tl pre) ms
      end
  end.

Definition router_swap (k : consts) (pools : list pstate) (hops : list hop) (offer : Z) (pre : list Z)
  (ms minrecv : option Z) : outcome (list pstate * Z) :=
  match hops with
  | [] => Err E_OTHER                                   (* "Must provide swap operations to execute" *)
  | _ =>
      do r <- route_exec k pools hops offer pre ms;
      let '(pools', out) := r in
      match minrecv with
      | Some m => if out <? m then Err E_SLIPPAGE else Ok (pools', out)   (* MinimumReceiveAssertion *)
      | None => Ok (pools', out)
      end
  end.

Fixpoint route_sim (pools : list pstate) (hops : list hop) (amount : Z) : outcome Z :=
  match hops with
  | [] => Ok amount
  | (i, dir) :: rest =>
      match nth_error pools i with
      | None => Err E_OTHER
      | Some s => do c <- simulate s dir amount; route_sim pools rest (s_ret c)
      end
  end.
Definition router_simulate (pools : list pstate) (hops : list hop) (amount : Z) : outcome Z :=
  match hops with [] => Err E_OTHER | _ => route_sim pools hops amount end.
