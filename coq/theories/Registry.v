(* Registry.v — C19: the registries of the pool factory (pairs, trios), the vault factory, the incentive factory and
   the route store of the pool router.

   Transcribed from
     pool-network/terraswap_factory/src/state.rs      pair_key / trio_key (sort the raw asset bytes, concatenate),
                                                      read_pairs / read_trios, calc_range_start (key ++ [1], exclusive)
     pool-network/terraswap_factory/src/commands.rs   create_pair / create_trio (TMP item, instantiate sub-message),
                                                      remove_pair / remove_trio;   contract.rs create_*_reply
     vault-network/vault_factory/src/{execute/create_vault.rs, execute/remove_vault.rs, reply/vault_instantiate.rs, state.rs}
     pool-network/incentive_factory/src/{execute/create_incentive.rs, reply/create_incentive_reply.rs, queries/get_incentives.rs}
     pool-network/terraswap_router/src/contract.rs    add_swap_routes (simulates every hop through the factory), remove_swap_routes,
                                                      operations.rs::execute_swap_operation (factory lookup per hop)
   cw-storage-plus `Map<&[u8], _>`: iteration in ascending byte order of the keys = an association list sorted by `blt`.

   Assets are byte strings: for each asset of a universe the harness supplies `raw` (AssetInfoRaw::as_bytes: denom bytes or the
   canonical address) and `ref` (vault factory AssetReference: denom bytes or the address STRING bytes); operations name assets by
   their index in the universe. Entries carry the index of the operation that created them (the harness maps child addresses to it). *)
From WW Require Import Prim Corr.

(* ---- byte strings ------------------------------------------------------------------------------------------- *)
Definition bytes := list Z.

(* strict lexicographic order of <[u8]>::cmp: a proper prefix is smaller *)
Fixpoint blt (a b : bytes) : bool :=
  match a, b with
  | [], [] => false
  | [], _ :: _ => true
  | _ :: _, [] => false
  | x :: a', y :: b' => if x <? y then true else if y <? x then false else blt a' b'
  end.
Definition beq (a b : bytes) : bool := list_eqb a b.

(* Vec::sort_by(|a, b| a.cmp(b)) is stable: insertion behind equal elements *)
Fixpoint binsert (x : bytes) (l : list bytes) : list bytes :=
  match l with
  | [] => [x]
  | y :: r => if blt x y then x :: y :: r else y :: binsert x r
  end.
Fixpoint bsort (l : list bytes) : list bytes :=
  match l with [] => [] | x :: r => binsert x (bsort r) end.

Definition pair_key (a b : bytes) : bytes := concat (bsort [a; b]).
Definition trio_key (a b c : bytes) : bytes := concat (bsort [a; b; c]).

(* ---- a Map<&[u8], E> ------------------------------------------------------------------------------------------ *)
Definition reg (E : Type) := list (bytes * E).

Fixpoint reg_get {E} (k : bytes) (r : reg E) : option E :=
  match r with [] => None | (k', e) :: t => if beq k k' then Some e else reg_get k t end.
Fixpoint reg_put {E} (k : bytes) (e : E) (r : reg E) : reg E :=
  match r with
  | [] => [(k, e)]
  | (k', e') :: t => if beq k k' then (k, e) :: t else if blt k k' then (k, e) :: (k', e') :: t else (k', e') :: reg_put k e t
  end.
Fixpoint reg_del {E} (k : bytes) (r : reg E) : reg E :=
  match r with [] => [] | (k', e') :: t => if beq k k' then t else (k', e') :: reg_del k t end.

(* range(start = Exclusive(cursor) | None, Ascending).take(limit) *)
Definition reg_range {E} (cursor : option bytes) (limit : nat) (r : reg E) : reg E :=
  firstn limit (match cursor with None => r | Some c => filter (fun p => blt c (fst p)) r end).
(* calc_range_start: the key of the last entry seen, with a 1 byte appended *)
Definition cursor_of (k : bytes) : bytes := k ++ [1].
Definition eff_limit (maxl defl : Z) (limit : option Z) : nat :=
  Z.to_nat (Z.min (match limit with Some l => l | None => defl end) maxl).

(* ---- universe -------------------------------------------------------------------------------------------------- *)
Record asset := mkAsset { a_raw : bytes; a_ref : bytes }.
Definition universe := list asset.
Definition nth_asset (U : universe) (i : Z) : asset := nth (Z.to_nat i) U (mkAsset [] []).
Definition raw (U : universe) (i : Z) : bytes := a_raw (nth_asset U i).
Definition aref (U : universe) (i : Z) : bytes := a_ref (nth_asset U i).
Definition in_universe (U : universe) (i : Z) : bool := (0 <=? i) && (i <? Z.of_nat (length U)).

(* ---- state ------------------------------------------------------------------------------------------------------ *)
(* entry = assets in the order given at creation + the creating operation's index *)
Record pair_e := mkPairE { pe_a : Z; pe_b : Z; pe_born : Z }.
Record trio_e := mkTrioE { te_a : Z; te_b : Z; te_c : Z; te_born : Z }.
Record child_e := mkChildE { ce_a : Z; ce_born : Z }.
Record route := mkRoute { r_offer : Z; r_ask : Z; r_hops : list (Z * Z) }.

Record state := mkState {
  pairs : reg pair_e; trios : reg trio_e; vaults : reg child_e; incentives : reg child_e;
  routes : list route;               (* at most one per (offer, ask) *)
  tick : Z }.                        (* index of the next operation *)
Definition init_state : state := mkState [] [] [] [] [] 0.

Inductive op :=
| CreatePair (a b : Z) | RemovePair (a b : Z)
| CreateTrio (a b c : Z) | RemoveTrio (a b c : Z)
| CreateVault (a : Z) | RemoveVault (a : Z)
| CreateIncentive (a : Z)
| AddRoute (offer ask : Z) (hops : list (Z * Z)) | RemoveRoute (offer ask : Z)
| ExecHop (a b : Z).                 (* router ExecuteSwapOperations with the single hop a -> b *)

Definition pkey (U : universe) (a b : Z) : bytes := pair_key (raw U a) (raw U b).
Definition tkey (U : universe) (a b c : Z) : bytes := trio_key (raw U a) (raw U b) (raw U c).

Definition lookup_pair (U : universe) (s : state) (a b : Z) : option pair_e := reg_get (pkey U a b) (pairs s).
Definition lookup_trio (U : universe) (s : state) (a b c : Z) : option trio_e := reg_get (tkey U a b c) (trios s).
Definition lookup_vault (U : universe) (s : state) (a : Z) : option child_e := reg_get (aref U a) (vaults s).
Definition lookup_incentive (U : universe) (s : state) (a : Z) : option child_e := reg_get (raw U a) (incentives s).

Definition route_eqb (o a : Z) (r : route) : bool := (r_offer r =? o) && (r_ask r =? a).
Definition is_some {A} (o : option A) : bool := match o with Some _ => true | None => false end.

Definition bump (s : state) : state := mkState (pairs s) (trios s) (vaults s) (incentives s) (routes s) (tick s + 1).

(* the operation's effect; the tick advances whether or not the operation is accepted (see `next`) *)
Definition step (U : universe) (s : state) (o : op) : outcome state :=
  let t := tick s in
  match o with
  | CreatePair a b =>
      do _ <- ensure (in_universe U a && in_universe U b) E_OTHER;
      do _ <- ensure (negb (a =? b)) E_OTHER;                                   (* SameAsset *)
      do _ <- ensure (negb (is_some (lookup_pair U s a b))) E_OTHER;             (* ExistingPair *)
      (* TMP_PAIR_INFO, instantiate, reply: PAIRS.save(tmp.pair_key, ...) *)
      Ok (mkState (reg_put (pkey U a b) (mkPairE a b t) (pairs s)) (trios s) (vaults s) (incentives s) (routes s) t)
  | RemovePair a b =>
      do _ <- ensure (is_some (lookup_pair U s a b)) E_OTHER;                    (* UnExistingPair *)
      Ok (mkState (reg_del (pkey U a b) (pairs s)) (trios s) (vaults s) (incentives s) (routes s) t)
  | CreateTrio a b c =>
      do _ <- ensure (in_universe U a && in_universe U b && in_universe U c) E_OTHER;
      do _ <- ensure (negb ((a =? b) || (a =? c) || (b =? c))) E_OTHER;
      do _ <- ensure (negb (is_some (lookup_trio U s a b c))) E_OTHER;
      Ok (mkState (pairs s) (reg_put (tkey U a b c) (mkTrioE a b c t) (trios s)) (vaults s) (incentives s) (routes s) t)
  | RemoveTrio a b c =>
      do _ <- ensure (is_some (lookup_trio U s a b c)) E_OTHER;
      Ok (mkState (pairs s) (reg_del (tkey U a b c) (trios s)) (vaults s) (incentives s) (routes s) t)
  | CreateVault a =>
      do _ <- ensure (in_universe U a) E_OTHER;
      do _ <- ensure (negb (is_some (lookup_vault U s a))) E_OTHER;              (* ExistingVault *)
      Ok (mkState (pairs s) (trios s) (reg_put (aref U a) (mkChildE a t) (vaults s)) (incentives s) (routes s) t)
  | RemoveVault a =>
      do _ <- ensure (is_some (lookup_vault U s a)) E_OTHER;                     (* NonExistentVault *)
      Ok (mkState (pairs s) (trios s) (reg_del (aref U a) (vaults s)) (incentives s) (routes s) t)
  | CreateIncentive a =>
      do _ <- ensure (in_universe U a) E_OTHER;
      do _ <- ensure (negb (is_some (lookup_incentive U s a))) E_OTHER;          (* DuplicateIncentiveContract *)
      Ok (mkState (pairs s) (trios s) (vaults s) (reg_put (raw U a) (mkChildE a t) (incentives s)) (routes s) t)
  | AddRoute offer ask hops =>
      (* simulate_swap_operations: at least one hop, every hop's pair is looked up in the factory *)
      do _ <- ensure (negb (Nat.eqb (length hops) 0)) E_OTHER;
      do _ <- ensure (forallb (fun h => is_some (lookup_pair U s (fst h) (snd h))) hops) E_OTHER;
      Ok (mkState (pairs s) (trios s) (vaults s) (incentives s)
                  (mkRoute offer ask hops :: filter (fun r => negb (route_eqb offer ask r)) (routes s)) t)
  | RemoveRoute offer ask =>
      do _ <- ensure (existsb (route_eqb offer ask) (routes s)) E_OTHER;         (* NoSwapRouteForAssets *)
      Ok (mkState (pairs s) (trios s) (vaults s) (incentives s) (filter (fun r => negb (route_eqb offer ask r)) (routes s)) t)
  | ExecHop a b =>
      (* the factory is asked for the pair of (a, b); the offer asset a is then sent to whatever pair it names,
         which refuses an asset that is not one of its own (AssetMismatch) *)
      match lookup_pair U s a b with
      | None => Err E_OTHER
      | Some e => do _ <- ensure ((pe_a e =? a) || (pe_b e =? a)) E_OTHER; Ok s
      end
  end.

Definition next (U : universe) (s : state) (o : op) : state :=
  bump (match step U s o with Ok s' => s' | _ => s end).
Definition run (U : universe) (s : state) (ops : list op) : state := fold_left (next U) ops s.

(* ---- queries ------------------------------------------------------------------------------------------------------- *)
(* Pairs { start_after, limit }: start_after is given as an asset set *)
Definition query_pairs (U : universe) (maxl defl : Z) (s : state) (start_after : option (Z * Z)) (limit : option Z) : reg pair_e :=
  reg_range (match start_after with Some (a, b) => Some (cursor_of (pkey U a b)) | None => None end) (eff_limit maxl defl limit) (pairs s).
Definition query_trios (U : universe) (maxl defl : Z) (s : state) (start_after : option (Z * Z * Z)) (limit : option Z) : reg trio_e :=
  reg_range (match start_after with Some (a, b, c) => Some (cursor_of (tkey U a b c)) | None => None end) (eff_limit maxl defl limit) (trios s).
Definition query_vaults (maxl defl : Z) (s : state) (start_after : option bytes) (limit : option Z) : reg child_e :=
  reg_range (match start_after with Some k => Some (cursor_of k) | None => None end) (eff_limit maxl defl limit) (vaults s).
Definition query_incentives (U : universe) (maxl defl : Z) (s : state) (start_after : option Z) (limit : option Z) : reg child_e :=
  reg_range (match start_after with Some a => Some (cursor_of (raw U a)) | None => None end) (eff_limit maxl defl limit) (incentives s).

(* walking all pages of a registry with a fixed page size: the client passes the last entry of a page as start_after *)
Fixpoint pages {E} (fuel : nat) (limit : nat) (cursor : option bytes) (r : reg E) : reg E :=
  match fuel with
  | O => []
  | S f =>
      let page := reg_range cursor limit r in
      match last (map (fun p => Some (fst p)) page) None with
      | None => []
      | Some k => page ++ pages f limit (Some (cursor_of k)) r
      end
  end.
Definition all_pages {E} (limit : nat) (r : reg E) : reg E := pages (S (length r)) limit None r.

(* ---- observation ---------------------------------------------------------------------------------------------------- *)
Definition opt_obs {A} (f : A -> list Z) (o : option A) : list Z := match o with Some a => 1 :: f a | None => [0] end.
Definition pair_obs (e : pair_e) : list Z := [pe_a e; pe_b e; pe_born e].
Definition trio_obs (e : trio_e) : list Z := [te_a e; te_b e; te_c e; te_born e].
Definition child_obs (e : child_e) : list Z := [ce_a e; ce_born e].

Definition listing (U : universe) (s : state) : list Z :=
  flat_map (fun p => pair_obs (snd p)) (pairs s) ++ [-1]
  ++ flat_map (fun p => trio_obs (snd p)) (trios s) ++ [-1]
  ++ flat_map (fun p => child_obs (snd p)) (vaults s) ++ [-1]
  ++ flat_map (fun p => child_obs (snd p)) (incentives s) ++ [-1].

(* what the op's own asset set looks up to afterwards, in every order of the assets *)
Definition lookups (U : universe) (s : state) (o : op) : list Z :=
  match o with
  | CreatePair a b | RemovePair a b | ExecHop a b =>
      opt_obs pair_obs (lookup_pair U s a b) ++ opt_obs pair_obs (lookup_pair U s b a)
  | CreateTrio a b c | RemoveTrio a b c =>
      flat_map (fun t => match t with (x, y, z) => opt_obs trio_obs (lookup_trio U s x y z) end)
               [(a, b, c); (a, c, b); (b, a, c); (b, c, a); (c, a, b); (c, b, a)]
  | CreateVault a | RemoveVault a => opt_obs child_obs (lookup_vault U s a)
  | CreateIncentive a => opt_obs child_obs (lookup_incentive U s a)
  | AddRoute offer ask _ | RemoveRoute offer ask =>
      match find (route_eqb offer ask) (routes s) with
      | Some r => 1 :: Z.of_nat (length (r_hops r)) :: flat_map (fun h => [fst h; snd h]) (r_hops r)
      | None => [0]
      end
  end.

Fixpoint run_obs (U : universe) (s : state) (ops : list op) : list Z :=
  match ops with
  | [] => []
  | o :: r =>
      let s' := next U s o in
      (if is_ok (step U s o) then 0 else 1) :: lookups U s' o ++ listing U s' ++ run_obs U s' r
  end.
