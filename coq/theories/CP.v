(* CP.v — the constant-product pool (terraswap_pair, PairType::ConstantProduct, cw20 LP, default build) as a
   state machine: commands.rs provide_liquidity / withdraw_liquidity / swap / update_config /
   collect_protocol_fees, the cw20 hook paths, and third-party transfers ("donations") to the pool.
   Accounts are indices: 0 = the pool itself, 1.. = users. LP balances are a list indexed by account. *)
From WW Require Import Prim CPSwap Slippage.

Record consts := mkConsts {
  c_minliq : Z;          (* MINIMUM_LIQUIDITY_AMOUNT *)
  c_mincollect : Z;      (* MINIMUM_COLLECTABLE_BALANCE *)
  c_default_spread : Z;  (* DEFAULT_SLIPPAGE atomics *)
  c_max_spread : Z       (* MAX_ALLOWED_SLIPPAGE atomics *)
}.

Record pstate := mkP {
  cw0 : bool; cw1 : bool;            (* asset kinds: true = cw20, false = native (immutable) *)
  bal0 : Z; bal1 : Z;                (* the pool's holdings *)
  pf0 : Z; pf1 : Z;                  (* COLLECTED_PROTOCOL_FEES (pending) *)
  at0 : Z; at1 : Z;                  (* ALL_TIME_COLLECTED_PROTOCOL_FEES *)
  bu0 : Z; bu1 : Z;                  (* ALL_TIME_BURNED_FEES *)
  supply : Z;                        (* LP total supply *)
  lp : list Z;                       (* LP balances by account index; index 0 = pool *)
  col0 : Z; col1 : Z;                (* amounts received by the configured fee collector from the pool *)
  pfees : fees;
  en_w : bool; en_d : bool; en_s : bool;
  owner : nat
}.

Definition pool_acct : nat := 0%nat.

Definition getn (l : list Z) (i : nat) : Z := nth i l 0.
Fixpoint setn (l : list Z) (i : nat) (v : Z) : list Z :=
  match l, i with
  | [], _ => []
  | _ :: r, O => v :: r
  | x :: r, S j => x :: setn r j v
  end.
Definition valid_acct (s : pstate) (i : nat) : bool := Nat.ltb i (length (lp s)).

Inductive op :=
| Provide (who : nat) (d0 d1 : Z) (tol : option Z) (receiver : option nat)
| Withdraw (who : nat) (a : Z)
| Swap (who : nat) (dir : bool) (x : Z) (belief max_spread : option Z) (to : option nat)
        (* dir = false: offer asset 0; true: offer asset 1 *)
| Collect (who : nat)
| UpdateConfig (who : nat) (new_owner : option nat) (new_fees : option fees) (toggles : option (bool * bool * bool))
        (* toggles = (withdrawals, deposits, swaps) *)
| Donate (i : bool) (z : Z)
| TransferLP (from to : nat) (a : Z)
| WithdrawDirect (who : nat) (denom : nat) (a : Z)
| BadFundsSwap (who : nat) (dir : bool) (declared sent : Z)
        (* ExecuteMsg::Swap of a NATIVE offer asset whose declared amount differs from the coins attached *)
| BadFundsProvide (who : nat) (d0 d1 : Z)
        (* ProvideLiquidity where a native asset's declared amount differs from the coins attached *)
| ForeignHookSwap (who : nat) (x : Z)
        (* a cw20 token that is NOT one of the pool's assets sends the Swap hook *)
| TokenViaNativeSwap (who : nat) (dir : bool) (x : Z).
        (* ExecuteMsg::Swap naming a cw20 asset (must go through the token's Send) *)
        (* ExecuteMsg::WithdrawLiquidity {} with `a` coins of some native denom attached: meant for token-factory LP
           tokens only; with a cw20 LP token (default build) the expected denom is "" and every call is rejected *)

(* what a successful step pays out, for observation and for the theorems *)
Record payout := mkPay {
  p_minted : Z;      (* LP minted to the receiver (Provide) *)
  p_ref0 : Z; p_ref1 : Z;   (* refunds (Withdraw) *)
  p_ret : Z;         (* proceeds to the receiver (Swap) *)
  p_spread : Z; p_swapfee : Z; p_protfee : Z; p_burnfee : Z
}.
Definition nopay := mkPay 0 0 0 0 0 0 0 0.

Definition set_bal (s : pstate) (b0 b1 : Z) : pstate :=
  mkP (cw0 s) (cw1 s) b0 b1 (pf0 s) (pf1 s) (at0 s) (at1 s) (bu0 s) (bu1 s) (supply s) (lp s)
      (col0 s) (col1 s) (pfees s) (en_w s) (en_d s) (en_s s) (owner s).
Definition set_lp (s : pstate) (sup : Z) (l : list Z) : pstate :=
  mkP (cw0 s) (cw1 s) (bal0 s) (bal1 s) (pf0 s) (pf1 s) (at0 s) (at1 s) (bu0 s) (bu1 s) sup l
      (col0 s) (col1 s) (pfees s) (en_w s) (en_d s) (en_s s) (owner s).

(* cw20 token accounting is Uint128: a balance or supply leaving [0,2^128) makes the token call fail *)
Definition lp_mint (s : pstate) (to : nat) (a : Z) : outcome pstate :=
  if negb (valid_acct s to) then Err E_OTHER else
  do _ <- must (fits128 (supply s + a));
  Ok (set_lp s (supply s + a) (setn (lp s) to (getn (lp s) to + a))).

Definition provide (k : consts) (s : pstate) (who : nat) (d0 d1 : Z) (tol : option Z) (receiver : option nat)
  : outcome (pstate * payout) :=
  if negb (en_d s) then Err E_DISABLED else
  if (d0 =? 0) || (d1 =? 0) then Err E_OTHER else
  (* funds arrive: native with the message, cw20 by TransferFrom afterwards; reserves are pre-deposit *)
  do r0 <- csub (bal0 s) (pf0 s);
  do r1 <- csub (bal1 s) (pf1 s);
  let rcv := match receiver with Some r => r | None => who end in
  if supply s =? 0 then
    let root := isqrt (d0 * d1) in
    do share <- csub root (c_minliq k);
    if share =? 0 then Err E_OTHER else
    do s1 <- lp_mint s pool_acct (c_minliq k);
    do s2 <- lp_mint s1 rcv share;
    do _ <- must (fits128 (bal0 s + d0) && fits128 (bal1 s + d1));
    Ok (set_bal s2 (bal0 s + d0) (bal1 s + d1), mkPay share 0 0 0 0 0 0 0)
  else
    (* Uint128::multiply_ratio panics on a zero denominator and on overflow *)
    do _ <- must (negb (r0 =? 0));
    do a0 <- (let v := d0 * supply s / r0 in if fits128 v then Ok v else Panic);
    do _ <- must (negb (r1 =? 0));
    do a1 <- (let v := d1 * supply s / r1 in if fits128 v then Ok v else Panic);
    let share := Z.min a0 a1 in
    do _ <- assert_slippage_cp tol d0 d1 r0 r1;
    do s2 <- lp_mint s rcv share;
    do _ <- must (fits128 (bal0 s + d0) && fits128 (bal1 s + d1));
    Ok (set_bal s2 (bal0 s + d0) (bal1 s + d1), mkPay share 0 0 0 0 0 0 0).

Definition withdraw (k : consts) (s : pstate) (who : nat) (a : Z) : outcome (pstate * payout) :=
  (* cw20 Send of the LP token to the pool, then the hook *)
  if negb (valid_acct s who) then Err E_OTHER else
  if Nat.eqb who pool_acct then Err E_OTHER else       (* the pool never sends its own LP *)
  if getn (lp s) who <? a then Err E_OTHER else
  if negb (en_w s) then Err E_DISABLED else
  do ratio <- dec_from_ratio P128 a (supply s);        (* Decimal::from_ratio(amount, total_share) *)
  do r0 <- csub (bal0 s) (pf0 s);
  do r1 <- csub (bal1 s) (pf1 s);
  let f0 := r0 * ratio / DEC in                        (* Uint128 * Decimal, cannot overflow: ratio <= 1 *)
  let f1 := r1 * ratio / DEC in
  (* a native transfer of 0 coins is rejected by the bank; a cw20 transfer of 0 is accepted *)
  if (negb (cw0 s) && (f0 =? 0)) || (negb (cw1 s) && (f1 =? 0)) then Err E_OTHER else
  (* the LP moves who -> pool (Send) and is burned from the pool: net effect on the pool's LP balance is 0 *)
  let l' := setn (lp s) who (getn (lp s) who - a) in
  Ok (set_bal (set_lp s (supply s - a) l') (bal0 s - f0) (bal1 s - f1), mkPay 0 f0 f1 0 0 0 0 0).

(* queries::query_simulation: reserves net of pending protocol fees, then compute_swap *)
Definition simulate (s : pstate) (dir : bool) (x : Z) : outcome swapc :=
  do r0 <- csub (bal0 s) (pf0 s);
  do r1 <- csub (bal1 s) (pf1 s);
  compute_swap_cp (if dir then r1 else r0) (if dir then r0 else r1) x (pfees s).

Definition swap (k : consts) (s : pstate) (who : nat) (dir : bool) (x : Z) (belief max_spread : option Z)
  (to : option nat) : outcome (pstate * payout) :=
  if negb (en_s s) then Err E_DISABLED else
  (* the offer has arrived before the contract runs (native funds with the message, cw20 by Send); the bank /
     token rejects a balance beyond 128 bits *)
  let b0 := if dir then bal0 s else bal0 s + x in
  let b1 := if dir then bal1 s + x else bal1 s in
  do _ <- ensure (fits128 b0 && fits128 b1) E_OTHER;
  (* commands::swap: each pool = balance - pending protocol fee, and the offer pool additionally - offer *)
  do q0 <- csub b0 (pf0 s);
  do r0 <- (if dir then Ok q0 else csub q0 x);
  do q1 <- csub b1 (pf1 s);
  do r1 <- (if dir then csub q1 x else Ok q1);
  let op_ := if dir then r1 else r0 in
  let ask := if dir then r0 else r1 in
  do c <- compute_swap_cp op_ ask x (pfees s);
  do f1_ <- cadd P128 (s_swapfee c) (s_protfee c);
  do fsum <- cadd P128 f1_ (s_burnfee c);
  do g <- cadd P128 (s_ret c) fsum;
  do _ <- assert_max_spread (c_default_spread k) (c_max_spread k) belief max_spread x g (s_spread c);
  let out := s_ret c + s_burnfee c in
  do _ <- must (fits128 ((if dir then bu0 s else bu1 s) + s_burnfee c));
  do _ <- must (fits128 ((if dir then pf0 s else pf1 s) + s_protfee c));
  do _ <- must (fits128 ((if dir then at0 s else at1 s) + s_protfee c));
  let s' :=
    if dir then
      mkP (cw0 s) (cw1 s) (bal0 s - out) (bal1 s + x) (pf0 s + s_protfee c) (pf1 s) (at0 s + s_protfee c) (at1 s)
          (bu0 s + s_burnfee c) (bu1 s) (supply s) (lp s) (col0 s) (col1 s) (pfees s) (en_w s) (en_d s) (en_s s) (owner s)
    else
      mkP (cw0 s) (cw1 s) (bal0 s + x) (bal1 s - out) (pf0 s) (pf1 s + s_protfee c) (at0 s) (at1 s + s_protfee c)
          (bu0 s) (bu1 s + s_burnfee c) (supply s) (lp s) (col0 s) (col1 s) (pfees s) (en_w s) (en_d s) (en_s s) (owner s) in
  Ok (s', mkPay 0 0 0 (s_ret c) (s_spread c) (s_swapfee c) (s_protfee c) (s_burnfee c)).

(* collect_protocol_fees (after the C07 fix): an entry above the threshold is sent to the collector and
   zeroed; an entry at or below the threshold stays in the ledger *)
Definition collect (k : consts) (s : pstate) : outcome (pstate * payout) :=
  let send0 := c_mincollect k <? pf0 s in
  let send1 := c_mincollect k <? pf1 s in
  let m0 := if send0 then pf0 s else 0 in
  let m1 := if send1 then pf1 s else 0 in
  if (bal0 s <? m0) || (bal1 s <? m1) then Err E_OTHER else
  Ok (mkP (cw0 s) (cw1 s) (bal0 s - m0) (bal1 s - m1) (pf0 s - m0) (pf1 s - m1) (at0 s) (at1 s) (bu0 s) (bu1 s)
          (supply s) (lp s) (col0 s + m0) (col1 s + m1) (pfees s) (en_w s) (en_d s) (en_s s) (owner s), nopay).

(* the code before the fix: the ledger is zeroed whether or not the amount is sent *)
Definition collect_unfixed (k : consts) (s : pstate) : outcome (pstate * payout) :=
  let send0 := c_mincollect k <? pf0 s in
  let send1 := c_mincollect k <? pf1 s in
  let m0 := if send0 then pf0 s else 0 in
  let m1 := if send1 then pf1 s else 0 in
  if (bal0 s <? m0) || (bal1 s <? m1) then Err E_OTHER else
  Ok (mkP (cw0 s) (cw1 s) (bal0 s - m0) (bal1 s - m1) 0 0 (at0 s) (at1 s) (bu0 s) (bu1 s)
          (supply s) (lp s) (col0 s + m0) (col1 s + m1) (pfees s) (en_w s) (en_d s) (en_s s) (owner s), nopay).

Definition update_config (s : pstate) (who : nat) (new_owner : option nat) (new_fees : option fees)
  (toggles : option (bool * bool * bool)) : outcome (pstate * payout) :=
  if negb (Nat.eqb who (owner s)) then Err E_UNAUTH else
  let o := match new_owner with Some o => o | None => owner s end in
  do f <- match new_fees with
          | Some f => if poolfee_valid f then Ok f else Err E_OTHER
          | None => Ok (pfees s) end;
  let '(w, d, sw) := match toggles with Some t => t | None => (en_w s, en_d s, en_s s) end in
  Ok (mkP (cw0 s) (cw1 s) (bal0 s) (bal1 s) (pf0 s) (pf1 s) (at0 s) (at1 s) (bu0 s) (bu1 s) (supply s) (lp s)
          (col0 s) (col1 s) f w d sw o, nopay).

Definition donate (s : pstate) (i : bool) (z : Z) : outcome (pstate * payout) :=
  if z <=? 0 then Err E_OTHER else
  if i then (do _ <- ensure (fits128 (bal1 s + z)) E_OTHER; Ok (set_bal s (bal0 s) (bal1 s + z), nopay))
  else (do _ <- ensure (fits128 (bal0 s + z)) E_OTHER; Ok (set_bal s (bal0 s + z) (bal1 s), nopay)).

Definition transfer_lp (s : pstate) (from to : nat) (a : Z) : outcome (pstate * payout) :=
  if negb (valid_acct s from) || negb (valid_acct s to) then Err E_OTHER else
  if Nat.eqb from pool_acct then Err E_OTHER else       (* the pool never sends its own LP *)
  if (a <? 0) || (getn (lp s) from <? a) then Err E_OTHER else
  let l1 := setn (lp s) from (getn (lp s) from - a) in
  let l2 := setn l1 to (getn l1 to + a) in
  Ok (set_lp s (supply s) l2, nopay).

(* message amounts are Uint128 / Decimal (128-bit) values: anything else cannot be expressed in a message *)
Definition optfits (o : option Z) : bool := match o with Some z => fits128 z | None => true end.
Definition op_wf (o : op) : bool :=
  match o with
  | Provide _ d0 d1 tol _ => fits128 d0 && fits128 d1 && optfits tol
  | Withdraw _ a => fits128 a
  | Swap _ _ x b m _ => fits128 x && optfits b && optfits m
  | Collect _ => true
  | UpdateConfig _ _ f _ => match f with Some f => fits128 (f_protocol f) && fits128 (f_swap f) && fits128 (f_burn f) | None => true end
  | Donate _ z => fits128 z
  | TransferLP _ _ a => fits128 a
  | WithdrawDirect _ _ a => fits128 a
  | BadFundsSwap _ _ a b => fits128 a && fits128 b
  | BadFundsProvide _ a b => fits128 a && fits128 b
  | ForeignHookSwap _ a => fits128 a
  | TokenViaNativeSwap _ _ a => fits128 a
  end.

Definition step (k : consts) (s : pstate) (o : op) : outcome (pstate * payout) :=
  if negb (op_wf o) then Err E_OTHER else
  match o with
  | Provide who d0 d1 tol rc => provide k s who d0 d1 tol rc
  | Withdraw who a => withdraw k s who a
  | Swap who dir x b m to => swap k s who dir x b m to
  | Collect _ => collect k s
  | UpdateConfig who o f t => update_config s who o f t
  | Donate i z => donate s i z
  | TransferLP f t a => transfer_lp s f t a
  | WithdrawDirect _ _ _ => Err E_OTHER              (* AssetMismatch *)
  | BadFundsSwap _ _ _ _ => if negb (en_s s) then Err E_DISABLED else Err E_OTHER   (* balance mismatch *)
  | BadFundsProvide _ _ _ => if negb (en_d s) then Err E_DISABLED else Err E_OTHER
  | ForeignHookSwap _ _ => if negb (en_s s) then Err E_DISABLED else Err E_UNAUTH
  | TokenViaNativeSwap _ _ _ => if negb (en_s s) then Err E_DISABLED else Err E_UNAUTH
  end.

(* transactional semantics: a failed operation leaves the state untouched *)
Definition apply (k : consts) (s : pstate) (o : op) : pstate :=
  match step k s o with Ok (s', _) => s' | _ => s end.
Definition run (k : consts) (s : pstate) (ops : list op) : pstate := fold_left (apply k) ops s.

Definition init (c0 c1 : bool) (f : fees) (naccts : nat) (own : nat) : pstate :=
  mkP c0 c1 0 0 0 0 0 0 0 0 0 (repeat 0 naccts) 0 0 f true true true own.

(* reported reserves (Pool query) *)
Definition res0 (s : pstate) : Z := bal0 s - pf0 s.
Definition res1 (s : pstate) : Z := bal1 s - pf1 s.

(* observation after each op: result class, payout, and every quantity the properties name *)
Definition state_obs (s : pstate) : list Z :=
  [bal0 s; bal1 s; pf0 s; pf1 s; at0 s; at1 s; bu0 s; bu1 s; supply s] ++ lp s ++ [col0 s; col1 s].
Definition pay_obs (p : payout) : list Z :=
  [p_minted p; p_ref0 p; p_ref1 p; p_ret p; p_spread p; p_swapfee p; p_protfee p; p_burnfee p].
Definition step_obs (k : consts) (s : pstate) (o : op) : pstate * list Z :=
  match step k s o with
  | Ok (s', p) => (s', 0 :: pay_obs p ++ state_obs s')
  | Err c => (s, [1; c])
  | Panic => (s, [2])
  end.
Fixpoint run_obs (k : consts) (s : pstate) (ops : list op) : list Z :=
  match ops with
  | [] => []
  | o :: r => let '(s', ob) := step_obs k s o in ob ++ run_obs k s' r
  end.
