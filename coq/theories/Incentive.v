(* Incentive.v — executable model of the incentive contract
   (contracts/liquidity_hub/pool-network/incentive), operation by operation:
   weight.rs, funds_validation.rs, execute/{open,expand,close}_position.rs, withdraw.rs, snapshot.rs,
   execute/{open,expand,close}_flow.rs, claim.rs, queries/get_rewards.rs, helpers.rs.
   The epoch source is the fee distributor (`NewEpoch` = the mock's increment); the incentive factory's
   configuration is a constant record of a history.  Models only: no proofs here.

   Conventions: accounts and assets are integers.  Assets < 10 are native denoms, assets >= 10 are cw20
   contracts.  `SELF` is the incentive contract's own account.  Native funds attached to a call are a list
   (denom, amount) of positive amounts with distinct denoms; cw20 allowances given by the caller to the
   contract are an argument of each call (the harness sets them before the call).                         *)
From WW Require Import Prim Params.
Import Params.

Definition SELF : Z := 100.
Definition is_native (a : Z) : bool := a <? 10.

(* ---- constants of the code (regenerated into Params.v from the Rust sources) -------------------------- *)
Definition MIN_FLOW : Z := MIN_FLOW_AMOUNT.
Definition CLAIM_CAP : Z := EPOCH_CLAIM_CAP.
Definition FLOW_DURATION : Z := DEFAULT_FLOW_DURATION.
Definition EXP_BUFFER : Z := FLOW_EXPANSION_BUFFER.
Definition EXP_LIMIT : Z := FLOW_EXPANSION_LIMIT.

(* ---- factory configuration ------------------------------------------------------------------------- *)
Record cfg := mkCfg {
  c_lp : Z;            (* lp asset of this incentive *)
  c_fee_asset : Z;     (* create_flow_fee.info *)
  c_fee : Z;           (* create_flow_fee.amount *)
  c_max_flows : Z;
  c_buffer : Z;        (* max_flow_epoch_buffer *)
  c_min_unb : Z;
  c_max_unb : Z;
  c_owner : Z;         (* factory owner *)
  c_collector : Z      (* fee collector *)
}.

(* ---- code version: each flag switches one repaired defect on (true = repaired code, false = code as found) ---- *)
Record ver := mkVer {
  v_open_eq : bool;      (* open_flow, flow denom = fee denom: the funds sent must equal the declared amount *)
  v_close_hist : bool;   (* close_flow refunds the latest expanded amount - claimed (was: original amount - claimed) *)
  v_reset_own : bool;    (* expand_flow reset with empty history starts from the flow's own amount (was: the expansion amount) *)
  v_close_clamp : bool;  (* close_position removes min(weight, address weight) from both weights (was: saturating on each) *)
  v_expand_pull : bool;  (* expand_flow adds its cw20 TransferFrom message to the response (was: built, then dropped) *)
  v_close_snap : bool;   (* close_position takes the epoch's global weight snapshot first when it is still missing *)
  v_claim_cur : bool;    (* claim records the address's current weight for the next epoch (was: the last weight its loop saw) *)
  v_share_cur : bool;    (* the share query ignores a first weight entry that only starts next epoch *)
  v_skip_scan : bool     (* claim / rewards query read the weight history also for the epochs before a flow's start *)
}.
Definition v_orig : ver := mkVer false false false false false false false false false.
Definition v_c12 : ver := mkVer true true true false true false false false false.     (* the four flow repairs only *)
Definition v_fixed : ver := mkVer true true true true true true true true true.

(* ---- weight.rs ------------------------------------------------------------------------------------- *)
(* Decimal256 arithmetic at scale 10^18; every intermediate stays far below 2^256 for u64 durations and
   128-bit amounts (proved in IncentiveWeight.v), so the checked operations cannot fail before try_into. *)
Definition w_part1 (d : Z) : Z := (d * d * WEIGHT_A) * DEC / WEIGHT_DEN.
Definition w_part2 (d : Z) : Z := (d * WEIGHT_B) * DEC / WEIGHT_DEN2.
Definition w_part3 : Z := WEIGHT_C_NUM * DEC / WEIGHT_C_DEN.
Definition w_mult (d : Z) : Z := w_part1 d + w_part2 d + w_part3.

Definition calculate_weight (d amount : Z) : outcome Z :=
  if (WEIGHT_MIN_DURATION <=? d) && (d <=? WEIGHT_MAX_DURATION) then
    let w := amount * w_mult d / DEC in
    if w <? P128 then Ok (Z.max w amount) else Err E_OTHER
  else Err E_OTHER.

(* ---- small map helpers ----------------------------------------------------------------------------- *)
Fixpoint aget (k : Z) (l : list (Z * Z)) : option Z :=
  match l with [] => None | (k', v) :: r => if k' =? k then Some v else aget k r end.
Definition aget0 (k : Z) (l : list (Z * Z)) : Z := match aget k l with Some v => v | None => 0 end.
Fixpoint aset (k v : Z) (l : list (Z * Z)) : list (Z * Z) :=
  match l with [] => [(k, v)] | (k', v') :: r => if k' =? k then (k, v) :: r else (k', v') :: aset k v r end.

(* sorted insert / replace (cw-storage-plus prefix iteration is in key order) *)
Fixpoint sset (k v : Z) (l : list (Z * Z)) : list (Z * Z) :=
  match l with
  | [] => [(k, v)]
  | (k', v') :: r => if k <? k' then (k, v) :: (k', v') :: r else if k =? k' then (k, v) :: r else (k', v') :: sset k v r
  end.

(* BTreeMap<u64,(Uint128,u64)> as a list sorted by key *)
Definition hist := list (Z * (Z * Z)).
Fixpoint hist_last (h : hist) : option (Z * Z) :=
  match h with [] => None | [(_, v)] => Some v | _ :: r => hist_last r end.
(* range(..=e).next_back() *)
Fixpoint hist_at (e : Z) (h : hist) (acc : option (Z * Z)) : option (Z * Z) :=
  match h with [] => acc | (k, v) :: r => if k <=? e then hist_at e r (Some v) else acc end.
Fixpoint hist_get (k : Z) (h : hist) : option (Z * Z) :=
  match h with [] => None | (k', v) :: r => if k' =? k then Some v else hist_get k r end.
Fixpoint hist_put (k : Z) (v : Z * Z) (h : hist) : hist :=
  match h with
  | [] => [(k, v)]
  | (k', v') :: r => if k <? k' then (k, v) :: (k', v') :: r else if k =? k' then (k, v) :: r else (k', v') :: hist_put k v r
  end.

(* ---- flows ----------------------------------------------------------------------------------------- *)
Record flow := mkFlow {
  f_id : Z; f_label : option Z; f_creator : Z; f_asset : Z;
  f_amount : Z;            (* flow_asset.amount *)
  f_claimed : Z;
  f_start : Z; f_end : Z;
  f_emitted : list (Z * Z);   (* emitted_tokens: HashMap<epoch, amount> *)
  f_hist : hist               (* asset_history: epoch -> (expanded total amount, end epoch) *)
}.
Definition set_claimed (f : flow) (c : Z) : flow :=
  mkFlow (f_id f) (f_label f) (f_creator f) (f_asset f) (f_amount f) c (f_start f) (f_end f) (f_emitted f) (f_hist f).
Definition set_emitted (f : flow) (m : list (Z * Z)) : flow :=
  mkFlow (f_id f) (f_label f) (f_creator f) (f_asset f) (f_amount f) (f_claimed f) (f_start f) (f_end f) m (f_hist f).
Definition set_hist (f : flow) (h : hist) : flow :=
  mkFlow (f_id f) (f_label f) (f_creator f) (f_asset f) (f_amount f) (f_claimed f) (f_start f) (f_end f) (f_emitted f) h.

(* asset_history.last_key_value().unwrap_or((flow_asset.amount, end_epoch)) *)
Definition flow_latest (f : flow) : Z * Z :=
  match hist_last (f_hist f) with Some v => v | None => (f_amount f, f_end f) end.
Definition flow_funded (f : flow) : Z := fst (flow_latest f).
(* helpers.rs *)
Definition get_flow_asset_amount_at_epoch (f : flow) (e : Z) : Z :=
  match hist_at e (f_hist f) None with Some (a, _) => a | None => f_amount f end.
Definition get_flow_end_epoch (f : flow) : Z := snd (flow_latest f).
Definition get_flow_current_end_epoch (f : flow) (e : Z) : Z :=
  match hist_at e (f_hist f) None with Some (_, x) => x | None => f_end f end.

(* FLOWS: Map<(start_epoch, flow_id), Flow>; iteration order = key order *)
Definition key_lt (s1 i1 s2 i2 : Z) : bool := (s1 <? s2) || ((s1 =? s2) && (i1 <? i2)).
Definition key_eq (s1 i1 s2 i2 : Z) : bool := (s1 =? s2) && (i1 =? i2).
Fixpoint flows_remove (s i : Z) (l : list flow) : list flow :=
  match l with [] => [] | f :: r => if key_eq (f_start f) (f_id f) s i then r else f :: flows_remove s i r end.
(* FLOWS.save: overwrite the key; the list stays in key order *)
Fixpoint flows_insert (f : flow) (l : list flow) : list flow :=
  match l with
  | [] => [f]
  | g :: r => if key_lt (f_start f) (f_id f) (f_start g) (f_id g) then f :: g :: r else g :: flows_insert f r
  end.
Definition flows_save (f : flow) (l : list flow) : list flow :=
  flows_insert f (flows_remove (f_start f) (f_id f) l).

Inductive ident := ById (i : Z) | ByLabel (l : Z).
Definition ident_matches (x : ident) (f : flow) : bool :=
  match x with
  | ById i => f_id f =? i
  | ByLabel l => match f_label f with Some l' => l' =? l | None => false end
  end.
Fixpoint find_flow (x : ident) (l : list flow) : option flow :=
  match l with [] => None | f :: r => if ident_matches x f then Some f else find_flow x r end.

(* ---- state ----------------------------------------------------------------------------------------- *)
Record state := mkState {
  s_epoch : Z;                      (* fee distributor's current epoch id *)
  s_bal : Z -> Z -> Z;              (* account -> asset -> balance (bank + cw20 ledgers) *)
  s_flows : list flow;
  s_counter : Z;
  s_open : list (Z * (Z * Z));      (* OPEN_POSITIONS, flattened: (address, (amount, unbonding_duration)) in push order *)
  s_closed : list (Z * (Z * Z));    (* CLOSED_POSITIONS: (address, (amount, unbonding_timestamp)) *)
  s_gw : Z;                         (* GLOBAL_WEIGHT *)
  s_aw : list (Z * Z);              (* ADDRESS_WEIGHT *)
  s_snap : list (Z * Z);            (* GLOBAL_WEIGHT_SNAPSHOT: epoch -> weight *)
  s_awh : Z -> list (Z * Z);        (* ADDRESS_WEIGHT_HISTORY per address, sorted by epoch *)
  s_last : list (Z * Z)             (* LAST_CLAIMED_EPOCH *)
}.

Definition upd_bal (b : Z -> Z -> Z) (acct asset v : Z) : Z -> Z -> Z :=
  fun a s => if (a =? acct) && (s =? asset) then v else b a s.

(* ---- messages emitted by the contract and their execution on the ledger ---------------------------- *)
Inductive msg :=
| MSend (to asset amt : Z)            (* BankMsg::Send / cw20 Transfer out of the contract *)
| MPull (owner to asset amt : Z).     (* cw20 TransferFrom with the contract as spender *)

(* bank: a send of zero coins is rejected; cw20-base 1.1.0 accepts zero amounts *)
Definition transfer (b : Z -> Z -> Z) (from to asset amt : Z) : outcome (Z -> Z -> Z) :=
  if is_native asset && (amt =? 0) then Err E_OTHER
  else if b from asset <? amt then Err E_OTHER
  else let b1 := upd_bal b from asset (b from asset - amt) in
       let v := b1 to asset + amt in
       if v <? P128 then Ok (upd_bal b1 to asset v) else Err E_OTHER.

Fixpoint run_msgs (ms : list msg) (b : Z -> Z -> Z) (al : list (Z * Z)) : outcome (Z -> Z -> Z) :=
  match ms with
  | [] => Ok b
  | MSend to asset amt :: r => do b1 <- transfer b SELF to asset amt; run_msgs r b1 al
  | MPull owner to asset amt :: r =>
      if is_native asset then Err E_OTHER else
      let a := aget0 asset al in
      if a <? amt then Err E_OTHER else
      do b1 <- transfer b owner to asset amt; run_msgs r b1 (aset asset (a - amt) al)
  end.

(* funds attached to a call are moved to the contract before it runs *)
Fixpoint attach (fs : list (Z * Z)) (b : Z -> Z -> Z) (sender : Z) : outcome (Z -> Z -> Z) :=
  match fs with
  | [] => Ok b
  | (d, a) :: r => do b1 <- transfer b sender SELF d a; attach r b1 sender
  end.

(* cw_utils::must_pay *)
Definition must_pay (fs : list (Z * Z)) (d : Z) : outcome Z :=
  match fs with
  | [(d', a)] => if a =? 0 then Err E_OTHER else if d' =? d then Ok a else Err E_OTHER
  | _ => Err E_OTHER
  end.

(* ---- funds_validation.rs --------------------------------------------------------------------------- *)
Definition validate_funds_sent (c : cfg) (sender : Z) (fs al : list (Z * Z)) (amount : Z) : outcome (list msg) :=
  if amount =? 0 then Err E_OTHER else
  if is_native (c_lp c) then
    do paid <- must_pay fs (c_lp c);
    if paid =? amount then Ok [] else Err E_OTHER
  else
    if aget0 (c_lp c) al <? amount then Err E_OTHER
    else Ok [MPull sender SELF (c_lp c) amount].

(* ---- positions ------------------------------------------------------------------------------------- *)
Definition pos := (Z * (Z * Z))%type.
Definition has_pos (a d : Z) (l : list pos) : bool :=
  existsb (fun p => (fst p =? a) && (snd (snd p) =? d)) l.
Fixpoint pos_add (a d amt : Z) (l : list pos) : option (list pos) :=
  match l with
  | [] => None
  | (a', (m, d')) :: r =>
      if (a' =? a) && (d' =? d) then Some ((a', (m + amt, d')) :: r)
      else match pos_add a d amt r with Some r' => Some ((a', (m, d')) :: r') | None => None end
  end.
Fixpoint pos_take (a d : Z) (l : list pos) : option (Z * list pos) :=
  match l with
  | [] => None
  | (a', (m, d')) :: r =>
      if (a' =? a) && (d' =? d) then Some (m, r)
      else match pos_take a d r with Some (m', r') => Some (m', (a', (m, d')) :: r') | None => None end
  end.
Definition pos_of (a : Z) (l : list pos) : list pos := filter (fun p => fst p =? a) l.
Definition pos_not (a : Z) (l : list pos) : list pos := filter (fun p => negb (fst p =? a)) l.
Definition pos_sum (l : list pos) : Z := sumZ (map (fun p => fst (snd p)) l).

(* the weight bookkeeping shared by open_position and expand_position *)
Definition add_weight (st : state) (recv w : Z) : outcome (Z * list (Z * Z) * (Z -> list (Z * Z))) :=
  do gw <- cadd P128 (s_gw st) w;
  do uw <- cadd P128 (aget0 recv (s_aw st)) w;
  do _ <- must (s_epoch st + 1 <? P64);
  let h := sset (s_epoch st + 1) uw (s_awh st recv) in
  Ok (gw, aset recv uw (s_aw st), fun a => if a =? recv then h else s_awh st a).

Definition with_positions (st : state) (op cl : list pos) (gw : Z) (aw : list (Z * Z)) (awh : Z -> list (Z * Z)) : state :=
  mkState (s_epoch st) (s_bal st) (s_flows st) (s_counter st) op cl gw aw (s_snap st) awh (s_last st).

Definition open_position (c : cfg) (st : state) (sender : Z) (fs al : list (Z * Z)) (amount d : Z) (receiver : option Z)
  : outcome (state * list msg) :=
  do _ <- ensure ((c_min_unb c <=? d) && (d <=? c_max_unb c)) E_OTHER;
  do ms <- validate_funds_sent c sender fs al amount;
  let recv := match receiver with Some r => r | None => sender end in
  do _ <- ensure (negb (has_pos recv d (s_open st))) E_OTHER;
  do w <- calculate_weight d amount;
  do r <- add_weight st recv w;
  let '(gw, aw, awh) := r in
  Ok (with_positions st (s_open st ++ [(recv, (amount, d))]) (s_closed st) gw aw awh, ms).

Definition expand_position (c : cfg) (st : state) (sender : Z) (fs al : list (Z * Z)) (amount d : Z) (receiver : option Z)
  : outcome (state * list msg) :=
  do ms <- validate_funds_sent c sender fs al amount;
  let recv := match receiver with Some r => r | None => sender end in
  match pos_add recv d amount (s_open st) with
  | None => Err E_OTHER
  | Some op =>
      (* `pos.amount += amount` is an unchecked Uint128 addition *)
      do _ <- must (forallb (fun p => fst (snd p) <? P128) op);
      do w <- calculate_weight d amount;
      do r <- add_weight st recv w;
      let '(gw, aw, awh) := r in
      Ok (with_positions st op (s_closed st) gw aw awh, ms)
  end.

Definition withdraw (c : cfg) (st : state) (sender : Z) : outcome (state * list msg) :=
  let total := pos_sum (pos_of sender (s_closed st)) in
  do _ <- ensure (total <? P128) E_OTHER;
  let st' := with_positions st (s_open st) (pos_not sender (s_closed st)) (s_gw st) (s_aw st) (s_awh st) in
  if total =? 0 then Ok (st', []) else Ok (st', [MSend sender (c_lp c) total]).

Definition take_snapshot (st : state) : outcome (state * list msg) :=
  match aget (s_epoch st) (s_snap st) with
  | Some _ => Err E_OTHER
  | None => Ok (mkState (s_epoch st) (s_bal st) (s_flows st) (s_counter st) (s_open st) (s_closed st) (s_gw st) (s_aw st)
                  (aset (s_epoch st) (s_gw st) (s_snap st)) (s_awh st) (s_last st), [])
  end.

(* ---- open_flow.rs ---------------------------------------------------------------------------------- *)
Definition has_coin (d a : Z) (fs : list (Z * Z)) : bool := existsb (fun x => (fst x =? d) && (snd x =? a)) fs.

Definition with_flows (st : state) (fl : list flow) (ctr : Z) : state :=
  mkState (s_epoch st) (s_bal st) fl ctr (s_open st) (s_closed st) (s_gw st) (s_aw st) (s_snap st) (s_awh st) (s_last st).

(* the fee part of open_flow: returns the flow amount after the fee adjustment and the fee messages *)
Definition open_flow_fee (v : ver) (c : cfg) (sender : Z) (fs al : list (Z * Z)) (asset amount : Z) : outcome (Z * list msg) :=
  let fee := c_fee c in let fa := c_fee_asset c in
  if is_native fa then
    match aget fa fs with
    | None => Err E_OTHER
    | Some paid =>
        do amount1 <-
          (if is_native asset && (asset =? fa) then
             let a1 := ssub amount fee in
             if a1 <? MIN_FLOW then Err E_OTHER else Ok a1
           else Ok amount);
        if paid <? fee then Err E_OTHER else
        (* repaired: FlowAssetNotSent unless the funds sent equal flow amount + fee *)
        do _ <- (if v_open_eq v && is_native asset && (asset =? fa)
                 then (do s <- cadd P128 amount1 fee; ensure (paid =? s) E_OTHER) else Ok tt);
        let refund := if (fee <? paid) && is_native asset && negb (asset =? fa)
                      then [MSend sender fa (paid - fee)] else [] in
        Ok (amount1, refund ++ [MSend (c_collector c) fa fee])
    end
  else
    let allowance := aget0 fa al in
    do _ <- (if is_native asset then ensure (fee <=? allowance) E_OTHER
             else if asset =? fa then (do s <- cadd P128 fee MIN_FLOW; ensure (s <=? allowance) E_OTHER)
             else ensure (fee <=? allowance) E_OTHER);
    Ok (amount, [MPull sender (c_collector c) fa fee]).

(* the flow asset part: verify native funds / pull the cw20 *)
Definition open_flow_asset (c : cfg) (sender : Z) (fs al : list (Z * Z)) (asset amount1 : Z) : outcome (Z * list msg) :=
  let fee := c_fee c in let fa := c_fee_asset c in
  if is_native asset then
    if is_native fa && (fa =? asset) then Ok (amount1, [])
    else do _ <- ensure (has_coin asset amount1 fs) E_OTHER; Ok (amount1, [])
  else
    let allowance := aget0 asset al in
    if is_native fa then
      do _ <- ensure (amount1 <=? allowance) E_OTHER; Ok (amount1, [MPull sender SELF asset amount1])
    else if fa =? asset then
      do s <- cadd P128 fee MIN_FLOW;
      do _ <- ensure (s <=? allowance) E_OTHER;
      let a2 := ssub amount1 fee in Ok (a2, [MPull sender SELF asset a2])
    else
      do _ <- ensure (fee <=? allowance) E_OTHER; Ok (amount1, [MPull sender SELF asset amount1]).

Definition open_flow (v : ver) (c : cfg) (st : state) (sender : Z) (fs al : list (Z * Z))
    (start_o end_o : option Z) (asset amount : Z) (label : option Z) : outcome (state * list msg) :=
  do _ <- ensure (MIN_FLOW <=? amount) E_OTHER;
  do r1 <- open_flow_fee v c sender fs al asset amount;
  let '(amount1, msgs1) := r1 in
  do _ <- ensure (Z.of_nat (length (s_flows st)) <? c_max_flows c) E_OTHER;
  do r2 <- open_flow_asset c sender fs al asset amount1;
  let '(amount2, msgs2) := r2 in
  let cur := s_epoch st in
  do dflt <- cadd P64 cur FLOW_DURATION;
  let end_e := match end_o with Some e => e | None => dflt end in
  do _ <- ensure (cur <=? end_e) E_OTHER;
  let start_e := match start_o with Some s => s | None => cur end in
  do _ <- ensure (start_e <=? end_e) E_OTHER;
  do lim <- padd P64 cur (c_buffer c);
  do _ <- ensure (start_e <=? lim) E_OTHER;
  do id <- padd P64 (s_counter st) 1;
  let f := mkFlow id label sender asset amount2 0 start_e end_e [] [] in
  Ok (with_flows st (flows_save f (s_flows st)) id, msgs1 ++ msgs2).

(* ---- expand_flow.rs -------------------------------------------------------------------------------- *)
(* validate that the expansion is sent: native funds are checked, a cw20 is pulled *)
Definition expand_payment (sender : Z) (fs al : list (Z * Z)) (asset amount : Z) : outcome (list msg) :=
  if is_native asset then
    do paid <- must_pay fs asset; if paid =? amount then Ok [] else Err E_OTHER
  else if aget0 asset al <? amount then Err E_OTHER else Ok [MPull sender SELF asset amount].

(* the reset of a flow that spans more than FLOW_EXPANSION_LIMIT epochs *)
Definition expand_reset (v : ver) (f : flow) (cur expanded_end asset amount : Z) : flow :=
  (* repaired: the default is the flow's own amount (the code as found used the expansion amount) *)
  let flow_amount := match hist_last (f_hist f) with Some (a, _) => a
                     | None => if v_reset_own v then f_amount f else amount end in
  mkFlow (f_id f) (f_label f) (f_creator f) asset (ssub flow_amount (f_claimed f)) 0 cur expanded_end [] [].

(* record the expansion in the asset history at the next epoch *)
Definition expand_record (f1 : flow) (cur next end_e amount : Z) : outcome flow :=
  match hist_get next (f_hist f1) with
  | Some (existing, _) => do a <- cadd P128 existing amount; Ok (set_hist f1 (hist_put next (a, end_e) (f_hist f1)))
  | None => do a <- cadd P128 (get_flow_asset_amount_at_epoch f1 cur) amount;
            Ok (set_hist f1 (hist_put next (a, end_e) (f_hist f1)))
  end.

Definition expand_flow (v : ver) (c : cfg) (st : state) (sender : Z) (fs al : list (Z * Z))
    (x : ident) (end_o : option Z) (asset amount : Z) : outcome (state * list msg) :=
  match find_flow x (s_flows st) with
  | None => Err E_OTHER
  | Some f =>
      let cur := s_epoch st in
      let expanded_end := get_flow_end_epoch f in
      do _ <- ensure (cur <=? expanded_end) E_OTHER;
      do _ <- ensure (f_asset f =? asset) E_OTHER;
      do ms <- expand_payment sender fs al asset amount;
      do expand_until <-
        (if ssub expanded_end cur <? EXP_BUFFER then cadd P64 expanded_end FLOW_DURATION else Ok expanded_end);
      let end_e := match end_o with Some e => e | None => expand_until end in
      do _ <- ensure (expanded_end <=? end_e) E_OTHER;
      let reset := EXP_LIMIT <? ssub expanded_end (f_start f) in
      let flows1 := if reset then flows_remove (f_start f) (f_id f) (s_flows st) else s_flows st in
      let f1 := if reset then expand_reset v f cur expanded_end asset amount else f in
      do next <- cadd P64 cur 1;
      do f2 <- expand_record f1 cur next end_e amount;
      (* total_flow_asset attribute: sum of all history amounts + flow amount, Uint128 `Sum` (unchecked) then checked_add *)
      let tot := sumZ (map (fun e => fst (snd e)) (f_hist f2)) in
      do _ <- must (tot <? P128);
      do _ <- cadd P128 tot (f_amount f2);
      (* repaired: the messages are added to the response (the code as found returned attributes only) *)
      Ok (with_flows st (flows_save f2 flows1) (s_counter st), if v_expand_pull v then ms else [])
  end.

(* ---- close_flow.rs --------------------------------------------------------------------------------- *)
Definition close_flow (v : ver) (c : cfg) (st : state) (sender : Z) (x : ident) : outcome (state * list msg) :=
  match find_flow x (s_flows st) with
  | None => Err E_OTHER
  | Some f =>
      do _ <- ensure ((f_creator f =? sender) || (sender =? c_owner c)) E_UNAUTH;
      (* repaired: refund what the flow was expanded to, not only the original amount *)
      let amount_to_return := ssub (if v_close_hist v then flow_funded f else f_amount f) (f_claimed f) in
      Ok (with_flows st (flows_remove (f_start f) (f_id f) (s_flows st)) (s_counter st),
          [MSend (f_creator f) (f_asset f) amount_to_return])
  end.

(* ---- claim.rs / get_rewards.rs --------------------------------------------------------------------- *)
(* one epoch of the inner loop; shared arithmetic *)
Definition epoch_emission (f : flow) (emitted_map : list (Z * Z)) (e : Z) : outcome (Z * Z) :=
  let emitted := match emitted_map with [] => 0 | _ => aget0 (ssub e 1) emitted_map end in
  let total := get_flow_asset_amount_at_epoch f e in
  let end_e := get_flow_current_end_epoch f e in
  do span <- psub end_e e;                       (* u64 `-` : panics on underflow *)
  do em <- cdiv (ssub total emitted) span;       (* checked_div: DivideByZero is an error *)
  Ok (em, emitted).

(* user weight lookup: Some (weight, lu', lw') or None = `continue` *)
Definition weight_lookup (awh_u : list (Z * Z)) (e lu lw : Z) : option (Z * Z * Z) :=
  match aget e awh_u with
  | Some w => Some (w, e, w)
  | None => if negb (lu =? 0) && (lu <=? e) then Some (lw, lu, lw) else None
  end.

Definition reward_of (emission uw g : Z) : outcome Z :=
  do share <- dec_from_ratio P256 uw g;
  let r := emission * share / DEC in
  do _ <- must (r <? P256);
  if r <? P128 then Ok r else Err E_OTHER.

(* l_log is ghost instrumentation: (epoch, reward, emission of that epoch) for every non-zero reward paid *)
Record loopst := mkLoop { l_flow : flow; l_lu : Z; l_lw : Z; l_rewards : list Z; l_log : list (Z * Z * Z) }.

(* claim.rs inner loop over epoch ids [e ..= cur]; `count` = epoch_count before this iteration *)
Fixpoint claim_epochs (v : ver) (fuel : nat) (e cur count : Z) (exp_amt exp_end : Z) (awh_u snap : list (Z * Z)) (s : loopst)
  : outcome loopst :=
  match fuel with
  | O => Ok s
  | S fuel' =>
      if cur <? e then Ok s else
      let count' := count + 1 in
      if CLAIM_CAP <? count' then Ok s else
      let f := l_flow s in
      if e <? f_start f then
        (* repaired: the history is read for the skipped epochs too *)
        claim_epochs v fuel' (e + 1) cur count' exp_amt exp_end awh_u snap
          (match (if v_skip_scan v then aget e awh_u else None) with
           | Some w => mkLoop f e w (l_rewards s) (l_log s) | None => s end) else
      if exp_end <=? e then Ok s else
      do em2 <- epoch_emission f (f_emitted f) e;
      let '(emission, emitted) := em2 in
      do f1 <- (match aget e (f_emitted f) with
                | None => do v <- cadd P128 emission emitted; Ok (set_emitted f (f_emitted f ++ [(e, v)]))
                | Some _ => Ok f end);
      match weight_lookup awh_u e (l_lu s) (l_lw s) with
      | None => claim_epochs v fuel' (e + 1) cur count' exp_amt exp_end awh_u snap (mkLoop f1 (l_lu s) (l_lw s) (l_rewards s) (l_log s))
      | Some (uw, lu1, lw1) =>
          let g := aget0 e snap in
          if g =? 0 then claim_epochs v fuel' (e + 1) cur count' exp_amt exp_end awh_u snap (mkLoop f1 lu1 lw1 (l_rewards s) (l_log s))
          else
            do r <- reward_of emission uw g;
            do tot <- cadd P128 r (f_claimed f1);
            do _ <- ensure ((r <=? emission) && (tot <=? exp_amt)) E_OTHER;
            if r =? 0 then claim_epochs v fuel' (e + 1) cur count' exp_amt exp_end awh_u snap (mkLoop f1 lu1 lw1 (l_rewards s) (l_log s))
            else claim_epochs v fuel' (e + 1) cur count' exp_amt exp_end awh_u snap
                   (mkLoop (set_claimed f1 tot) lu1 lw1 (l_rewards s ++ [r]) (l_log s ++ [(e, r, emission)]))
      end
  end.

Definition first_claimable (last : option Z) (f : flow) (lu : Z) : outcome Z :=
  match last with
  | Some l => padd P64 l 1
  | None => Ok (if lu <? f_start f then lu else f_start f)
  end.

Definition earliest (awh_u : list (Z * Z)) : Z * Z := match awh_u with [] => (0, 0) | x :: _ => x end.
Definition loop_fuel (first cur : Z) : nat := Z.to_nat (cur - first + 1).

(* outer loop of claim over the available flows (those with start_epoch <= current epoch), in storage order.
   Returns the updated flows, the messages, and the last (lu, lw) seen. *)
Fixpoint claim_flows (v : ver) (fl : list flow) (cur : Z) (last : option Z) (awh_u snap : list (Z * Z)) (user : Z) (lw : Z)
  : outcome (list flow * list msg * Z) :=
  match fl with
  | [] => Ok ([], [], lw)
  | f :: r =>
      if cur <? f_start f then
        do x <- claim_flows v r cur last awh_u snap user lw;
        let '(r', ms, lw') := x in Ok (f :: r', ms, lw')
      else
      let '(exp_amt, exp_end) := flow_latest f in
      if (exp_end <? cur) && (f_claimed f =? exp_amt) then
        do x <- claim_flows v r cur last awh_u snap user lw;
        let '(r', ms, lw') := x in Ok (f :: r', ms, lw')
      else
        let '(lu0, lw0) := earliest awh_u in
        do first <- first_claimable last f lu0;
        do s <- claim_epochs v (loop_fuel first cur) first cur 0 exp_amt exp_end awh_u snap (mkLoop f lu0 lw0 [] []);
        do x <- claim_flows v r cur last awh_u snap user (l_lw s);
        let '(r', ms, lw') := x in
        Ok (l_flow s :: r', map (fun a => MSend user (f_asset f) a) (l_rewards s) ++ ms, lw')
  end.

Definition claim (v : ver) (c : cfg) (st : state) (sender : Z) : outcome (state * list msg) :=
  let cur := s_epoch st in
  match aget cur (s_snap st) with
  | None => Err E_OTHER
  | Some _ =>
      let last := aget sender (s_last st) in
      do _ <- ensure (match last with Some l => negb (l =? cur) | None => true end) E_OTHER;
      do x <- claim_flows v (s_flows st) cur last (s_awh st sender) (s_snap st) sender 0;
      let '(fl, ms, lw) := x in
      do nxt <- padd P64 cur 1;
      Ok (mkState (s_epoch st) (s_bal st) fl (s_counter st) (s_open st) (s_closed st) (s_gw st) (s_aw st) (s_snap st)
            (fun a => if a =? sender then [(nxt, if v_claim_cur v then aget0 sender (s_aw st) else lw)] else s_awh st a)
            (aset sender cur (s_last st)), ms)
  end.

(* get_rewards.rs: same loop without the cap, the emitted map is a local copy, the claimed amount is not advanced,
   the total is accumulated with the panicking `+=` *)
Fixpoint rewards_epochs (v : ver) (fuel : nat) (e cur : Z) (f : flow) (exp_amt exp_end : Z) (awh_u snap : list (Z * Z))
    (emap : list (Z * Z)) (lu lw total : Z) : outcome Z :=
  match fuel with
  | O => Ok total
  | S fuel' =>
      if cur <? e then Ok total else
      if e <? f_start f then
        (match (if v_skip_scan v then aget e awh_u else None) with
         | Some w => rewards_epochs v fuel' (e + 1) cur f exp_amt exp_end awh_u snap emap e w total
         | None => rewards_epochs v fuel' (e + 1) cur f exp_amt exp_end awh_u snap emap lu lw total end) else
      if exp_end <=? e then Ok total else
      do em2 <- epoch_emission f emap e;
      let '(emission, emitted) := em2 in
      do emap1 <- (match aget e emap with
                   | None => do v <- cadd P128 emission emitted; Ok (emap ++ [(e, v)])
                   | Some _ => Ok emap end);
      match weight_lookup awh_u e lu lw with
      | None => rewards_epochs v fuel' (e + 1) cur f exp_amt exp_end awh_u snap emap1 lu lw total
      | Some (uw, lu1, lw1) =>
          let g := aget0 e snap in
          if g =? 0 then rewards_epochs v fuel' (e + 1) cur f exp_amt exp_end awh_u snap emap1 lu1 lw1 total
          else
            do r <- reward_of emission uw g;
            do tot <- cadd P128 r (f_claimed f);
            do _ <- ensure ((r <=? emission) && (tot <=? exp_amt)) E_OTHER;
            do total' <- padd P128 total r;
            rewards_epochs v fuel' (e + 1) cur f exp_amt exp_end awh_u snap emap1 lu1 lw1 total'
      end
  end.

(* per available, non-skipped flow: (asset, total) in storage order, zero totals dropped *)
Fixpoint rewards_flows (v : ver) (fl : list flow) (cur : Z) (last : option Z) (awh_u snap : list (Z * Z)) : outcome (list (Z * Z)) :=
  match fl with
  | [] => Ok []
  | f :: r =>
      if cur <? f_start f then rewards_flows v r cur last awh_u snap else
      let '(exp_amt, exp_end) := flow_latest f in
      if (exp_end <? cur) && (f_claimed f =? exp_amt) then rewards_flows v r cur last awh_u snap else
      let '(lu0, lw0) := earliest awh_u in
      do first <- first_claimable last f lu0;
      do t <- rewards_epochs v (loop_fuel first cur) first cur f exp_amt exp_end awh_u snap (f_emitted f) lu0 lw0 0;
      do rest <- rewards_flows v r cur last awh_u snap;
      Ok (if 0 <? t then (f_asset f, t) :: rest else rest)
  end.

Definition get_rewards (v : ver) (st : state) (user : Z) : outcome (list (Z * Z)) :=
  let cur := s_epoch st in
  let last := aget user (s_last st) in
  match last with
  | Some l => if l =? cur then Ok [] else rewards_flows v (s_flows st) cur last (s_awh st user) (s_snap st)
  | None => rewards_flows v (s_flows st) cur last (s_awh st user) (s_snap st)
  end.

(* ---- queries/get_rewards_share.rs ------------------------------------------------------------------ *)
Fixpoint share_loop (fuel : nat) (e cur : Z) (h : list (Z * Z)) (lw : Z) : Z :=
  match fuel with
  | O => lw
  | S fuel' => if cur <? e then lw else share_loop fuel' (e + 1) cur h (match aget e h with Some w => w | None => lw end)
  end.

(* (global weight snapshot, address weight, share) of the current epoch *)
Definition rewards_share (v : ver) (st : state) (u : Z) : outcome (Z * Z * Z) :=
  let cur := s_epoch st in
  match s_awh st u with
  | [] => Ok (aget0 cur (s_snap st), 0, 0)
  | (lu0, lw0) :: _ =>
      (* repaired: an entry that only applies from a later epoch gives no weight now *)
      let lw1 := if v_share_cur v && (cur <? lu0) then 0 else lw0 in
      let lw := share_loop (loop_fuel lu0 cur) lu0 cur (s_awh st u) lw1 in
      match aget cur (s_snap st) with
      | Some g => do share <- dec_from_ratio P256 lw g; Ok (g, lw, share)
      | None => Err E_OTHER
      end
  end.

(* ---- close_position.rs ----------------------------------------------------------------------------- *)
(* repaired: the weight removed is clamped by the address's weight, and the same amount leaves the global weight *)
Definition close_position (v : ver) (c : cfg) (st : state) (sender : Z) (d now : Z) : outcome (state * list msg) :=
  do _ <- (match get_rewards v st sender with
           | Ok (_ :: _) => Err E_OTHER           (* PendingRewards *)
           | _ => Ok tt end);                      (* an error of the rewards query is ignored by the code *)
  match pos_take sender d (s_open st) with
  | None => Err E_OTHER
  | Some (amount, op) =>
      do ts <- cadd P64 now d;
      do w <- calculate_weight d amount;
      let uw0 := aget0 sender (s_aw st) in
      let w' := if v_close_clamp v then Z.min w uw0 else w in
      let gw := ssub (s_gw st) w' in
      let uw := ssub uw0 w' in
      do _ <- must (s_epoch st + 1 <? P64);
      let h := sset (s_epoch st + 1) uw (s_awh st sender) in
      let st1 := with_positions st op (s_closed st ++ [(sender, (amount, ts))]) gw (aset sender uw (s_aw st))
            (fun a => if a =? sender then h else s_awh st a) in
      (* repaired: the epoch's snapshot is taken (from the weight before the reduction) if it is still missing *)
      let snap := match aget (s_epoch st) (s_snap st) with
                  | None => if v_close_snap v then aset (s_epoch st) (s_gw st) (s_snap st) else s_snap st
                  | Some _ => s_snap st end in
      Ok (mkState (s_epoch st1) (s_bal st1) (s_flows st1) (s_counter st1) (s_open st1) (s_closed st1) (s_gw st1) (s_aw st1)
            snap (s_awh st1) (s_last st1), [])
  end.

(* ---- operations and histories ---------------------------------------------------------------------- *)
Inductive op :=
| NewEpoch
| Donate (sender asset amount : Z)                   (* plain transfer to the contract, not a contract call *)
| Gift (sender to asset amount : Z)                  (* plain transfer between two other accounts (e.g. to the frontend helper) *)
| Snapshot
| OpenFlow (sender : Z) (fs al : list (Z * Z)) (start_o end_o : option Z) (asset amount : Z) (label : option Z)
| ExpandFlow (sender : Z) (fs al : list (Z * Z)) (x : ident) (end_o : option Z) (asset amount : Z)
| CloseFlow (sender : Z) (x : ident)
| Claim (sender : Z)
| OpenPosition (sender : Z) (fs al : list (Z * Z)) (amount d : Z) (receiver : option Z)
| ExpandPosition (sender : Z) (fs al : list (Z * Z)) (amount d : Z) (receiver : option Z)
| ClosePosition (sender : Z) (d now : Z)
| Withdraw (sender : Z)
(* frontend_helper Deposit {pair, assets (a0: d0, a1: d1), unbonding_duration}; the pair contract is an oracle:
   whether it accepts the liquidity (pair_ok) and how many LP tokens it mints to the helper (minted) are inputs *)
| HelperDeposit (user : Z) (fs al : list (Z * Z)) (a0 d0 a1 d1 dur : Z) (pair_ok : bool) (minted : Z).

Definition with_bal (st : state) (b : Z -> Z -> Z) : state :=
  mkState (s_epoch st) b (s_flows st) (s_counter st) (s_open st) (s_closed st) (s_gw st) (s_aw st) (s_snap st) (s_awh st) (s_last st).

(* a contract call: attach funds, run the handler on the pre-state, execute its messages *)
Definition call (st : state) (sender : Z) (fs al : list (Z * Z)) (h : outcome (state * list msg)) : outcome state :=
  do b1 <- attach fs (s_bal st) sender;
  do r <- h;
  let '(st', ms) := r in
  do b2 <- run_msgs ms b1 al;
  Ok (with_bal st' b2).

(* ---- frontend_helper (contract.rs, reply/deposit_pair.rs), cw20 LP token (default build) ----------------- *)
Definition HELPER : Z := 101.
Definition PAIR : Z := 102.

Fixpoint move_coins (fs : list (Z * Z)) (b : Z -> Z -> Z) (from to : Z) : outcome (Z -> Z -> Z) :=
  match fs with
  | [] => Ok b
  | (d, a) :: r => do b1 <- transfer b from to d a; move_coins r b1 from to
  end.

(* a cw20 asset of the deposit: the allowance given to the helper must equal the amount; it is pulled into the helper *)
Definition helper_pull (b : Z -> Z -> Z) (al : list (Z * Z)) (user a d : Z) : outcome (Z -> Z -> Z) :=
  if is_native a then Ok b
  else if aget0 a al =? d then transfer b user HELPER a d else Err E_OTHER.
Definition helper_forward (b : Z -> Z -> Z) (a d : Z) : outcome (Z -> Z -> Z) :=
  if is_native a then Ok b else transfer b HELPER PAIR a d.

(* the Positions query of the incentive contract fails if the weight of one of the open positions cannot be computed *)
Definition positions_query_ok (st : state) (u : Z) : bool :=
  forallb (fun p => is_ok (calculate_weight (snd (snd p)) (fst (snd p)))) (pos_of u (s_open st)).

Definition helper_deposit (v : ver) (c : cfg) (st : state) (user : Z) (fs al : list (Z * Z)) (a0 d0 a1 d1 dur : Z)
    (pair_ok : bool) (minted : Z) (open_h expand_h : state -> Z -> outcome (state * list msg)) : outcome (state * list msg * (Z -> Z -> Z) * Z) :=
  do _ <- ensure (negb (is_native (c_lp c))) E_OTHER;
  do b0 <- move_coins fs (s_bal st) user HELPER;
  do b1 <- helper_pull b0 al user a0 d0;
  do b2 <- helper_pull b1 al user a1 d1;
  (* ProvideLiquidity on the pair with all the attached funds; the pair pulls the cw20 amounts *)
  do _ <- ensure pair_ok E_OTHER;
  do b3 <- move_coins fs b2 HELPER PAIR;
  do b4 <- helper_forward b3 a0 d0;
  do b5 <- helper_forward b4 a1 d1;
  (* the pair mints the LP tokens to the helper *)
  let lpb := b5 HELPER (c_lp c) + minted in
  (* balances are Uint128: unsigned, below 2^128 *)
  do _ <- ensure ((0 <=? lpb) && (lpb <? P128)) E_OTHER;
  let b6 := upd_bal b5 HELPER (c_lp c) lpb in
  (* reply: the whole LP balance of the helper is staked for the user *)
  do _ <- ensure (positions_query_ok st user) E_OTHER;
  let st1 := mkState (s_epoch st) b6 (s_flows st) (s_counter st) (s_open st) (s_closed st) (s_gw st) (s_aw st) (s_snap st) (s_awh st) (s_last st) in
  do r <- (if has_pos user dur (s_open st) then expand_h st1 lpb else open_h st1 lpb);
  Ok (r, b6, lpb).

Definition step (v : ver) (c : cfg) (st : state) (o : op) : outcome state :=
  match o with
  | NewEpoch => do e <- padd P64 (s_epoch st) 1;
      Ok (mkState e (s_bal st) (s_flows st) (s_counter st) (s_open st) (s_closed st) (s_gw st) (s_aw st) (s_snap st) (s_awh st) (s_last st))
  | Donate sender asset amount => do b <- transfer (s_bal st) sender SELF asset amount; Ok (with_bal st b)
  | Gift sender to asset amount => do b <- transfer (s_bal st) sender to asset amount; Ok (with_bal st b)
  | Snapshot => call st 0 [] [] (take_snapshot st)
  | OpenFlow sender fs al so eo asset amount label => call st sender fs al (open_flow v c st sender fs al so eo asset amount label)
  | ExpandFlow sender fs al x eo asset amount => call st sender fs al (expand_flow v c st sender fs al x eo asset amount)
  | CloseFlow sender x => call st sender [] [] (close_flow v c st sender x)
  | Claim sender => call st sender [] [] (claim v c st sender)
  | OpenPosition sender fs al amount d recv => call st sender fs al (open_position c st sender fs al amount d recv)
  | ExpandPosition sender fs al amount d recv => call st sender fs al (expand_position c st sender fs al amount d recv)
  | ClosePosition sender d now => call st sender [] [] (close_position v c st sender d now)
  | Withdraw sender => call st sender [] [] (withdraw c st sender)
  | HelperDeposit user fs al a0 d0 a1 d1 dur pair_ok minted =>
      do x <- helper_deposit v c st user fs al a0 d0 a1 d1 dur pair_ok minted
                (fun st1 amt => open_position c st1 HELPER [] [(c_lp c, amt)] amt dur (Some user))
                (fun st1 amt => expand_position c st1 HELPER [] [(c_lp c, amt)] amt dur (Some user));
      let '(r, b6, lpb) := x in
      let st1 := mkState (s_epoch st) b6 (s_flows st) (s_counter st) (s_open st) (s_closed st) (s_gw st) (s_aw st) (s_snap st) (s_awh st) (s_last st) in
      call st1 HELPER [] [(c_lp c, lpb)] (Ok r)
  end.

(* a failed operation leaves the state untouched (transaction atomicity) *)
Definition step_total (v : ver) (c : cfg) (st : state) (o : op) : state :=
  match step v c st o with Ok st' => st' | _ => st end.

Definition run_history (v : ver) (c : cfg) (st : state) (h : list op) : state := fold_left (step_total v c) h st.

(* instantiate: counter 0, global weight 0, and the first snapshot message (at the epoch of instantiation) *)
Definition init_state (epoch : Z) (b : Z -> Z -> Z) : state :=
  mkState epoch b [] 0 [] [] 0 [] [(epoch, 0)] (fun _ => []) [].
