(* Toggles.v — pause switches (C17).
   Part 1: a generic "gate machine": three switches in front of an arbitrary machine `body` over an arbitrary `core`
           state; each entry path (operation) is guarded by at most one switch (`kind`). Pools (terraswap_pair,
           stableswap_3pool) are instances whose body (the pool arithmetic) is deliberately left abstract: C17 is about
           where the guards sit, not about what a swap computes.
   Part 2: the tables that say which switch guards which entry path of the pools and of the vault.
   Part 3: the switches of the concrete vault model (Vault.v), for which non-interference is proved on the real
           transition function, borrower scripts of every depth included. *)
From WW Require Import Prim Vault Params.
From Coq Require Import String.

Inductive K : Type := KDep | KWd | KSwap.          (* deposits / withdrawals / swaps (vault: flash loans) *)
Record flags := mkF { f_dep : bool; f_wd : bool; f_sw : bool }.
Definition all_on : flags := mkF true true true.
Definition fget (f : flags) (k : K) : bool := match k with KDep => f_dep f | KWd => f_wd f | KSwap => f_sw f end.
Definition fset (f : flags) (k : K) (b : bool) : flags :=
  match k with
  | KDep => mkF b (f_wd f) (f_sw f)
  | KWd => mkF (f_dep f) b (f_sw f)
  | KSwap => mkF (f_dep f) (f_wd f) b
  end.
Definition K_eqb (a b : K) : bool :=
  match a, b with KDep, KDep | KWd, KWd | KSwap, KSwap => true | _, _ => false end.

(* ---- Part 1: the gate machine ---------------------------------------------------------------- *)
Section Gate.
  Variable core : Type.                       (* balances, ledgers, LP supply, fees ... everything but the switches *)
  Variable opT : Type.                        (* entry paths with their arguments *)
  Variable kind : opT -> option K.            (* the switch that guards the path; None = not guarded *)
  Variable body : core -> opT -> outcome core.   (* what the path does once past its guard *)

  Record gstate := mkG { g_flags : flags; g_core : core }.

  Inductive gop : Type :=
  | GOp (o : opT)
  | GSet (authorized : bool) (f : flags).     (* UpdateConfig { feature_toggle: Some f }, by the owner or not *)

  Definition lift (g : gstate) (m : outcome core) : outcome gstate :=
    match m with Ok c => Ok (mkG (g_flags g) c) | Err e => Err e | Panic => Panic end.

  Definition gstep (g : gstate) (o : gop) : outcome gstate :=
    match o with
    | GOp o =>
        match kind o with
        | Some k => if fget (g_flags g) k then lift g (body (g_core g) o) else Err E_DISABLED
        | None => lift g (body (g_core g) o)
        end
    | GSet auth f => if auth then Ok (mkG f (g_core g)) else Err E_UNAUTH
    end.

  Definition gapply (g : gstate) (o : gop) : gstate := match gstep g o with Ok g' => g' | _ => g end.
  Definition grun (g : gstate) (h : list gop) : gstate := fold_left gapply h g.

  (* operations of the kind guarded by switch k *)
  Definition of_kind (k : K) (o : gop) : bool :=
    match o with GOp o => match kind o with Some k' => K_eqb k k' | None => false end | GSet _ _ => false end.
  Definition is_set (o : gop) : bool := match o with GSet _ _ => true | _ => false end.
End Gate.

Arguments mkG {core}.
Arguments g_flags {core}.
Arguments g_core {core}.
Arguments GOp {opT}.
Arguments GSet {opT}.

(* ---- Part 2: which switch guards which entry path ---------------------------------------------- *)
(* pools: terraswap_pair and stableswap_3pool (the 3pool has no router / helper path) *)
Inductive ppath : Type :=
| PProvide            (* ExecuteMsg::ProvideLiquidity, direct *)
| PProvideHelper      (* frontend_helper Deposit -> ProvideLiquidity *)
| PWithdrawHook       (* LP token Send { Cw20HookMsg::WithdrawLiquidity } *)
| PWithdrawDirect     (* ExecuteMsg::WithdrawLiquidity {} (token-factory LP path; cw20 LP: AssetMismatch whatever the switches) *)
| PSwapDirect         (* ExecuteMsg::Swap with a native offer *)
| PSwapHook           (* cw20 Send { Cw20HookMsg::Swap } *)
| PSwapRouter         (* terraswap_router ExecuteSwapOperations, native offer *)
| PSwapRouterHook     (* cw20 Send to terraswap_router { ExecuteSwapOperations } *)
| PCollect.           (* CollectProtocolFees *)

Definition ppath_kind (p : ppath) : option K :=
  match p with
  | PProvide | PProvideHelper => Some KDep
  | PWithdrawHook => Some KWd
  | PWithdrawDirect => None
  | PSwapDirect | PSwapHook | PSwapRouter | PSwapRouterHook => Some KSwap
  | PCollect => None
  end.

Definition ppath_of_Z (z : Z) : ppath :=
  match z with
  | 0 => PProvide | 1 => PProvideHelper | 2 => PWithdrawHook | 3 => PWithdrawDirect | 4 => PSwapDirect
  | 5 => PSwapHook | 6 => PSwapRouter | 7 => PSwapRouterHook | _ => PCollect
  end.

(* the differential instance used by the correspondence: the body's result is what an identical pool with every switch
   on (the "twin") did with the same call — 0 = accepted, otherwise the rejection class *)
Definition twin_body (_ : unit) (o : ppath * Z) : outcome unit :=
  let tc := snd o in if tc =? 0 then Ok tt else if tc =? 2 then Err E_DISABLED else if tc =? 3 then Err E_UNAUTH else Err E_OTHER.
Definition twin_kind (o : ppath * Z) : option K := ppath_kind (fst o).

(* ---- Part 3: the vault's switches (concrete model) ---------------------------------------------- *)
Definition vflags (st : state) : flags := mkF (dep_on (conf st)) (wd_on (conf st)) (fl_on (conf st)).
Definition set_vflags (st : state) (f : flags) : state :=
  let c := conf st in
  set_conf st (mkCfg (f_prot c) (f_flash c) (f_burn c) (f_dep f) (f_wd f) (f_sw f) (owner c) (is_cw20 c)).
Definition set_vflag (st : state) (k : K) (b : bool) : state := set_vflags st (fset (vflags st) k b).

(* does an action / script / operation contain an entry of kind k ? *)
Fixpoint a_uses (k : K) (a : action) : bool :=
  match a with
  | ADeposit _ => K_eqb k KDep
  | AWithdraw _ => K_eqb k KWd
  | ALoan _ s => K_eqb k KSwap || s_uses k s
  | ATry s => s_uses k s
  | _ => false
  end
with s_uses (k : K) (s : script) : bool :=
  match s with SNil => false | SCons a r => a_uses k a || s_uses k r end.

Definition o_uses (k : K) (o : op) : bool :=
  match o with
  | ODeposit _ _ _ => K_eqb k KDep
  | OWithdraw _ _ => K_eqb k KWd
  | ORun s => s_uses k s
  | ORouterLoan _ _ _ s => K_eqb k KSwap || s_uses k s
  | ORouterLoanF _ _ _ s _ => K_eqb k KSwap || s_uses k s
  | OUpdate _ _ _ => true                     (* config updates are the switches themselves *)
  | _ => false
  end.

Definition omap {A B} (f : A -> B) (m : outcome A) : outcome B :=
  match m with Ok a => Ok (f a) | Err e => Err e | Panic => Panic end.

(* ---- Part 4: the message inventories generated from the Rust enums are completely classified ------------------ *)
(* how each ExecuteMsg / Cw20HookMsg variant is guarded: Some (Some k) = by switch k; Some None = not an entry path of a
   pausable operation (config, fee collection, internal callback, cw20 dispatcher); None = unknown variant *)
Open Scope string_scope.
Definition pool_execute_guard (v : string) : option (option K) :=
  if String.eqb v "ProvideLiquidity" then Some (Some KDep)
  else if String.eqb v "Swap" then Some (Some KSwap)
  else if String.eqb v "WithdrawLiquidity" then Some None      (* token-factory LP path: rejected with a cw20 LP token *)
  else if String.eqb v "Receive" then Some None                (* dispatches to the hook variants below *)
  else if String.eqb v "UpdateConfig" then Some None
  else if String.eqb v "CollectProtocolFees" then Some None
  else None.
Definition pool_hook_guard (v : string) : option (option K) :=
  if String.eqb v "Swap" then Some (Some KSwap)
  else if String.eqb v "WithdrawLiquidity" then Some (Some KWd)
  else None.
Definition vault_execute_guard (v : string) : option (option K) :=
  if String.eqb v "Deposit" then Some (Some KDep)
  else if String.eqb v "FlashLoan" then Some (Some KSwap)
  else if String.eqb v "Withdraw" then Some None               (* token-factory LP path: rejected with a cw20 LP token *)
  else if String.eqb v "Receive" then Some None
  else if String.eqb v "CollectProtocolFees" then Some None
  else if String.eqb v "UpdateConfig" then Some None
  else if String.eqb v "Callback" then Some None               (* only from the vault itself *)
  else None.
Definition vault_hook_guard (v : string) : option (option K) :=
  if String.eqb v "Withdraw" then Some (Some KWd) else None.
Definition classified (g : string -> option (option K)) (l : list string) : bool :=
  forallb (fun v => match g v with Some _ => true | None => false end) l.
Definition inventories_classified : bool :=
  classified pool_execute_guard Params.pair_execute && classified pool_hook_guard Params.pair_cw20hook &&
  classified pool_execute_guard Params.trio_execute && classified pool_hook_guard Params.trio_cw20hook &&
  classified vault_execute_guard Params.vault_execute && classified vault_hook_guard Params.vault_cw20hook.
Close Scope string_scope.
