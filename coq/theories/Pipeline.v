(* Pipeline.v — the fee pipeline behind NewEpoch:
     fee_distributor::create_new_epoch -> fee_collector::forward_fees -> { CollectFees (vault factory), CollectFees (pool
     factory), AggregateFees (vault factory), AggregateFees (pool factory) } -> fee_collector::reply (take rate to the DAO,
     rest to the distributor, epoch.total) -> fee_distributor::reply (Distributor.new_epoch).
   Transcribed from contracts/liquidity_hub/fee_collector/src/{commands.rs, contract.rs}. Assets are integers; DIST is the
   distribution asset (native; a cw20 distribution asset makes the collector's reply fail).
   ORACLES (inputs of the ops, measured by the harness on the real contracts):
     - what each registered pool / vault transfers to the collector on CollectProtocolFees (that amount is C07's subject),
       and whether one of those calls fails;
     - the list of assets the factories report (factory Pairs / vault factory Vaults, first 30: trios are not reached);
     - per asset, what the router answers: no stored route / failing simulation / a swap of the whole balance that returns
       an arbitrary amount r >= 0 of the distribution asset / a swap that fails (which aborts everything). *)
From WW Require Import Prim Params Epochs Distributor Lair.

Definition DIST : Z := 0.
Definition MINAGG : Z := Params.MINIMUM_AGGREGABLE_BALANCE.

Inductive swap := NoRoute | SimFails | Swapped (r : Z) | HopFails.

Record pstate := mkP {
  p_bal : list (Z * Z);        (* fee collector balances: asset -> amount *)
  p_dao : Z;                   (* DAO's balance of the distribution asset *)
  p_active : bool;             (* is_take_rate_active *)
  p_rate : Z;                  (* take_rate, Decimal atomics *)
  p_dao_set : bool;            (* take_rate_dao_address != "" *)
  p_history : list (Z * Z);    (* TAKE_RATE_HISTORY: epoch id -> amount *)
  p_dist : dstate              (* the fee distributor (Distributor.v) *)
}.

Definition pinit (grace : Z) : pstate := mkP [] 0 false 0 false [] (dinit grace).

(* bank transfers into the collector *)
Fixpoint credit (ts : list (Z * Z)) (b : list (Z * Z)) : list (Z * Z) :=
  match ts with [] => b | (a, x) :: r => credit r (zset a (zget a b + x) b) end.

(* commands::collect_fees over a factory's children: every child's CollectProtocolFees runs as a plain message *)
Definition collect (ok : bool) (ts : list (Z * Z)) (b : list (Z * Z)) : outcome (list (Z * Z)) :=
  do _ <- ensure ok E_OTHER; Ok (credit ts b).

(* commands::aggregate_fees: for every reported asset other than the distribution asset whose balance exceeds
   MINIMUM_AGGREGABLE_BALANCE, with a stored route and a succeeding simulation, the WHOLE balance is swapped *)
Fixpoint aggregate_fees (assets : list (Z * swap)) (b : list (Z * Z)) : outcome (list (Z * Z)) :=
  match assets with
  | [] => Ok b
  | (a, sw) :: r =>
      if a =? DIST then aggregate_fees r b
      else if MINAGG <? zget a b then
        match sw with
        | NoRoute => aggregate_fees r b
        | SimFails => aggregate_fees r b
        | HopFails => Err E_OTHER
        | Swapped out => aggregate_fees r (zset DIST (zget DIST b + out) (zset a 0 b))
        end
      else aggregate_fees r b
  end.

(* contract::reply (FEES_AGGREGATION_REPLY_ID): returns (dao fee, amount forwarded to the distributor) *)
Definition take_rate_fee (s : pstate) (balance : Z) : Z :=
  if p_active s && negb (p_rate s =? 0) && p_dao_set s
  then (let f := balance * p_rate s / DEC in if f <? P128 then f else 0)      (* checked_mul_floor(..).unwrap_or(0) *)
  else 0.

Record feeds := mkFeeds {
  f_collect_ok : bool;
  f_vault_transfers : list (Z * Z);  f_pool_transfers : list (Z * Z);
  f_vault_assets : list (Z * swap);  f_pool_assets : list (Z * swap)
}.

Definition new_epoch_pipeline (c : dcfg) (now : Z) (s : pstate) (fd : feeds) : outcome pstate :=
  (* the distributor's own checks come first (clock) *)
  do _ <- dcreate (dc_duration c) (dc_genesis c) now (cur_epoch (p_dist s)) true;
  do b1 <- collect (f_collect_ok fd) (f_vault_transfers fd) (p_bal s);
  do b2 <- collect (f_collect_ok fd) (f_pool_transfers fd) b1;
  do b3 <- aggregate_fees (f_vault_assets fd) b2;
  do b4 <- aggregate_fees (f_pool_assets fd) b3;
  let balance := zget DIST b4 in
  let fee := take_rate_fee s balance in
  let rest := ssub balance fee in
  let hist := if fee =? 0 then p_history s else zset (e_id (cur_epoch (p_dist s)) + 1) fee (p_history s) in
  do d' <- new_epoch c now (p_dist s) true rest;
  Ok (mkP (zset DIST 0 b4) (p_dao s + fee) (p_active s) (p_rate s) (p_dao_set s) hist d').

Inductive pop :=
| PNewEpoch (fd : feeds)                                       (* anyone calls the distributor's NewEpoch *)
| PForwardDirect                                               (* someone who is not the distributor calls ForwardFees *)
| PCollect (ok : bool) (ts : list (Z * Z))                     (* anyone calls CollectFees *)
| PAggregate (assets : list (Z * swap))                        (* anyone calls AggregateFees {Factory ..} *)
| PConfig (admin : bool) (active : option bool) (rate : option Z) (dao : option bool)    (* UpdateConfig *)
| PStray (x : Z).                                               (* anybody sends x of the distribution asset straight to the
                                                                   distributor (Distributor.DStray): no contract code runs *)

Definition pstep (c : dcfg) (now : Z) (s : pstate) (o : pop) : outcome pstate :=
  match o with
  | PNewEpoch fd => new_epoch_pipeline c now s fd
  | PForwardDirect => Err E_UNAUTH
  | PCollect ok ts => do b <- collect ok ts (p_bal s);
                      Ok (mkP b (p_dao s) (p_active s) (p_rate s) (p_dao_set s) (p_history s) (p_dist s))
  | PAggregate assets => do b <- aggregate_fees assets (p_bal s);
                         Ok (mkP b (p_dao s) (p_active s) (p_rate s) (p_dao_set s) (p_history s) (p_dist s))
  | PConfig admin active rate dao =>
      do _ <- ensure admin E_UNAUTH;
      do _ <- ensure (match rate with Some r => r <? DEC | None => true end) E_OTHER;       (* InvalidTakeRate *)
      Ok (mkP (p_bal s) (p_dao s)
              (match active with Some a => a | None => p_active s end)
              (match rate with Some r => r | None => p_rate s end)
              (match dao with Some d => d | None => p_dao_set s end)
              (p_history s) (p_dist s))
  | PStray x => do r <- dstep c now (p_dist s) (DStray x);
                Ok (mkP (p_bal s) (p_dao s) (p_active s) (p_rate s) (p_dao_set s) (p_history s) (fst r))
  end.

Definition pevent := (Z * pop)%type.
Definition phstep (c : dcfg) (s : pstate) (e : pevent) : pstate :=
  match pstep c (fst e) s (snd e) with Ok s' => s' | _ => s end.
Definition prun (c : dcfg) (grace : Z) (h : list pevent) : pstate := fold_left (phstep c) h (pinit grace).

(* sums used by the statements *)
Definition sum_dist (ts : list (Z * Z)) : Z := sumZ (map (fun t => if fst t =? DIST then snd t else 0) ts).
(* proceeds (distribution asset) of the swaps that aggregate_fees performs on balances b *)
Fixpoint proceeds (assets : list (Z * swap)) (b : list (Z * Z)) : Z :=
  match assets with
  | [] => 0
  | (a, sw) :: r =>
      if a =? DIST then proceeds r b
      else if MINAGG <? zget a b then
        match sw with
        | Swapped out => out + proceeds r (zset DIST (zget DIST b + out) (zset a 0 b))
        | _ => proceeds r b
        end
      else proceeds r b
  end.
