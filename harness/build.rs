// Generates mods.rs: every src/*.rs except main.rs becomes a module; modules named cNN get a dispatch arm.
use std::io::Write;
fn main() {
    let dir = std::env::var("CARGO_MANIFEST_DIR").unwrap();
    let out = std::env::var("OUT_DIR").unwrap();
    let mut names: Vec<String> = std::fs::read_dir(format!("{dir}/src")).unwrap()
        .filter_map(|e| e.ok()).filter_map(|e| e.file_name().into_string().ok())
        .filter(|n| n.ends_with(".rs") && n != "main.rs").map(|n| n.trim_end_matches(".rs").to_string()).collect();
    names.sort();
    let mut f = std::fs::File::create(format!("{out}/mods.rs")).unwrap();
    for n in &names { writeln!(f, "#[path = \"{dir}/src/{n}.rs\"] pub mod {n};").unwrap(); }
    writeln!(f, "pub fn dispatch(name: &str, args: &common::Args) -> bool {{ match name {{").unwrap();
    for n in &names {
        let b = n.as_bytes();
        if b.len() == 3 && b[0] == b'c' && b[1].is_ascii_digit() && b[2].is_ascii_digit() {
            writeln!(f, "  \"{n}\" => {{ {n}::run(args); true }}").unwrap();
        }
    }
    writeln!(f, "  _ => false }} }}").unwrap();
    println!("cargo:rerun-if-changed=src");
}
