//! Independent wide-integer arithmetic for the monitors and the exact-curve VALIDATION solvers (bnum U2048; nothing here
//! goes through cosmwasm-std's Uint types or the contracts' own code).
#![allow(dead_code)]
pub use bnum::types::U2048 as B;

pub fn b(x: u128) -> B { B::from(x) }
pub fn bs(s: &str) -> B { B::from_str_radix(s, 10).unwrap() }
pub fn pow10(k: u32) -> B { B::from(10u8).pow(k) }
pub fn pow2(k: u32) -> B { B::from(1u8) << k }
pub fn to_u128(x: &B) -> Option<u128> { if *x < pow2(128) { Some(x.to_string().parse::<u128>().unwrap()) } else { None } }

/// largest integer D in [0, hi] with pred(D) true, for a predicate that is true on an initial segment (bisection)
pub fn max_true(hi: B, pred: impl Fn(&B) -> bool) -> B {
    let (mut lo, mut hi) = (B::ZERO, hi);
    if pred(&hi) { return hi; }
    // invariant: pred(lo) (assumed at 0), !pred(hi)
    while hi - lo > B::ONE {
        let mid = lo + (hi - lo) / B::from(2u8);
        if pred(&mid) { lo = mid } else { hi = mid }
    }
    lo
}

/// floor of the exact stableswap invariant for n = 3 in the convention of stableswap_3pool (ann = amp * 3):
///   D^4 / (27 x0 x1 x2) + (ann - 1) D = ann (x0 + x1 + x2)     (all x > 0)
/// i.e. the largest integer D with D^4 + (ann-1) D P <= ann S P, P = 27 x0 x1 x2. The left side is increasing in D, and D <= S.
pub fn d3_true_floor(ann: u128, x: [u128; 3]) -> B {
    let s = b(x[0]) + b(x[1]) + b(x[2]);
    let p = b(27) * b(x[0]) * b(x[1]) * b(x[2]);
    let rhs = b(ann) * s * p;
    let annm1 = b(ann.saturating_sub(1));
    max_true(s, |d| d.pow(4) + annm1 * *d * p <= rhs)
}

/// exact y for n = 3 given the invariant value D (an integer): smallest integer y with
///   ann*27xu*y^2 + (ann(x+u) - (ann-1) D) 27xu*y >= D^4     (the reserve the curve prescribes, rounded up)
pub fn y3_true_ceil(ann: u128, x: u128, u: u128, d: &B) -> B {
    let k = b(27) * b(x) * b(u);
    let d4 = d.pow(4);
    let lin_pos = b(ann) * (b(x) + b(u));
    let lin_neg = b(ann.saturating_sub(1)) * *d;
    // f(y) = ann k y^2 + (lin_pos - lin_neg) k y - d4 ; increasing for y >= root. Search the first y with f(y) >= 0.
    let ok = |y: &B| -> bool { b(ann) * k * *y * *y + lin_pos * k * *y >= d4 + lin_neg * k * *y };
    // upper bound: y <= D works? not always; grow geometrically
    let mut hi = if d.is_zero() { B::ONE } else { *d };
    while !ok(&hi) { hi = hi * b(2); }
    if ok(&B::ZERO) { return B::ZERO; }
    max_true(hi, |y| !ok(y)) + B::ONE
}

/// floor of the exact two-asset stableswap invariant in the convention of terraswap_pair (ann = amp * 2):
///   D^3 / (4 x y) + (ann - 1) D = ann (x + y)      (x, y > 0; any common unit)
pub fn d2_true_floor(ann: u128, x: &B, y: &B) -> B {
    let s = *x + *y;
    let p = b(4) * *x * *y;
    let rhs = b(ann) * s * p;
    let annm1 = b(ann.saturating_sub(1));
    max_true(s, |d| d.pow(3) + annm1 * *d * p <= rhs)
}

/// smallest y >= 0 with  ann*4x*y^2 + (ann*4x^2 - (ann-1)*D*4x)*y >= D^3 : the ask reserve the exact curve prescribes (rounded up)
pub fn y2_true_ceil(ann: u128, x: &B, d: &B) -> B {
    let k = b(4) * *x;
    let d3 = d.pow(3);
    let pos = b(ann) * k * *x;
    let neg = b(ann.saturating_sub(1)) * *d * k;
    let ok = |y: &B| -> bool { b(ann) * k * *y * *y + pos * *y >= d3 + neg * *y };
    if ok(&B::ZERO) { return B::ZERO; }
    let mut hi = if d.is_zero() { B::ONE } else { *d };
    while !ok(&hi) { hi = hi * b(2); }
    max_true(hi, |y| !ok(y)) + B::ONE
}
