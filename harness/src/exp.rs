use crate::world::*;
use white_whale_std::pool_network::asset::PairType;
pub fn run_exp() {
    for kinds in [[false,false],[true,true],[false,true]] {
        let mut w = deploy_pair(kinds, [6,6], pool_fee(1_000_000_000_000_000, 3_000_000_000_000_000, 0), PairType::ConstantProduct).unwrap();
        println!("kinds {:?}", kinds);
        println!(" provide {:?}", w.provide("alice", 2_000_000, 1_500, None, None).map(|_| ()).map_err(|e| format!("{:#}", e)));
        println!(" lp alice {} pool {} supply {}", w.lp_bal("alice"), w.lp_bal(w.pair.as_str()), w.lp_supply());
        // withdraw 1 LP: refund of asset1 = floor(1500 * (1/54772)) = 0
        let r = std::panic::catch_unwind(std::panic::AssertUnwindSafe(|| w.withdraw("alice", 1).map(|_| ()).map_err(|e| format!("{:#}", e))));
        println!(" withdraw 1 -> {:?}", r);
        let r = std::panic::catch_unwind(std::panic::AssertUnwindSafe(|| w.swap("bob", 0, 0, None, None, None).map(|_| ()).map_err(|e| format!("{:#}", e))));
        println!(" swap 0 -> {:?}", r);
        let r = std::panic::catch_unwind(std::panic::AssertUnwindSafe(|| w.swap("bob", 0, 1, None, None, None).map(|_| ()).map_err(|e| format!("{:#}", e))));
        println!(" swap 1 -> {:?}  pool {} {}", r, w.pool_bal(0), w.pool_bal(1));
        let r = std::panic::catch_unwind(std::panic::AssertUnwindSafe(|| w.provide("bob", 1, 1, None, None).map(|_| ()).map_err(|e| format!("{:#}", e))));
        println!(" provide 1,1 -> {:?}  lp bob {}", r, w.lp_bal("bob"));
        let r = std::panic::catch_unwind(std::panic::AssertUnwindSafe(|| w.withdraw("alice", 0).map(|_| ()).map_err(|e| format!("{:#}", e))));
        println!(" withdraw 0 -> {:?}", r);
        println!(" after panic still usable: {:?}", w.query_pool().map(|p| (p.assets[0].amount, p.assets[1].amount, p.total_share)));
    }
}
