//! Deployments for the admin family (C16 / C18 / C19): all 15 contracts of the liquidity hub, REAL code from /repo,
//! under cw-multi-test. `full_world()` = factory, pair, trio, router, incentive factory + incentive, frontend helper,
//! vault factory + vault + vault router, collector, distributor, lair, epoch manager.
#![allow(dead_code)]
use crate::world::{cw20_base_contract, dec, pair_contract, token_contract, trio_contract};
use cosmwasm_std::{coin, Addr, Coin, Empty, Timestamp, Uint128, Uint64};
use cw20::{Cw20Coin, MinterResponse};
use cw_multi_test::{App, AppBuilder, BankKeeper, Contract, ContractWrapper, Executor};
use white_whale_std::epoch_manager::epoch_manager::{EpochConfig, EpochV2};
use white_whale_std::fee::{Fee, VaultFee};
use white_whale_std::pool_network::asset::{Asset, AssetInfo, PairInfo, PairType, TrioInfo};
use white_whale_std::pool_network::pair::PoolFee;
use white_whale_std::pool_network::trio::PoolFee as TrioPoolFee;

pub const ADMIN: &str = "owner";
pub const NEW_ADMIN: &str = "newowner";
pub const STRANGER: &str = "mallory";
pub const USER: &str = "alice";
pub const DENOMS8: [&str; 8] = ["uwhale", "uusdc", "uatom", "ubtc", "uluna", "uosmo", "ujuno", "ukuji"];
pub const RICH: u128 = 1u128 << 100;
pub const DAY_NS: u64 = 86_400_000_000_000;

pub fn accounts() -> Vec<&'static str> { vec![ADMIN, NEW_ADMIN, STRANGER, USER, "bob"] }

pub fn admin_app() -> App {
    let bank = BankKeeper::new();
    AppBuilder::new().with_bank(bank).build(|router, _api, storage| {
        for a in accounts() {
            let coins: Vec<Coin> = DENOMS8.iter().map(|d| coin(RICH, *d)).collect();
            router.bank.init_balance(storage, &Addr::unchecked(a), coins).unwrap();
        }
    })
}

fn factory_contract() -> Box<dyn Contract<Empty>> {
    Box::new(ContractWrapper::new_with_empty(terraswap_factory::contract::execute, terraswap_factory::contract::instantiate,
        terraswap_factory::contract::query).with_reply(terraswap_factory::contract::reply).with_migrate(terraswap_factory::contract::migrate))
}
fn router_contract() -> Box<dyn Contract<Empty>> {
    Box::new(ContractWrapper::new_with_empty(terraswap_router::contract::execute, terraswap_router::contract::instantiate,
        terraswap_router::contract::query).with_migrate(terraswap_router::contract::migrate))
}
fn incentive_contract() -> Box<dyn Contract<Empty>> {
    Box::new(ContractWrapper::new_with_empty(incentive::contract::execute, incentive::contract::instantiate,
        incentive::contract::query).with_migrate(incentive::contract::migrate))
}
fn incentive_factory_contract() -> Box<dyn Contract<Empty>> {
    Box::new(ContractWrapper::new_with_empty(incentive_factory::contract::execute, incentive_factory::contract::instantiate,
        incentive_factory::contract::query).with_reply(incentive_factory::contract::reply).with_migrate(incentive_factory::contract::migrate))
}
fn helper_contract() -> Box<dyn Contract<Empty>> {
    Box::new(ContractWrapper::new_with_empty(frontend_helper::contract::execute, frontend_helper::contract::instantiate,
        frontend_helper::contract::query).with_reply(frontend_helper::contract::reply).with_migrate(frontend_helper::contract::migrate))
}
fn vault_contract() -> Box<dyn Contract<Empty>> {
    Box::new(ContractWrapper::new_with_empty(vault::contract::execute, vault::contract::instantiate,
        vault::contract::query).with_reply(vault::reply::reply).with_migrate(vault::contract::migrate))
}
fn vault_factory_contract() -> Box<dyn Contract<Empty>> {
    Box::new(ContractWrapper::new_with_empty(vault_factory::contract::execute, vault_factory::contract::instantiate,
        vault_factory::contract::query).with_reply(vault_factory::reply::reply).with_migrate(vault_factory::contract::migrate))
}
fn vault_router_contract() -> Box<dyn Contract<Empty>> {
    Box::new(ContractWrapper::new_with_empty(vault_router::contract::execute, vault_router::contract::instantiate,
        vault_router::contract::query).with_migrate(vault_router::contract::migrate))
}
fn collector_contract() -> Box<dyn Contract<Empty>> {
    Box::new(ContractWrapper::new_with_empty(fee_collector::contract::execute, fee_collector::contract::instantiate,
        fee_collector::contract::query).with_reply(fee_collector::contract::reply).with_migrate(fee_collector::contract::migrate))
}
fn distributor_contract() -> Box<dyn Contract<Empty>> {
    Box::new(ContractWrapper::new_with_empty(fee_distributor::contract::execute, fee_distributor::contract::instantiate,
        fee_distributor::contract::query).with_reply(fee_distributor::contract::reply).with_migrate(fee_distributor::contract::migrate))
}
fn lair_contract() -> Box<dyn Contract<Empty>> {
    Box::new(ContractWrapper::new_with_empty(whale_lair::contract::execute, whale_lair::contract::instantiate,
        whale_lair::contract::query).with_migrate(whale_lair::contract::migrate))
}
fn epoch_manager_contract() -> Box<dyn Contract<Empty>> {
    Box::new(ContractWrapper::new_with_empty(epoch_manager::contract::execute, epoch_manager::contract::instantiate,
        epoch_manager::contract::query).with_migrate(epoch_manager::contract::migrate))
}

#[derive(Clone, Copy, Debug)]
pub struct Codes {
    pub token: u64, pub cw20: u64, pub pair: u64, pub trio: u64, pub factory: u64, pub router: u64,
    pub incentive: u64, pub incentive_factory: u64, pub helper: u64, pub vault: u64, pub vault_factory: u64,
    pub vault_router: u64, pub collector: u64, pub distributor: u64, pub lair: u64, pub epoch_manager: u64,
}

pub fn store_codes(app: &mut App) -> Codes {
    Codes {
        token: app.store_code(token_contract()), cw20: app.store_code(cw20_base_contract()),
        pair: app.store_code(pair_contract()), trio: app.store_code(trio_contract()),
        factory: app.store_code(factory_contract()), router: app.store_code(router_contract()),
        incentive: app.store_code(incentive_contract()), incentive_factory: app.store_code(incentive_factory_contract()),
        helper: app.store_code(helper_contract()), vault: app.store_code(vault_contract()),
        vault_factory: app.store_code(vault_factory_contract()), vault_router: app.store_code(vault_router_contract()),
        collector: app.store_code(collector_contract()), distributor: app.store_code(distributor_contract()),
        lair: app.store_code(lair_contract()), epoch_manager: app.store_code(epoch_manager_contract()),
    }
}

pub fn native(d: &str) -> AssetInfo { AssetInfo::NativeToken { denom: d.to_string() } }
pub fn token(a: &Addr) -> AssetInfo { AssetInfo::Token { contract_addr: a.to_string() } }
pub fn admin() -> Addr { Addr::unchecked(ADMIN) }

pub fn pool_fee(p: u128, s: u128, b: u128) -> PoolFee {
    PoolFee { protocol_fee: Fee { share: dec(p) }, swap_fee: Fee { share: dec(s) }, burn_fee: Fee { share: dec(b) } }
}
pub fn trio_fee(p: u128, s: u128, b: u128) -> TrioPoolFee {
    TrioPoolFee { protocol_fee: Fee { share: dec(p) }, swap_fee: Fee { share: dec(s) }, burn_fee: Fee { share: dec(b) } }
}
pub fn vault_fee(p: u128, f: u128, b: u128) -> VaultFee {
    VaultFee { protocol_fee: Fee { share: dec(p) }, flash_loan_fee: Fee { share: dec(f) }, burn_fee: Fee { share: dec(b) } }
}

pub fn err_text(e: &anyhow::Error) -> String { format!("{:#}", e) }

// ---- single-contract deployments (each returns the anyhow error of the real instantiate) -------------------------
pub fn inst_collector(app: &mut App, c: &Codes, sender: &str) -> anyhow::Result<Addr> {
    app.instantiate_contract(c.collector, Addr::unchecked(sender), &white_whale_std::fee_collector::InstantiateMsg {}, &[], "collector", None)
}
pub fn inst_lair(app: &mut App, c: &Codes, sender: &str, unbonding_period: u64, growth_atomics: u128, assets: Vec<AssetInfo>) -> anyhow::Result<Addr> {
    app.instantiate_contract(c.lair, Addr::unchecked(sender), &white_whale_std::whale_lair::InstantiateMsg {
        unbonding_period: Uint64::new(unbonding_period), growth_rate: dec(growth_atomics), bonding_assets: assets }, &[], "lair", None)
}
pub fn inst_distributor(app: &mut App, c: &Codes, sender: &str, lair: &str, collector: &str, grace: u64, duration: u64, genesis: u64, asset: AssetInfo) -> anyhow::Result<Addr> {
    app.instantiate_contract(c.distributor, Addr::unchecked(sender), &white_whale_std::fee_distributor::InstantiateMsg {
        bonding_contract_addr: lair.to_string(), fee_collector_addr: collector.to_string(), grace_period: Uint64::new(grace),
        epoch_config: EpochConfig { duration: Uint64::new(duration), genesis_epoch: Uint64::new(genesis) }, distribution_asset: asset }, &[], "distributor", None)
}
pub fn inst_factory(app: &mut App, c: &Codes, sender: &str, collector: &str) -> anyhow::Result<Addr> {
    app.instantiate_contract(c.factory, Addr::unchecked(sender), &white_whale_std::pool_network::factory::InstantiateMsg {
        pair_code_id: c.pair, trio_code_id: c.trio, token_code_id: c.token, fee_collector_addr: collector.to_string() }, &[], "factory", None)
}
pub fn inst_vault_factory(app: &mut App, c: &Codes, sender: &str, owner: &str, collector: &str) -> anyhow::Result<Addr> {
    app.instantiate_contract(c.vault_factory, Addr::unchecked(sender), &white_whale_std::vault_network::vault_factory::InstantiateMsg {
        owner: owner.to_string(), vault_id: c.vault, token_id: c.token, fee_collector_addr: collector.to_string() }, &[], "vault_factory", None)
}
pub fn inst_pair(app: &mut App, c: &Codes, sender: &str, assets: [AssetInfo; 2], decimals: [u8; 2], fees: PoolFee, collector: &str, tf_lp: bool) -> anyhow::Result<Addr> {
    app.instantiate_contract(c.pair, Addr::unchecked(sender), &white_whale_std::pool_network::pair::InstantiateMsg {
        asset_infos: assets, token_code_id: c.token, asset_decimals: decimals, pool_fees: fees, fee_collector_addr: collector.to_string(),
        pair_type: PairType::ConstantProduct, token_factory_lp: tf_lp }, &[], "pair", None)
}
pub fn inst_trio(app: &mut App, c: &Codes, sender: &str, assets: [AssetInfo; 3], decimals: [u8; 3], fees: TrioPoolFee, collector: &str, amp: u64) -> anyhow::Result<Addr> {
    app.instantiate_contract(c.trio, Addr::unchecked(sender), &white_whale_std::pool_network::trio::InstantiateMsg {
        asset_infos: assets, token_code_id: c.token, asset_decimals: decimals, pool_fees: fees, fee_collector_addr: collector.to_string(),
        amp_factor: amp, token_factory_lp: false }, &[], "trio", None)
}
pub fn inst_vault(app: &mut App, c: &Codes, sender: &str, owner: &str, asset: AssetInfo, fees: VaultFee, collector: &str, tf_lp: bool) -> anyhow::Result<Addr> {
    app.instantiate_contract(c.vault, Addr::unchecked(sender), &white_whale_std::vault_network::vault::InstantiateMsg {
        owner: owner.to_string(), asset_info: asset, token_id: c.token, vault_fees: fees, fee_collector_addr: collector.to_string(),
        token_factory_lp: tf_lp }, &[], "vault", None)
}

pub fn deploy_cw20_for(app: &mut App, code: u64, symbol: &str, decimals: u8) -> Addr {
    let balances: Vec<Cw20Coin> = accounts().iter().map(|a| Cw20Coin { address: a.to_string(), amount: Uint128::new(RICH) }).collect();
    app.instantiate_contract(code, admin(), &cw20_base::msg::InstantiateMsg {
        name: format!("{symbol} token"), symbol: symbol.to_string(), decimals, initial_balances: balances,
        mint: Some(MinterResponse { minter: ADMIN.to_string(), cap: None }), marketing: None }, &[], symbol, None).unwrap()
}

// ---- the full world ------------------------------------------------------------------------------------------------
pub struct World {
    pub app: App,
    pub codes: Codes,
    pub collector: Addr, pub lair: Addr, pub distributor: Addr,
    pub factory: Addr, pub pair: Addr, pub pair_lp: Addr, pub trio: Addr, pub trio_lp: Addr, pub router: Addr,
    pub incentive_factory: Addr, pub incentive: Addr, pub helper: Addr,
    pub vault_factory: Addr, pub vault: Addr, pub vault_lp: Addr, pub vault_router: Addr,
    pub epoch_manager: Addr,
    pub cw20: Addr,
}

pub fn lp_of(info: &AssetInfo) -> Addr {
    match info { AssetInfo::Token { contract_addr } => Addr::unchecked(contract_addr), AssetInfo::NativeToken { denom } => Addr::unchecked(denom) }
}

pub fn full_world() -> World {
    let mut app = admin_app();
    let codes = store_codes(&mut app);
    let c = &codes;
    let cw20 = deploy_cw20_for(&mut app, c.cw20, "TOKA", 6);
    let collector = inst_collector(&mut app, c, ADMIN).unwrap();
    let lair = inst_lair(&mut app, c, ADMIN, 1_000_000_000_000, 0, vec![native("uwhale"), native("ubtc")]).unwrap();
    let t0 = app.block_info().time.nanos();
    let distributor = inst_distributor(&mut app, c, ADMIN, lair.as_str(), collector.as_str(), 21, DAY_NS, t0, native("uwhale")).unwrap();
    app.execute_contract(admin(), lair.clone(), &white_whale_std::whale_lair::ExecuteMsg::UpdateConfig {
        owner: None, unbonding_period: None, growth_rate: None, fee_distributor_addr: Some(distributor.to_string()) }, &[]).unwrap();
    let factory = inst_factory(&mut app, c, ADMIN, collector.as_str()).unwrap();
    for d in DENOMS8.iter() {
        app.execute_contract(admin(), factory.clone(), &white_whale_std::pool_network::factory::ExecuteMsg::AddNativeTokenDecimals {
            denom: d.to_string(), decimals: 6 }, &[coin(1, *d)]).unwrap();
    }
    app.execute_contract(admin(), factory.clone(), &white_whale_std::pool_network::factory::ExecuteMsg::CreatePair {
        asset_infos: [native("uwhale"), native("uusdc")], pool_fees: pool_fee(1_000_000_000_000_000, 2_000_000_000_000_000, 0),
        pair_type: PairType::ConstantProduct, token_factory_lp: false }, &[]).unwrap();
    app.execute_contract(admin(), factory.clone(), &white_whale_std::pool_network::factory::ExecuteMsg::CreateTrio {
        asset_infos: [native("uusdc"), native("uatom"), native("uluna")], pool_fees: trio_fee(1_000_000_000_000_000, 2_000_000_000_000_000, 0),
        amp_factor: 100, token_factory_lp: false }, &[]).unwrap();
    let pinfo: PairInfo = app.wrap().query_wasm_smart(&factory, &white_whale_std::pool_network::factory::QueryMsg::Pair {
        asset_infos: [native("uwhale"), native("uusdc")] }).unwrap();
    let tinfo: TrioInfo = app.wrap().query_wasm_smart(&factory, &white_whale_std::pool_network::factory::QueryMsg::Trio {
        asset_infos: [native("uusdc"), native("uatom"), native("uluna")] }).unwrap();
    let pair = Addr::unchecked(pinfo.contract_addr.clone());
    let trio = Addr::unchecked(tinfo.contract_addr.clone());
    let pair_lp = lp_of(&pinfo.liquidity_token);
    let trio_lp = lp_of(&tinfo.liquidity_token);
    let router = app.instantiate_contract(c.router, admin(), &white_whale_std::pool_network::router::InstantiateMsg {
        terraswap_factory: factory.to_string() }, &[], "router", Some(ADMIN.to_string())).unwrap();   // route management = the wasm admin
    let incentive_factory = app.instantiate_contract(c.incentive_factory, admin(), &white_whale_std::pool_network::incentive_factory::InstantiateMsg {
        fee_collector_addr: collector.to_string(), fee_distributor_addr: distributor.to_string(),
        create_flow_fee: Asset { info: native("uwhale"), amount: Uint128::new(1000) }, max_concurrent_flows: 5,
        incentive_code_id: c.incentive, max_flow_epoch_buffer: 14, min_unbonding_duration: 86_400, max_unbonding_duration: 31_536_000 },
        &[], "incentive_factory", None).unwrap();
    app.execute_contract(admin(), incentive_factory.clone(), &white_whale_std::pool_network::incentive_factory::ExecuteMsg::CreateIncentive {
        lp_asset: pinfo.liquidity_token.clone() }, &[]).unwrap();
    let inc: white_whale_std::pool_network::incentive_factory::IncentiveResponse = app.wrap().query_wasm_smart(&incentive_factory,
        &white_whale_std::pool_network::incentive_factory::QueryMsg::Incentive { lp_asset: pinfo.liquidity_token.clone() }).unwrap();
    let incentive = inc.expect("incentive registered");
    let helper = app.instantiate_contract(c.helper, admin(), &white_whale_std::pool_network::frontend_helper::InstantiateMsg {
        incentive_factory: incentive_factory.to_string() }, &[], "helper", None).unwrap();
    let vault_factory = inst_vault_factory(&mut app, c, ADMIN, ADMIN, collector.as_str()).unwrap();
    app.execute_contract(admin(), vault_factory.clone(), &white_whale_std::vault_network::vault_factory::ExecuteMsg::CreateVault {
        asset_info: native("uwhale"), fees: vault_fee(1_000_000_000_000_000, 2_000_000_000_000_000, 0), token_factory_lp: false }, &[]).unwrap();
    let v: Option<String> = app.wrap().query_wasm_smart(&vault_factory, &white_whale_std::vault_network::vault_factory::QueryMsg::Vault {
        asset_info: native("uwhale") }).unwrap();
    let vault = Addr::unchecked(v.expect("vault registered"));
    let vcfg: white_whale_std::vault_network::vault::Config = app.wrap().query_wasm_smart(&vault, &white_whale_std::vault_network::vault::QueryMsg::Config {}).unwrap();
    let vault_lp = lp_of(&vcfg.lp_asset);
    let vault_router = app.instantiate_contract(c.vault_router, admin(), &white_whale_std::vault_network::vault_router::InstantiateMsg {
        owner: ADMIN.to_string(), vault_factory_addr: vault_factory.to_string() }, &[], "vault_router", None).unwrap();
    let t1 = app.block_info().time;
    let epoch_manager = app.instantiate_contract(c.epoch_manager, admin(), &white_whale_std::epoch_manager::epoch_manager::InstantiateMsg {
        start_epoch: EpochV2 { id: 1, start_time: t1 }, epoch_config: EpochConfig { duration: Uint64::new(DAY_NS), genesis_epoch: Uint64::new(t1.nanos()) } },
        &[], "epoch_manager", None).unwrap();
    app.execute_contract(admin(), collector.clone(), &white_whale_std::fee_collector::ExecuteMsg::UpdateConfig {
        owner: None, pool_router: Some(router.to_string()), fee_distributor: Some(distributor.to_string()), pool_factory: Some(factory.to_string()),
        vault_factory: Some(vault_factory.to_string()), take_rate: None, take_rate_dao_address: None, is_take_rate_active: None }, &[]).unwrap();
    let _ = Timestamp::from_nanos(0);
    World { app, codes, collector, lair, distributor, factory, pair, pair_lp, trio, trio_lp, router, incentive_factory, incentive, helper,
            vault_factory, vault, vault_lp, vault_router, epoch_manager, cw20 }
}

/// the infrastructure only: no pair, trio, vault or incentive has been created yet (registries empty)
pub struct BaseWorld {
    pub app: App, pub codes: Codes, pub collector: Addr, pub lair: Addr, pub distributor: Addr, pub factory: Addr, pub router: Addr,
    pub incentive_factory: Addr, pub vault_factory: Addr, pub cw20s: Vec<Addr>,
}
/// `natives`: denoms registered with the pool factory (AddNativeTokenDecimals) and funded for every account; `cw20_symbols`: cw20-base tokens deployed
pub fn base_world(natives: &[&str], cw20_symbols: &[&str]) -> BaseWorld {
    let bank = BankKeeper::new();
    let denoms: Vec<String> = natives.iter().map(|d| d.to_string()).collect();
    let mut app = AppBuilder::new().with_bank(bank).build(|router, _api, storage| {
        for a in accounts() {
            let mut coins: Vec<Coin> = denoms.iter().filter(|d| !d.is_empty()).map(|d| coin(RICH, d.as_str())).collect();
            if !denoms.iter().any(|d| d == "uwhale") { coins.push(coin(RICH, "uwhale")); }
            coins.sort_by(|a, b| a.denom.cmp(&b.denom));
            router.bank.init_balance(storage, &Addr::unchecked(a), coins).unwrap();
        }
    });
    let codes = store_codes(&mut app);
    let c = &codes;
    let cw20s: Vec<Addr> = cw20_symbols.iter().map(|s| deploy_cw20_for(&mut app, c.cw20, s, 6)).collect();
    let collector = inst_collector(&mut app, c, ADMIN).unwrap();
    let lair = inst_lair(&mut app, c, ADMIN, 1_000_000_000_000, 0, vec![native("uwhale")]).unwrap();
    let t0 = app.block_info().time.nanos();
    let distributor = inst_distributor(&mut app, c, ADMIN, lair.as_str(), collector.as_str(), 21, DAY_NS, t0, native("uwhale")).unwrap();
    let factory = inst_factory(&mut app, c, ADMIN, collector.as_str()).unwrap();
    for d in natives {
        app.execute_contract(admin(), factory.clone(), &white_whale_std::pool_network::factory::ExecuteMsg::AddNativeTokenDecimals {
            denom: d.to_string(), decimals: 6 }, &[]).unwrap();
    }
    let router = app.instantiate_contract(c.router, admin(), &white_whale_std::pool_network::router::InstantiateMsg {
        terraswap_factory: factory.to_string() }, &[], "router", Some(ADMIN.to_string())).unwrap();
    let incentive_factory = app.instantiate_contract(c.incentive_factory, admin(), &white_whale_std::pool_network::incentive_factory::InstantiateMsg {
        fee_collector_addr: collector.to_string(), fee_distributor_addr: distributor.to_string(),
        create_flow_fee: Asset { info: native("uwhale"), amount: Uint128::new(1000) }, max_concurrent_flows: 5,
        incentive_code_id: c.incentive, max_flow_epoch_buffer: 14, min_unbonding_duration: 86_400, max_unbonding_duration: 31_536_000 },
        &[], "incentive_factory", None).unwrap();
    let vault_factory = inst_vault_factory(&mut app, c, ADMIN, ADMIN, collector.as_str()).unwrap();
    BaseWorld { app, codes, collector, lair, distributor, factory, router, incentive_factory, vault_factory, cw20s }
}

impl World {
    /// every contract of the world by name (for dumps and matrices)
    pub fn contracts(&self) -> Vec<(&'static str, Addr)> {
        vec![("collector", self.collector.clone()), ("lair", self.lair.clone()), ("distributor", self.distributor.clone()),
             ("factory", self.factory.clone()), ("pair", self.pair.clone()), ("pair_lp", self.pair_lp.clone()),
             ("trio", self.trio.clone()), ("trio_lp", self.trio_lp.clone()), ("router", self.router.clone()),
             ("incentive_factory", self.incentive_factory.clone()), ("incentive", self.incentive.clone()), ("helper", self.helper.clone()),
             ("vault_factory", self.vault_factory.clone()), ("vault", self.vault.clone()), ("vault_lp", self.vault_lp.clone()),
             ("vault_router", self.vault_router.clone()), ("epoch_manager", self.epoch_manager.clone()), ("cw20", self.cw20.clone())]
    }
}

/// full raw storage of the listed contracts + native balances of the listed accounts, as one comparable value
pub fn snapshot(app: &App, contracts: &[Addr], holders: &[String], denoms: &[&str]) -> Vec<(String, Vec<u8>, Vec<u8>)> {
    let mut v = vec![];
    for c in contracts {
        for (k, val) in app.dump_wasm_raw(c) { v.push((c.to_string(), k, val)); }
    }
    for h in holders {
        for d in denoms {
            let b = app.wrap().query_balance(h, *d).map(|c| c.amount.u128()).unwrap_or(0);
            v.push((format!("bank:{h}"), d.as_bytes().to_vec(), b.to_string().into_bytes()));
        }
    }
    v
}

/// `./check Cnn --replay FILE` runs the harness with cwd = harness/: accept paths relative to the framework root too
pub fn read_replay(path: &str) -> serde_json::Value {
    let txt = std::fs::read_to_string(path).or_else(|_| std::fs::read_to_string(format!("../{path}"))).expect("replay file not found");
    serde_json::from_str(&txt).expect("replay file is not json")
}

/// record a monitor failure, but keep at most 60 of them per run (one is enough for a VIOLATION; a broken tree can produce thousands, each with its replay)
pub fn mfail(out: &mut crate::common::Out, property: &str, what: &str, replay: serde_json::Value) {
    if out.monitor_failures.len() < 60 { out.monitor_fail(property, what, replay); }
}
