//! C20 — epoch clocks: the real epoch-manager (with recording hook receivers) and the real fee_distributor
//! (NewEpoch through the real fee_collector) driven over block-time schedules around every boundary.
use crate::common::*;
use crate::w_epochs::*;
use crate::world::*;
use cosmwasm_std::{Addr, Empty, Timestamp, Uint64};
use cw_multi_test::{App, Executor};
use serde_json::{json, Value};
use white_whale_std::epoch_manager::epoch_manager as em;

const SENDERS: [&str; 4] = ["owner", "alice", "bob", "carol"];

// ------------------------------------------------------------------------------------------------ manager
#[derive(Clone, Debug)]
enum MEv { Create { sender: usize, bad: Vec<usize> }, Add { sender: usize, h: usize }, Remove { sender: usize, h: usize },
           /// UpdateConfig naming an epoch_config with the SAME duration and another genesis_epoch: the running clock is not touched
           SetGenesis { sender: usize, g: u64 } }

struct MWorld { app: App, mgr: Addr, hooks: Vec<Addr>, duration: u64 }

fn deploy_manager(id0: u64, start0: u64, duration: u64, t0: u64) -> Result<MWorld, String> {
    let mut app = new_app();
    let mut b = app.block_info();
    b.time = Timestamp::from_nanos(t0);
    app.set_block(b);
    let code = app.store_code(epoch_manager_contract());
    let hcode = app.store_code(hook_recorder::contract());
    let mgr = app.instantiate_contract(code, Addr::unchecked(OWNER),
        &em::InstantiateMsg { start_epoch: em::EpochV2 { id: id0, start_time: Timestamp::from_nanos(start0) },
            epoch_config: em::EpochConfig { duration: Uint64::new(duration), genesis_epoch: Uint64::new(start0) } }, &[], "epoch_manager", None)
        .map_err(|e| format!("{:#}", e))?;
    let mut hooks = vec![];
    for i in 0..3 {
        hooks.push(app.instantiate_contract(hcode, Addr::unchecked(OWNER), &Empty {}, &[], format!("hook{i}"), None).map_err(|e| format!("{:#}", e))?);
    }
    Ok(MWorld { app, mgr, hooks, duration })
}
impl MWorld {
    fn set_time(&mut self, t: u64) { let mut b = self.app.block_info(); if b.time.nanos() != t { b.height += 1; } b.time = Timestamp::from_nanos(t); self.app.set_block(b); }
    fn cur(&self) -> (u64, u64) {
        let r: em::EpochResponse = self.app.wrap().query_wasm_smart(&self.mgr, &em::QueryMsg::CurrentEpoch {}).unwrap();
        (r.epoch.id, r.epoch.start_time.nanos())
    }
    /// QueryMsg::Epoch { id }: (id, start) as reported, or the failure
    fn epoch_by_id(&self, id: u64) -> Outcome<(u64, u64)> {
        run_catch(|| self.app.wrap().query_wasm_smart::<em::EpochResponse>(&self.mgr, &em::QueryMsg::Epoch { id }).map(|r| (r.epoch.id, r.epoch.start_time.nanos())),
                  |e| classify_text(&format!("{}", e)))
    }
    fn log(&self, i: usize) -> hook_recorder::Log { self.app.wrap().query_wasm_smart(&self.hooks[i], &hook_recorder::Query::Log {}).unwrap() }
    fn set_fail(&mut self, i: usize, fail: bool) {
        self.app.execute_contract(Addr::unchecked("donor"), self.hooks[i].clone(), &hook_recorder::Exec::SetFail { fail }, &[]).unwrap();
    }
}

fn run_manager_case(out: &mut Out, id0: u64, start0: u64, duration: u64, t0: u64, evs: &[(u64, MEv)], tag: &str) {
    let mut w = match deploy_manager(id0, start0, duration, t0) { Ok(w) => w, Err(_) => { out.count("mgr:instantiate_rejected"); return; } };
    let mut terms: Vec<String> = vec![];
    let mut obsv: Vec<String> = vec![];
    let mut hist: Vec<Value> = vec![];
    let mut registered: Vec<usize> = vec![];
    let mut created = 0u64;
    let mut kinds: std::collections::BTreeSet<&'static str> = Default::default();
    // every epoch the manager has been in so far (the initial one and each one created), as CurrentEpoch reported it
    let mut seen: Vec<(u64, u64)> = vec![w.cur()];
    for (t, e) in evs {
        w.set_time(*t);
        hist.push(json!({"t": t.to_string(), "ev": format!("{:?}", e)}));
        let replay = json!({"kind": "epoch_manager_schedule", "start_epoch_id": id0.to_string(), "start_time": start0.to_string(), "duration": duration.to_string(),
                            "instantiated_at": t0.to_string(), "events": hist});
        let before = w.cur();
        let logs_before: Vec<hook_recorder::Log> = (0..3).map(|i| w.log(i)).collect();
        let classify = |e: &anyhow::Error| classify_text(&format!("{:#}", e));
        let (term, r) = match e {
            MEv::Create { sender, bad } => {
                for i in bad { w.set_fail(*i, true); }
                let mgr = w.mgr.clone();
                // senders 4..6 are the hook contracts themselves (a hooked contract cranking the clock): CreateEpoch is open to anyone
                let who = if *sender < 4 { Addr::unchecked(SENDERS[*sender]) } else { w.hooks[(*sender - 4) % 3].clone() };
                let r = run_catch(|| w.app.execute_contract(who, mgr, &em::ExecuteMsg::CreateEpoch {}, &[]), classify);
                for i in bad { w.set_fail(*i, false); }
                (format!("MCreate {}", zlist(bad)), r)
            }
            MEv::Add { sender, h } => {
                let (mgr, ha) = (w.mgr.clone(), w.hooks[*h].to_string());
                (format!("MAddHook {} {}", coqbool(*sender == 0), h),
                 run_catch(|| w.app.execute_contract(Addr::unchecked(SENDERS[*sender]), mgr, &em::ExecuteMsg::AddHook { contract_addr: ha }, &[]), classify))
            }
            MEv::SetGenesis { sender, g } => {
                let (mgr, dur) = (w.mgr.clone(), w.duration);
                (format!("MSetGenesis {} {}", coqbool(*sender == 0), g),
                 run_catch(|| w.app.execute_contract(Addr::unchecked(SENDERS[*sender]), mgr, &em::ExecuteMsg::UpdateConfig { owner: None,
                     epoch_config: Some(em::EpochConfig { duration: Uint64::new(dur), genesis_epoch: Uint64::new(*g) }) }, &[]), classify))
            }
            MEv::Remove { sender, h } => {
                let (mgr, ha) = (w.mgr.clone(), w.hooks[*h].to_string());
                (format!("MRemoveHook {} {}", coqbool(*sender == 0), h),
                 run_catch(|| w.app.execute_contract(Addr::unchecked(SENDERS[*sender]), mgr, &em::ExecuteMsg::RemoveHook { contract_addr: ha }, &[]), classify))
            }
        };
        let ok = matches!(r, Outcome::Ok(_));
        let after = w.cur();
        let logs_after: Vec<hook_recorder::Log> = (0..3).map(|i| w.log(i)).collect();
        // ---- the property's predicate on the implementation
        out.monitor_evals += 1;
        match e {
            MEv::Create { .. } => {
                let early = (*t as i128) - (before.1 as i128) < duration as i128;
                out.count(&format!("mgr:create_{}{}", if ok { "ok" } else if matches!(r, Outcome::Panic(_)) { "panic" } else { "err" }, if early { "_early" } else { "" }));
                if ok {
                    created += 1;
                    kinds.insert(if registered.is_empty() { "create0" } else { "create_hooks" });
                    if early { out.monitor_fail("C20", "epoch manager: a new epoch was created before the current one's duration elapsed", replay.clone()); }
                    if after.0 != before.0.wrapping_add(1) { out.monitor_fail("C20", "epoch manager: id did not increase by exactly one", replay.clone()); }
                    if after.1 as u128 != before.1 as u128 + duration as u128 { out.monitor_fail("C20", "epoch manager: start time is not previous start + duration", replay.clone()); }
                    for i in 0..3 {
                        let reg = registered.contains(&i);
                        let d = logs_after[i].calls - logs_before[i].calls;
                        if reg && (d != 1 || logs_after[i].last_id != after.0 || logs_after[i].last_start != after.1) {
                            out.monitor_fail("C20", &format!("epoch manager: registered hook {} was notified {} times (or with another epoch) for one new epoch", i, d), replay.clone());
                        }
                        if !reg && d != 0 { out.monitor_fail("C20", "epoch manager: an unregistered contract was notified", replay.clone()); }
                    }
                } else {
                    let hook_rejects = match e { MEv::Create { bad, .. } => bad.iter().any(|b| registered.contains(b)), _ => false };
                    if !early && !hook_rejects && before.0 != u64::MAX && (before.1 as u128 + duration as u128) <= u64::MAX as u128 {
                        out.monitor_fail("C20", "epoch manager: CreateEpoch was rejected although the current epoch's duration has elapsed", replay.clone());
                    }
                    if after != before { out.monitor_fail("C20", "epoch manager: a rejected CreateEpoch changed the epoch", replay.clone()); }
                    if (0..3).any(|i| logs_after[i] != logs_before[i]) { out.monitor_fail("C20", "epoch manager: a rejected CreateEpoch notified a hook", replay.clone()); }
                }
            }
            MEv::Add { h, .. } => { if ok { kinds.insert("add"); if !registered.contains(h) { registered.push(*h); } else { out.monitor_fail("C20", "epoch manager: a hook was registered twice", replay.clone()); } }
                                    out.count(if ok { "mgr:add_ok" } else { "mgr:add_err" });
                                    if after != before { out.monitor_fail("C20", "epoch manager: AddHook changed the epoch", replay.clone()); }
                                    if (0..3).any(|i| logs_after[i] != logs_before[i]) { out.monitor_fail("C20", "epoch manager: a hook was notified although no epoch was created (AddHook)", replay.clone()); } }
            MEv::SetGenesis { .. } => { if ok { kinds.insert("set_genesis"); }
                                        out.count(if ok { "mgr:set_genesis_ok" } else { "mgr:set_genesis_err" });
                                        if after != before { out.monitor_fail("C20", "epoch manager: an update of the configured genesis moved the running clock", replay.clone()); }
                                        if (0..3).any(|i| logs_after[i] != logs_before[i]) { out.monitor_fail("C20", "epoch manager: a hook was notified although no epoch was created (UpdateConfig)", replay.clone()); } }
            MEv::Remove { h, .. } => { if ok { kinds.insert("remove"); registered.retain(|x| x != h); }
                                       out.count(if ok { "mgr:remove_ok" } else { "mgr:remove_err" });
                                       if after != before { out.monitor_fail("C20", "epoch manager: RemoveHook changed the epoch", replay.clone()); }
                                       if (0..3).any(|i| logs_after[i] != logs_before[i]) { out.monitor_fail("C20", "epoch manager: a hook was notified although no epoch was created (RemoveHook)", replay.clone()); } }
        }
        if ok && matches!(e, MEv::Create { .. }) { seen.push(after); }
        // Epoch { id } must report every epoch of the history with the start time it had (first, last, and a few recent ones)
        let n = seen.len();
        let mut idx: Vec<usize> = vec![0, n - 1];
        for back in 2..6 { if n >= back { idx.push(n - back); } }
        idx.sort(); idx.dedup();
        for i in idx {
            out.monitor_evals += 1;
            match w.epoch_by_id(seen[i].0) {
                Outcome::Ok(got) => if got != seen[i] {
                    out.monitor_fail("C20", &format!("epoch manager: Epoch{{id:{}}} reports start {} but that epoch started at {}", seen[i].0, got.1, seen[i].1), replay.clone()); },
                _ => out.monitor_fail("C20", &format!("epoch manager: Epoch{{id:{}}} fails for an epoch of the history", seen[i].0), replay.clone()),
            }
        }
        terms.push(format!("({}, {})", t, term));
        let mut o = obs(&r, |_| vec![]);
        o.push(after.0.to_string());
        o.push(after.1.to_string());
        for l in &logs_after { o.push(l.calls.to_string()); o.push(l.last_id.to_string()); o.push(l.last_start.to_string()); }
        // by-id queries compared with the model: the initial id, the id before the current one, the id after it
        for q in [id0, after.0.wrapping_sub(1), after.0.wrapping_add(1)] {
            o.extend(obs(&w.epoch_by_id(q), |v| vec![v.0.to_string(), v.1.to_string()]));
        }
        obsv.extend(o);
    }
    let input = format!("(({}, {}, {}), {})", duration, id0, start0, coqlist(&terms));
    let replay = json!({"kind": "epoch_manager_schedule", "start_epoch_id": id0.to_string(), "start_time": start0.to_string(), "duration": duration.to_string(),
                        "instantiated_at": t0.to_string(), "events": hist});
    if created >= 2 && kinds.len() >= 2 { out.nontrivial_key(hash_str(&input)); }
    out.count(&format!("mgr:history_{}", tag));
    out.sample(replay.clone());
    out.case("c20_mgr", &input, &obsv, replay);
}

/// a block-time schedule around the boundaries of a clock whose current epoch starts at `start`
fn next_time(rng: &mut Rng, t: u64, start: u64, duration: u64) -> u64 {
    let boundary = start.saturating_add(duration);
    let c = match rng.below(12) {
        0 | 1 => t,                                    // same block: repeated attempt
        2 => t.saturating_add(1),
        3 => boundary.saturating_sub(1),
        4 | 5 => boundary,
        6 => boundary.saturating_add(1),
        7 => boundary.saturating_add(duration / 2),
        8 => boundary.saturating_add(duration.saturating_mul(1 + rng.below(4))),   // several durations late
        9 => start,
        10 => start.saturating_sub(1),
        _ => t.saturating_add(rng.below(duration.max(1))),
    };
    c.max(t).min(u64::MAX - 1)
}

fn gen_manager(out: &mut Out, rng: &mut Rng) {
    let t0 = GENESIS_DEFAULT;
    let duration = *rng.pick(&[DAY_NS, DAY_NS, DAY_NS + 1, 3 * DAY_NS, 7 * DAY_NS, 1_000, 1, 0]);
    let start0 = t0 + *rng.pick(&[0u64, 0, 1, 1_000_000_000, DAY_NS, DAY_NS / 2]);
    let id0 = *rng.pick(&[0u64, 0, 1, 7, 123_456, u64::MAX - 1, u64::MAX]);
    let mut evs: Vec<(u64, MEv)> = vec![];
    let mut t = t0;
    // shadow clock to aim the schedule at the boundaries (the real values are observed, not assumed)
    let mut start = start0;
    let n = 6 + rng.below(18);
    for _ in 0..n {
        t = next_time(rng, t, start, duration);
        let e = match rng.below(10) {
            0 | 1 => MEv::Add { sender: if rng.chance(1, 5) { 1 + rng.below(3) as usize } else { 0 }, h: rng.below(3) as usize },
            2 => MEv::Remove { sender: if rng.chance(1, 5) { 1 + rng.below(3) as usize } else { 0 }, h: rng.below(3) as usize },
            3 if rng.chance(1, 2) => MEv::SetGenesis { sender: if rng.chance(1, 5) { 1 + rng.below(3) as usize } else { 0 },
                                                       g: match rng.below(4) { 0 => 0, 1 => t, 2 => t.saturating_add(duration), _ => start0.saturating_sub(1) } },
            _ => {
                let bad = if rng.chance(1, 6) { vec![rng.below(3) as usize] } else { vec![] };
                if bad.is_empty() && (t as u128) >= start as u128 + duration as u128 { start = start.saturating_add(duration); }
                let sd = rng.below(4) as usize;
                MEv::Create { sender: if sd > 0 && t % 3 == 0 { 3 + sd } else { sd }, bad }
            }
        };
        evs.push((t, e));
    }
    run_manager_case(out, id0, start0, duration, t0, &evs, if duration >= DAY_NS { "day_plus" } else { "short_duration" });
}

// ------------------------------------------------------------------------------------------------ distributor
fn run_distributor_case(out: &mut Out, duration: u64, genesis: u64, grace: u64, evs: &[(u64, usize, bool, u128)], tag: &str) {
    let cfg = EpochCfg { duration, genesis, grace_period: grace, ..Default::default() };
    let mut w = match deploy_epoch_world(cfg) { Ok(w) => w, Err(_) => { out.count("dist:instantiate_rejected"); return; } };
    let mut terms: Vec<String> = vec![];
    let mut obsv: Vec<String> = vec![];
    let mut hist: Vec<Value> = vec![];
    let mut created: Vec<(u64, u64)> = vec![];
    let mut rejected = 0u64;
    for (t, sender, collector_ok, fee) in evs {
        w.set_time(*t);
        hist.push(json!({"t": t.to_string(), "sender": SENDERS[*sender], "collector_ok": collector_ok, "fee": fee.to_string()}));
        let replay = json!({"kind": "distributor_schedule", "duration": duration.to_string(), "genesis": genesis.to_string(), "grace_period": grace, "events": hist});
        if *fee > 0 { let _ = w.feed_collector("donor", *fee); }
        if !*collector_ok {
            // fault injection: the collector no longer recognises the distributor, so the ForwardFees submessage fails
            let (c, o) = (w.collector.clone(), Addr::unchecked(OWNER));
            w.app.execute_contract(o, c, &white_whale_std::fee_collector::ExecuteMsg::UpdateConfig { owner: None, pool_router: None,
                fee_distributor: Some("nobody".into()), pool_factory: None, vault_factory: None, take_rate: None, take_rate_dao_address: None, is_take_rate_active: None }, &[]).unwrap();
        }
        let before = { let e = w.q_current_epoch(); (e.id.u64(), e.start_time.nanos()) };
        let r = run_catch(|| w.new_epoch(SENDERS[*sender]), |e| classify_text(&format!("{:#}", e)));
        if !*collector_ok {
            let (c, o, d) = (w.collector.clone(), Addr::unchecked(OWNER), w.distributor.to_string());
            w.app.execute_contract(o, c, &white_whale_std::fee_collector::ExecuteMsg::UpdateConfig { owner: None, pool_router: None,
                fee_distributor: Some(d), pool_factory: None, vault_factory: None, take_rate: None, take_rate_dao_address: None, is_take_rate_active: None }, &[]).unwrap();
        }
        let after = { let e = w.q_current_epoch(); (e.id.u64(), e.start_time.nanos()) };
        let ok = matches!(r, Outcome::Ok(_));
        out.monitor_evals += 1;
        let first = before == (0, 0);
        let early = (*t as i128) - (before.1 as i128) < duration as i128;
        out.count(&format!("dist:new_epoch_{}{}{}", if ok { "ok" } else if matches!(r, Outcome::Panic(_)) { "panic" } else { "err" },
                           if early { "_early" } else { "" }, if first && *t < genesis { "_before_genesis" } else { "" }));
        if ok {
            created.push(after);
            if early { out.monitor_fail("C20", "fee distributor: a new epoch was created before the current one's duration elapsed", replay.clone()); }
            if first && *t < genesis { out.monitor_fail("C20", "fee distributor: an epoch was created before genesis", replay.clone()); }
            if after.0 != before.0 + 1 { out.monitor_fail("C20", "fee distributor: id did not increase by exactly one", replay.clone()); }
            let expect = if first { genesis as u128 } else { before.1 as u128 + duration as u128 };
            if after.1 as u128 != expect { out.monitor_fail("C20", "fee distributor: start time is neither genesis (first) nor previous start + duration", replay.clone()); }
            if after.1 > *t { out.monitor_fail("C20", "fee distributor: the new epoch starts in the future", replay.clone()); }
        } else {
            rejected += 1;
            if !early && *collector_ok && !(first && *t < genesis) {
                out.monitor_fail("C20", "fee distributor: NewEpoch was rejected although the current epoch's duration has elapsed (and genesis has passed)", replay.clone());
            }
            if after != before { out.monitor_fail("C20", "fee distributor: a rejected NewEpoch changed the current epoch", replay.clone()); }
        }
        terms.push(format!("({}, {})", t, coqbool(*collector_ok)));
        let mut o = obs_coarse(&r, |_| vec![]);
        o.push(after.0.to_string());
        o.push(after.1.to_string());
        obsv.extend(o);
    }
    // gap-free: every id 1..=current is stored with start = genesis + (id-1)*duration
    let replay = json!({"kind": "distributor_schedule", "duration": duration.to_string(), "genesis": genesis.to_string(), "grace_period": grace, "events": hist});
    out.monitor_evals += 1;
    let cur = w.q_current_epoch().id.u64();
    if cur as usize != created.len() { out.monitor_fail("C20", "fee distributor: current id differs from the number of epochs created", replay.clone()); }
    for k in 1..=cur {
        let e = w.q_epoch(k);
        if e.id.u64() != k || e.start_time.nanos() as u128 != genesis as u128 + (k as u128 - 1) * duration as u128 {
            out.monitor_fail("C20", &format!("fee distributor: stored epoch {} is missing or does not start at genesis + (id-1)*duration", k), replay.clone());
        }
    }
    let input = format!("(({}, {}), {})", duration, genesis, coqlist(&terms));
    if created.len() >= 2 && rejected >= 1 { out.nontrivial_key(hash_str(&input)); }
    out.count(&format!("dist:history_{}", tag));
    out.sample(replay.clone());
    out.case("c20_dist", &input, &obsv, replay);
}

fn gen_distributor(out: &mut Out, rng: &mut Rng) {
    let t0 = GENESIS_DEFAULT;
    let duration = *rng.pick(&[DAY_NS, DAY_NS, DAY_NS + 1, 2 * DAY_NS, 5 * DAY_NS]);
    let (genesis, tag) = match rng.below(6) {
        0 => (t0 - 10 * DAY_NS, "genesis_past"),
        1 => (t0 + DAY_NS, "genesis_future"),
        2 => (t0 + 1, "genesis_plus_1ns"),
        _ => (t0, "genesis_now"),
    };
    let grace = 1 + rng.below(5);
    let mut evs: Vec<(u64, usize, bool, u128)> = vec![];
    let mut t = t0;
    let mut start: u64 = 0;       // shadow of the current epoch's start (aims the schedule; the real one is observed)
    let n = 5 + rng.below(14);
    for _ in 0..n {
        t = if start == 0 {
            match rng.below(6) { 0 => genesis.saturating_sub(1).max(t), 1 | 2 => genesis.max(t), 3 => genesis.saturating_add(1).max(t), 4 => t, _ => t + rng.below(duration) }
        } else { next_time(rng, t, start, duration) };
        let ok = !rng.chance(1, 8);
        let fee = if rng.chance(1, 2) { magnitude(rng, 60) } else { 0 };
        if ok { if start == 0 { if t >= genesis { start = genesis; } } else if (t as u128) >= start as u128 + duration as u128 { start += duration; } }
        evs.push((t, rng.below(4) as usize, ok, fee));
    }
    run_distributor_case(out, duration, genesis, grace, &evs, tag);
}

fn corpus(out: &mut Out) {
    let t0 = GENESIS_DEFAULT;
    let d = DAY_NS;
    // manager: before start (abort), boundary -1/0/+1, repeated attempts in one block, late catch-up one epoch at a time, hooks
    run_manager_case(out, 0, t0 + 1_000, d, t0, &[
        (t0, MEv::Create { sender: 1, bad: vec![] }),
        (t0 + 1_000, MEv::Create { sender: 1, bad: vec![] }),
        (t0 + 1_000, MEv::Add { sender: 0, h: 0 }),
        (t0 + 1_000, MEv::Add { sender: 0, h: 0 }),
        (t0 + 1_000, MEv::Add { sender: 2, h: 1 }),
        (t0 + 1_000 + d - 1, MEv::Create { sender: 2, bad: vec![] }),
        (t0 + 1_000 + d, MEv::Create { sender: 2, bad: vec![] }),
        (t0 + 1_000 + d, MEv::Create { sender: 3, bad: vec![] }),
        (t0 + 1_000 + d, MEv::Add { sender: 0, h: 2 }),
        (t0 + 1_000 + 2 * d, MEv::Create { sender: 4, bad: vec![] }),      // sent by hook contract 0 itself (registered)
        (t0 + 1_000 + 3 * d, MEv::Create { sender: 6, bad: vec![] }),      // sent by hook contract 2 itself (registered)
        (t0 + 1_000 + 5 * d + 7, MEv::Create { sender: 0, bad: vec![2] }),
        (t0 + 1_000 + 5 * d + 7, MEv::Create { sender: 0, bad: vec![] }),
        (t0 + 1_000 + 5 * d + 7, MEv::Create { sender: 1, bad: vec![] }),
        (t0 + 1_000 + 5 * d + 7, MEv::Remove { sender: 0, h: 0 }),
        (t0 + 1_000 + 5 * d + 7, MEv::Create { sender: 1, bad: vec![] }),
        (t0 + 1_000 + 5 * d + 7, MEv::Create { sender: 1, bad: vec![] }),
        (t0 + 1_000 + 5 * d + 7, MEv::Create { sender: 1, bad: vec![] }),
    ], "corpus");
    run_manager_case(out, u64::MAX, t0, d, t0, &[(t0 + d, MEv::Create { sender: 1, bad: vec![] })], "corpus");
    // distributor: before genesis, at genesis, boundary -1/0, repeated, late, collector fault
    run_distributor_case(out, d, t0 + 500, 2, &[
        (t0, 1, true, 0), (t0 + 499, 2, true, 100), (t0 + 500, 2, true, 0), (t0 + 500, 3, true, 0),
        (t0 + 500 + d - 1, 0, true, 5_000), (t0 + 500 + d, 0, false, 0), (t0 + 500 + d, 0, true, 0), (t0 + 500 + d, 1, true, 0),
        (t0 + 500 + 4 * d + 3, 1, true, 77), (t0 + 500 + 4 * d + 3, 1, true, 0), (t0 + 500 + 4 * d + 3, 1, true, 0), (t0 + 500 + 4 * d + 3, 1, true, 0),
    ], "corpus");
}

pub fn run(args: &Args) {
    let mut out = Out::new(&args.out);
    out.rule = "a case = one schedule of 5..24 calls on a freshly deployed clock, block times aimed at {before start/genesis, exactly at, 1ns before/after each boundary, \
                half and several durations late, repeated attempts in one block}, any sender; manager cases mix AddHook/RemoveHook (admin and non-admin) and failing hook receivers, \
                distributor cases mix a collector fault; non-trivial = at least 2 epochs created and (manager) at least 2 kinds of accepted calls / (distributor) at least one rejection; \
                distinct = by hash of the model input".into();
    let mut rng = Rng::new(args.seed);
    corpus(&mut out);
    for i in 0..args.n { if i % 2 == 0 { gen_manager(&mut out, &mut rng); } else { gen_distributor(&mut out, &mut rng); } }
    out.finish();
}
