//! C06 — flash loans are repaid with all fees or the whole transaction reverts.
//! (1) fault enumeration: every borrower script over a concrete adversary alphabet up to a given length, with and
//!     without final repayment, native / cw20 asset, direct / through the vault router, three fee triples;
//! (2) random loan-heavy histories (deeper nesting, Try, interleaved deposits / withdrawals / collections / config changes).
//! The borrower is a REAL contract (w_vault::adv_contract) interpreting the script from its callback message.
use crate::common::*;
use crate::vault_hist::*;
use crate::w_vault::*;
use cosmwasm_std::Uint128;

fn u(x: u128) -> Uint128 { Uint128::new(x) }

const DEPOSIT: u128 = 1_000_003;
const ADV_DEPOSIT: u128 = 250_001;
const FUNDS: [u128; 5] = [0, 9_000_000, 5_000_000, 0, 3_000_000];

/// state before the enumerated operation: alice deposited, the borrower holds shares, a first loan left pending protocol fees
fn prelude() -> Vec<Op> {
    vec![
        Op::Deposit { u: 6, amount: u(DEPOSIT), sent: u(DEPOSIT) },
        Op::Run { script: vec![Act::Deposit { amount: u(ADV_DEPOSIT) }] },
        Op::Run { script: vec![Act::Loan { amount: u(700_001), script: vec![Act::RepayQ { neg: false, delta: u(0) }] }] },
    ]
}

/// the adversary alphabet for a loan of z (repayment target = vault for direct loans, router for router loans)
fn alphabet(z: u128, fees: (u128, u128, u128), via_router: bool) -> Vec<Act> {
    let q = z + floor_fee(z, fees.0) + floor_fee(z, fees.1) + floor_fee(z, fees.2);
    let tgt = if via_router { I_ROUTER } else { I_VAULT };
    let z2 = 400_000u128;
    let mut v = vec![
        if via_router { Act::Pay { to: tgt, amount: u(q) } } else { Act::RepayQ { neg: false, delta: u(0) } },
        if via_router { Act::Pay { to: tgt, amount: u(q - 1) } } else { Act::RepayQ { neg: true, delta: u(1) } },
        if via_router { Act::Pay { to: tgt, amount: u(q + 7) } } else { Act::RepayQ { neg: false, delta: u(7) } },
        Act::Pay { to: tgt, amount: u(z) },
        Act::Withdraw { amount: u(100_000) },
        Act::Collect {},
        Act::Deposit { amount: u(5_000) },
        Act::Fail {},
        Act::Try { script: vec![Act::Deposit { amount: u(5_000) }] },
        Act::Try { script: vec![Act::Pay { to: I_VAULT, amount: u(50_000) }, Act::Fail {}] },
        Act::Loan { amount: u(z2), script: vec![Act::RepayQ { neg: false, delta: u(0) }] },
        Act::Loan { amount: u(z2), script: vec![] },
    ];
    if via_router { v.push(Act::Pay { to: I_VAULT, amount: u(q) }); }
    v
}

fn enumerate(z: u128, fees: (u128, u128, u128), via_router: bool, max_len: usize) -> Vec<Vec<Act>> {
    let alpha = alphabet(z, fees, via_router);
    let mut out: Vec<Vec<Act>> = vec![vec![]];
    let mut layer: Vec<Vec<Act>> = vec![vec![]];
    for _ in 0..max_len {
        let mut next = vec![];
        for s in &layer { for a in &alpha { let mut t = s.clone(); t.push(a.clone()); next.push(t); } }
        out.extend(next.iter().cloned());
        layer = next;
    }
    out
}

pub fn run(args: &Args) {
    let mut out = Out::new(&args.out);
    out.rule = "one case = one history on a freshly deployed factory+vault+router+borrower contract; enumerated cases: prelude (deposit, borrower deposit, one \
                honest loan) + one loan whose callback script is drawn from the exhaustive list over the 12/13-letter adversary alphabet; random cases: 8..14 \
                loan-heavy operations drawn online. non-trivial = at least 3 successful operations of 3 kinds and a strict share-price change; distinct by hash".into();
    let mut rng = Rng::new(args.seed);
    if let Some(path) = &args.replay {
        let kind = crate::w_admin::read_replay(path)["failing_input"]["kind"].as_str().unwrap_or("").to_string();
        if kind == "owner_borrower_deposit_during_loan" || kind == "router_two_vaults" {
            if kind == "router_two_vaults" { router_two_vaults_probe(&mut out); } else { owner_borrower_probe(&mut out); }
            let bad = !out.monitor_failures.is_empty();
            for f in &out.monitor_failures { println!("REPLAY property predicate false: {}", f["what"]); }
            out.finish();
            std::process::exit(if bad { 1 } else { 0 });
        }
        match parse_replay(path) {
            Some((cw20, fees, funds, ops)) => {
                run_history(&mut out, "C06", "loans", &mut rng, Mix::Loans, cw20, fees, funds, Source::Fixed(ops));
                let bad = !out.monitor_failures.is_empty();
                for f in &out.monitor_failures { println!("REPLAY property predicate false: {}", f["what"]); }
                for f in &out.known_hits { println!("REPLAY known finding {}: {}", f["class"], f["what"]); }
                out.finish();
                std::process::exit(if bad { 1 } else { 0 });
            }
            None => { eprintln!("cannot parse replay file"); std::process::exit(2); }
        }
    }
    owner_borrower_probe(&mut out);
    router_two_vaults_probe(&mut out);
    // corpus: the probed nested-loan witness, both asset kinds
    for cw20 in [false, true] {
        let (f, fu, ops) = crate::c05::nested_witness();
        run_history(&mut out, "C06", "loans", &mut rng, Mix::Loans, cw20, f, fu, Source::Fixed(ops));
    }
    // (1) fault enumeration
    let thorough = args.tier == "thorough";
    let fee_sets: [(u128, u128, u128); 3] = [(DEC / 100, DEC / 100, 0), (DEC / 1000, 3 * DEC / 1000, 2 * DEC / 1000 + 1), (0, 0, 0)];
    let z = 600_000u128;
    let mut all: Vec<(bool, bool, (u128, u128, u128), Vec<Act>)> = vec![];
    for (fi, fees) in fee_sets.into_iter().enumerate() {
        for via_router in [false, true] {
            // thorough: length 3 for the first fee triple, length 2 for the others
            for s in enumerate(z, fees, via_router, if thorough && fi == 0 { 3 } else { 2 }) {
                for cw20 in [false, true] { all.push((cw20, via_router, fees, s.clone())); }
            }
        }
    }
    let budget = if thorough { all.len() } else { (args.n as usize * 2 / 3).max(60) };
    let stride = (all.len() / budget).max(1);
    let offset = (rng.below(stride as u64)) as usize;
    let mut enumerated = 0u64;
    for (k, (cw20, via_router, fees, s)) in all.iter().enumerate() {
        if k % stride != offset && !(s.len() <= 1) { continue; }
        let mut ops = prelude();
        if *via_router { ops.push(Op::RouterLoan { u: 7, amount: u(z), pre: u(z), script: s.clone() }); }
        else { ops.push(Op::Run { script: vec![Act::Loan { amount: u(z), script: s.clone() }] }); }
        // afterwards everybody can still get out
        ops.push(Op::Withdraw { u: 6, amount: u(1_000) });
        run_history(&mut out, "C06", "loans", &mut rng, Mix::Loans, *cw20, *fees, FUNDS, Source::Fixed(ops));
        out.count(if *via_router { "enumerated:router" } else { "enumerated:direct" });
        enumerated += 1;
    }
    // (2) random loan-heavy histories
    let nrand = if thorough { args.n } else { args.n.saturating_sub(enumerated).max(args.n / 4) };
    for i in 0..nrand {
        let cw20 = i % 2 == 0;
        let fees = gen_fees(&mut rng);
        let funds = gen_funds(&mut rng);
        let len = 8 + rng.below(7) as usize;
        run_history(&mut out, "C06", "loans", &mut rng, Mix::Loans, cw20, fees, funds, Source::Gen(len));
        out.count("random_history");
    }
    // (3) router loans with native coins attached to the FlashLoan message (model op ORouterLoanF + dedicated monitors): the router keeps nothing - the vault gains exactly the quoted fees, the initiator gets the rest back
    for i in 0..(args.n / 10).max(12) {
        let fees = gen_fees(&mut rng);
        let mut w = match deploy(false, fees, FUNDS) { Ok(w) => w, Err(_) => continue };
        for o in prelude() { w.exec(&o); }
        let b = w.dump();
        let z = (b.bal / (2 + rng.below(5) as u128)).max(1);
        let q = z + floor_fee(z, b.fees.0) + floor_fee(z, b.fees.1) + floor_fee(z, b.fees.2);
        let attached = match i % 3 { 0 => 100, 1 => q - z + 7, _ => 1 + rng.below128(1_000_000) };
        // the payload passes the whole loan to the borrower contract, which pays the quoted amount back to the router out of
        // the loan plus the initiator's attached coins
        let script = vec![Act::Pay { to: I_ROUTER, amount: u(z) }];
        // the same operation as a correspondence case (model op ORouterLoanF)
        let mut ops = prelude();
        ops.push(Op::RouterLoanF { u: 7, amount: u(z), pre: u(z), script: script.clone(), attached: u(attached) });
        ops.push(Op::Withdraw { u: 6, amount: u(1_000) });
        run_history(&mut out, "C06", "loans", &mut rng, Mix::Loans, false, fees, FUNDS, Source::Fixed(ops));
        let code = w.router_loan_with_funds(7, z, z, &script, attached);
        let a = w.dump();
        out.monitor_evals += 1;
        out.count(if code == 0 { "router_funds:ok" } else { "router_funds:rejected" });
        let replay = serde_json::json!({"kind": "vault_router FlashLoan with attached native coins", "fees": [fees.0.to_string(), fees.1.to_string(), fees.2.to_string()],
            "loan": z.to_string(), "attached": attached.to_string(), "quoted_payback": q.to_string()});
        if code == 0 {
            let gain = a.bal as i128 - b.bal as i128;
            let want = (floor_fee(z, b.fees.0) + floor_fee(z, b.fees.1)) as i128;
            if gain != want { out.monitor_fail("C06", &format!("router loan with attached coins: the vault's balance changed by {} instead of the quoted protocol + flash-loan fees {}", gain, want), replay.clone()); }
            if a.ab[I_ROUTER] != b.ab[I_ROUTER] { out.monitor_fail("C06", "the vault router kept funds after a loan", replay.clone()); }
            let paid = b.ab[7] as i128 - a.ab[7] as i128;
            if paid != (q - z) as i128 { out.monitor_fail("C06", &format!("the initiator paid {} for a loan whose fees are {} (attached coins not returned)", paid, q - z), replay.clone()); }
        } else if a != b { out.monitor_fail("C06", "a reverted router loan changed balances or ledgers", replay.clone()); }
    }
    out.finish();
}

/// A borrower that OWNS the vault (ownership handed to the borrower contract) reconfigures the vault from inside its callback
/// (flash loans off / on, deposits on) and tries to deposit while its loan is outstanding. Whatever the switches say in between, a
/// deposit during a loan is refused: uncaught it fails the transaction, caught it leaves the loan exactly as it is without the attempt.
/// (Monitor only: the vault machine's scripts do not contain configuration updates.)
fn owner_borrower_probe(out: &mut Out) {
    use cosmwasm_std::Binary;
    use serde_json::json;
    for cw20 in [false, true] {
        let fees = (DEC / 1000, 3 * DEC / 1000, 0);
        let fresh = || -> Option<VaultWorld> {
            let mut w = deploy(cw20, fees, [1_000_000_000, 5_000_000_000, 5_000_000_000, 5_000_000_000, 2_000_000_000]).ok()?;
            if w.exec(&Op::Deposit { u: 6, amount: u(1_000_000), sent: u(1_000_000) }) != 0 { return None; }
            // the factory owner hands the vault to the borrower contract
            if w.exec(&Op::Update { u: I_FOWNER, via_factory: true, p: UParams { owner: Some(I_ADV), ..Default::default() } }) != 0 { return None; }
            Some(w)
        };
        let Some(probe) = fresh() else { out.count("owner_borrower:setup_failed"); continue };
        let vault = probe.vault.to_string();
        let upd = |fl: Option<bool>, dep: Option<bool>| -> Act {
            Act::Raw { target: vault.clone(), msg: Binary::from(serde_json::to_vec(&json!({"update_config": {"flash_loan_enabled": fl, "deposit_enabled": dep, "withdraw_enabled": null,
                "new_owner": null, "new_vault_fees": null, "new_fee_collector_addr": null}})).unwrap()) }
        };
        let loan = 990_000u128;
        let repay = Act::RepayQ { neg: false, delta: Uint128::zero() };
        let run = |w: &mut VaultWorld, inner: Vec<Act>| -> i64 { w.exec(&Op::Run { script: vec![Act::Loan { amount: u(loan), script: inner }] }) };
        // control: the owner-borrower toggles the switch and back, no deposit
        let Some(mut ctl) = fresh() else { continue };
        let c0 = run(&mut ctl, vec![upd(Some(false), None), upd(Some(true), Some(true)), repay.clone()]);
        if c0 != 0 { out.count("owner_borrower:control_failed"); continue; }
        let ctl_dump = ctl.dump();
        for d in [10_000u128, 1, 1_000_000] {
            let replay = json!({"kind": "owner_borrower_deposit_during_loan", "vault_asset_cw20": cw20, "loan": loan.to_string(), "deposit": d.to_string(),
                                "script": "loan { update_config(flash_loan_enabled=false); deposit; update_config(flash_loan_enabled=true, deposit_enabled=true); repay quote }"});
            let Some(mut a) = fresh() else { continue };
            let d0 = a.dump();
            let code = run(&mut a, vec![upd(Some(false), None), Act::Deposit { amount: u(d) }, upd(Some(true), Some(true)), repay.clone()]);
            out.monitor_evals += 1;
            out.count(if code == 0 { "owner_borrower:deposit_during_loan_accepted" } else { "owner_borrower:deposit_during_loan_rejected" });
            if code == 0 { out.monitor_fail("C06", "a deposit was accepted while a flash loan was outstanding (the vault's owner switched flash loans off inside its callback)", replay.clone()); }
            else if a.dump() != d0 { out.monitor_fail("C06", "a rejected loan transaction changed the vault", replay.clone()); }
            let Some(mut b) = fresh() else { continue };
            let code = run(&mut b, vec![upd(Some(false), None), Act::Try { script: vec![Act::Deposit { amount: u(d) }] }, upd(Some(true), Some(true)), repay.clone()]);
            out.monitor_evals += 1;
            if code != 0 { out.monitor_fail("C06", "a refused (and caught) deposit during a loan made the loan fail", replay.clone()); }
            else if b.dump() != ctl_dump { out.monitor_fail("C06", "a deposit attempted during a loan left a trace (shares minted / balances moved)", replay.clone()); }
        }
    }
}

/// Two router loans interleaved in one transaction on DIFFERENT vaults: bob's router loan on the main vault hands the funds to the
/// borrower contract, which - before settling - takes its own router loan on a second vault (zero fees, repaid at once). The router
/// must still forward what remains of the OUTER loan to the outer loan's initiator (bob), and keep nothing.
/// (Monitor only: the vault machine has one vault.)
fn router_two_vaults_probe(out: &mut Out) {
    use cosmwasm_std::{coin, Addr, Binary};
    use cw_multi_test::Executor;
    use serde_json::json;
    use white_whale_std::pool_network::asset::AssetInfo;
    let fees = (DEC / 100, DEC / 200, 0);
    for surplus in [5_000u128, 0, 1] {
        let Ok(mut w) = deploy(false, fees, [1_000_000_000, 5_000_000_000, 5_000_000_000, 5_000_000_000, 2_000_000_000]) else { out.count("two_vaults:setup_failed"); continue };
        if w.exec(&Op::Deposit { u: 6, amount: u(3_000_000), sent: u(3_000_000) }) != 0 { continue; }
        // second vault: asset `ujunk` (every account holds it), no fees
        let junk = AssetInfo::NativeToken { denom: "ujunk".into() };
        let owner = w.addr(I_FOWNER);
        let fac = w.factory.clone();
        if w.app.execute_contract(owner, fac.clone(), &white_whale_std::vault_network::vault_factory::ExecuteMsg::CreateVault { asset_info: junk.clone(), fees: vfee(0, 0, 0), token_factory_lp: false }, &[]).is_err() {
            out.count("two_vaults:second_vault_failed"); continue;
        }
        let v2: Option<String> = w.app.wrap().query_wasm_smart(&fac, &white_whale_std::vault_network::vault_factory::QueryMsg::Vault { asset_info: junk.clone() }).unwrap_or(None);
        let Some(v2) = v2 else { continue };
        let alice = w.addr(6);
        if w.app.execute_contract(alice, Addr::unchecked(&v2), &white_whale_std::vault_network::vault::ExecuteMsg::Deposit { amount: u(1_000_000) }, &[coin(1_000_000, "ujunk")]).is_err() { continue; }
        let loan = 500_000u128;
        let q = match w.payback(loan) { Ok(p) => p.0, Err(_) => continue };
        let inner = json!({"flash_loan": {"assets": [{"info": {"native_token": {"denom": "ujunk"}}, "amount": "1000"}], "msgs": []}});
        let script = vec![Act::Raw { target: w.router.to_string(), msg: Binary::from(serde_json::to_vec(&inner).unwrap()) },
                          Act::Pay { to: I_ROUTER, amount: u(q + surplus) }];
        let bob = w.addr(7).to_string();
        let (b0, r0, a0) = (w.asset_bal(&bob), w.asset_bal(w.router.as_str()), w.asset_bal(w.adv.as_str()));
        let code = w.exec(&Op::RouterLoan { u: 7, amount: u(loan), pre: u(loan), script });
        let replay = json!({"kind": "router_two_vaults", "outer_loan": loan.to_string(), "inner_loan_ujunk": "1000", "surplus_left_on_router": surplus.to_string(),
                            "fees_protocol_flash_burn": [fees.0.to_string(), fees.1.to_string(), fees.2.to_string()]});
        out.monitor_evals += 1;
        out.count(if code == 0 { "two_vaults:completed" } else { "two_vaults:rejected" });
        if code != 0 { out.monitor_fail("C06", "a router loan whose borrower takes (and repays) a router loan on another vault in between was rejected", replay); continue; }
        let (b1, r1, a1) = (w.asset_bal(&bob), w.asset_bal(w.router.as_str()), w.asset_bal(w.adv.as_str()));
        if b1 != b0 + surplus { out.monitor_fail("C06", &format!("the router forwarded {} to the outer loan's initiator, {} remained after settling the outer loan", b1 as i128 - b0 as i128, surplus), replay.clone()); }
        if r1 != r0 { out.monitor_fail("C06", "the router kept funds after the loans", replay.clone()); }
        if a0 + loan != a1 + q + surplus { out.monitor_fail("C06", "the borrower's balance moved by something else than what it paid", replay.clone()); }
    }
}
