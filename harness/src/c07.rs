//! C07 — protocol / burn fee accounting on the constant-product pair (histories biased to tiny swaps so that
//! pending amounts land in {0, 1..1000, 1001..}); trio and vault streams are separate modules.
use crate::common::*;
use crate::pairhist::Bias;

pub fn run(args: &Args) {
    crate::c01::run_prop(args, "C07", Bias { tiny_swaps: true, spreads: false, toggles: false },
        "histories of 5-35 operations on a real constant-product pair biased to small swaps and frequent fee collections so that pending \
         protocol fees are zero, at or below, and above the collection threshold; non-trivial = at least 3 different operation kinds succeeded; \
         distinct = by hash of the whole case");
}
