//! C07 — protocol / burn fee accounting on the constant-product pair (histories biased to tiny swaps so that
//! pending amounts land in {0, 1..1000, 1001..}); trio and vault streams are separate modules.
use crate::common::*;
use crate::pairhist::Bias;

pub fn run(args: &Args) {
    crate::c01::run_prop_with(args, "C07", Bias { tiny_swaps: true, spreads: false, toggles: false },
        "histories of 5-35 operations on a real constant-product pair biased to small swaps and frequent fee collections so that pending \
         protocol fees are zero, at or below, and above the collection threshold; non-trivial = at least 3 different operation kinds succeeded; \
         distinct = by hash of the whole case; plus histories on the real three-asset pool (C04 pool stream) and on the real vault with a scripted borrower (loans, collections, deposits, withdrawals)",
        &|out, rng, n| {
            // three-asset pool: ledger identity / conservation monitors of the trio stream
            crate::c04_pool::pool_histories(out, rng, (n / 6).max(12));
            // vault: loans (fees charged), collections, and everything else
            for i in 0..(n / 3).max(30) {
                let cw20 = i % 2 == 1;
                let fees = crate::vault_hist::gen_fees(rng);
                let funds = crate::vault_hist::gen_funds(rng);
                let len = 8 + rng.below(9) as usize;
                crate::vault_hist::run_history(out, "C07", "vault", rng, crate::vault_hist::Mix::Loans, cw20, fees, funds, crate::vault_hist::Source::Gen(len));
            }
        });
}
