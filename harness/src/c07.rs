//! C07 — protocol / burn fee accounting on the constant-product pair (histories biased to tiny swaps so that
//! pending amounts land in {0, 1..1000, 1001..}); trio and vault streams are separate modules.
use crate::common::*;
use crate::pairhist::Bias;

pub fn run(args: &Args) {
    if let Some(path) = &args.replay {
        if crate::w_admin::read_replay(path)["failing_input"]["kind"] == "migration_probe" {
            let mut out = Out::new(&args.out);
            migration_probes(&mut out);
            for f in &out.monitor_failures { println!("REPLAY property predicate false: {}", f["what"]); }
            let bad = !out.monitor_failures.is_empty();
            out.finish();
            std::process::exit(if bad { 1 } else { 0 });
        }
    }
    crate::c01::run_prop_with(args, "C07", Bias { tiny_swaps: true, spreads: false, toggles: false },
        "histories of 5-35 operations on a real constant-product pair biased to small swaps and frequent fee collections so that pending \
         protocol fees are zero, at or below, and above the collection threshold; non-trivial = at least 3 different operation kinds succeeded; \
         distinct = by hash of the whole case; plus histories on the real three-asset pool (C04 pool stream) and on the real vault with a scripted borrower (loans, collections, deposits, withdrawals)",
        &|out, rng, n| {
            migration_probes(out);
            // three-asset pool: ledger identity / conservation monitors of the trio stream
            crate::c04_pool::pool_histories(out, rng, (n / 6).max(12));
            // vault: loans (fees charged), collections, and everything else
            for i in 0..(n / 3).max(30) {
                let cw20 = i % 2 == 1;
                let fees = crate::vault_hist::gen_fees(rng);
                let funds = crate::vault_hist::gen_funds(rng);
                let len = 8 + rng.below(9) as usize;
                crate::vault_hist::run_history(out, "C07", "vault", rng, crate::vault_hist::Mix::Loans, cw20, fees, funds, crate::vault_hist::Source::Gen(len));
            }
        });
}

/// a pair, a three-asset pool and a vault (both asset kinds) that have charged, collected and burned fees; then `migrate` on a copy
/// of their storage (see migr.rs): counters "only grow" also across a migration
fn migration_probes(out: &mut Out) {
    use crate::w_vault::{Act, Op};
    use crate::world::*;
    use cosmwasm_std::Uint128;
    use white_whale_std::pool_network::asset::PairType;
    let u = Uint128::new;
    // pair
    for kinds in [[false, false], [false, true]] {
        if let Ok(mut w) = deploy_pair(kinds, [6, 6], pool_fee(DEC / 100, 3 * DEC / 1000, DEC / 500), PairType::ConstantProduct) {
            let _ = w.provide("alice", 2_000_000_000, 1_500_000_000, None, None);
            let _ = w.swap("bob", 0, 300_000_000, None, Some(dec(DEC / 2)), None);
            let _ = w.swap("carol", 1, 5_000, None, Some(dec(DEC / 2)), None);
            let _ = w.collect("bob");
            let _ = w.swap("bob", 1, 200_000_000, None, Some(dec(DEC / 2)), None);
            crate::migr::probe_pair(out, &w.app.dump_wasm_raw(&w.pair));
        }
    }
    // three-asset pool
    if let Ok(mut w) = crate::w_stable::deploy_trio([false, true, false], [6, 6, 6], crate::w_stable::trio_fee(DEC / 100, 3 * DEC / 1000, DEC / 500), 100) {
        let _ = w.provide("alice", [1_000_000_000, 1_000_000_000, 1_000_000_000], None);
        let _ = w.swap("bob", 0, 1, 50_000_000, None, Some(cosmwasm_std::Decimal::percent(50)));
        let _ = w.swap("carol", 1, 2, 300_000, None, Some(cosmwasm_std::Decimal::percent(50)));
        let _ = w.collect("bob");
        let _ = w.swap("bob", 2, 0, 70_000_000, None, Some(cosmwasm_std::Decimal::percent(50)));
        crate::migr::probe_trio(out, &w.app.dump_wasm_raw(&w.trio));
    }
    // vault
    for cw20 in [false, true] {
        if let Ok(mut w) = crate::w_vault::deploy(cw20, (DEC / 100, DEC / 200, DEC / 1000), [0, 9_000_000, 5_000_000, 3_000_000, 3_000_000]) {
            w.exec(&Op::Deposit { u: 6, amount: u(2_000_000), sent: u(2_000_000) });
            w.exec(&Op::Run { script: vec![Act::Loan { amount: u(1_500_000), script: vec![Act::RepayQ { neg: false, delta: u(0) }] }] });
            w.exec(&Op::Collect { u: 7 });
            w.exec(&Op::Run { script: vec![Act::Loan { amount: u(700_000), script: vec![Act::RepayQ { neg: false, delta: u(0) }] }] });
            crate::migr::probe_vault(out, &w.app.dump_wasm_raw(&w.vault));
        }
    }
}
