//! C02 — constant-product swap arithmetic: hooked pure function, PoolFee::is_valid, Simulation query.
use crate::common::*;
use crate::world::*;
use cosmwasm_std::{Uint128, Uint256, Uint512};
use serde_json::json;
use terraswap_pair::verif_hooks as pairh;
use white_whale_std::pool_network::asset::PairType;

pub struct Swap5 { pub ret: u128, pub spread: u128, pub sf: u128, pub pf: u128, pub bf: u128 }

pub fn impl_swap(op: u128, ask: u128, x: u128, f: (u128, u128, u128)) -> Outcome<Swap5> {
    run_catch(
        || pairh::compute_swap(Uint128::new(op), Uint128::new(ask), Uint128::new(x), pool_fee(f.0, f.1, f.2),
                               &PairType::ConstantProduct, 6, 6)
            .map(|s| Swap5 { ret: s.return_amount.u128(), spread: s.spread_amount.u128(), sf: s.swap_fee_amount.u128(),
                             pf: s.protocol_fee_amount.u128(), bf: s.burn_fee_amount.u128() }),
        |_e| E_OTHER,
    )
}

fn u512(x: u128) -> Uint512 { Uint512::from(Uint128::new(x)) }
fn floor_fee(share: u128, gross: Uint512) -> Uint512 { gross * u512(share) / u512(DEC) }

/// the property's own predicate evaluated on the implementation (independent big-integer arithmetic)
pub fn monitor(out: &mut Out, op: u128, ask: u128, x: u128, f: (u128, u128, u128), r: &Outcome<Swap5>, replay: &serde_json::Value) {
    out.monitor_evals += 1;
    let gross = u512(ask) * u512(x) / (u512(op) + u512(x));
    let rate = u512(ask) * u512(DEC) / u512(op);
    let t = u512(x) * rate / u512(DEC);
    let ideal_spread = if t > gross { t - gross } else { Uint512::zero() };
    let fits = ideal_spread < Uint512::from(Uint256::from(1u8) << 128);
    match r {
        Outcome::Panic(m) => out.monitor_fail("C02", &format!("swap computation aborted (panic: {m})"), replay.clone()),
        Outcome::Err(_) => if fits { out.monitor_fail("C02", "swap computation rejected although every result fits in 128 bits", replay.clone()) },
        Outcome::Ok(s) => {
            let sum = u512(s.ret) + u512(s.sf) + u512(s.pf) + u512(s.bf);
            if sum != gross { out.monitor_fail("C02", "proceeds + fees != floor(ask*offer/(offer_reserve+offer))", replay.clone()); }
            if u512(s.sf) != floor_fee(f.1, gross) || u512(s.pf) != floor_fee(f.0, gross) || u512(s.bf) != floor_fee(f.2, gross) {
                out.monitor_fail("C02", "a fee differs from floor(fee_share*gross)", replay.clone());
            }
            if s.ret >= ask { out.monitor_fail("C02", "proceeds not strictly below the ask reserve", replay.clone()); }
            // there and straight back
            let ask2 = match ask.checked_sub(s.ret).and_then(|v| v.checked_sub(s.pf)).and_then(|v| v.checked_sub(s.bf)) {
                Some(v) => v,
                None => { out.monitor_fail("C02", "proceeds + protocol fee + burn fee exceed the ask reserve", replay.clone()); return; }
            };
            if let Some(op2) = op.checked_add(x) {
                if s.ret > 0 && ask2 > 0 {
                    if let Outcome::Ok(s2) = impl_swap(ask2, op2, s.ret, f) {
                        if s2.ret > x { out.monitor_fail("C02", "round trip returned more than was put in", replay.clone()); }
                    }
                }
            }
        }
    }
}

fn swap_obs(s: &Swap5) -> Vec<String> { vec![s.ret.to_string(), s.spread.to_string(), s.sf.to_string(), s.pf.to_string(), s.bf.to_string()] }

fn gen_triple(rng: &mut Rng) -> (u128, u128, u128) {
    match rng.below(10) {
        // rate-truncation corner: tiny ask reserve against a huge offer reserve
        0 => (magnitude(rng, 128).max(DEC), 1 + rng.below(5) as u128, magnitude(rng, 128)),
        1 => { let a = magnitude(rng, 128); (a, a, magnitude(rng, 128)) }
        2 => (1, magnitude(rng, 128), magnitude(rng, 128)),
        _ => (magnitude(rng, 128), magnitude(rng, 128), magnitude(rng, 128)),
    }
}

/// `./check C02 --replay FILE`: re-run the recorded pure compute_swap case with the property's monitor
fn replay(path: &str, scratch: &str) -> i32 {
    let v: serde_json::Value = match std::fs::read_to_string(path).ok().and_then(|t| serde_json::from_str(&t).ok()) { Some(v) => v, None => { eprintln!("cannot read {path}"); return 2; } };
    let fi = v.get("failing_input").cloned().unwrap_or(v.clone());
    let g = |k: &str| -> Option<u128> { fi.get(k)?.as_str()?.parse().ok() };
    let fees = fi.get("fees_protocol_swap_burn").and_then(|f| Some((f[0].as_str()?.parse::<u128>().ok()?, f[1].as_str()?.parse::<u128>().ok()?, f[2].as_str()?.parse::<u128>().ok()?)));
    let (op, ask, x, f) = match (g("offer_pool").or_else(|| fi["reserves"][0].as_str()?.parse().ok()), g("ask_pool").or_else(|| fi["reserves"][1].as_str()?.parse().ok()), g("offer"), fees) {
        (Some(a), Some(b), Some(c), Some(d)) => (a, b, c, d), _ => { eprintln!("no compute_swap case in {path}"); return 2; } };
    let mut out = Out::new(scratch);
    let r = impl_swap(op, ask, x, f);
    monitor(&mut out, op, ask, x, f, &r, &fi);
    match &r { Outcome::Ok(s) => println!("compute_swap({op}, {ask}, {x}) = return {} spread {} fees {}/{}/{}", s.ret, s.spread, s.sf, s.pf, s.bf), Outcome::Err(_) => println!("compute_swap rejected"), Outcome::Panic(m) => println!("compute_swap aborted: {m}") }
    if out.monitor_failures.is_empty() { println!("property C02 holds on this input"); 0 } else { for f in &out.monitor_failures { println!("FAILS: {}", f["what"]); } 1 }
}

pub fn run(args: &Args) {
    if let Some(f) = &args.replay { std::process::exit(replay(f, &format!("{}/scratch", args.out))); }
    let mut out = Out::new(&args.out);
    out.rule = "inputs (offer_reserve, ask_reserve, offer, fee triple) drawn from the magnitude buckets of DESIGN 2.3 plus corner shapes; \
                non-trivial = the implementation returned Ok with gross >= 1 and at least one floor division in gross or a fee left a non-zero remainder; \
                distinct = by hash of the full input".into();
    let mut rng = Rng::new(args.seed);
    // corpus first: the regression witness of the fixed defect
    let mut cases: Vec<(u128, u128, u128, (u128, u128, u128))> = vec![
        (4_000_000_000_000_000_000, 3, 1u128 << 127, (0, 0, 0)),
        (4_000_000_000_000_000_000, 3, 1u128 << 127, (DEC / 1000, 3 * DEC / 1000, 0)),
        (1, 1, 1, (0, 0, 0)),
        (u128::MAX, u128::MAX, u128::MAX, (DEC - 3, 1, 1)),
    ];
    for _ in 0..args.n {
        let (op, ask, x) = gen_triple(&mut rng);
        let valid = !rng.chance(1, 25);
        cases.push((op, ask, x, fee_triple(&mut rng, valid)));
    }
    for (op, ask, x, f) in cases {
        let replay = json!({"kind": "pure_compute_swap", "offer_pool": op.to_string(), "ask_pool": ask.to_string(),
                            "offer": x.to_string(), "fees_protocol_swap_burn": [f.0.to_string(), f.1.to_string(), f.2.to_string()]});
        let r = impl_swap(op, ask, x, f);
        let valid = f.0 < DEC && f.1 < DEC && f.2 < DEC && f.0 + f.1 + f.2 < DEC;
        if valid { monitor(&mut out, op, ask, x, f, &r, &replay); }
        match &r {
            Outcome::Ok(s) => {
                out.count("pure:ok");
                let g = u512(ask) * u512(x);
                let rem = g % (u512(op) + u512(x)) != Uint512::zero();
                if s.ret + s.sf + s.pf + s.bf >= 1 && (rem || s.sf + s.pf + s.bf > 0) { out.nontrivial_key(hash64(&[op, ask, x, f.0, f.1, f.2])); }
            }
            Outcome::Err(_) => out.count("pure:err"),
            Outcome::Panic(_) => out.count("pure:panic"),
        }
        out.count(&format!("offer_bits:{}", (128 - x.leading_zeros()) / 16 * 16));
        out.sample(replay.clone());
        let input = format!("(({}, {}, {}), ({}, {}, {}))", op, ask, x, f.0, f.1, f.2);
        // invalid fee triples are outside the model's domain only w.r.t. the theorems; the model is still run on them
        out.case("c02", &input, &obs(&r, swap_obs), replay);
    }
    // PoolFee::is_valid decision
    for i in 0..(args.n / 4).max(40) {
        let f = if i % 3 == 0 {
            let a = rng.below128(DEC + 2); let b = rng.below128(DEC + 2 - a.min(DEC + 1)); (a, b, (DEC + 1).saturating_sub(a + b).saturating_sub(rng.below(3) as u128))
        } else { fee_triple(&mut rng, false) };
        let f = if i == 1 { (u128::MAX, u128::MAX, 5) } else { f };
        let v = pool_fee(f.0, f.1, f.2).is_valid().is_ok();
        out.count(if v { "fees:valid" } else { "fees:invalid" });
        out.case("c02_valid", &format!("({}, {}, {})", f.0, f.1, f.2), &[if v { "1".into() } else { "0".into() }],
                 json!({"kind": "poolfee_is_valid", "fees_protocol_swap_burn": [f.0.to_string(), f.1.to_string(), f.2.to_string()]}));
    }
    // Simulation query on a deployed pair (query glue: reserve selection, fee lookup)
    let nq = (args.n / 40).max(12);
    for i in 0..nq {
        let f = fee_triple(&mut rng, true);
        let kinds = [i % 2 == 1, i % 4 >= 2];
        // the pair's asset_decimals must not matter to a constant-product pool ("all decimal settings", beyond 18 included)
        let decs = *rng.pick(&[[6u8, 6u8], [6, 18], [18, 6], [24, 6], [6, 20], [0, 30]]);
        let mut w = match deploy_pair(kinds, decs, pool_fee(f.0, f.1, f.2), PairType::ConstantProduct) { Ok(w) => w, Err(_) => continue };
        let cap = if kinds[0] || kinds[1] { 120 } else { 124 };
        let (d0, d1) = if i == 0 { (4_000_000_000_000_000_000u128, 3u128 + 1_000_000_000) } else { (magnitude(&mut rng, cap).max(2000), magnitude(&mut rng, cap).max(2000)) };
        if w.provide("alice", d0, d1, None, None).is_err() { out.count("sim:provide_rejected"); continue; }
        // every other pool first trades in both directions, so that protocol fees are pending on BOTH assets when it is quoted;
        // the reserves the quote must be computed from are then the reported ones (balance - pending fee)
        let (mut d0, mut d1) = (d0, d1);
        if i % 2 == 0 && i > 0 {
            let _ = std::panic::catch_unwind(std::panic::AssertUnwindSafe(|| { let _ = w.swap("bob", 0, d0 / 7 + 1, None, Some(dec(DEC / 2)), None); let _ = w.swap("carol", 1, d1 / 9 + 1, None, Some(dec(DEC / 2)), None); }));
            if let Ok(p) = w.query_pool() { d0 = p.assets[0].amount.u128(); d1 = p.assets[1].amount.u128(); }
            let pend = w.fees_query(false);
            out.count(if pend[0] > 0 && pend[1] > 0 { "sim:pending_fees_both" } else { "sim:pending_fees_not_both" });
        }
        // "every valid fee configuration" includes one reached by UpdateConfig while fees charged under the previous one are still pending:
        // every fourth pool is then given another valid schedule (protocol fee 0 in half of them) before it is quoted
        let mut f = f;
        if i % 4 == 0 && i > 0 {
            let mut nf = fee_triple(&mut rng, true);
            if (i / 4) % 2 == 1 { nf.0 = 0; }
            let msg = white_whale_std::pool_network::pair::ExecuteMsg::UpdateConfig { owner: None, fee_collector_addr: None, pool_fees: Some(pool_fee(nf.0, nf.1, nf.2)), feature_toggle: None };
            let pair = w.pair.clone();
            match cw_multi_test::Executor::execute_contract(&mut w.app, cosmwasm_std::Addr::unchecked(OWNER), pair, &msg, &[]) {
                Ok(_) => { f = nf; out.count(if nf.0 == 0 { "sim:fees_changed_protocol_zero" } else { "sim:fees_changed" }); }
                Err(_) => out.count("sim:fee_change_rejected"),
            }
        }
        for _ in 0..4 {
            let dir = rng.below(2) as usize;
            let x = magnitude(&mut rng, 127);
            let (op, ask) = if dir == 0 { (d0, d1) } else { (d1, d0) };
            let replay = json!({"kind": "simulation_query", "asset_kinds_cw20": kinds, "reserves": [d0.to_string(), d1.to_string()], "offer_index": dir,
                                "offer": x.to_string(), "fees_protocol_swap_burn": [f.0.to_string(), f.1.to_string(), f.2.to_string()]});
            let r = match w.simulate(dir, x) {
                Ok(s) => Outcome::Ok(Swap5 { ret: s.return_amount.u128(), spread: s.spread_amount.u128(), sf: s.swap_fee_amount.u128(),
                                             pf: s.protocol_fee_amount.u128(), bf: s.burn_fee_amount.u128() }),
                Err(e) if e == "PANIC" => Outcome::Panic(e),
                Err(_) => Outcome::Err(E_OTHER),
            };
            monitor(&mut out, op, ask, x, f, &r, &replay);
            out.count(match &r { Outcome::Ok(_) => "sim:ok", Outcome::Err(_) => "sim:err", Outcome::Panic(_) => "sim:panic" });
            let input = format!("(({}, {}, {}), ({}, {}, {}))", op, ask, x, f.0, f.1, f.2);
            out.case("c02", &input, &obs(&r, swap_obs), replay);
        }
    }
    // cosmwasm-std primitives against Prim.v
    crate::prim::run_stream(&mut out, &mut rng, (args.n / 2).max(200));
    out.finish();
}
