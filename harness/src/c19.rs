//! C19 — factories and router registries: one child per asset set regardless of order, the registry tells the truth,
//! remove / re-create, pagination returns every entry exactly once, the router only stores / executes routes over registered pairs.
//! Histories of create / remove / re-create / route operations on the REAL pool factory, vault factory, incentive factory and
//! pool router over a universe of native and cw20 assets given in every order; after every operation all four registries are
//! listed through the public queries and the operation's asset set is looked up in every permutation.
use crate::common::*;
use crate::w_admin::*;
use cosmwasm_std::{coin, to_json_binary, Addr, Coin, Uint128};
use cw20::Cw20ExecuteMsg;
use cw_multi_test::Executor;
use serde::{Deserialize, Serialize};
use serde_json::{json, Value};
use std::collections::BTreeMap;
use vault_factory::asset::AssetReference;
use white_whale_std::pool_network::asset::{Asset, AssetInfo, PairInfo, PairType, TrioInfo};
use white_whale_std::pool_network::factory as f;
use white_whale_std::pool_network::incentive_factory as inf;
use white_whale_std::pool_network::router as rt;
use white_whale_std::vault_network::vault_factory as vf;

#[derive(Clone, Debug, Serialize, Deserialize, PartialEq)]
pub enum Op {
    CreatePair(usize, usize), RemovePair(usize, usize),
    CreateTrio(usize, usize, usize), RemoveTrio(usize, usize, usize),
    CreateVault(usize), RemoveVault(usize),
    CreateIncentive(usize),
    AddRoute(usize, usize, Vec<(usize, usize)>), RemoveRoute(usize, usize),
    ExecHop(usize, usize),
}
impl Op {
    pub fn coq(&self) -> String {
        match self {
            Op::CreatePair(a, b) => format!("CreatePair {a} {b}"), Op::RemovePair(a, b) => format!("RemovePair {a} {b}"),
            Op::CreateTrio(a, b, c) => format!("CreateTrio {a} {b} {c}"), Op::RemoveTrio(a, b, c) => format!("RemoveTrio {a} {b} {c}"),
            Op::CreateVault(a) => format!("CreateVault {a}"), Op::RemoveVault(a) => format!("RemoveVault {a}"),
            Op::CreateIncentive(a) => format!("CreateIncentive {a}"),
            Op::AddRoute(o, a, h) => format!("AddRoute {o} {a} {}", coqlist(&h.iter().map(|(x, y)| format!("({x}, {y})")).collect::<Vec<_>>())),
            Op::RemoveRoute(o, a) => format!("RemoveRoute {o} {a}"),
            Op::ExecHop(a, b) => format!("ExecHop {a} {b}"),
        }
    }
    fn kind(&self) -> &'static str {
        match self { Op::CreatePair(..) => "CreatePair", Op::RemovePair(..) => "RemovePair", Op::CreateTrio(..) => "CreateTrio", Op::RemoveTrio(..) => "RemoveTrio",
            Op::CreateVault(_) => "CreateVault", Op::RemoveVault(_) => "RemoveVault", Op::CreateIncentive(_) => "CreateIncentive",
            Op::AddRoute(..) => "AddRoute", Op::RemoveRoute(..) => "RemoveRoute", Op::ExecHop(..) => "ExecHop" }
    }
}

/// asset universes: `n:<denom>` native, `t:<symbol>` cw20
pub fn universe_spec(kind: &str) -> Vec<String> {
    match kind {
        // >= 6 native and cw20 assets
        "main" | "main_stable" => ["n:uwhale", "n:uusdc", "n:uatom", "n:ubtc", "t:TOKA", "t:TOKB", "n:uluna"].iter().map(|s| s.to_string()).collect(),
        // two different asset sets whose sorted concatenations coincide: {abc, abcd} and {abca, bcd}
        "ambiguous" => ["n:abc", "n:abcd", "n:abca", "n:bcd", "n:uwhale"].iter().map(|s| s.to_string()).collect(),
        // a key that is another key followed by a byte <= 1 (not a valid Cosmos denom; the factory does not validate denoms)
        "cursor" => vec!["n:aaa".to_string(), "n:bbb".to_string(), "n:bbb\u{1}".to_string(), "n:bbb\u{0}x".to_string(), "n:uwhale".to_string(), "n:bbb\u{2}".to_string()],
        // denoms that are prefixes of other denoms: registry keys that extend other keys by ordinary characters (nothing here is skipped
        // by the cursor as the code has it)
        "prefix" => ["n:uluna", "n:uusd", "n:uusdc", "n:uusdt", "n:uwhale", "t:TOKA", "n:uusdcx"].iter().map(|s| s.to_string()).collect(),
        _ => panic!("unknown universe"),
    }
}

pub struct W19 {
    pub b: BaseWorld,
    pub u: Vec<AssetInfo>,
    pub born: BTreeMap<String, i64>,     // child contract address -> index of the operation that created it
    pub stable_types: bool,              // pairs are created as StableSwap pairs of various amplifications (universe `main_stable`; no hops there)
}

pub fn world19(spec: &[String]) -> W19 {
    let natives: Vec<&str> = spec.iter().filter(|s| s.starts_with("n:")).map(|s| &s[2..]).collect();
    let toks: Vec<&str> = spec.iter().filter(|s| s.starts_with("t:")).map(|s| &s[2..]).collect();
    let b = base_world(&natives, &toks);
    let mut ti = 0;
    let u = spec.iter().map(|s| if let Some(d) = s.strip_prefix("n:") { native(d) } else { let a = token(&b.cw20s[ti]); ti += 1; a }).collect();
    W19 { b, u, born: BTreeMap::new(), stable_types: false }
}

fn catch<T>(f: impl FnOnce() -> anyhow::Result<T>) -> Option<T> {
    match run_catch(f, |e| { if std::env::var("WWVERIF_ERRORS").is_ok() { eprintln!("rejected: {:#}", e); } E_OTHER }) { Outcome::Ok(v) => Some(v), _ => None }
}

#[derive(Clone, Debug, PartialEq, Default)]
pub struct Listing { pub pairs: Vec<(Vec<i64>, i64)>, pub trios: Vec<(Vec<i64>, i64)>, pub vaults: Vec<(i64, i64)>, pub incentives: Vec<(i64, i64)> }

impl W19 {
    pub fn raw_bytes(&self, i: usize) -> Vec<u8> { self.u[i].to_raw(&cosmwasm_std::testing::MockApi::default()).unwrap().as_bytes().to_vec() }
    pub fn ref_bytes(&self, i: usize) -> Vec<u8> { self.u[i].get_reference().to_vec() }
    pub fn coq_universe(&self) -> String {
        coqlist(&(0..self.u.len()).map(|i| format!("mkAsset {} {}", zlist(&self.raw_bytes(i)), zlist(&self.ref_bytes(i)))).collect::<Vec<_>>())
    }
    fn idx(&self, a: &AssetInfo) -> i64 { self.u.iter().position(|x| x == a).map(|p| p as i64).unwrap_or(-7) }
    fn idx_by_raw(&self, raw: &[u8]) -> i64 { (0..self.u.len()).find(|i| self.raw_bytes(*i) == raw).map(|p| p as i64).unwrap_or(-7) }
    fn born_of(&self, addr: &str) -> i64 { *self.born.get(addr).unwrap_or(&-9) }
    fn fees() -> white_whale_std::pool_network::pair::PoolFee { pool_fee(1_000_000_000_000_000, 2_000_000_000_000_000, 0) }

    fn provide(&mut self, pair: &Addr, a: usize, b: usize) {
        let amt = 1_000_000u128;
        let alice = Addr::unchecked(USER);
        let mut funds: Vec<Coin> = vec![];
        for i in [a, b] {
            match &self.u[i] {
                AssetInfo::NativeToken { denom } => funds.push(coin(amt, denom)),
                AssetInfo::Token { contract_addr } => { self.b.app.execute_contract(alice.clone(), Addr::unchecked(contract_addr),
                    &Cw20ExecuteMsg::IncreaseAllowance { spender: pair.to_string(), amount: Uint128::new(amt), expires: None }, &[]).unwrap(); }
            }
        }
        funds.sort_by(|x, y| x.denom.cmp(&y.denom));
        let _ = catch(|| self.b.app.execute_contract(alice.clone(), pair.clone(), &white_whale_std::pool_network::pair::ExecuteMsg::ProvideLiquidity {
            assets: [Asset { info: self.u[a].clone(), amount: Uint128::new(amt) }, Asset { info: self.u[b].clone(), amount: Uint128::new(amt) }],
            slippage_tolerance: None, receiver: None }, &funds));
    }

    pub fn lookup_pair(&self, a: usize, b: usize) -> Option<PairInfo> {
        self.b.app.wrap().query_wasm_smart(&self.b.factory, &f::QueryMsg::Pair { asset_infos: [self.u[a].clone(), self.u[b].clone()] }).ok()
    }
    pub fn lookup_trio(&self, a: usize, b: usize, c: usize) -> Option<TrioInfo> {
        self.b.app.wrap().query_wasm_smart(&self.b.factory, &f::QueryMsg::Trio { asset_infos: [self.u[a].clone(), self.u[b].clone(), self.u[c].clone()] }).ok()
    }
    pub fn lookup_vault(&self, a: usize) -> Option<String> {
        self.b.app.wrap().query_wasm_smart::<Option<String>>(&self.b.vault_factory, &vf::QueryMsg::Vault { asset_info: self.u[a].clone() }).ok().flatten()
    }
    pub fn lookup_incentive(&self, a: usize) -> Option<Addr> {
        self.b.app.wrap().query_wasm_smart::<inf::IncentiveResponse>(&self.b.incentive_factory, &inf::QueryMsg::Incentive { lp_asset: self.u[a].clone() }).ok().flatten()
    }

    /// run one operation (index `k` of the history) on the real contracts; true = accepted
    pub fn exec(&mut self, k: usize, op: &Op) -> bool {
        let adm = admin();
        match op.clone() {
            Op::CreatePair(a, b) => {
                let fac = self.b.factory.clone();
                let infos = [self.u[a].clone(), self.u[b].clone()];
                // every third creation is a StableSwap pair, with amplifications in and out of the 3pool's range (the pair does not validate it):
                // whatever type the registry records, the pair itself must report the same
                let pair_type = if !self.stable_types { PairType::ConstantProduct } else {
                    match k % 4 { 0 => PairType::StableSwap { amp: 100 }, 1 => PairType::StableSwap { amp: 0 }, 2 => PairType::StableSwap { amp: 2_000_000 }, _ => PairType::ConstantProduct } };
                let r = catch(|| self.b.app.execute_contract(adm.clone(), fac, &f::ExecuteMsg::CreatePair { asset_infos: infos, pool_fees: Self::fees(),
                    pair_type, token_factory_lp: false }, &[]));
                if r.is_none() { return false; }
                if let Some(p) = self.lookup_pair(a, b) { self.born.entry(p.contract_addr.clone()).or_insert(k as i64); self.provide(&Addr::unchecked(p.contract_addr), a, b); }
                // afterwards the factory's owner registers the pair's first native asset with OTHER decimals (the allow-list is overwritten):
                // existing entries keep the decimals their pools were created with - registry and child must keep agreeing
                if let AssetInfo::NativeToken { denom } = self.u[a].clone() {
                    let fac = self.b.factory.clone();
                    let _ = catch(|| self.b.app.execute_contract(adm.clone(), fac, &f::ExecuteMsg::AddNativeTokenDecimals { denom, decimals: 7 + (k % 5) as u8 }, &[]));
                }
                true
            }
            Op::RemovePair(a, b) => { let fac = self.b.factory.clone(); let infos = [self.u[a].clone(), self.u[b].clone()];
                catch(|| self.b.app.execute_contract(adm.clone(), fac, &f::ExecuteMsg::RemovePair { asset_infos: infos }, &[])).is_some() }
            Op::CreateTrio(a, b, c) => {
                let fac = self.b.factory.clone();
                let infos = [self.u[a].clone(), self.u[b].clone(), self.u[c].clone()];
                let r = catch(|| self.b.app.execute_contract(adm.clone(), fac, &f::ExecuteMsg::CreateTrio { asset_infos: infos, pool_fees: trio_fee(1_000_000_000_000_000, 2_000_000_000_000_000, 0),
                    amp_factor: 100, token_factory_lp: false }, &[]));
                if r.is_none() { return false; }
                if let Some(t) = self.lookup_trio(a, b, c) { self.born.entry(t.contract_addr).or_insert(k as i64); }
                true
            }
            Op::RemoveTrio(a, b, c) => { let fac = self.b.factory.clone(); let infos = [self.u[a].clone(), self.u[b].clone(), self.u[c].clone()];
                catch(|| self.b.app.execute_contract(adm.clone(), fac, &f::ExecuteMsg::RemoveTrio { asset_infos: infos }, &[])).is_some() }
            Op::CreateVault(a) => {
                let fac = self.b.vault_factory.clone(); let info = self.u[a].clone();
                let r = catch(|| self.b.app.execute_contract(adm.clone(), fac, &vf::ExecuteMsg::CreateVault { asset_info: info, fees: vault_fee(1_000_000_000_000_000, 2_000_000_000_000_000, 0), token_factory_lp: false }, &[]));
                if r.is_none() { return false; }
                if let Some(v) = self.lookup_vault(a) { self.born.entry(v).or_insert(k as i64); }
                true
            }
            Op::RemoveVault(a) => { let fac = self.b.vault_factory.clone(); let info = self.u[a].clone();
                catch(|| self.b.app.execute_contract(adm.clone(), fac, &vf::ExecuteMsg::RemoveVault { asset_info: info }, &[])).is_some() }
            Op::CreateIncentive(a) => {
                let fac = self.b.incentive_factory.clone(); let info = self.u[a].clone();
                let r = catch(|| self.b.app.execute_contract(adm.clone(), fac, &inf::ExecuteMsg::CreateIncentive { lp_asset: info }, &[]));
                if r.is_none() { return false; }
                if let Some(v) = self.lookup_incentive(a) { self.born.entry(v.to_string()).or_insert(k as i64); }
                true
            }
            Op::AddRoute(o, a, hops) => {
                let r = self.b.router.clone();
                let route = rt::SwapRoute { offer_asset_info: self.u[o].clone(), ask_asset_info: self.u[a].clone(),
                    swap_operations: hops.iter().map(|(x, y)| rt::SwapOperation::TerraSwap { offer_asset_info: self.u[*x].clone(), ask_asset_info: self.u[*y].clone() }).collect() };
                catch(|| self.b.app.execute_contract(adm.clone(), r, &rt::ExecuteMsg::AddSwapRoutes { swap_routes: vec![route] }, &[])).is_some()
            }
            Op::RemoveRoute(o, a) => {
                let r = self.b.router.clone();
                let route = rt::SwapRoute { offer_asset_info: self.u[o].clone(), ask_asset_info: self.u[a].clone(), swap_operations: vec![] };
                catch(|| self.b.app.execute_contract(adm.clone(), r, &rt::ExecuteMsg::RemoveSwapRoutes { swap_routes: vec![route] }, &[])).is_some()
            }
            Op::ExecHop(a, b) => {
                let r = self.b.router.clone();
                let alice = Addr::unchecked(USER);
                let ops = vec![rt::SwapOperation::TerraSwap { offer_asset_info: self.u[a].clone(), ask_asset_info: self.u[b].clone() }];
                match self.u[a].clone() {
                    AssetInfo::NativeToken { denom } => catch(|| self.b.app.execute_contract(alice, r, &rt::ExecuteMsg::ExecuteSwapOperations { operations: ops, minimum_receive: None, to: None, max_spread: None }, &[coin(1000, denom)])).is_some(),
                    AssetInfo::Token { contract_addr } => catch(|| self.b.app.execute_contract(alice, Addr::unchecked(contract_addr), &Cw20ExecuteMsg::Send { contract: r.to_string(), amount: Uint128::new(1000),
                        msg: to_json_binary(&rt::Cw20HookMsg::ExecuteSwapOperations { operations: ops, minimum_receive: None, to: None, max_spread: None }).unwrap() }, &[])).is_some(),
                }
            }
        }
    }

    // ---- listings through the public, paginated queries (page size = the maximum, cursor = last entry) ----------------------
    pub fn pairs_page(&self, start_after: Option<[AssetInfo; 2]>, limit: Option<u32>) -> Vec<PairInfo> {
        let r: f::PairsResponse = self.b.app.wrap().query_wasm_smart(&self.b.factory, &f::QueryMsg::Pairs { start_after, limit }).unwrap(); r.pairs
    }
    pub fn trios_page(&self, start_after: Option<[AssetInfo; 3]>, limit: Option<u32>) -> Vec<TrioInfo> {
        let r: f::TriosResponse = self.b.app.wrap().query_wasm_smart(&self.b.factory, &f::QueryMsg::Trios { start_after, limit }).unwrap(); r.trios
    }
    pub fn vaults_page(&self, start_after: Option<Vec<u8>>, limit: Option<u32>) -> Vec<vf::VaultInfo> {
        let r: vf::VaultsResponse = self.b.app.wrap().query_wasm_smart(&self.b.vault_factory, &vf::QueryMsg::Vaults { start_after, limit }).unwrap(); r.vaults
    }
    pub fn incentives_page(&self, start_after: Option<AssetInfo>, limit: Option<u32>) -> Vec<inf::IncentivesContract> {
        self.b.app.wrap().query_wasm_smart::<inf::IncentivesResponse>(&self.b.incentive_factory, &inf::QueryMsg::Incentives { start_after, limit }).unwrap()
    }
    fn pair_row(&self, p: &PairInfo) -> (Vec<i64>, i64) { (p.asset_infos.iter().map(|a| self.idx(a)).collect(), self.born_of(&p.contract_addr)) }
    fn trio_row(&self, t: &TrioInfo) -> (Vec<i64>, i64) { (t.asset_infos.iter().map(|a| self.idx(a)).collect(), self.born_of(&t.contract_addr)) }
    fn vault_row(&self, v: &vf::VaultInfo) -> (i64, i64) { (self.idx(&v.asset_info), self.born_of(&v.vault)) }
    fn inc_row(&self, v: &inf::IncentivesContract) -> (i64, i64) { (self.idx_by_raw(&v.lp_reference), self.born_of(v.incentive_address.as_str())) }

    /// walk a registry page by page (page size `limit`, None = the contract's default), the way a client does
    pub fn walk_pairs(&self, limit: Option<u32>) -> Vec<(Vec<i64>, i64)> {
        let mut out = vec![]; let mut cur: Option<[AssetInfo; 2]> = None;
        for _ in 0..40 { let pg = self.pairs_page(cur.clone(), limit); if pg.is_empty() { break; } cur = Some(pg.last().unwrap().asset_infos.clone()); out.extend(pg.iter().map(|p| self.pair_row(p))); }
        out
    }
    pub fn walk_trios(&self, limit: Option<u32>) -> Vec<(Vec<i64>, i64)> {
        let mut out = vec![]; let mut cur: Option<[AssetInfo; 3]> = None;
        for _ in 0..40 { let pg = self.trios_page(cur.clone(), limit); if pg.is_empty() { break; } cur = Some(pg.last().unwrap().asset_infos.clone()); out.extend(pg.iter().map(|p| self.trio_row(p))); }
        out
    }
    pub fn walk_vaults(&self, limit: Option<u32>) -> Vec<(i64, i64)> {
        let mut out = vec![]; let mut cur: Option<Vec<u8>> = None;
        for _ in 0..40 { let pg = self.vaults_page(cur.clone(), limit); if pg.is_empty() { break; } cur = Some(pg.last().unwrap().asset_info_reference.clone()); out.extend(pg.iter().map(|p| self.vault_row(p))); }
        out
    }
    pub fn walk_incentives(&self, limit: Option<u32>) -> Vec<(i64, i64)> {
        let mut out = vec![]; let mut cur: Option<AssetInfo> = None;
        for _ in 0..40 {
            let pg = self.incentives_page(cur.clone(), limit); if pg.is_empty() { break; }
            let last = pg.last().unwrap(); let i = self.idx_by_raw(&last.lp_reference);
            if i < 0 { break; }
            cur = Some(self.u[i as usize].clone()); out.extend(pg.iter().map(|p| self.inc_row(p)));
        }
        out
    }
    /// the registries' full content, read from raw storage (ground truth for the pagination monitor): number of entries per registry
    pub fn raw_counts(&self) -> [usize; 4] {
        let count = |addr: &Addr, ns: &str| -> usize {
            // cw-storage-plus Map key: 2-byte big-endian length of the namespace, the namespace, then the key
            let mut prefix = (ns.len() as u16).to_be_bytes().to_vec(); prefix.extend_from_slice(ns.as_bytes());
            self.b.app.dump_wasm_raw(addr).iter().filter(|(k, _)| k.starts_with(&prefix)).count()
        };
        [count(&self.b.factory, "pair_info"), count(&self.b.factory, "trio_info"), count(&self.b.vault_factory, "vaults"), count(&self.b.incentive_factory, "incentive_mappings")]
    }
    pub fn listing(&self) -> Listing {
        Listing { pairs: self.walk_pairs(Some(30)), trios: self.walk_trios(Some(30)), vaults: self.walk_vaults(Some(30)), incentives: self.walk_incentives(Some(30)) }
    }
}

fn listing_obs(l: &Listing) -> Vec<String> {
    let mut v: Vec<String> = vec![];
    for (a, b) in &l.pairs { v.extend(a.iter().map(|x| x.to_string())); v.push(b.to_string()); }
    v.push("-1".into());
    for (a, b) in &l.trios { v.extend(a.iter().map(|x| x.to_string())); v.push(b.to_string()); }
    v.push("-1".into());
    for (a, b) in &l.vaults { v.push(a.to_string()); v.push(b.to_string()); }
    v.push("-1".into());
    for (a, b) in &l.incentives { v.push(a.to_string()); v.push(b.to_string()); }
    v.push("-1".into());
    v
}

fn set_of(v: &[i64]) -> Vec<i64> { let mut s = v.to_vec(); s.sort(); s }

/// do two DIFFERENT asset sets of the universe have the same concatenated key? (decidable signature of the known ambiguity)
fn ambiguous_sets(w: &W19, s1: &[i64], s2: &[i64]) -> bool {
    let key = |s: &[i64]| { let mut parts: Vec<Vec<u8>> = s.iter().map(|i| w.raw_bytes(*i as usize)).collect(); parts.sort(); parts.concat() };
    set_of(s1) != set_of(s2) && s1.iter().all(|i| *i >= 0) && s2.iter().all(|i| *i >= 0) && key(s1) == key(s2)
}
/// is there a registry key that is another key followed by 0x00.. or by exactly 0x01? (decidable signature of the cursor finding)
fn cursor_unsafe(keys: &[Vec<u8>]) -> bool {
    keys.iter().any(|k| keys.iter().any(|k2| k2.len() > k.len() && k2.starts_with(k) && (k2[k.len()] == 0 || (k2[k.len()] == 1 && k2.len() == k.len() + 1))))
}

pub const KNOWN_AMBIG: &str = "registry_key_concatenation_ambiguous";
pub const KNOWN_CURSOR: &str = "pagination_cursor_skips_key_extension";

pub struct HistoryResult { pub obs: Vec<String> }

pub fn run_history(out: &mut Out, uni: &str, h: &[Op], record: bool) -> HistoryResult {
    let spec = universe_spec(uni);
    let mut w = world19(&spec);
    w.stable_types = uni == "main_stable";
    let replay = json!({"kind": "registry_history", "universe": uni, "assets": spec, "ops": serde_json::to_value(h).unwrap(),
                        "note": "operations name assets by their index in `assets` (n: native denom, t: cw20 symbol); AddRoute(offer, ask, hops)"});
    let mut obs: Vec<String> = vec![];
    let mut routes: Vec<(usize, usize, Vec<(usize, usize)>)> = vec![];
    let mut kinds = std::collections::BTreeSet::new();
    let mut recreated = false;
    let mut removed_sets: Vec<Vec<i64>> = vec![];
    for (k, op) in h.iter().enumerate() {
        let before = w.listing();
        let ok = w.exec(k, op);
        let after = w.listing();
        if record { out.count(&format!("{}:{}", op.kind(), if ok { "ok" } else { "rejected" })); kinds.insert(op.kind()); }
        obs.push(if ok { "0".into() } else { "1".into() });
        // ---- monitors: the property's clauses on what the real contracts report -------------------------------------------------
        out.monitor_evals += 1;
        let fail = |out: &mut Out, what: String| mfail(out, "C19", &format!("op #{k} ({}): {what}", op.kind()), replay.clone());
        // (a) at most one entry per asset set, in every registry
        for (name, rows) in [("pair", &after.pairs), ("trio", &after.trios)] {
            for i in 0..rows.len() { for j in 0..i { if set_of(&rows[i].0) == set_of(&rows[j].0) { fail(out, format!("two {name} entries for the same asset set {:?}", rows[i].0)); } } }
        }
        for (name, rows) in [("vault", &after.vaults), ("incentive", &after.incentives)] {
            for i in 0..rows.len() { for j in 0..i { if rows[i].0 == rows[j].0 { fail(out, format!("two {name} entries for asset #{}", rows[i].0)); } } }
        }
        // (b) a rejected operation changes no registry
        if !ok && before != after { fail(out, "rejected but a registry changed".into()); }
        // (c) lookups of the operation's asset set in every order: same answer, and the answer is an entry OF THAT SET
        match op {
            Op::CreatePair(a, b) | Op::RemovePair(a, b) | Op::ExecHop(a, b) => {
                let (l1, l2) = (w.lookup_pair(*a, *b), w.lookup_pair(*b, *a));
                let row = |p: &Option<PairInfo>| p.as_ref().map(|p| w.pair_row(p));
                if row(&l1) != row(&l2) { fail(out, "Pair query depends on the order of the assets".into()); }
                obs.extend(opt_row(&row(&l1))); obs.extend(opt_row(&row(&l2)));
                let want = vec![*a as i64, *b as i64];
                if let Some((got, _)) = row(&l1) {
                    if set_of(&got) != set_of(&want) {
                        if ambiguous_sets(&w, &got, &want) { out.known_hit("C19", KNOWN_AMBIG, &format!("Pair query for assets {:?} returns the pair of the different asset set {:?} (equal concatenated keys)", want, got), replay.clone()); }
                        else { fail(out, format!("Pair query for {:?} returned the entry of {:?}", want, got)); }
                    }
                }
                let present_before = before.pairs.iter().any(|r| set_of(&r.0) == set_of(&want));
                let present_after = after.pairs.iter().any(|r| set_of(&r.0) == set_of(&want));
                match op {
                    Op::CreatePair(..) => {
                        if a != b && !present_before && !ok {
                            if before.pairs.iter().any(|r| ambiguous_sets(&w, &r.0, &want)) { out.known_hit("C19", KNOWN_AMBIG, &format!("CreatePair for the unregistered asset set {:?} is rejected as existing (equal concatenated keys)", want), replay.clone()); }
                            else { fail(out, format!("creation of the unregistered pair {:?} was rejected", want)); }
                        }
                        if present_before && ok { fail(out, format!("a second pair for the registered asset set {:?} was created", want)); }
                        if ok && !present_after { fail(out, "created pair is not listed".into()); }
                        if ok && removed_sets.contains(&set_of(&want)) { recreated = true; }
                    }
                    Op::RemovePair(..) => {
                        if ok && (present_after || l1.is_some()) { fail(out, "removed pair is still listed / found".into()); }
                        if ok { removed_sets.push(set_of(&want)); }
                        if present_before && !ok { fail(out, "removal of a registered pair was rejected".into()); }
                    }
                    _ => { if ok && !present_before { if !before.pairs.iter().any(|r| ambiguous_sets(&w, &r.0, &want)) { fail(out, format!("the router executed a hop over the unregistered pair {:?}", want)); } } }
                }
            }
            Op::CreateTrio(a, b, c) | Op::RemoveTrio(a, b, c) => {
                let perms = [(*a, *b, *c), (*a, *c, *b), (*b, *a, *c), (*b, *c, *a), (*c, *a, *b), (*c, *b, *a)];
                let rows: Vec<Option<(Vec<i64>, i64)>> = perms.iter().map(|(x, y, z)| w.lookup_trio(*x, *y, *z).map(|t| w.trio_row(&t))).collect();
                if rows.iter().any(|r| *r != rows[0]) { fail(out, "Trio query depends on the order of the assets".into()); }
                for r in &rows { obs.extend(opt_row(r)); }
                let want = vec![*a as i64, *b as i64, *c as i64];
                if let Some((got, _)) = &rows[0] { if set_of(got) != set_of(&want) {
                    if ambiguous_sets(&w, got, &want) { out.known_hit("C19", KNOWN_AMBIG, &format!("Trio query for {:?} returns the trio of {:?}", want, got), replay.clone()); } else { fail(out, format!("Trio query for {:?} returned the entry of {:?}", want, got)); } } }
                let present_before = before.trios.iter().any(|r| set_of(&r.0) == set_of(&want));
                let present_after = after.trios.iter().any(|r| set_of(&r.0) == set_of(&want));
                let distinct = a != b && a != c && b != c;
                if let Op::CreateTrio(..) = op {
                    if distinct && !present_before && !ok && !before.trios.iter().any(|r| ambiguous_sets(&w, &r.0, &want)) { fail(out, format!("creation of the unregistered trio {:?} was rejected", want)); }
                    if present_before && ok { fail(out, format!("a second trio for the registered asset set {:?} was created", want)); }
                    if ok && !present_after { fail(out, "created trio is not listed".into()); }
                    if ok && removed_sets.contains(&set_of(&want)) { recreated = true; }
                } else {
                    if ok && (present_after || rows[0].is_some()) { fail(out, "removed trio is still listed / found".into()); }
                    if ok { removed_sets.push(set_of(&want)); }
                    if present_before && !ok { fail(out, "removal of a registered trio was rejected".into()); }
                }
            }
            Op::CreateVault(a) | Op::RemoveVault(a) => {
                let l = w.lookup_vault(*a).map(|v| (*a as i64, w.born_of(&v)));
                obs.extend(match &l { Some((x, y)) => vec!["1".to_string(), x.to_string(), y.to_string()], None => vec!["0".to_string()] });
                let present_before = before.vaults.iter().any(|r| r.0 == *a as i64);
                let present_after = after.vaults.iter().any(|r| r.0 == *a as i64);
                if let Op::CreateVault(_) = op {
                    if present_before && ok { fail(out, format!("a second vault for asset #{a} was created")); }
                    if !present_before && !ok { fail(out, format!("creation of the vault for the unregistered asset #{a} was rejected")); }
                    if ok && !present_after { fail(out, "created vault is not listed".into()); }
                    if ok && removed_sets.contains(&vec![*a as i64]) { recreated = true; }
                } else {
                    if ok && (present_after || l.is_some()) { fail(out, "removed vault is still listed / found".into()); }
                    if ok { removed_sets.push(vec![*a as i64]); }
                    if present_before && !ok { fail(out, "removal of a registered vault was rejected".into()); }
                }
            }
            Op::CreateIncentive(a) => {
                let l = w.lookup_incentive(*a).map(|v| (*a as i64, w.born_of(v.as_str())));
                obs.extend(match &l { Some((x, y)) => vec!["1".to_string(), x.to_string(), y.to_string()], None => vec!["0".to_string()] });
                let present_before = before.incentives.iter().any(|r| r.0 == *a as i64);
                if present_before && ok { fail(out, format!("a second incentive contract for LP asset #{a} was created")); }
                if !present_before && !ok { fail(out, format!("creation of the incentive for the unregistered LP asset #{a} was rejected")); }
            }
            Op::AddRoute(..) | Op::RemoveRoute(..) => {
                let (o, a, hops_given): (usize, usize, Option<Vec<(usize, usize)>>) = match op { Op::AddRoute(o, a, hs) => (*o, *a, Some(hs.clone())), Op::RemoveRoute(o, a) => (*o, *a, None), _ => unreachable!() };
                if let Some(hs) = &hops_given {
                    let all_registered = hs.iter().all(|(x, y)| before.pairs.iter().any(|r| set_of(&r.0) == set_of(&[*x as i64, *y as i64])));
                    if ok && !all_registered && !hs.iter().any(|(x, y)| before.pairs.iter().any(|r| ambiguous_sets(&w, &r.0, &[*x as i64, *y as i64]))) {
                        fail(out, format!("the router stored a route with a hop over an unregistered pair: {:?}", hs));
                    }
                    if ok { routes.retain(|r| !(r.0 == o && r.1 == a)); routes.push((o, a, hs.clone())); }
                } else if ok { routes.retain(|r| !(r.0 == o && r.1 == a)); }
                // what the router reports for (offer, ask)
                let q: Result<Vec<rt::SwapOperation>, _> = w.b.app.wrap().query_wasm_smart(&w.b.router, &rt::QueryMsg::SwapRoute { offer_asset_info: w.u[o].clone(), ask_asset_info: w.u[a].clone() });
                match q {
                    Ok(ops) => { obs.push("1".into()); obs.push(ops.len().to_string());
                        for sop in &ops { let rt::SwapOperation::TerraSwap { offer_asset_info, ask_asset_info } = sop; obs.push(w.idx(offer_asset_info).to_string()); obs.push(w.idx(ask_asset_info).to_string()); }
                        let stored: Vec<(usize, usize)> = ops.iter().map(|sop| { let rt::SwapOperation::TerraSwap { offer_asset_info, ask_asset_info } = sop; (w.idx(offer_asset_info) as usize, w.idx(ask_asset_info) as usize) }).collect();
                        if routes.iter().find(|r| r.0 == o && r.1 == a).map(|r| r.2.clone()) != Some(stored) { fail(out, "SwapRoute query differs from the last accepted AddSwapRoutes".into()); } }
                    Err(_) => { obs.push("0".into()); if routes.iter().any(|r| r.0 == o && r.1 == a) { fail(out, "an accepted route is not returned by SwapRoute".into()); } }
                }
                // the listing reports every stored route exactly once, with the operations it was stored with
                let listing: Result<Vec<rt::SwapRouteResponse>, _> = w.b.app.wrap().query_wasm_smart(&w.b.router, &rt::QueryMsg::SwapRoutes {});
                match listing {
                    Ok(l) => {
                        let mut got: Vec<Vec<(usize, usize)>> = l.iter().map(|r| r.swap_route.iter().map(|sop| { let rt::SwapOperation::TerraSwap { offer_asset_info, ask_asset_info } = sop;
                            (w.idx(offer_asset_info) as usize, w.idx(ask_asset_info) as usize) }).collect()).collect();
                        let mut want: Vec<Vec<(usize, usize)>> = routes.iter().map(|r| r.2.clone()).collect();
                        got.sort(); want.sort();
                        if got != want { fail(out, format!("SwapRoutes listing {:?} differs from the accepted routes {:?}", got, want)); }
                    }
                    Err(_) => fail(out, "SwapRoutes listing fails".into()),
                }
            }
        }
        // (d) the registry tells the truth: every entry equals what the child itself reports
        for p in w.pairs_page(None, Some(30)) {
            let child: Result<PairInfo, _> = w.b.app.wrap().query_wasm_smart(&p.contract_addr, &white_whale_std::pool_network::pair::QueryMsg::Pair {});
            match child { Ok(c) => if c != p { fail(out, format!("factory entry of pair {} differs from the pair's own Pair{{}} answer", p.contract_addr)); }, Err(_) => fail(out, "registered pair does not answer Pair{}".into()) }
        }
        for t in w.trios_page(None, Some(30)) {
            let child: Result<TrioInfo, _> = w.b.app.wrap().query_wasm_smart(&t.contract_addr, &white_whale_std::pool_network::trio::QueryMsg::Trio {});
            match child { Ok(c) => if c != t { fail(out, format!("factory entry of trio {} differs from the trio's own Trio{{}} answer", t.contract_addr)); }, Err(_) => fail(out, "registered trio does not answer Trio{}".into()) }
        }
        for v in w.vaults_page(None, Some(30)) {
            let child: Result<white_whale_std::vault_network::vault::Config, _> = w.b.app.wrap().query_wasm_smart(&v.vault, &white_whale_std::vault_network::vault::QueryMsg::Config {});
            match child { Ok(c) => if c.asset_info != v.asset_info || c.asset_info.get_reference() != v.asset_info_reference.as_slice() { fail(out, format!("vault factory entry of {} differs from the vault's own asset", v.vault)); }, Err(_) => fail(out, "registered vault does not answer Config{}".into()) }
        }
        for i in w.incentives_page(None, Some(30)) {
            let child: Result<white_whale_std::pool_network::incentive::ConfigResponse, _> = w.b.app.wrap().query_wasm_smart(&i.incentive_address, &white_whale_std::pool_network::incentive::QueryMsg::Config {});
            match child { Ok(c) => if c.lp_asset.to_raw(&cosmwasm_std::testing::MockApi::default()).unwrap().as_bytes() != i.lp_reference.as_slice() { fail(out, format!("incentive factory entry of {} differs from the incentive's own LP asset", i.incentive_address)); }, Err(_) => fail(out, "registered incentive does not answer Config{}".into()) }
        }
        obs.extend(listing_obs(&after));
    }
    // ---- pagination: every page size, the walk returns every entry exactly once ------------------------------------------------
    let full = w.listing();
    let counts = w.raw_counts();
    let pair_keys: Vec<Vec<u8>> = full.pairs.iter().map(|r| { let mut p: Vec<Vec<u8>> = r.0.iter().map(|i| w.raw_bytes(*i as usize)).collect(); p.sort(); p.concat() }).collect();
    let inc_keys: Vec<Vec<u8>> = (0..w.u.len()).filter(|i| w.lookup_incentive(*i).is_some()).map(|i| w.raw_bytes(i)).collect();
    let trio_keys: Vec<Vec<u8>> = (0..w.u.len()).flat_map(|a| (0..a).flat_map(move |b| (0..b).map(move |c| (a, b, c)))).filter(|(a, b, c)| w.lookup_trio(*a, *b, *c).is_some())
        .map(|(a, b, c)| { let mut p = vec![w.raw_bytes(a), w.raw_bytes(b), w.raw_bytes(c)]; p.sort(); p.concat() }).collect();
    for limit in (1..=31u32).map(Some).chain(std::iter::once(None)) {
        out.monitor_evals += 1;
        // the known cursor finding, exactly: a client that continues after key k is served the keys above k ++ [0x01]; what such a
        // walk over the stored keys returns is computed here, and only a shortfall this computation predicts is the known finding
        let documented_walk = |keys: &[Vec<u8>]| -> usize {
            let lim = limit.unwrap_or(10).min(30) as usize;
            let mut sorted = keys.to_vec(); sorted.sort();
            let (mut cursor, mut n): (Option<Vec<u8>>, usize) = (None, 0);
            for _ in 0..40 {
                let page: Vec<&Vec<u8>> = sorted.iter().filter(|k| match &cursor { None => true, Some(c) => k.as_slice() > c.as_slice() }).take(lim).collect();
                if page.is_empty() { break; }
                n += page.len();
                let mut c = (*page.last().unwrap()).clone(); c.push(1); cursor = Some(c);
            }
            n
        };
        let check = |out: &mut Out, name: &str, n_walk: usize, dup: bool, n_raw: usize, keys: Vec<Vec<u8>>| {
            if dup || n_walk != n_raw {
                let what = format!("{name} pagination with page size {:?} returned {} entries{} but the registry holds {}", limit, n_walk, if dup { " (with repetitions)" } else { "" }, n_raw);
                if !dup && n_walk < n_raw && n_walk == documented_walk(&keys) { out.known_hit("C19", KNOWN_CURSOR, &what, replay.clone()); } else { mfail(out, "C19", &what, replay.clone()); }
            }
        };
        let wp = w.walk_pairs(limit); let d = { let mut s = wp.clone(); s.sort(); s.dedup(); s.len() != wp.len() };
        check(out, "Pairs", wp.len(), d, counts[0], all_keys_of(&w, "pair_info"));
        let wt = w.walk_trios(limit); let d = { let mut s = wt.clone(); s.sort(); s.dedup(); s.len() != wt.len() };
        check(out, "Trios", wt.len(), d, counts[1], all_keys_of(&w, "trio_info"));
        let wv = w.walk_vaults(limit); let d = { let mut s = wv.clone(); s.sort(); s.dedup(); s.len() != wv.len() };
        check(out, "Vaults", wv.len(), d, counts[2], all_keys_of(&w, "vaults"));
        let wi = w.walk_incentives(limit); let d = { let mut s = wi.clone(); s.sort(); s.dedup(); s.len() != wi.len() };
        check(out, "Incentives", wi.len(), d, counts[3], all_keys_of(&w, "incentive_mappings"));
        if record {
            // correspondence of the walks: (universe, ops, registry kind, page size) -> rows
            let lim = match limit { Some(l) => format!("(Some {})", l), None => "None".into() };
            let base = format!("({}, {}", w.coq_universe(), coqlist(&h.iter().map(|o| o.coq()).collect::<Vec<_>>()));
            let rows2 = |rows: &Vec<(Vec<i64>, i64)>| -> Vec<String> { rows.iter().flat_map(|(a, b)| a.iter().map(|x| x.to_string()).chain(std::iter::once(b.to_string())).collect::<Vec<_>>()).collect() };
            let rows1 = |rows: &Vec<(i64, i64)>| -> Vec<String> { rows.iter().flat_map(|(a, b)| vec![a.to_string(), b.to_string()]).collect() };
            if limit.map(|l| l % 3 == 1 || l >= 30).unwrap_or(true) {
                out.case("c19_walk", &format!("{base}, 0, {lim})"), &rows2(&wp), replay.clone());
                out.case("c19_walk", &format!("{base}, 1, {lim})"), &rows2(&wt), replay.clone());
                out.case("c19_walk", &format!("{base}, 2, {lim})"), &rows1(&wv), replay.clone());
                out.case("c19_walk", &format!("{base}, 3, {lim})"), &rows1(&wi), replay.clone());
            }
        }
    }
    // Vaults queried from a cursor that is NOT a live key (the vault was removed between two page fetches, or never existed):
    // the answer is every registered vault whose key sorts after the cursor, in key order, up to the limit
    {
        let all: Vec<vf::VaultInfo> = { let mut v = vec![]; let mut cur: Option<Vec<u8>> = None;
            for _ in 0..40 { let pg = w.vaults_page(cur.clone(), Some(30)); if pg.is_empty() { break; } cur = Some(pg.last().unwrap().asset_info_reference.clone()); v.extend(pg); } v };
        for i in 0..w.u.len() {
            let key = w.ref_bytes(i);
            if all.iter().any(|v| v.asset_info_reference == key) { continue; }
            for limit in [Some(1u32), Some(2), None] {
                let got: Vec<Vec<u8>> = w.vaults_page(Some(key.clone()), limit).iter().map(|v| v.asset_info_reference.clone()).collect();
                let n = limit.unwrap_or(10) as usize;
                let mut want: Vec<Vec<u8>> = all.iter().map(|v| v.asset_info_reference.clone()).filter(|k| *k > key).collect();
                want.sort(); want.truncate(n);
                out.monitor_evals += 1;
                if got != want && !cursor_unsafe(&all_keys_of(&w, "vaults")) {
                    out.monitor_fail("C19", &format!("Vaults listed from a cursor that is not a registered key returned {} entries, expected the {} registered vaults after it", got.len(), want.len()), replay.clone());
                }
            }
        }
    }
    let _ = (pair_keys, inc_keys, trio_keys);
    if record {
        // every cursor: each registered pair as start_after with a few page sizes
        for (r, _) in full.pairs.iter() {
            for limit in [Some(1u32), Some(2), None] {
                let pg = w.pairs_page(Some([w.u[r[0] as usize].clone(), w.u[r[1] as usize].clone()]), limit);
                let rows: Vec<String> = pg.iter().flat_map(|p| { let (a, b) = w.pair_row(p); a.iter().map(|x| x.to_string()).chain(std::iter::once(b.to_string())).collect::<Vec<_>>() }).collect();
                let lim = match limit { Some(l) => format!("(Some {})", l), None => "None".into() };
                out.case("c19_page", &format!("({}, {}, ({}, {}), {})", w.coq_universe(), coqlist(&h.iter().map(|o| o.coq()).collect::<Vec<_>>()), r[0], r[1], lim), &rows, replay.clone());
            }
        }
        let input = format!("({}, {})", w.coq_universe(), coqlist(&h.iter().map(|o| o.coq()).collect::<Vec<_>>()));
        if kinds.len() >= 4 && recreated { out.nontrivial_key(hash_str(&input)); }
        out.sample(replay.clone());
        out.case("c19", &input, &obs, replay);
    }
    HistoryResult { obs }
}

fn opt_row(r: &Option<(Vec<i64>, i64)>) -> Vec<String> {
    match r { Some((a, b)) => { let mut v = vec!["1".to_string()]; v.extend(a.iter().map(|x| x.to_string())); v.push(b.to_string()); v } None => vec!["0".to_string()] }
}
fn all_keys_of(w: &W19, ns: &str) -> Vec<Vec<u8>> {
    let addr = match ns { "pair_info" | "trio_info" => &w.b.factory, "vaults" => &w.b.vault_factory, _ => &w.b.incentive_factory };
    let mut prefix = (ns.len() as u16).to_be_bytes().to_vec(); prefix.extend_from_slice(ns.as_bytes());
    w.b.app.dump_wasm_raw(addr).iter().filter(|(k, _)| k.starts_with(&prefix)).map(|(k, _)| k[prefix.len()..].to_vec()).collect()
}

// ---- generators ------------------------------------------------------------------------------------------------------------------
fn perm2(rng: &mut Rng, a: usize, b: usize) -> (usize, usize) { if rng.chance(1, 2) { (a, b) } else { (b, a) } }
fn perm3(rng: &mut Rng, a: usize, b: usize, c: usize) -> (usize, usize, usize) {
    match rng.below(6) { 0 => (a, b, c), 1 => (a, c, b), 2 => (b, a, c), 3 => (b, c, a), 4 => (c, a, b), _ => (c, b, a) }
}
pub fn gen_history(rng: &mut Rng, n_assets: usize) -> Vec<Op> {
    let len = 10 + rng.below(14) as usize;
    let mut h: Vec<Op> = vec![];
    let mut pairs: Vec<(usize, usize)> = vec![];     // shadow: asset sets believed registered (a < b)
    let mut trios: Vec<(usize, usize, usize)> = vec![];
    let mut vaults: Vec<usize> = vec![];
    let mut removed_p: Vec<(usize, usize)> = vec![];
    let mut routes: Vec<(usize, usize)> = vec![];
    let n = n_assets as u64;
    while h.len() < len {
        let op = match rng.below(100) {
            0..=24 => { // create a pair: fresh, previously removed, duplicate (other order), or same-asset
                let (a, b) = if !removed_p.is_empty() && rng.chance(1, 3) { *rng.pick(&removed_p) } else if !pairs.is_empty() && rng.chance(1, 5) { *rng.pick(&pairs) }
                             else { (rng.below(n) as usize, rng.below(n) as usize) };
                let (x, y) = perm2(rng, a, b);
                let key = (x.min(y), x.max(y));
                if x != y && !pairs.contains(&key) { pairs.push(key); removed_p.retain(|p| *p != key); }
                Op::CreatePair(x, y)
            }
            25..=36 => { let (a, b) = if !pairs.is_empty() && rng.chance(4, 5) { *rng.pick(&pairs) } else { (rng.below(n) as usize, rng.below(n) as usize) };
                         let key = (a.min(b), a.max(b)); if pairs.contains(&key) { pairs.retain(|p| *p != key); removed_p.push(key); }
                         let (x, y) = perm2(rng, a, b); Op::RemovePair(x, y) }
            37..=50 => { let (a, b, c) = if !trios.is_empty() && rng.chance(1, 4) { *rng.pick(&trios) } else { (rng.below(n) as usize, rng.below(n) as usize, rng.below(n) as usize) };
                         let mut k = [a, b, c]; k.sort(); let key = (k[0], k[1], k[2]);
                         if a != b && a != c && b != c && !trios.contains(&key) { trios.push(key); }
                         let (x, y, z) = perm3(rng, a, b, c); Op::CreateTrio(x, y, z) }
            51..=58 => { let (a, b, c) = if !trios.is_empty() && rng.chance(4, 5) { *rng.pick(&trios) } else { (rng.below(n) as usize, rng.below(n) as usize, rng.below(n) as usize) };
                         let mut k = [a, b, c]; k.sort(); let key = (k[0], k[1], k[2]); trios.retain(|t| *t != key);
                         let (x, y, z) = perm3(rng, a, b, c); Op::RemoveTrio(x, y, z) }
            59..=68 => { let a = rng.below(n) as usize; if !vaults.contains(&a) { vaults.push(a); } Op::CreateVault(a) }
            69..=74 => { let a = if !vaults.is_empty() && rng.chance(4, 5) { *rng.pick(&vaults) } else { rng.below(n) as usize }; vaults.retain(|v| *v != a); Op::RemoveVault(a) }
            75..=82 => Op::CreateIncentive(rng.below(n) as usize),
            83..=91 => { // routes: over registered pairs mostly, sometimes with an unregistered / removed hop
                let pick_hop = |rng: &mut Rng, pairs: &Vec<(usize, usize)>, removed: &Vec<(usize, usize)>| -> (usize, usize) {
                    let (a, b) = if !pairs.is_empty() && rng.chance(3, 4) { *rng.pick(pairs) } else if !removed.is_empty() && rng.chance(1, 2) { *rng.pick(removed) } else { (rng.below(n) as usize, rng.below(n) as usize) };
                    if rng.chance(1, 2) { (a, b) } else { (b, a) } };
                let nh = 1 + rng.below(2) as usize;
                let hops: Vec<(usize, usize)> = (0..nh).map(|_| pick_hop(rng, &pairs, &removed_p)).collect();
                let (o, a) = (hops[0].0, hops[nh - 1].1);
                routes.push((o, a));
                Op::AddRoute(o, a, if rng.chance(1, 12) { vec![] } else { hops })
            }
            92..=94 => { let (o, a) = if !routes.is_empty() && rng.chance(3, 4) { *rng.pick(&routes) } else { (rng.below(n) as usize, rng.below(n) as usize) }; Op::RemoveRoute(o, a) }
            _ => { let (a, b) = if !pairs.is_empty() && rng.chance(2, 3) { *rng.pick(&pairs) } else if !removed_p.is_empty() { *rng.pick(&removed_p) } else { (rng.below(n) as usize, rng.below(n) as usize) };
                   let (x, y) = perm2(rng, a, b); Op::ExecHop(x, y) }
        };
        h.push(op);
    }
    h
}

fn corpus() -> Vec<(&'static str, Vec<Op>)> {
    vec![
        ("main", vec![Op::CreatePair(0, 1), Op::CreatePair(1, 0), Op::CreatePair(4, 0), Op::CreatePair(5, 4), Op::CreateTrio(0, 1, 2), Op::CreateTrio(2, 0, 1), Op::CreateTrio(4, 5, 0),
            Op::AddRoute(1, 4, vec![(1, 0), (0, 4)]), Op::RemovePair(1, 0), Op::AddRoute(1, 0, vec![(1, 0)]), Op::ExecHop(0, 1), Op::CreatePair(1, 0), Op::ExecHop(1, 0), Op::ExecHop(4, 0),
            Op::RemoveTrio(1, 2, 0), Op::CreateTrio(1, 2, 0), Op::CreateVault(0), Op::CreateVault(4), Op::CreateVault(0), Op::RemoveVault(0), Op::CreateVault(0), Op::CreateIncentive(4), Op::CreateIncentive(4), Op::CreateIncentive(1)]),
        // every unordered pair of the 7 assets: 21 pairs, so every page size 1..31 splits the listing somewhere
        ("main", (0..7).flat_map(|a| (0..a).map(move |b| if (a + b) % 2 == 0 { Op::CreatePair(a, b) } else { Op::CreatePair(b, a) })).chain((0..7).map(Op::CreateVault)).chain((0..7).map(Op::CreateIncentive))
            .chain((2..7).flat_map(|a| (1..a).map(move |b| Op::CreateTrio(a, 0, b)))).collect()),
        // a hop executed through the router, the pair removed, the same hop again (must be refused), the pair re-created (new contract)
        ("main", vec![Op::CreatePair(0, 1), Op::CreatePair(4, 0), Op::ExecHop(0, 1), Op::ExecHop(1, 0), Op::RemovePair(1, 0), Op::ExecHop(0, 1), Op::ExecHop(1, 0), Op::CreatePair(1, 0), Op::ExecHop(0, 1),
                      Op::CreateVault(0), Op::CreateVault(1), Op::CreateVault(4), Op::CreateVault(5), Op::RemoveVault(1), Op::RemoveVault(4)]),
        // keys that extend other keys by ordinary characters (uluna/uusd, uluna/uusdc, uluna/uusdcx, uluna/uusdt ...): every page size must
        // still return each of them exactly once
        ("prefix", vec![Op::CreatePair(0, 1), Op::CreatePair(2, 0), Op::CreatePair(0, 3), Op::CreatePair(6, 0), Op::CreatePair(4, 1), Op::CreatePair(1, 2), Op::CreatePair(5, 1),
                        Op::CreateTrio(0, 1, 2), Op::CreateTrio(0, 1, 6), Op::CreateTrio(0, 1, 3), Op::CreateTrio(4, 1, 0),
                        Op::CreateVault(1), Op::CreateVault(2), Op::CreateVault(6), Op::CreateVault(3), Op::CreateVault(0),
                        Op::CreateIncentive(1), Op::CreateIncentive(2), Op::CreateIncentive(6), Op::CreateIncentive(3), Op::RemovePair(0, 1), Op::CreatePair(1, 0)]),
        // StableSwap pairs with amplifications in and out of the three-asset pool's range (the pair does not validate it): whatever type
        // the registry records, the pair itself reports the same; no liquidity-dependent operation in this history
        ("main_stable", vec![Op::CreatePair(0, 1), Op::CreatePair(2, 0), Op::CreatePair(0, 3), Op::CreatePair(4, 0), Op::CreatePair(1, 2), Op::CreatePair(5, 1), Op::CreatePair(3, 1),
                             Op::RemovePair(0, 1), Op::CreatePair(1, 0), Op::CreatePair(4, 5)]),
        // known finding: ambiguous concatenated keys
        ("ambiguous", vec![Op::CreatePair(0, 1), Op::CreatePair(2, 3), Op::ExecHop(2, 3), Op::RemovePair(3, 2), Op::CreatePair(3, 2), Op::CreatePair(1, 0), Op::CreateTrio(0, 1, 4), Op::CreateTrio(2, 3, 4)]),
        // known finding: a key that extends another key by a byte <= 1 is skipped by the cursor
        ("cursor", vec![Op::CreatePair(0, 1), Op::CreatePair(0, 2), Op::CreatePair(0, 3), Op::CreatePair(0, 5), Op::CreateIncentive(1), Op::CreateIncentive(2), Op::CreateIncentive(3), Op::CreateIncentive(5), Op::CreatePair(4, 0)]),
    ]
}


/// One AddSwapRoutes message may carry several routes, also several for the same (offer, ask) key. Whatever the message looks like: it is
/// either refused and stores nothing, or every route the router reports afterwards has only registered pairs as hops.
/// (Monitor-only probe: the model's AddRoute op carries one route.)
fn multi_route_message_probe(out: &mut Out) {
    let mut w = world19(&universe_spec("main"));
    for op in [Op::CreatePair(0, 1), Op::CreatePair(1, 2)] { let _ = w.exec(0, &op); }
    let adm = admin();
    let hop = |w: &W19, x: usize, y: usize| rt::SwapOperation::TerraSwap { offer_asset_info: w.u[x].clone(), ask_asset_info: w.u[y].clone() };
    let route = |w: &W19, o: usize, a: usize, hops: &[(usize, usize)]| rt::SwapRoute { offer_asset_info: w.u[o].clone(), ask_asset_info: w.u[a].clone(), swap_operations: hops.iter().map(|(x, y)| hop(w, *x, *y)).collect() };
    // (message, description): pairs (0,1) and (1,2) exist; (0,3), (3,1), (0,2) do not
    let msgs: Vec<(Vec<rt::SwapRoute>, &str)> = vec![
        (vec![route(&w, 0, 1, &[(0, 1)]), route(&w, 0, 1, &[(0, 3), (3, 1)])], "valid route, then a route with unregistered hops for the same key"),
        (vec![route(&w, 0, 1, &[(0, 3), (3, 1)]), route(&w, 0, 1, &[(0, 1)])], "route with unregistered hops, then a valid route for the same key"),
        (vec![route(&w, 0, 2, &[(0, 1), (1, 2)]), route(&w, 1, 2, &[(1, 2)]), route(&w, 0, 2, &[(0, 2)])], "two valid routes and an unregistered direct hop repeating the first key"),
        (vec![route(&w, 0, 2, &[(0, 1), (1, 2)]), route(&w, 1, 2, &[(1, 2)])], "two valid routes with different keys"),
        (vec![route(&w, 0, 1, &[(0, 1)]), route(&w, 0, 1, &[(0, 1)])], "the same valid route twice"),
    ];
    for (k, (routes, what)) in msgs.into_iter().enumerate() {
        let rp = json!({"kind": "multi_route_message_probe", "message": k, "what": what, "script": "pairs (a0,a1) and (a1,a2) registered; AddSwapRoutes with several routes in ONE message, some for the same (offer, ask) key"});
        let r = w.b.router.clone();
        let accepted = catch(|| w.b.app.execute_contract(adm.clone(), r.clone(), &rt::ExecuteMsg::AddSwapRoutes { swap_routes: routes.clone() }, &[])).is_some();
        out.monitor_evals += 1;
        // every stored route: all hops registered
        for (o, a) in [(0usize, 1usize), (0, 2), (1, 2)] {
            let q: Result<Vec<rt::SwapOperation>, _> = w.b.app.wrap().query_wasm_smart(&w.b.router, &rt::QueryMsg::SwapRoute { offer_asset_info: w.u[o].clone(), ask_asset_info: w.u[a].clone() });
            if let Ok(resp) = q {
                for h in resp.iter() {
                    let rt::SwapOperation::TerraSwap { offer_asset_info, ask_asset_info } = h;
                    let registered: Result<PairInfo, _> = w.b.app.wrap().query_wasm_smart(&w.b.factory, &white_whale_std::pool_network::factory::QueryMsg::Pair { asset_infos: [offer_asset_info.clone(), ask_asset_info.clone()] });
                    if registered.is_err() { out.monitor_fail("C19", &format!("after an AddSwapRoutes message ({}; accepted = {}) the router stores a route with a hop that is no registered pair", what, accepted), rp.clone()); }
                }
            }
        }
        out.count(&format!("probe:multi_route_message:{}", if accepted { "accepted" } else { "refused" }));
    }
}

pub fn run(args: &Args) {
    let mut out = Out::new(&args.out);
    out.rule = "one case = one history of 10..24 create / remove / re-create / route / hop operations on the real factories and router over 7 native and cw20 assets given in every order \
                (plus hand-made histories over the two special universes of the known findings); non-trivial = at least 4 operation kinds and a removed asset set created again; distinct = by hash of the history".into();
    if let Some(path) = &args.replay {
        let j = read_replay(path);
        let fi = &j["failing_input"];
        if fi["kind"].as_str() == Some("multi_route_message_probe") { replay_probe(&mut out, &mut |o| multi_route_message_probe(o)); }
        let uni = fi["universe"].as_str().unwrap_or("main").to_string();
        let ops: Vec<Op> = serde_json::from_value(fi["ops"].clone()).expect("failing_input.ops");
        std::env::set_var("WWVERIF_ERRORS", "1");
        let r = run_history(&mut out, &uni, &ops, false);
        println!("replayed {} ops over universe `{}`; observation: {}", ops.len(), uni, r.obs.join(" "));
        for f in &out.monitor_failures { println!("MONITOR-FAIL {}", f["what"]); }
        for f in &out.known_hits { println!("KNOWN {}", f["what"]); }
        let failed = !out.monitor_failures.is_empty();
        out.finish();
        std::process::exit(if failed { 1 } else { 0 });
    }
    let mut rng = Rng::new(args.seed);
    for (uni, h) in corpus() { run_history(&mut out, uni, &h, true); }
    multi_route_message_probe(&mut out);
    for _ in 0..args.n { let h = gen_history(&mut rng, 7); run_history(&mut out, "main", &h, true); }
    out.finish();
}
