//! Deployment of the REAL contracts from /repo under cw-multi-test.
#![allow(dead_code)]
use cosmwasm_std::{coin, to_json_binary, Addr, Coin, Decimal, Empty, Uint128};
use cw20::{BalanceResponse, Cw20Coin, Cw20ExecuteMsg, Cw20QueryMsg, MinterResponse, TokenInfoResponse};
use cw_multi_test::{App, AppBuilder, AppResponse, BankKeeper, Contract, ContractWrapper, Executor};
use white_whale_std::fee::Fee;
use white_whale_std::pool_network::asset::{Asset, AssetInfo, PairInfo, PairType};
use white_whale_std::pool_network::pair::{self, PoolFee};

pub const OWNER: &str = "owner";
pub const COLLECTOR: &str = "collector";
pub const USERS: [&str; 4] = ["alice", "bob", "carol", "donor"];
pub const DENOMS: [&str; 4] = ["uwhale", "uusdc", "uatom", "ubtc"];
/// a token-factory style native denom (same bank semantics, different label / burn handling paths in the contracts)
pub const FACTORY_DENOM: &str = "factory/migaloo1creatoraddressxyz/ufab";
/// an IBC voucher denom (a pair told other decimals than (6, 6) for a "fab" second asset uses this one instead of the factory denom)
pub const PAIR_IBC_DENOM: &str = "ibc/8E27BA2D5493AF5636760E354E46004562C46AB7EC0CC4C1CA14E9E20E2545B5";
/// a token-factory denom whose last path segment is the name of an ordinary denom (it is NOT that denom)
pub const LOOKALIKE_DENOM: &str = "factory/mallory/uatom";
pub const RICH: u128 = u128::MAX / 4;

pub fn token_contract() -> Box<dyn Contract<Empty>> {
    Box::new(ContractWrapper::new_with_empty(
        terraswap_token::contract::execute,
        terraswap_token::contract::instantiate,
        terraswap_token::contract::query,
    ))
}
pub fn cw20_base_contract() -> Box<dyn Contract<Empty>> {
    Box::new(ContractWrapper::new_with_empty(
        cw20_base::contract::execute,
        cw20_base::contract::instantiate,
        cw20_base::contract::query,
    ))
}
pub fn pair_contract() -> Box<dyn Contract<Empty>> {
    Box::new(
        ContractWrapper::new_with_empty(
            terraswap_pair::contract::execute,
            terraswap_pair::contract::instantiate,
            terraswap_pair::contract::query,
        )
        .with_reply(terraswap_pair::contract::reply)
        .with_migrate(terraswap_pair::contract::migrate),
    )
}
pub fn trio_contract() -> Box<dyn Contract<Empty>> {
    Box::new(
        ContractWrapper::new_with_empty(
            stableswap_3pool::contract::execute,
            stableswap_3pool::contract::instantiate,
            stableswap_3pool::contract::query,
        )
        .with_reply(stableswap_3pool::contract::reply)
        .with_migrate(stableswap_3pool::contract::migrate),
    )
}

/// every account that starts with funds
pub fn funded_accounts() -> Vec<&'static str> {
    let mut v = vec![OWNER];
    v.extend(USERS.iter());
    v
}

pub fn new_app() -> App {
    let bank = BankKeeper::new();
    AppBuilder::new().with_bank(bank).build(|router, _api, storage| {
        for a in funded_accounts() {
            let mut coins: Vec<Coin> = DENOMS.iter().map(|d| coin(RICH, *d)).collect();
            coins.push(coin(RICH, FACTORY_DENOM));
            coins.push(coin(RICH, PAIR_IBC_DENOM));
            coins.push(coin(RICH, LOOKALIKE_DENOM));
            // the ordinary denoms in upper case: different bank denoms that merely look alike
            for d in DENOMS.iter() { coins.push(coin(RICH, d.to_uppercase())); }
            coins.sort_by(|a, b| a.denom.cmp(&b.denom));
            router.bank.init_balance(storage, &Addr::unchecked(a), coins).unwrap();
        }
    })
}

pub fn dec(atomics: u128) -> Decimal { Decimal::new(Uint128::new(atomics)) }
pub fn pool_fee(p: u128, s: u128, b: u128) -> PoolFee {
    PoolFee { protocol_fee: Fee { share: dec(p) }, swap_fee: Fee { share: dec(s) }, burn_fee: Fee { share: dec(b) } }
}

pub fn native(d: &str) -> AssetInfo { AssetInfo::NativeToken { denom: d.to_string() } }
pub fn token(a: &Addr) -> AssetInfo { AssetInfo::Token { contract_addr: a.to_string() } }

/// deploy a cw20 (cw20-base) with RICH balance for every funded account
pub fn deploy_cw20(app: &mut App, code: u64, symbol: &str, decimals: u8) -> Addr {
    let balances: Vec<Cw20Coin> = funded_accounts().iter()
        .map(|a| Cw20Coin { address: a.to_string(), amount: Uint128::new(RICH / 8) }).collect();
    app.instantiate_contract(
        code, Addr::unchecked(OWNER),
        &cw20_base::msg::InstantiateMsg {
            name: format!("{symbol} token"), symbol: symbol.to_string(), decimals,
            initial_balances: balances,
            mint: Some(MinterResponse { minter: OWNER.to_string(), cap: None }), marketing: None,
        },
        &[], symbol, None,
    ).unwrap()
}

pub fn cw20_balance(app: &App, tok: &Addr, who: &str) -> u128 {
    let r: BalanceResponse = app.wrap().query_wasm_smart(tok, &Cw20QueryMsg::Balance { address: who.to_string() }).unwrap();
    r.balance.u128()
}
pub fn cw20_supply(app: &App, tok: &Addr) -> u128 {
    let r: TokenInfoResponse = app.wrap().query_wasm_smart(tok, &Cw20QueryMsg::TokenInfo {}).unwrap();
    r.total_supply.u128()
}
pub fn native_balance(app: &App, denom: &str, who: &str) -> u128 {
    app.wrap().query_balance(who, denom).unwrap().amount.u128()
}
pub fn asset_balance(app: &App, info: &AssetInfo, who: &str) -> u128 {
    match info {
        AssetInfo::NativeToken { denom } => native_balance(app, denom, who),
        AssetInfo::Token { contract_addr } => cw20_balance(app, &Addr::unchecked(contract_addr), who),
    }
}

pub struct PairWorld {
    pub app: App,
    pub pair: Addr,
    pub lp: Addr,
    pub assets: [AssetInfo; 2],
    pub decimals: [u8; 2],
    pub foreign: Addr,
}

/// kinds: false = native, true = cw20
pub fn deploy_pair(kinds: [bool; 2], decimals: [u8; 2], fees: PoolFee, pair_type: PairType) -> Result<PairWorld, String> {
    deploy_pair_ext(kinds, decimals, fees, pair_type, false)
}
/// `fab`: a native second asset uses the token-factory style denom
pub fn deploy_pair_ext(kinds: [bool; 2], decimals: [u8; 2], fees: PoolFee, pair_type: PairType, fab: bool) -> Result<PairWorld, String> {
    let mut app = new_app();
    let token_code = app.store_code(token_contract());
    let cw20_code = app.store_code(cw20_base_contract());
    let pair_code = app.store_code(pair_contract());
    let mut infos = vec![];
    for (i, k) in kinds.iter().enumerate() {
        if *k {
            let a = deploy_cw20(&mut app, cw20_code, if i == 0 { "TOKA" } else { "TOKB" }, decimals[i].min(18));   // (cw20-base refuses more than 18; the pair is told `decimals[i]` all the same)
            infos.push(token(&a));
        } else {
            infos.push(native(if fab && i == 1 { if decimals == [6, 6] { FACTORY_DENOM } else { PAIR_IBC_DENOM } } else { DENOMS[i] }));
        }
    }
    let assets = [infos[0].clone(), infos[1].clone()];
    let foreign = deploy_cw20(&mut app, cw20_code, "TOKX", 6);
    // pairs told 8 decimals for their second asset are INSTANTIATED with their cw20 addresses spelled in upper case (the form a client
    // may send; the chain treats addresses case-insensitively and the contract stores the normalised form); every later message uses
    // the normalised addresses. A deterministic function of the case, so replays rebuild the same pair.
    let at_instantiate: [AssetInfo; 2] = if decimals[1] == 8 {
        [0, 1].map(|i| match &assets[i] { AssetInfo::Token { contract_addr } => AssetInfo::Token { contract_addr: contract_addr.to_uppercase() }, a => a.clone() })
    } else { assets.clone() };
    let pair = app.instantiate_contract(
        pair_code, Addr::unchecked(OWNER),
        &pair::InstantiateMsg {
            asset_infos: at_instantiate, token_code_id: token_code, asset_decimals: decimals,
            pool_fees: fees, fee_collector_addr: COLLECTOR.to_string(), pair_type, token_factory_lp: false,
        },
        &[], "pair", None,
    ).map_err(|e| format!("{:#}", e))?;
    let info: PairInfo = app.wrap().query_wasm_smart(&pair, &pair::QueryMsg::Pair {}).unwrap();
    let lp = match info.liquidity_token { AssetInfo::Token { contract_addr } => Addr::unchecked(contract_addr), _ => panic!("native lp") };
    Ok(PairWorld { app, pair, lp, assets, decimals, foreign })
}

impl PairWorld {
    pub fn funds_for(&self, amounts: &[(usize, u128)]) -> Vec<Coin> {
        let mut v: Vec<Coin> = vec![];
        for (i, a) in amounts {
            if let AssetInfo::NativeToken { denom } = &self.assets[*i] { if *a > 0 { v.push(coin(*a, denom)); } }
        }
        v.sort_by(|a, b| a.denom.cmp(&b.denom));
        v
    }
    pub fn allow(&mut self, who: &str, i: usize, amount: u128) {
        if let AssetInfo::Token { contract_addr } = &self.assets[i] {
            // set the allowance to exactly `amount`: clear then increase
            let tok = Addr::unchecked(contract_addr);
            let cur: cw20::AllowanceResponse = self.app.wrap().query_wasm_smart(&tok,
                &Cw20QueryMsg::Allowance { owner: who.to_string(), spender: self.pair.to_string() }).unwrap();
            if !cur.allowance.is_zero() {
                self.app.execute_contract(Addr::unchecked(who), tok.clone(),
                    &Cw20ExecuteMsg::DecreaseAllowance { spender: self.pair.to_string(), amount: cur.allowance, expires: None }, &[]).unwrap();
            }
            if amount > 0 {
                self.app.execute_contract(Addr::unchecked(who), tok,
                    &Cw20ExecuteMsg::IncreaseAllowance { spender: self.pair.to_string(), amount: Uint128::new(amount), expires: None }, &[]).unwrap();
            }
        }
    }
    pub fn provide(&mut self, who: &str, d0: u128, d1: u128, tol: Option<Decimal>, receiver: Option<String>) -> anyhow::Result<AppResponse> {
        self.provide_ext(who, d0, d1, tol, receiver, false, None)
    }
    /// `rev`: pass the two assets in reversed order; `sent`: attach these native amounts instead of the declared ones
    pub fn provide_ext(&mut self, who: &str, d0: u128, d1: u128, tol: Option<Decimal>, receiver: Option<String>, rev: bool, sent: Option<(u128, u128)>) -> anyhow::Result<AppResponse> {
        self.allow(who, 0, d0);
        self.allow(who, 1, d1);
        let (s0, s1) = sent.unwrap_or((d0, d1));
        let funds = self.funds_for(&[(0, s0), (1, s1)]);
        let a0 = Asset { info: self.assets[0].clone(), amount: Uint128::new(d0) };
        let a1 = Asset { info: self.assets[1].clone(), amount: Uint128::new(d1) };
        self.app.execute_contract(Addr::unchecked(who), self.pair.clone(),
            &pair::ExecuteMsg::ProvideLiquidity { assets: if rev { [a1, a0] } else { [a0, a1] }, slippage_tolerance: tol, receiver }, &funds)
    }
    /// ProvideLiquidity with a malformed asset list, every listed native amount really attached:
    /// 1 = asset 0 twice, 2 = asset 1 twice, 3 = [asset 0, a foreign denom], 4 = [a foreign denom, asset 1]
    pub fn provide_malformed(&mut self, who: &str, variant: u8, d0: u128, d1: u128) -> anyhow::Result<AppResponse> {
        self.allow(who, 0, d0);
        self.allow(who, 1, d1);
        let a0 = Asset { info: self.assets[0].clone(), amount: Uint128::new(d0) };
        let a1 = Asset { info: self.assets[1].clone(), amount: Uint128::new(d1) };
        let junk = |x: u128| Asset { info: native(DENOMS[3]), amount: Uint128::new(x) };
        let (assets, mut funds) = match variant {
            1 => ([a0.clone(), a0.clone()], self.funds_for(&[(0, d0)])),
            2 => ([a1.clone(), a1.clone()], self.funds_for(&[(1, d1)])),
            3 => { let mut f = self.funds_for(&[(0, d0)]); f.push(coin(d1, DENOMS[3])); ([a0.clone(), junk(d1)], f) }
            _ => { let mut f = self.funds_for(&[(1, d1)]); f.push(coin(d0, DENOMS[3])); ([junk(d0), a1.clone()], f) }
        };
        funds.sort_by(|a, b| a.denom.cmp(&b.denom));
        self.app.execute_contract(Addr::unchecked(who), self.pair.clone(),
            &pair::ExecuteMsg::ProvideLiquidity { assets, slippage_tolerance: None, receiver: None }, &funds)
    }
    pub fn withdraw(&mut self, who: &str, amount: u128) -> anyhow::Result<AppResponse> {
        self.app.execute_contract(Addr::unchecked(who), self.lp.clone(),
            &Cw20ExecuteMsg::Send { contract: self.pair.to_string(), amount: Uint128::new(amount),
                msg: to_json_binary(&pair::Cw20HookMsg::WithdrawLiquidity {}).unwrap() }, &[])
    }
    /// swap offering asset index `i`
    pub fn swap(&mut self, who: &str, i: usize, amount: u128, belief: Option<Decimal>, max_spread: Option<Decimal>, to: Option<String>) -> anyhow::Result<AppResponse> {
        match &self.assets[i] {
            AssetInfo::NativeToken { denom } => {
                let funds = if amount > 0 { vec![coin(amount, denom)] } else { vec![] };
                self.app.execute_contract(Addr::unchecked(who), self.pair.clone(),
                    &pair::ExecuteMsg::Swap { offer_asset: Asset { info: self.assets[i].clone(), amount: Uint128::new(amount) },
                        belief_price: belief, max_spread, to }, &funds)
            }
            AssetInfo::Token { contract_addr } => {
                self.app.execute_contract(Addr::unchecked(who), Addr::unchecked(contract_addr),
                    &Cw20ExecuteMsg::Send { contract: self.pair.to_string(), amount: Uint128::new(amount),
                        msg: to_json_binary(&pair::Cw20HookMsg::Swap { belief_price: belief, max_spread, to }).unwrap() }, &[])
            }
        }
    }
    pub fn collect(&mut self, who: &str) -> anyhow::Result<AppResponse> {
        self.app.execute_contract(Addr::unchecked(who), self.pair.clone(), &pair::ExecuteMsg::CollectProtocolFees {}, &[])
    }
    pub fn donate(&mut self, who: &str, i: usize, amount: u128) -> anyhow::Result<AppResponse> {
        match &self.assets[i] {
            AssetInfo::NativeToken { denom } => self.app.send_tokens(Addr::unchecked(who), self.pair.clone(), &[coin(amount, denom)]),
            AssetInfo::Token { contract_addr } => self.app.execute_contract(Addr::unchecked(who), Addr::unchecked(contract_addr),
                &Cw20ExecuteMsg::Transfer { recipient: self.pair.to_string(), amount: Uint128::new(amount) }, &[]),
        }
    }
    pub fn bal(&self, i: usize, who: &str) -> u128 { asset_balance(&self.app, &self.assets[i], who) }
    pub fn pool_bal(&self, i: usize) -> u128 { self.bal(i, self.pair.as_str()) }
    pub fn lp_bal(&self, who: &str) -> u128 { cw20_balance(&self.app, &self.lp, who) }
    pub fn lp_supply(&self) -> u128 { cw20_supply(&self.app, &self.lp) }
    pub fn query_pool(&self) -> Result<pair::PoolResponse, String> {
        self.app.wrap().query_wasm_smart(&self.pair, &pair::QueryMsg::Pool {}).map_err(|e| e.to_string())
    }
    pub fn fees_query(&self, all_time: bool) -> [u128; 2] {
        let r: pair::ProtocolFeesResponse = self.app.wrap().query_wasm_smart(&self.pair,
            &pair::QueryMsg::ProtocolFees { asset_id: None, all_time: Some(all_time) }).unwrap();
        [r.fees[0].amount.u128(), r.fees[1].amount.u128()]
    }
    /// the single-asset forms of the ledger queries (`asset_id: Some(..)`) against the whole-ledger forms
    pub fn ledger_queries_disagree(&self) -> Option<String> {
        let (pend, burned, alltime) = (self.fees_query(false), self.burned_query(), self.fees_query(true));
        for i in 0..2 {
            let id = match &self.assets[i] { AssetInfo::NativeToken { denom } => denom.clone(), AssetInfo::Token { contract_addr } => contract_addr.clone() };
            let p: Result<pair::ProtocolFeesResponse, _> = self.app.wrap().query_wasm_smart(&self.pair, &pair::QueryMsg::ProtocolFees { asset_id: Some(id.clone()), all_time: None });
            let b: Result<pair::ProtocolFeesResponse, _> = self.app.wrap().query_wasm_smart(&self.pair, &pair::QueryMsg::BurnedFees { asset_id: Some(id.clone()) });
            match p { Ok(r) if r.fees.len() == 1 && r.fees[0].amount.u128() == pend[i] && r.fees[0].info == self.assets[i] => {}
                      _ => return Some(format!("ProtocolFees{{asset_id: {}}} disagrees with the pending ledger", id)) }
            match b { Ok(r) if r.fees.len() == 1 && r.fees[0].amount.u128() == burned[i] && r.fees[0].info == self.assets[i] => {}
                      _ => return Some(format!("BurnedFees{{asset_id: {}}} disagrees with the burned ledger", id)) }
            // asked for the all-time counter of one asset (the code answers with the whole all-time list): the asset's entry must be its all-time amount
            let a: Result<pair::ProtocolFeesResponse, _> = self.app.wrap().query_wasm_smart(&self.pair, &pair::QueryMsg::ProtocolFees { asset_id: Some(id.clone()), all_time: Some(true) });
            match a { Ok(r) if r.fees.iter().any(|f| f.info == self.assets[i]) && r.fees.iter().filter(|f| f.info == self.assets[i]).all(|f| f.amount.u128() == alltime[i]) => {}
                      _ => return Some(format!("ProtocolFees{{asset_id: {}, all_time: true}} disagrees with the all-time ledger", id)) }
        }
        None
    }
    pub fn burned_query(&self) -> [u128; 2] {
        let r: pair::ProtocolFeesResponse = self.app.wrap().query_wasm_smart(&self.pair,
            &pair::QueryMsg::BurnedFees { asset_id: None }).unwrap();
        [r.fees[0].amount.u128(), r.fees[1].amount.u128()]
    }
    pub fn simulate(&self, i: usize, amount: u128) -> Result<pair::SimulationResponse, String> {
        let app = &self.app;
        let pair = self.pair.clone();
        let a = Asset { info: self.assets[i].clone(), amount: Uint128::new(amount) };
        match std::panic::catch_unwind(std::panic::AssertUnwindSafe(|| {
            app.wrap().query_wasm_smart::<pair::SimulationResponse>(&pair, &pair::QueryMsg::Simulation { offer_asset: a })
        })) {
            Ok(r) => r.map_err(|e| e.to_string()),
            Err(_) => Err("PANIC".to_string()),
        }
    }
}
