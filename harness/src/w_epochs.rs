//! Deployment of the bonding / epoch / fee pipeline family (real contracts): pool factory, router, vault factory,
//! fee collector, whale lair, fee distributor; optionally pairs and vaults (C10). Patterns follow
//! fee_collector/src/tests/integration.rs and whale_lair/src/tests/robot.rs.
#![allow(dead_code)]
use crate::world::*;
use cosmwasm_std::{coin, Addr, Coin, Decimal, Empty, Timestamp, Uint128, Uint64};
use cw_multi_test::{App, AppResponse, Contract, ContractWrapper, Executor};
use white_whale_std::epoch_manager::epoch_manager::EpochConfig;
use white_whale_std::fee_distributor as fd;
use white_whale_std::pool_network::asset::{Asset, AssetInfo};
use white_whale_std::whale_lair as wl;

pub const GENESIS_DEFAULT: u64 = 1_571_797_419_879_305_533; // cw-multi-test default block time
pub const DAY_NS: u64 = 86_400_000_000_000;

pub fn collector_contract() -> Box<dyn Contract<Empty>> {
    Box::new(ContractWrapper::new_with_empty(fee_collector::contract::execute, fee_collector::contract::instantiate, fee_collector::contract::query)
        .with_migrate(fee_collector::contract::migrate).with_reply(fee_collector::contract::reply))
}
pub fn distributor_contract() -> Box<dyn Contract<Empty>> {
    Box::new(ContractWrapper::new_with_empty(fee_distributor::contract::execute, fee_distributor::contract::instantiate, fee_distributor::contract::query)
        .with_reply(fee_distributor::contract::reply).with_migrate(fee_distributor::contract::migrate))
}
pub fn lair_contract() -> Box<dyn Contract<Empty>> {
    Box::new(ContractWrapper::new_with_empty(whale_lair::contract::execute, whale_lair::contract::instantiate, whale_lair::contract::query)
        .with_migrate(whale_lair::contract::migrate))
}
pub fn pool_factory_contract() -> Box<dyn Contract<Empty>> {
    Box::new(ContractWrapper::new_with_empty(terraswap_factory::contract::execute, terraswap_factory::contract::instantiate, terraswap_factory::contract::query)
        .with_reply(terraswap_factory::contract::reply).with_migrate(terraswap_factory::contract::migrate))
}
pub fn pool_router_contract() -> Box<dyn Contract<Empty>> {
    Box::new(ContractWrapper::new(terraswap_router::contract::execute, terraswap_router::contract::instantiate, terraswap_router::contract::query)
        .with_migrate(terraswap_router::contract::migrate))
}
pub fn vault_factory_contract() -> Box<dyn Contract<Empty>> {
    Box::new(ContractWrapper::new_with_empty(vault_factory::contract::execute, vault_factory::contract::instantiate, vault_factory::contract::query)
        .with_reply(vault_factory::reply::reply).with_migrate(vault_factory::contract::migrate))
}
pub fn vault_contract() -> Box<dyn Contract<Empty>> {
    Box::new(ContractWrapper::new(vault::contract::execute, vault::contract::instantiate, vault::contract::query).with_reply(vault::reply::reply))
}
pub fn epoch_manager_contract() -> Box<dyn Contract<Empty>> {
    Box::new(ContractWrapper::new_with_empty(epoch_manager::contract::execute, epoch_manager::contract::instantiate, epoch_manager::contract::query))
}

pub struct EpochCfg {
    pub unbonding_period: u64,
    pub growth_rate: u128,          // Decimal atomics
    pub bonding_denoms: Vec<String>,
    pub grace_period: u64,
    pub duration: u64,
    pub genesis: u64,
    pub distribution_denom: String,
}
impl Default for EpochCfg {
    fn default() -> Self {
        EpochCfg { unbonding_period: 1_000_000_000_000, growth_rate: DEC_ONE, bonding_denoms: vec!["uatom".into(), "ubtc".into()],
                   grace_period: 2, duration: DAY_NS, genesis: GENESIS_DEFAULT, distribution_denom: "uwhale".into() }
    }
}
pub const DEC_ONE: u128 = 1_000_000_000_000_000_000;

pub struct EpochWorld {
    pub app: App,
    pub collector: Addr,
    pub pool_factory: Addr,
    pub router: Addr,
    pub vault_factory: Addr,
    pub lair: Addr,
    pub distributor: Addr,
    pub pair_code: u64,
    pub token_code: u64,
    pub vault_code: u64,
    pub cfg: EpochCfg,
    /// asset names that are cw20 tokens in this world (name = the token's symbol) -> token contract
    pub cw20s: std::collections::BTreeMap<String, Addr>,
}

pub fn deploy_epoch_world(cfg: EpochCfg) -> Result<EpochWorld, String> {
    let mut app = new_app();
    let owner = Addr::unchecked(OWNER);
    let collector_code = app.store_code(collector_contract());
    let distributor_code = app.store_code(distributor_contract());
    let lair_code = app.store_code(lair_contract());
    let pf_code = app.store_code(pool_factory_contract());
    let router_code = app.store_code(pool_router_contract());
    let pair_code = app.store_code(pair_contract());
    let trio_code = app.store_code(trio_contract());
    let token_code = app.store_code(token_contract());
    let vf_code = app.store_code(vault_factory_contract());
    let vault_code = app.store_code(vault_contract());
    let e = |x: anyhow::Error| format!("{:#}", x);

    let collector = app.instantiate_contract(collector_code, owner.clone(), &white_whale_std::fee_collector::InstantiateMsg {}, &[], "fee_collector", None).map_err(e)?;
    let pool_factory = app.instantiate_contract(pf_code, owner.clone(),
        &white_whale_std::pool_network::factory::InstantiateMsg { pair_code_id: pair_code, trio_code_id: trio_code, token_code_id: token_code,
            fee_collector_addr: collector.to_string() }, &[], "pool_factory", None).map_err(e)?;
    let router = app.instantiate_contract(router_code, owner.clone(),
        &white_whale_std::pool_network::router::InstantiateMsg { terraswap_factory: pool_factory.to_string() }, &[], "pool_router", None).map_err(e)?;
    let vault_factory = app.instantiate_contract(vf_code, owner.clone(),
        &white_whale_std::vault_network::vault_factory::InstantiateMsg { owner: OWNER.to_string(), vault_id: vault_code, token_id: token_code,
            fee_collector_addr: collector.to_string() }, &[], "vault_factory", None).map_err(e)?;
    let lair = app.instantiate_contract(lair_code, owner.clone(),
        &wl::InstantiateMsg { unbonding_period: Uint64::new(cfg.unbonding_period), growth_rate: dec(cfg.growth_rate),
            bonding_assets: cfg.bonding_denoms.iter().map(|d| native(d)).collect() }, &[], "whale_lair", None).map_err(e)?;
    let distributor = app.instantiate_contract(distributor_code, owner.clone(),
        &fd::InstantiateMsg { bonding_contract_addr: lair.to_string(), fee_collector_addr: collector.to_string(),
            grace_period: Uint64::new(cfg.grace_period),
            epoch_config: EpochConfig { duration: Uint64::new(cfg.duration), genesis_epoch: Uint64::new(cfg.genesis) },
            distribution_asset: native(&cfg.distribution_denom) }, &[], "fee_distributor", None).map_err(e)?;
    app.execute_contract(owner.clone(), lair.clone(),
        &wl::ExecuteMsg::UpdateConfig { fee_distributor_addr: Some(distributor.to_string()), owner: None, unbonding_period: None, growth_rate: None }, &[]).map_err(e)?;
    app.execute_contract(owner.clone(), collector.clone(),
        &white_whale_std::fee_collector::ExecuteMsg::UpdateConfig { owner: None, pool_router: Some(router.to_string()),
            fee_distributor: Some(distributor.to_string()), pool_factory: Some(pool_factory.to_string()), vault_factory: Some(vault_factory.to_string()),
            take_rate: None, take_rate_dao_address: None, is_take_rate_active: None }, &[]).map_err(e)?;
    Ok(EpochWorld { app, collector, pool_factory, router, vault_factory, lair, distributor, pair_code, token_code, vault_code, cfg, cw20s: Default::default() })
}

impl EpochWorld {
    pub fn now(&self) -> u64 { self.app.block_info().time.nanos() }
    pub fn set_time(&mut self, nanos: u64) {
        let mut b = self.app.block_info();
        if nanos != b.time.nanos() { b.height += 1; }
        b.time = Timestamp::from_nanos(nanos);
        self.app.set_block(b);
    }
    pub fn bal(&self, who: &str, denom: &str) -> u128 {
        match self.cw20s.get(denom) { Some(tok) => cw20_balance(&self.app, tok, who), None => native_balance(&self.app, denom, who) }
    }
    /// make the asset called `name` a cw20 token (symbol = name, 6 decimals); OWNER, the users and `extra` accounts are funded
    pub fn make_cw20(&mut self, name: &str, extra: &[&str]) -> Addr {
        let code = self.app.store_code(cw20_base_contract());
        let tok = deploy_cw20(&mut self.app, code, name, 6);
        for who in extra {
            self.app.execute_contract(Addr::unchecked(OWNER), tok.clone(), &cw20::Cw20ExecuteMsg::Mint { recipient: who.to_string(), amount: Uint128::new(1u128 << 100) }, &[]).unwrap();
        }
        self.cw20s.insert(name.to_string(), tok.clone());
        tok
    }
    pub fn ainfo(&self, name: &str) -> AssetInfo {
        match self.cw20s.get(name) { Some(tok) => AssetInfo::Token { contract_addr: tok.to_string() }, None => native(name) }
    }
    pub fn asset_of(&self, name: &str, amount: u128) -> Asset { Asset { info: self.ainfo(name), amount: Uint128::new(amount) } }
    /// move `amount` of asset `name` from `from` to `to` (bank send or cw20 transfer)
    pub fn transfer(&mut self, from: &str, to: &str, name: &str, amount: u128) -> anyhow::Result<AppResponse> {
        match self.cw20s.get(name).cloned() {
            Some(tok) => self.app.execute_contract(Addr::unchecked(from), tok, &cw20::Cw20ExecuteMsg::Transfer { recipient: to.to_string(), amount: Uint128::new(amount) }, &[]),
            None => self.app.send_tokens(Addr::unchecked(from), Addr::unchecked(to), &[coin(amount, name)]),
        }
    }
    fn allow(&mut self, owner: &str, spender: &Addr, name: &str, amount: u128) {
        if let Some(tok) = self.cw20s.get(name).cloned() {
            self.app.execute_contract(Addr::unchecked(owner), tok, &cw20::Cw20ExecuteMsg::IncreaseAllowance { spender: spender.to_string(), amount: Uint128::new(amount), expires: None }, &[]).unwrap();
        }
    }
    fn native_funds(&self, parts: &[(&str, u128)]) -> Vec<Coin> {
        let mut funds: Vec<Coin> = parts.iter().filter(|(n, _)| !self.cw20s.contains_key(*n)).map(|(n, x)| coin(*x, *n)).collect();
        funds.sort_by(|p, q| p.denom.cmp(&q.denom));
        funds
    }

    // ---- whale lair ----
    pub fn bond(&mut self, who: &str, asset: Asset, funds: &[Coin]) -> anyhow::Result<AppResponse> {
        self.app.execute_contract(Addr::unchecked(who), self.lair.clone(), &wl::ExecuteMsg::Bond { asset }, funds)
    }
    pub fn unbond(&mut self, who: &str, asset: Asset, funds: &[Coin]) -> anyhow::Result<AppResponse> {
        self.app.execute_contract(Addr::unchecked(who), self.lair.clone(), &wl::ExecuteMsg::Unbond { asset }, funds)
    }
    pub fn withdraw(&mut self, who: &str, denom: &str, funds: &[Coin]) -> anyhow::Result<AppResponse> {
        self.app.execute_contract(Addr::unchecked(who), self.lair.clone(), &wl::ExecuteMsg::Withdraw { denom: denom.to_string() }, funds)
    }
    pub fn q_bonded(&self, who: &str) -> Result<wl::BondedResponse, String> {
        self.app.wrap().query_wasm_smart(&self.lair, &wl::QueryMsg::Bonded { address: who.to_string() }).map_err(|e| e.to_string())
    }
    pub fn q_total_bonded(&self) -> wl::BondedResponse {
        self.app.wrap().query_wasm_smart(&self.lair, &wl::QueryMsg::TotalBonded {}).unwrap()
    }
    pub fn q_global_index(&self) -> wl::GlobalIndex {
        self.app.wrap().query_wasm_smart(&self.lair, &wl::QueryMsg::GlobalIndex {}).unwrap()
    }
    pub fn q_unbonding(&self, who: &str, denom: &str, limit: u8) -> Result<wl::UnbondingResponse, String> {
        self.app.wrap().query_wasm_smart(&self.lair, &wl::QueryMsg::Unbonding { address: who.to_string(), denom: denom.to_string(), start_after: None, limit: Some(limit) })
            .map_err(|e| e.to_string())
    }
    /// None = the query failed (error or panic)
    pub fn q_withdrawable(&self, who: &str, denom: &str) -> Option<u128> {
        let app = &self.app;
        let lair = self.lair.clone();
        match std::panic::catch_unwind(std::panic::AssertUnwindSafe(|| {
            app.wrap().query_wasm_smart::<wl::WithdrawableResponse>(&lair, &wl::QueryMsg::Withdrawable { address: who.to_string(), denom: denom.to_string() })
        })) {
            Ok(Ok(r)) => Some(r.withdrawable_amount.u128()),
            _ => None,
        }
    }
    pub fn q_weight(&self, who: &str, timestamp: Option<Timestamp>, global_index: Option<wl::GlobalIndex>) -> Option<wl::BondingWeightResponse> {
        let app = &self.app;
        let lair = self.lair.clone();
        match std::panic::catch_unwind(std::panic::AssertUnwindSafe(|| {
            app.wrap().query_wasm_smart::<wl::BondingWeightResponse>(&lair, &wl::QueryMsg::Weight { address: who.to_string(), timestamp, global_index })
        })) {
            Ok(Ok(r)) => Some(r),
            _ => None,
        }
    }

    // ---- fee distributor ----
    pub fn new_epoch(&mut self, who: &str) -> anyhow::Result<AppResponse> {
        self.app.execute_contract(Addr::unchecked(who), self.distributor.clone(), &fd::ExecuteMsg::NewEpoch {}, &[])
    }
    pub fn claim(&mut self, who: &str) -> anyhow::Result<AppResponse> {
        self.app.execute_contract(Addr::unchecked(who), self.distributor.clone(), &fd::ExecuteMsg::Claim {}, &[])
    }
    pub fn set_grace(&mut self, who: &str, g: u64) -> anyhow::Result<AppResponse> {
        self.app.execute_contract(Addr::unchecked(who), self.distributor.clone(),
            &fd::ExecuteMsg::UpdateConfig { owner: None, bonding_contract_addr: None, fee_collector_addr: None, grace_period: Some(Uint64::new(g)),
                distribution_asset: None, epoch_config: None }, &[])
    }
    pub fn q_current_epoch(&self) -> fd::Epoch {
        let r: fd::EpochResponse = self.app.wrap().query_wasm_smart(&self.distributor, &fd::QueryMsg::CurrentEpoch {}).unwrap();
        r.epoch
    }
    pub fn q_epoch(&self, id: u64) -> fd::Epoch {
        let r: fd::EpochResponse = self.app.wrap().query_wasm_smart(&self.distributor, &fd::QueryMsg::Epoch { id: Uint64::new(id) }).unwrap();
        r.epoch
    }
    pub fn q_claimable_epochs(&self) -> Vec<fd::Epoch> {
        let r: fd::ClaimableEpochsResponse = self.app.wrap().query_wasm_smart(&self.distributor, &fd::QueryMsg::ClaimableEpochs {}).unwrap();
        r.epochs
    }
    pub fn q_claimable(&self, who: &str) -> Result<Vec<fd::Epoch>, String> {
        self.app.wrap().query_wasm_smart::<fd::ClaimableEpochsResponse>(&self.distributor, &fd::QueryMsg::Claimable { address: who.to_string() })
            .map(|r| r.epochs).map_err(|e| e.to_string())
    }
    pub fn q_distributor_config(&self) -> fd::Config {
        self.app.wrap().query_wasm_smart(&self.distributor, &fd::QueryMsg::Config {}).unwrap()
    }
    /// fees arriving at the collector in the distribution asset (stands for collected + aggregated pool fees)
    pub fn feed_collector(&mut self, from: &str, amount: u128) -> anyhow::Result<AppResponse> {
        let d = self.cfg.distribution_denom.clone();
        self.app.send_tokens(Addr::unchecked(from), self.collector.clone(), &[coin(amount, d)])
    }
}

pub fn asset_native(denom: &str, amount: u128) -> Asset { Asset { info: native(denom), amount: Uint128::new(amount) } }
pub fn asset_amount(assets: &[Asset], denom: &str) -> u128 {
    assets.iter().filter(|a| matches!(&a.info, AssetInfo::NativeToken { denom: d } if d == denom)).map(|a| a.amount.u128()).sum()
}
pub fn decimal(atomics: u128) -> Decimal { dec(atomics) }

// ---- recording hook receiver (C20): counts EpochChangedHook notifications, can be told to reject ----------------
pub mod hook_recorder {
    use cosmwasm_schema::cw_serde;
    use cosmwasm_std::{to_json_binary, Binary, Deps, DepsMut, Empty, Env, MessageInfo, Response, StdError, StdResult};
    use cw_multi_test::{Contract, ContractWrapper};
    use cw_storage_plus::Item;
    use white_whale_std::epoch_manager::hooks::EpochChangedHookMsg;

    #[cw_serde]
    pub enum Exec { EpochChangedHook(EpochChangedHookMsg), SetFail { fail: bool } }
    #[cw_serde]
    pub enum Query { Log {} }
    #[cw_serde]
    #[derive(Default)]
    pub struct Log { pub calls: u64, pub last_id: u64, pub last_start: u64 }
    const LOG: Item<Log> = Item::new("log");
    const FAIL: Item<bool> = Item::new("fail");

    fn instantiate(deps: DepsMut, _e: Env, _i: MessageInfo, _m: Empty) -> StdResult<Response> {
        LOG.save(deps.storage, &Log::default())?;
        FAIL.save(deps.storage, &false)?;
        Ok(Response::default())
    }
    fn execute(deps: DepsMut, _e: Env, _i: MessageInfo, m: Exec) -> StdResult<Response> {
        match m {
            Exec::SetFail { fail } => FAIL.save(deps.storage, &fail)?,
            Exec::EpochChangedHook(h) => {
                if FAIL.load(deps.storage)? { return Err(StdError::generic_err("hook receiver rejects")); }
                let mut l = LOG.load(deps.storage)?;
                l.calls += 1;
                l.last_id = h.current_epoch.id;
                l.last_start = h.current_epoch.start_time.nanos();
                LOG.save(deps.storage, &l)?;
            }
        }
        Ok(Response::default())
    }
    fn query(deps: Deps, _e: Env, _m: Query) -> StdResult<Binary> { to_json_binary(&LOG.load(deps.storage)?) }
    pub fn contract() -> Box<dyn Contract<Empty>> { Box::new(ContractWrapper::new(execute, instantiate, query)) }
}

// ---- pools, vaults, routes, flash-loan borrower (C10) --------------------------------------------------------------
pub mod borrower {
    use cosmwasm_schema::cw_serde;
    use cosmwasm_std::{to_json_binary, BankMsg, Binary, Coin, Deps, DepsMut, Empty, Env, MessageInfo, Response, StdResult};
    use cw_multi_test::{Contract, ContractWrapper};
    #[cw_serde]
    pub enum Exec { Send { to_address: String, amount: Vec<Coin> }, Cw20Transfer { token: String, to_address: String, amount: cosmwasm_std::Uint128 } }
    fn instantiate(_d: DepsMut, _e: Env, _i: MessageInfo, _m: Empty) -> StdResult<Response> { Ok(Response::default()) }
    fn execute(_d: DepsMut, _e: Env, _i: MessageInfo, m: Exec) -> StdResult<Response> {
        match m {
            Exec::Send { to_address, amount } => Ok(Response::new().add_message(BankMsg::Send { to_address, amount })),
            Exec::Cw20Transfer { token, to_address, amount } => Ok(Response::new().add_message(cosmwasm_std::WasmMsg::Execute { contract_addr: token,
                msg: to_json_binary(&cw20::Cw20ExecuteMsg::Transfer { recipient: to_address, amount })?, funds: vec![] })),
        }
    }
    fn query(_d: Deps, _e: Env, _m: Empty) -> StdResult<Binary> { to_json_binary(&0u8) }
    pub fn contract() -> Box<dyn Contract<Empty>> { Box::new(ContractWrapper::new(execute, instantiate, query)) }
}

use white_whale_std::fee::{Fee, VaultFee};
use white_whale_std::pool_network::asset::PairType;
use white_whale_std::pool_network::router::{SwapOperation, SwapRoute};

impl EpochWorld {
    pub fn add_native_decimals(&mut self, denom: &str) -> Result<(), String> {
        self.app.execute_contract(Addr::unchecked(OWNER), self.pool_factory.clone(),
            &white_whale_std::pool_network::factory::ExecuteMsg::AddNativeTokenDecimals { denom: denom.to_string(), decimals: 6 }, &[coin(1, denom)])
            .map(|_| ()).map_err(|e| format!("{:#}", e))
    }
    pub fn create_pair(&mut self, a: &str, b: &str, protocol: u128, swap: u128, burn: u128) -> Result<Addr, String> {
        let infos = [self.ainfo(a), self.ainfo(b)];
        self.app.execute_contract(Addr::unchecked(OWNER), self.pool_factory.clone(),
            &white_whale_std::pool_network::factory::ExecuteMsg::CreatePair { asset_infos: infos.clone(), pool_fees: pool_fee(protocol, swap, burn),
                pair_type: PairType::ConstantProduct, token_factory_lp: false }, &[]).map_err(|e| format!("{:#}", e))?;
        let info: white_whale_std::pool_network::asset::PairInfo = self.app.wrap().query_wasm_smart(&self.pool_factory,
            &white_whale_std::pool_network::factory::QueryMsg::Pair { asset_infos: infos }).map_err(|e| e.to_string())?;
        Ok(Addr::unchecked(info.contract_addr))
    }
    pub fn provide(&mut self, pair: &Addr, a: &str, x: u128, b: &str, y: u128) -> Result<(), String> {
        let funds = self.native_funds(&[(a, x), (b, y)]);
        self.allow(OWNER, pair, a, x);
        self.allow(OWNER, pair, b, y);
        let assets = [self.asset_of(a, x), self.asset_of(b, y)];
        self.app.execute_contract(Addr::unchecked(OWNER), pair.clone(),
            &white_whale_std::pool_network::pair::ExecuteMsg::ProvideLiquidity { assets, slippage_tolerance: None, receiver: None }, &funds)
            .map(|_| ()).map_err(|e| format!("{:#}", e))
    }
    pub fn pair_swap(&mut self, who: &str, pair: &Addr, offer: &str, amount: u128) -> anyhow::Result<AppResponse> {
        if let Some(tok) = self.cw20s.get(offer).cloned() {
            let hook = cosmwasm_std::to_json_binary(&white_whale_std::pool_network::pair::Cw20HookMsg::Swap { belief_price: None, max_spread: Some(Decimal::percent(50)), to: None })?;
            return self.app.execute_contract(Addr::unchecked(who), tok, &cw20::Cw20ExecuteMsg::Send { contract: pair.to_string(), amount: Uint128::new(amount), msg: hook }, &[]);
        }
        self.app.execute_contract(Addr::unchecked(who), pair.clone(),
            &white_whale_std::pool_network::pair::ExecuteMsg::Swap { offer_asset: asset_native(offer, amount), belief_price: None,
                max_spread: Some(Decimal::percent(50)), to: None }, &[coin(amount, offer)])
    }
    pub fn create_vault(&mut self, denom: &str, protocol: u128, flash: u128) -> Result<Addr, String> {
        self.app.execute_contract(Addr::unchecked(OWNER), self.vault_factory.clone(),
            &white_whale_std::vault_network::vault_factory::ExecuteMsg::CreateVault { asset_info: self.ainfo(denom),
                fees: VaultFee { protocol_fee: Fee { share: dec(protocol) }, flash_loan_fee: Fee { share: dec(flash) }, burn_fee: Fee { share: dec(0) } },
                token_factory_lp: false }, &[]).map_err(|e| format!("{:#}", e))?;
        let v: Option<String> = self.app.wrap().query_wasm_smart(&self.vault_factory,
            &white_whale_std::vault_network::vault_factory::QueryMsg::Vault { asset_info: self.ainfo(denom) }).map_err(|e| e.to_string())?;
        v.map(Addr::unchecked).ok_or_else(|| "vault not registered".to_string())
    }
    pub fn vault_deposit(&mut self, vault: &Addr, denom: &str, amount: u128) -> Result<(), String> {
        self.allow(OWNER, vault, denom, amount);
        let funds = self.native_funds(&[(denom, amount)]);
        self.app.execute_contract(Addr::unchecked(OWNER), vault.clone(),
            &white_whale_std::vault_network::vault::ExecuteMsg::Deposit { amount: Uint128::new(amount) }, &funds)
            .map(|_| ()).map_err(|e| format!("{:#}", e))
    }
    /// a flash loan taken by the borrower contract, repaid with the fees the vault asks for
    pub fn flash_loan(&mut self, borrower: &Addr, vault: &Addr, denom: &str, amount: u128) -> anyhow::Result<AppResponse> {
        let pay: white_whale_std::vault_network::vault::PaybackAmountResponse = self.app.wrap().query_wasm_smart(vault,
            &white_whale_std::vault_network::vault::QueryMsg::GetPaybackAmount { amount: Uint128::new(amount) })?;
        let msg = match self.cw20s.get(denom) {
            Some(tok) => cosmwasm_std::to_json_binary(&borrower::Exec::Cw20Transfer { token: tok.to_string(), to_address: vault.to_string(), amount: pay.payback_amount })?,
            None => cosmwasm_std::to_json_binary(&borrower::Exec::Send { to_address: vault.to_string(), amount: vec![coin(pay.payback_amount.u128(), denom)] })?,
        };
        self.app.execute_contract(borrower.clone(), vault.clone(),
            &white_whale_std::vault_network::vault::ExecuteMsg::FlashLoan { amount: Uint128::new(amount), msg }, &[])
    }
    pub fn add_route(&mut self, offer: &str, ask: &str, hops: &[(&str, &str)]) -> Result<(), String> {
        let ops: Vec<SwapOperation> = hops.iter().map(|(o, a)| SwapOperation::TerraSwap { offer_asset_info: self.ainfo(o), ask_asset_info: self.ainfo(a) }).collect();
        self.app.execute_contract(Addr::unchecked(OWNER), self.router.clone(),
            &white_whale_std::pool_network::router::ExecuteMsg::AddSwapRoutes { swap_routes: vec![SwapRoute { offer_asset_info: self.ainfo(offer), ask_asset_info: self.ainfo(ask), swap_operations: ops }] }, &[])
            .map(|_| ()).map_err(|e| format!("{:#}", e))
    }
    pub fn route_ops(&self, offer: &str, ask: &str) -> Option<Vec<SwapOperation>> {
        self.app.wrap().query_wasm_smart::<Vec<SwapOperation>>(&self.router,
            &white_whale_std::pool_network::router::QueryMsg::SwapRoute { offer_asset_info: self.ainfo(offer), ask_asset_info: self.ainfo(ask) }).ok()
    }
    pub fn simulate_route(&self, amount: u128, ops: &[SwapOperation]) -> bool {
        let (app, router, ops) = (&self.app, self.router.clone(), ops.to_vec());
        matches!(std::panic::catch_unwind(std::panic::AssertUnwindSafe(|| {
            app.wrap().query_wasm_smart::<white_whale_std::pool_network::router::SimulateSwapOperationsResponse>(&router,
                &white_whale_std::pool_network::router::QueryMsg::SimulateSwapOperations { offer_amount: Uint128::new(amount), operations: ops })
        })), Ok(Ok(_)))
    }
    pub fn collector_exec(&mut self, who: &str, msg: &white_whale_std::fee_collector::ExecuteMsg) -> anyhow::Result<AppResponse> {
        self.app.execute_contract(Addr::unchecked(who), self.collector.clone(), msg, &[])
    }
}
