//! C17 — pause switches stop exactly the operation they name.
//! Exhaustive matrix: every switch combination (2^3) x every entry path x {empty, funded} x every pool / vault flavour, on the
//! REAL contracts. Pools are checked differentially against an identical all-enabled twin; the vault additionally against
//! the concrete Coq model (stream vault_toggles).
use crate::common::*;
use crate::w_pools::*;
use crate::w_vault as wv;
use crate::w_vault::{Act, Op, UParams};
use cosmwasm_std::Uint128;
use serde_json::json;

fn u(x: u128) -> Uint128 { Uint128::new(x) }

/// which switch the property says guards the path: 0 deposits, 1 withdrawals, 2 swaps, None: not guarded
fn guard(p: u32) -> Option<usize> {
    match p { P_PROVIDE | P_PROVIDE_HELPER => Some(0), P_WITHDRAW_HOOK => Some(1), P_SWAP_DIRECT | P_SWAP_HOOK | P_SWAP_ROUTER | P_SWAP_ROUTER_HOOK => Some(2), _ => None }
}
/// does the "disabled" error text reach the top-level error? (the frontend helper swallows it into its own reply error)
fn class_visible(p: u32) -> bool { p != P_PROVIDE_HELPER }

fn prep_pool(w: &mut PoolWorld, funded: bool) {
    if funded {
        // large enough that the pending protocol fee exceeds the collection threshold (CollectProtocolFees really moves funds)
        assert_eq!(w.exec(P_PROVIDE, 10_000_000), 0, "setup provide");
        assert_eq!(w.exec(P_SWAP_DIRECT, 20_000_000), 0, "setup swap");
    }
}

fn pool_case(out: &mut Out, kind: PoolKind, funded: bool, fl: u32, p: u32) {
    let flags = (fl & 1 != 0, fl & 2 != 0, fl & 4 != 0);
        let (mut a, mut b) = match (deploy(kind), deploy(kind)) { (Ok(a), Ok(b)) => (a, b), _ => return };
        prep_pool(&mut a, funded);
        prep_pool(&mut b, funded);
        let x = 7_001u128 + ((fl + p) % 2) as u128;   // odd: proceeds directed to the fee collector; even: to the trader
        let replay = json!({"kind": "pool_gate", "pool": kind.name(), "state": if funded { "funded" } else { "empty" },
            "switches_deposits_withdrawals_swaps": [flags.0, flags.1, flags.2], "switch_bits": fl, "funded": funded, "pool_index": kind.index(), "path": path_name(p), "path_index": p, "amount_scale": x.to_string()});
        if a.set_flags_with(OWNER, flags, (fl + p) % 3 == 1) != 0 || a.flags() != flags { out.monitor_fail("C17", "the owner could not set the pause switches", replay.clone()); return; }
        let a0 = a.dump();
        let tc = b.exec(p, x);
        let b1 = b.dump();
        let c1 = a.exec(p, x);
        let a1 = a.dump();
        let frame1 = if c1 != 0 { a1 == a0 } else { a1 == b1 };
        let back = a.set_flags_with(OWNER, (true, true, true), (fl + p) % 3 == 2);
        let (c2, frame2) = if c1 != 0 && tc == 0 { let c2 = a.exec(p, x); (c2, a.dump() == b1) } else { (9, a.dump() == a1) };
        // ---- the property's own predicate on the implementation
        out.monitor_evals += 1;
        let off = guard(p).map(|g| ![flags.0, flags.1, flags.2][g]).unwrap_or(false);
        if off {
            if c1 == 0 { out.monitor_fail("C17", &format!("a disabled operation was accepted through: {}", path_name(p)), replay.clone()); }
            else if a1 != a0 { out.monitor_fail("C17", &format!("a rejected (disabled) call moved funds or changed state: {}", path_name(p)), replay.clone()); }
            if tc == 0 && (c2 != 0 || !frame2) { out.monitor_fail("C17", &format!("re-enabling did not restore the previous behaviour: {}", path_name(p)), replay.clone()); }
        } else if (c1 == 0) != (tc == 0) || !frame1 {
            out.monitor_fail("C17", &format!("an operation whose own switch is on behaves differently because other switches are off: {}", path_name(p)), replay.clone());
        }
        if back != 0 || a.flags() != (true, true, true) { out.monitor_fail("C17", "the owner could not re-enable the switches", replay.clone()); }
        // ---- correspondence with the gate machine
        let vis = class_visible(p);
        let c1n = if c1 != 0 && (!vis || tc != 0) { 1 } else { c1 };
        let input = format!("(({}, {}, {}), {}, {}, {})", flags.0 as u8, flags.1 as u8, flags.2 as u8, p, vis as u8, tc);
        out.case("pool_gate", &input, &[c1n.to_string(), (frame1 as u8).to_string(), c2.to_string(), (frame2 as u8).to_string()], replay.clone());
        out.count(&format!("pool:{}:{}", kind.name(), match c1 { 0 => "accepted", 2 => "disabled", _ => "rejected" }));
        out.count(&format!("path:{}", path_name(p)));
        if off && tc == 0 { out.nontrivial_key(hash_str(&format!("{:?}{}{}{}", kind, funded, fl, p))); }
        if out.samples.len() < 3 && off && tc == 0 { out.sample(replay); }
}

fn pools(out: &mut Out) {
    let kinds = [PoolKind::PairNN, PoolKind::PairNC, PoolKind::TrioNNN, PoolKind::TrioNNC, PoolKind::StableNN, PoolKind::StableNC];
    for kind in kinds {
        // fresh pools start with everything enabled; a stranger cannot move the switches
        let mut w0 = match deploy(kind) { Ok(w) => w, Err(e) => { out.monitor_fail("C17", &format!("cannot deploy {}: {}", kind.name(), e), json!({"kind": kind.name()})); continue; } };
        let f0 = w0.flags();
        let c = w0.set_flags(BOB, (false, false, false));
        let f1 = w0.flags();
        out.monitor_evals += 1;
        if f0 != (true, true, true) { out.monitor_fail("C17", "a fresh pool does not start with everything enabled", json!({"kind": kind.name()})); }
        if c == 0 || f1 != f0 { out.monitor_fail("C17", "somebody who is not the owner changed the pause switches", json!({"kind": kind.name()})); }
        out.case("fresh", &format!("{}", kind.index()), &[(f0.0 as u8).to_string(), (f0.1 as u8).to_string(), (f0.2 as u8).to_string(), if c == 0 { "0".into() } else { "3".to_string() }],
                 json!({"kind": "fresh pool + unauthorized switch update", "pool": kind.name()}));
        for funded in [false, true] {
            for fl in 0..8u32 {
                for p in 0..9u32 {
                    if !w0.has_path(p) { continue; }
                    pool_case(out, kind, funded, fl, p);
                }
            }
        }
    }
}

// ---- vault -----------------------------------------------------------------------------------------
const V_PATHS: [&str; 9] = ["Deposit (user, direct)", "Deposit (contract, direct)", "LP Send Withdraw hook (user)", "LP Send Withdraw hook (contract)",
    "Withdraw {} (direct)", "FlashLoan (direct, borrower contract)", "FlashLoan inside a caught sub-message", "vault_router FlashLoan", "CollectProtocolFees"];
fn v_guard(p: usize) -> Option<usize> { match p { 0 | 1 => Some(0), 2 | 3 => Some(1), 5 | 7 => Some(2), _ => None } }

fn v_op(p: usize, d: &wv::Dump) -> Op {
    let q = |z: u128| z + wv::floor_fee(z, d.fees.0) + wv::floor_fee(z, d.fees.1) + wv::floor_fee(z, d.fees.2);
    let z = if d.bal > 0 { d.bal / 2 } else { 1000 };
    match p {
        0 => Op::Deposit { u: 6, amount: u(50_001), sent: u(50_001) },
        1 => Op::Run { script: vec![Act::Deposit { amount: u(20_003) }] },
        2 => Op::Withdraw { u: 6, amount: u(if d.lp[6] > 0 { d.lp[6] / 3 } else { 5 }) },
        3 => Op::Run { script: vec![Act::Withdraw { amount: u(if d.lp[wv::I_ADV] > 0 { d.lp[wv::I_ADV] / 3 } else { 5 }) }] },
        4 => Op::WithdrawDirect { u: 6 },
        5 => Op::Run { script: vec![Act::Loan { amount: u(z), script: vec![Act::RepayQ { neg: false, delta: u(0) }] }] },
        6 => Op::Run { script: vec![Act::Try { script: vec![Act::Loan { amount: u(z), script: vec![Act::RepayQ { neg: false, delta: u(0) }] }] }, Act::Pay { to: wv::I_VAULT, amount: u(1) }] },
        7 => Op::RouterLoan { u: 7, amount: u(z), pre: u(z), script: vec![Act::Pay { to: wv::I_ROUTER, amount: u(q(z)) }] },
        _ => Op::Collect { u: 8 },
    }
}
fn v_prelude(funded: bool) -> Vec<Op> {
    if !funded { return vec![]; }
    vec![
        Op::Deposit { u: 6, amount: u(1_000_003), sent: u(1_000_003) },
        Op::Run { script: vec![Act::Deposit { amount: u(250_001) }] },
        Op::Run { script: vec![Act::Loan { amount: u(700_001), script: vec![Act::RepayQ { neg: false, delta: u(0) }] }] },
    ]
}
fn flags_op(f: (bool, bool, bool)) -> Op {
    Op::Update { u: wv::I_FOWNER, via_factory: true, p: UParams { dep: Some(f.0), wd: Some(f.1), fl: Some(f.2), owner: None, fees: None } }
}
/// update that names only the switches that change (the others stay `None` in the message)
fn flags_delta_op(from: (bool, bool, bool), to: (bool, bool, bool)) -> Op {
    let d = |a: bool, b: bool| if a != b { Some(b) } else { None };
    Op::Update { u: wv::I_FOWNER, via_factory: true, p: UParams { dep: d(from.0, to.0), wd: d(from.1, to.1), fl: d(from.2, to.2), owner: None, fees: None } }
}
fn noflags(d: &wv::Dump) -> wv::Dump { let mut x = d.clone(); x.dep = true; x.wd = true; x.fl = true; x }

fn vault_case(out: &mut Out, cw20: bool, funded: bool, fl: u32, p: usize) {
    let fees = (DEC / 100, DEC / 200, DEC / 1000);
    let funds: [u128; 5] = [0, 9_000_000, 5_000_000, 3_000_000, 3_000_000];
    let flags = (fl & 1 != 0, fl & 2 != 0, fl & 4 != 0);
    let (mut a, mut b) = match (wv::deploy(cw20, fees, funds), wv::deploy(cw20, fees, funds)) { (Ok(a), Ok(b)) => (a, b), _ => return };
    let d_init = a.dump();
    let mut hist = v_prelude(funded);
    let mut obs: Vec<String> = vec!["0".into()];
    for o in &hist { let c = a.exec(o); obs.push(c.to_string()); obs.extend(a.dump().obs()); b.exec(o); }
    let op = v_op(p, &a.dump());
    let mut step = |w: &mut wv::VaultWorld, o: &Op, hist: &mut Vec<Op>, obs: &mut Vec<String>| -> (i64, wv::Dump) {
        let c = w.exec(o); let d = w.dump(); hist.push(o.clone()); obs.push(c.to_string()); obs.extend(d.obs()); (c, d)
    };
    // even switch patterns name all three switches, odd ones only those that change
    let partial = (fl + p as u32) % 2 == 1;
    let (cs, a0) = step(&mut a, &(if partial { flags_delta_op((true, true, true), flags) } else { flags_op(flags) }), &mut hist, &mut obs);
    let tc = b.exec(&op);
    let b1 = b.dump();
    let (c1, a1) = step(&mut a, &op, &mut hist, &mut obs);
    let (cb, a2) = step(&mut a, &(if partial { flags_delta_op(flags, (true, true, true)) } else { flags_op((true, true, true)) }), &mut hist, &mut obs);
    let (c2, a3) = step(&mut a, &op, &mut hist, &mut obs);
    let replay = wv::history_replay("vault_toggles", cw20, fees, &funds, &hist);
    let mut rp = replay.clone();
    rp["path"] = json!(V_PATHS[p]); rp["path_index"] = json!(p); rp["switch_bits"] = json!(fl); rp["funded"] = json!(funded);
    rp["switches_deposit_withdraw_flashloan"] = json!([flags.0, flags.1, flags.2]);
    out.monitor_evals += 1;
    if cs != 0 || (a0.dep, a0.wd, a0.fl) != flags { out.monitor_fail("C17", "the owner could not set the vault's pause switches", rp.clone()); }
    if cb != 0 || !(a2.dep && a2.wd && a2.fl) { out.monitor_fail("C17", "the owner could not re-enable the vault's switches", rp.clone()); }
    let off = v_guard(p).map(|g| ![flags.0, flags.1, flags.2][g]).unwrap_or(false);
    if p != 6 {
        if off {
            if c1 == 0 { out.monitor_fail("C17", &format!("a disabled vault operation was accepted through: {}", V_PATHS[p]), rp.clone()); }
            else if a1 != a0 { out.monitor_fail("C17", &format!("a rejected (disabled) vault call moved funds or changed state: {}", V_PATHS[p]), rp.clone()); }
            if tc == 0 && (c2 != 0 || noflags(&a3) != noflags(&b1)) { out.monitor_fail("C17", &format!("re-enabling did not restore the previous behaviour: {}", V_PATHS[p]), rp.clone()); }
        } else if (c1 == 0) != (tc == 0) || (c1 == 0 && noflags(&a1) != noflags(&b1)) || (c1 != 0 && a1 != a0) {
            out.monitor_fail("C17", &format!("a vault operation whose own switch is on behaves differently because other switches are off: {}", V_PATHS[p]), rp.clone());
        }
    }
    out.case("vault_toggles", &wv::history_term(cw20, fees, &d_init.ab, &hist), &obs, rp.clone());
    out.count(&format!("vault:{}:{}", if cw20 { "cw20" } else { "native" }, match c1 { 0 => "accepted", 2 => "disabled", _ => "rejected" }));
    out.count(&format!("vpath:{}", V_PATHS[p]));
    if off && tc == 0 { out.nontrivial_key(hash_str(&format!("v{}{}{}{}", cw20, funded, fl, p))); }
    if out.samples.len() < 5 && off && tc == 0 && funded { out.sample(json!({"path": V_PATHS[p], "switches": [flags.0, flags.1, flags.2], "result": c1, "twin_result": tc})); }
}

fn vaults(out: &mut Out) {
    let fees = (DEC / 100, DEC / 200, DEC / 1000);
    let funds: [u128; 5] = [0, 9_000_000, 5_000_000, 3_000_000, 3_000_000];
    for cw20 in [false, true] {
        // fresh vault: everything enabled; strangers cannot move the switches (neither directly nor through the factory)
        if let Ok(mut w) = wv::deploy(cw20, fees, funds) {
            let d0 = w.dump();
            let c_direct = w.exec(&Op::Update { u: 7, via_factory: false, p: UParams { dep: Some(false), ..Default::default() } });
            let c_factory = w.exec(&Op::Update { u: 7, via_factory: true, p: UParams { dep: Some(false), ..Default::default() } });
            let d1 = w.dump();
            out.monitor_evals += 1;
            if !(d0.dep && d0.wd && d0.fl) { out.monitor_fail("C17", "a fresh vault does not start with everything enabled", json!({"asset_cw20": cw20})); }
            if c_direct == 0 || c_factory == 0 || d1 != d0 { out.monitor_fail("C17", "somebody who is not the owner changed the vault's pause switches", json!({"asset_cw20": cw20})); }
            out.case("fresh", &format!("{}", 10 + cw20 as u8), &[(d0.dep as u8).to_string(), (d0.wd as u8).to_string(), (d0.fl as u8).to_string(), if c_direct == 0 || c_factory == 0 { "0".into() } else { "3".into() }],
                     json!({"kind": "fresh vault + unauthorized switch update", "asset_cw20": cw20}));
        }
        // ... whatever fee schedule the vault is created with (a zero share of any of the three fees included)
        for f in [(0u128, 0u128, 0u128), (DEC / 100, 0, 0), (0, DEC / 200, 0), (0, 0, DEC / 1000), (DEC / 100, 0, DEC / 1000), (DEC - 3, 1, 1)] {
            if let Ok(w) = wv::deploy(cw20, f, funds) {
                let d0 = w.dump();
                out.monitor_evals += 1;
                if !(d0.dep && d0.wd && d0.fl) {
                    out.monitor_fail("C17", "a fresh vault does not start with everything enabled", json!({"kind": "fresh vault", "asset_cw20": cw20, "fees_protocol_flash_burn": [f.0.to_string(), f.1.to_string(), f.2.to_string()]}));
                }
            }
        }
        for funded in [false, true] {
            for fl in 0..8u32 {
                for p in 0..V_PATHS.len() { vault_case(out, cw20, funded, fl, p); }
            }
        }
    }
}

pub fn run(args: &Args) {
    let mut out = Out::new(&args.out);
    out.rule = "exhaustive: 2^3 switch combinations x every entry path x {empty, funded} x {pair(native,native), pair(native,cw20), 3pool(nnn), 3pool(nnc)} and x {native, cw20} vault; \
                each case deploys the system twice (switches as given / all enabled twin); non-trivial = the path's own switch is off while the twin accepts the call".into();
    let _ = args.seed;
    if let Some(path) = &args.replay {
        let text = std::fs::read_to_string(path).or_else(|_| std::fs::read_to_string(format!("../{}", path))).unwrap_or_default();
        let v: serde_json::Value = serde_json::from_str(&text).unwrap_or(json!({}));
        let f = v.get("failing_input").unwrap_or(&v).clone();
        let g = |k: &str| f.get(k).and_then(|x| x.as_u64());
        match (f.get("kind").and_then(|x| x.as_str()), g("switch_bits"), g("path_index"), f.get("funded").and_then(|x| x.as_bool())) {
            (Some("pool_gate"), Some(fl), Some(p), Some(funded)) => {
                let kind = [PoolKind::PairNN, PoolKind::PairNC, PoolKind::TrioNNN, PoolKind::TrioNNC][g("pool_index").unwrap_or(0) as usize % 4];
                pool_case(&mut out, kind, funded, fl as u32, p as u32);
            }
            (Some("vault_toggles"), Some(fl), Some(p), Some(funded)) => {
                let cw20 = f.get("asset").and_then(|x| x.as_str()) == Some("cw20");
                vault_case(&mut out, cw20, funded, fl as u32, p as usize);
            }
            (Some("fresh vault"), _, _, _) => {
                let cw20 = f.get("asset_cw20").and_then(|x| x.as_bool()).unwrap_or(false);
                let fs: Vec<u128> = f.get("fees_protocol_flash_burn").and_then(|x| x.as_array()).map(|a| a.iter().filter_map(|s| s.as_str()?.parse().ok()).collect()).unwrap_or_default();
                if fs.len() == 3 {
                    if let Ok(w) = wv::deploy(cw20, (fs[0], fs[1], fs[2]), [0, 9_000_000, 5_000_000, 3_000_000, 3_000_000]) {
                        let d0 = w.dump();
                        if !(d0.dep && d0.wd && d0.fl) { out.monitor_fail("C17", "a fresh vault does not start with everything enabled", f.clone()); }
                    }
                }
            }
            _ => { eprintln!("cannot parse replay file"); std::process::exit(2); }
        }
        let bad = !out.monitor_failures.is_empty();
        for m in &out.monitor_failures { println!("REPLAY property predicate false: {}", m["what"]); }
        if !bad { println!("REPLAY: the property predicate holds on this input"); }
        out.finish();
        std::process::exit(if bad { 1 } else { 0 });
    }
    pools(&mut out);
    vaults(&mut out);
    out.finish();
}
