//! C17 — pause switches stop exactly the operation they name.
//! Exhaustive matrix: every switch combination (2^3) x every entry path x {empty, funded} x every pool / vault flavour, on the
//! REAL contracts. Pools are checked differentially against an identical all-enabled twin; the vault additionally against
//! the concrete Coq model (stream vault_toggles).
use crate::common::*;
use crate::w_pools::*;
use crate::w_vault as wv;
use crate::w_vault::{Act, Op, UParams};
use cosmwasm_std::{Addr, Uint128};
use cw_multi_test::Executor;
use serde_json::json;

fn u(x: u128) -> Uint128 { Uint128::new(x) }

/// which switch the property says guards the path: 0 deposits, 1 withdrawals, 2 swaps, None: not guarded
fn guard(p: u32) -> Option<usize> {
    match p { P_PROVIDE | P_PROVIDE_HELPER => Some(0), P_WITHDRAW_HOOK => Some(1), P_SWAP_DIRECT | P_SWAP_HOOK | P_SWAP_ROUTER | P_SWAP_ROUTER_HOOK => Some(2), _ => None }
}
/// does the "disabled" error text reach the top-level error? (the frontend helper swallows it into its own reply error)
fn class_visible(p: u32) -> bool { p != P_PROVIDE_HELPER }

fn prep_pool(w: &mut PoolWorld, funded: bool) {
    if funded {
        // large enough that the pending protocol fee exceeds the collection threshold (CollectProtocolFees really moves funds)
        assert_eq!(w.exec(P_PROVIDE, 10_000_000), 0, "setup provide");
        assert_eq!(w.exec(P_SWAP_DIRECT, 20_000_000), 0, "setup swap");
        // a three-asset pool is paused in the middle of an amplification ramp (100 -> 1000 over 20 000 blocks, 5 000 of them gone)
        if !w.kind.is_pair() {
            let h = w.app.block_info().height;
            let r = w.app.execute_contract(Addr::unchecked(OWNER), w.factory.clone(), &white_whale_std::pool_network::factory::ExecuteMsg::UpdateTrioConfig { trio_addr: w.pool.to_string(), owner: None,
                fee_collector_addr: None, pool_fees: None, feature_toggle: None, amp_factor: Some(white_whale_std::pool_network::trio::RampAmp { future_a: 1000, future_block: h + 20_000 }) }, &[]);
            assert!(r.is_ok(), "setup ramp");
            w.app.update_block(|b| { b.height += 5_000; b.time = b.time.plus_seconds(25_000); });
        }
    }
}

fn pool_case(out: &mut Out, kind: PoolKind, funded: bool, fl: u32, p: u32) {
    let flags = (fl & 1 != 0, fl & 2 != 0, fl & 4 != 0);
        let (mut a, mut b) = match (deploy(kind), deploy(kind)) { (Ok(a), Ok(b)) => (a, b), _ => return };
        prep_pool(&mut a, funded);
        prep_pool(&mut b, funded);
        let x = 7_001u128 + ((fl + p) % 2) as u128;   // odd: proceeds directed to the fee collector; even: to the trader
        let replay = json!({"kind": "pool_gate", "pool": kind.name(), "state": if funded { "funded" } else { "empty" },
            "switches_deposits_withdrawals_swaps": [flags.0, flags.1, flags.2], "switch_bits": fl, "funded": funded, "pool_index": kind.index(), "path": path_name(p), "path_index": p, "amount_scale": x.to_string()});
        if a.set_flags_with(OWNER, flags, (fl + p) % 3 == 1) != 0 || a.flags() != flags { out.monitor_fail("C17", "the owner could not set the pause switches", replay.clone()); return; }
        let a0 = a.dump();
        let tc = b.exec(p, x);
        let b1 = b.dump();
        let c1 = a.exec(p, x);
        let a1 = a.dump();
        let frame1 = if c1 != 0 { a1 == a0 } else { a1 == b1 };
        let back = a.set_flags_with(OWNER, (true, true, true), (fl + p) % 3 == 2);
        let (c2, frame2) = if c1 != 0 && tc == 0 { let c2 = a.exec(p, x); (c2, a.dump() == b1) } else { (9, a.dump() == a1) };
        // ---- the property's own predicate on the implementation
        out.monitor_evals += 1;
        let off = guard(p).map(|g| ![flags.0, flags.1, flags.2][g]).unwrap_or(false);
        if off {
            if c1 == 0 { out.monitor_fail("C17", &format!("a disabled operation was accepted through: {}", path_name(p)), replay.clone()); }
            else if a1 != a0 { out.monitor_fail("C17", &format!("a rejected (disabled) call moved funds or changed state: {}", path_name(p)), replay.clone()); }
            if tc == 0 && (c2 != 0 || !frame2) { out.monitor_fail("C17", &format!("re-enabling did not restore the previous behaviour: {}", path_name(p)), replay.clone()); }
        } else if (c1 == 0) != (tc == 0) || !frame1 {
            out.monitor_fail("C17", &format!("an operation whose own switch is on behaves differently because other switches are off: {}", path_name(p)), replay.clone());
        }
        if back != 0 || a.flags() != (true, true, true) { out.monitor_fail("C17", "the owner could not re-enable the switches", replay.clone()); }
        // "re-enabling restores the previous behaviour" also later on: 30 000 blocks on (any amplification ramp has ended) the pool that was
        // paused and the one that never was trade alike (only compared when they were alike before)
        if a.dump() == b.dump() {
            for w in [&mut a, &mut b] { w.app.update_block(|bl| { bl.height += 30_000; bl.time = bl.time.plus_seconds(150_000); }); }
            let (la, lb) = (a.exec(P_SWAP_DIRECT, x), b.exec(P_SWAP_DIRECT, x));
            out.monitor_evals += 1;
            if la != lb || a.dump() != b.dump() { out.monitor_fail("C17", "30 000 blocks after the switches were restored the pool trades differently from one that was never paused", replay.clone()); }
        }
        // ---- correspondence with the gate machine
        let vis = class_visible(p);
        let c1n = if c1 != 0 && (!vis || tc != 0) { 1 } else { c1 };
        let input = format!("(({}, {}, {}), {}, {}, {})", flags.0 as u8, flags.1 as u8, flags.2 as u8, p, vis as u8, tc);
        out.case("pool_gate", &input, &[c1n.to_string(), (frame1 as u8).to_string(), c2.to_string(), (frame2 as u8).to_string()], replay.clone());
        out.count(&format!("pool:{}:{}", kind.name(), match c1 { 0 => "accepted", 2 => "disabled", _ => "rejected" }));
        out.count(&format!("path:{}", path_name(p)));
        if off && tc == 0 { out.nontrivial_key(hash_str(&format!("{:?}{}{}{}", kind, funded, fl, p))); }
        if out.samples.len() < 3 && off && tc == 0 { out.sample(replay); }
}

fn pools(out: &mut Out) {
    let kinds = [PoolKind::PairNN, PoolKind::PairNC, PoolKind::TrioNNN, PoolKind::TrioNNC, PoolKind::StableNN, PoolKind::StableNC];
    for kind in kinds {
        // fresh pools start with everything enabled; a stranger cannot move the switches
        let mut w0 = match deploy(kind) { Ok(w) => w, Err(e) => { out.monitor_fail("C17", &format!("cannot deploy {}: {}", kind.name(), e), json!({"kind": kind.name()})); continue; } };
        let f0 = w0.flags();
        let c = w0.set_flags(BOB, (false, false, false));
        let f1 = w0.flags();
        out.monitor_evals += 1;
        if f0 != (true, true, true) { out.monitor_fail("C17", "a fresh pool does not start with everything enabled", json!({"kind": kind.name()})); }
        if c == 0 || f1 != f0 { out.monitor_fail("C17", "somebody who is not the owner changed the pause switches", json!({"kind": kind.name()})); }
        out.case("fresh", &format!("{}", kind.index()), &[(f0.0 as u8).to_string(), (f0.1 as u8).to_string(), (f0.2 as u8).to_string(), if c == 0 { "0".into() } else { "3".to_string() }],
                 json!({"kind": "fresh pool + unauthorized switch update", "pool": kind.name()}));
        for funded in [false, true] {
            for fl in 0..8u32 {
                for p in 0..9u32 {
                    if !w0.has_path(p) { continue; }
                    pool_case(out, kind, funded, fl, p);
                }
            }
        }
    }
}

// ---- vault -----------------------------------------------------------------------------------------
const V_PATHS: [&str; 9] = ["Deposit (user, direct)", "Deposit (contract, direct)", "LP Send Withdraw hook (user)", "LP Send Withdraw hook (contract)",
    "Withdraw {} (direct)", "FlashLoan (direct, borrower contract)", "FlashLoan inside a caught sub-message", "vault_router FlashLoan", "CollectProtocolFees"];
fn v_guard(p: usize) -> Option<usize> { match p { 0 | 1 => Some(0), 2 | 3 => Some(1), 5 | 7 => Some(2), _ => None } }

fn v_op(p: usize, d: &wv::Dump) -> Op {
    let q = |z: u128| z + wv::floor_fee(z, d.fees.0) + wv::floor_fee(z, d.fees.1) + wv::floor_fee(z, d.fees.2);
    let z = if d.bal > 0 { d.bal / 2 } else { 1000 };
    match p {
        0 => Op::Deposit { u: 6, amount: u(50_001), sent: u(50_001) },
        1 => Op::Run { script: vec![Act::Deposit { amount: u(20_003) }] },
        2 => Op::Withdraw { u: 6, amount: u(if d.lp[6] > 0 { d.lp[6] / 3 } else { 5 }) },
        3 => Op::Run { script: vec![Act::Withdraw { amount: u(if d.lp[wv::I_ADV] > 0 { d.lp[wv::I_ADV] / 3 } else { 5 }) }] },
        4 => Op::WithdrawDirect { u: 6 },
        5 => Op::Run { script: vec![Act::Loan { amount: u(z), script: vec![Act::RepayQ { neg: false, delta: u(0) }] }] },
        6 => Op::Run { script: vec![Act::Try { script: vec![Act::Loan { amount: u(z), script: vec![Act::RepayQ { neg: false, delta: u(0) }] }] }, Act::Pay { to: wv::I_VAULT, amount: u(1) }] },
        7 => Op::RouterLoan { u: 7, amount: u(z), pre: u(z), script: vec![Act::Pay { to: wv::I_ROUTER, amount: u(q(z)) }] },
        _ => Op::Collect { u: 8 },
    }
}
fn v_prelude(funded: bool) -> Vec<Op> {
    if !funded { return vec![]; }
    vec![
        Op::Deposit { u: 6, amount: u(1_000_003), sent: u(1_000_003) },
        Op::Run { script: vec![Act::Deposit { amount: u(250_001) }] },
        Op::Run { script: vec![Act::Loan { amount: u(700_001), script: vec![Act::RepayQ { neg: false, delta: u(0) }] }] },
    ]
}
fn flags_op(f: (bool, bool, bool)) -> Op {
    Op::Update { u: wv::I_FOWNER, via_factory: true, p: UParams { dep: Some(f.0), wd: Some(f.1), fl: Some(f.2), owner: None, fees: None } }
}
/// update that names only the switches that change (the others stay `None` in the message)
fn flags_delta_op(from: (bool, bool, bool), to: (bool, bool, bool)) -> Op {
    let d = |a: bool, b: bool| if a != b { Some(b) } else { None };
    Op::Update { u: wv::I_FOWNER, via_factory: true, p: UParams { dep: d(from.0, to.0), wd: d(from.1, to.1), fl: d(from.2, to.2), owner: None, fees: None } }
}
fn noflags(d: &wv::Dump) -> wv::Dump { let mut x = d.clone(); x.dep = true; x.wd = true; x.fl = true; x }

fn vault_case(out: &mut Out, cw20: bool, funded: bool, fl: u32, p: usize) {
    let fees = (DEC / 100, DEC / 200, DEC / 1000);
    let funds: [u128; 5] = [0, 9_000_000, 5_000_000, 3_000_000, 3_000_000];
    let flags = (fl & 1 != 0, fl & 2 != 0, fl & 4 != 0);
    let (mut a, mut b) = match (wv::deploy(cw20, fees, funds), wv::deploy(cw20, fees, funds)) { (Ok(a), Ok(b)) => (a, b), _ => return };
    let d_init = a.dump();
    let mut hist = v_prelude(funded);
    let mut obs: Vec<String> = vec!["0".into()];
    for o in &hist { let c = a.exec(o); obs.push(c.to_string()); obs.extend(a.dump().obs()); b.exec(o); }
    let op = v_op(p, &a.dump());
    let mut step = |w: &mut wv::VaultWorld, o: &Op, hist: &mut Vec<Op>, obs: &mut Vec<String>| -> (i64, wv::Dump) {
        let c = w.exec(o); let d = w.dump(); hist.push(o.clone()); obs.push(c.to_string()); obs.extend(d.obs()); (c, d)
    };
    // even switch patterns name all three switches, odd ones only those that change
    let partial = (fl + p as u32) % 2 == 1;
    let (cs, a0) = step(&mut a, &(if partial { flags_delta_op((true, true, true), flags) } else { flags_op(flags) }), &mut hist, &mut obs);
    let tc = b.exec(&op);
    let b1 = b.dump();
    let (c1, a1) = step(&mut a, &op, &mut hist, &mut obs);
    let (cb, a2) = step(&mut a, &(if partial { flags_delta_op(flags, (true, true, true)) } else { flags_op((true, true, true)) }), &mut hist, &mut obs);
    let (c2, a3) = step(&mut a, &op, &mut hist, &mut obs);
    let replay = wv::history_replay("vault_toggles", cw20, fees, &funds, &hist);
    let mut rp = replay.clone();
    rp["path"] = json!(V_PATHS[p]); rp["path_index"] = json!(p); rp["switch_bits"] = json!(fl); rp["funded"] = json!(funded);
    rp["switches_deposit_withdraw_flashloan"] = json!([flags.0, flags.1, flags.2]);
    out.monitor_evals += 1;
    if cs != 0 || (a0.dep, a0.wd, a0.fl) != flags { out.monitor_fail("C17", "the owner could not set the vault's pause switches", rp.clone()); }
    if cb != 0 || !(a2.dep && a2.wd && a2.fl) { out.monitor_fail("C17", "the owner could not re-enable the vault's switches", rp.clone()); }
    let off = v_guard(p).map(|g| ![flags.0, flags.1, flags.2][g]).unwrap_or(false);
    if p != 6 {
        if off {
            if c1 == 0 { out.monitor_fail("C17", &format!("a disabled vault operation was accepted through: {}", V_PATHS[p]), rp.clone()); }
            else if a1 != a0 { out.monitor_fail("C17", &format!("a rejected (disabled) vault call moved funds or changed state: {}", V_PATHS[p]), rp.clone()); }
            if tc == 0 && (c2 != 0 || noflags(&a3) != noflags(&b1)) { out.monitor_fail("C17", &format!("re-enabling did not restore the previous behaviour: {}", V_PATHS[p]), rp.clone()); }
        } else if (c1 == 0) != (tc == 0) || (c1 == 0 && noflags(&a1) != noflags(&b1)) || (c1 != 0 && a1 != a0) {
            out.monitor_fail("C17", &format!("a vault operation whose own switch is on behaves differently because other switches are off: {}", V_PATHS[p]), rp.clone());
        }
    }
    out.case("vault_toggles", &wv::history_term(cw20, fees, &d_init.ab, &hist), &obs, rp.clone());
    out.count(&format!("vault:{}:{}", if cw20 { "cw20" } else { "native" }, match c1 { 0 => "accepted", 2 => "disabled", _ => "rejected" }));
    out.count(&format!("vpath:{}", V_PATHS[p]));
    if off && tc == 0 { out.nontrivial_key(hash_str(&format!("v{}{}{}{}", cw20, funded, fl, p))); }
    if out.samples.len() < 5 && off && tc == 0 && funded { out.sample(json!({"path": V_PATHS[p], "switches": [flags.0, flags.1, flags.2], "result": c1, "twin_result": tc})); }
}

fn vaults(out: &mut Out) {
    let fees = (DEC / 100, DEC / 200, DEC / 1000);
    let funds: [u128; 5] = [0, 9_000_000, 5_000_000, 3_000_000, 3_000_000];
    for cw20 in [false, true] {
        // fresh vault: everything enabled; strangers cannot move the switches (neither directly nor through the factory)
        if let Ok(mut w) = wv::deploy(cw20, fees, funds) {
            let d0 = w.dump();
            let c_direct = w.exec(&Op::Update { u: 7, via_factory: false, p: UParams { dep: Some(false), ..Default::default() } });
            let c_factory = w.exec(&Op::Update { u: 7, via_factory: true, p: UParams { dep: Some(false), ..Default::default() } });
            let d1 = w.dump();
            out.monitor_evals += 1;
            if !(d0.dep && d0.wd && d0.fl) { out.monitor_fail("C17", "a fresh vault does not start with everything enabled", json!({"asset_cw20": cw20})); }
            if c_direct == 0 || c_factory == 0 || d1 != d0 { out.monitor_fail("C17", "somebody who is not the owner changed the vault's pause switches", json!({"asset_cw20": cw20})); }
            out.case("fresh", &format!("{}", 10 + cw20 as u8), &[(d0.dep as u8).to_string(), (d0.wd as u8).to_string(), (d0.fl as u8).to_string(), if c_direct == 0 || c_factory == 0 { "0".into() } else { "3".into() }],
                     json!({"kind": "fresh vault + unauthorized switch update", "asset_cw20": cw20}));
        }
        // ... whatever fee schedule the vault is created with (a zero share of any of the three fees included)
        for f in [(0u128, 0u128, 0u128), (DEC / 100, 0, 0), (0, DEC / 200, 0), (0, 0, DEC / 1000), (DEC / 100, 0, DEC / 1000), (DEC - 3, 1, 1)] {
            if let Ok(w) = wv::deploy(cw20, f, funds) {
                let d0 = w.dump();
                out.monitor_evals += 1;
                if !(d0.dep && d0.wd && d0.fl) {
                    out.monitor_fail("C17", "a fresh vault does not start with everything enabled", json!({"kind": "fresh vault", "asset_cw20": cw20, "fees_protocol_flash_burn": [f.0.to_string(), f.1.to_string(), f.2.to_string()]}));
                }
            }
        }
        for funded in [false, true] {
            for fl in 0..8u32 {
                for p in 0..V_PATHS.len() { vault_case(out, cw20, funded, fl, p); }
            }
        }
    }
}


/// The operator's only path to a vault's switches is the factory's UpdateVaultConfig { vault_addr }. A vault that was removed from the
/// registry and replaced (RemoveVault + CreateVault for the same asset) is still a live contract the factory owns: pausing it pauses IT,
/// and the vault that replaced it keeps working. (No model counterpart: monitor-only probe.)
fn replaced_vault_probe(out: &mut Out) {
    use white_whale_std::vault_network::vault as vmsg;
    use white_whale_std::vault_network::vault_factory as fmsg;
    let fees = (DEC / 100, DEC / 200, DEC / 1000);
    for which in 0..3usize {
        let mut w = match wv::deploy(false, fees, [0, 9_000_000, 5_000_000, 3_000_000, 3_000_000]) { Ok(w) => w, Err(_) => return };
        let rp = json!({"kind": "replaced_vault_probe", "script": "vault v1 (native asset) gets a deposit; RemoveVault; CreateVault for the same asset (v2); UpdateVaultConfig { vault_addr: v1, one switch off }; \
                        the switch is off on v1 and on on v2; the operation is refused by v1 and accepted by v2", "switch": (["deposit", "withdraw", "flash_loan"][which])});
        let denom = wv::native_denom(fees).to_string();
        let (owner, fac, v1) = (Addr::unchecked(wv::FOWNER), w.factory.clone(), w.vault.clone());
        let dep = |app: &mut cw_multi_test::App, v: &Addr, who: &str, x: u128| app.execute_contract(Addr::unchecked(who), v.clone(), &vmsg::ExecuteMsg::Deposit { amount: u(x) }, &[cosmwasm_std::coin(x, denom.clone())]).is_ok();
        out.monitor_evals += 1;
        if !dep(&mut w.app, &v1, "alice", 1_000_000) { out.monitor_fail("C17", "probe: the first deposit failed", rp.clone()); continue; }
        let info = w.asset.clone();
        if w.app.execute_contract(owner.clone(), fac.clone(), &fmsg::ExecuteMsg::RemoveVault { asset_info: info.clone() }, &[]).is_err() { out.count("probe:remove_vault_refused"); continue; }
        if w.app.execute_contract(owner.clone(), fac.clone(), &fmsg::ExecuteMsg::CreateVault { asset_info: info.clone(), fees: wv::vfee(fees.0, fees.1, fees.2), token_factory_lp: false }, &[]).is_err() { out.count("probe:recreate_refused"); continue; }
        let v2: Option<String> = w.app.wrap().query_wasm_smart(&fac, &fmsg::QueryMsg::Vault { asset_info: info }).unwrap_or(None);
        let v2 = match v2 { Some(a) if a != v1.to_string() => Addr::unchecked(a), _ => { out.monitor_fail("C17", "probe: the re-created vault is not registered", rp.clone()); continue; } };
        if !dep(&mut w.app, &v2, "bob", 1_000_000) { out.monitor_fail("C17", "probe: a deposit into the new vault failed", rp.clone()); continue; }
        let off = |i: usize| if which == i { Some(false) } else { None };
        let params = vmsg::UpdateConfigParams { flash_loan_enabled: off(2), deposit_enabled: off(0), withdraw_enabled: off(1), new_owner: None, new_vault_fees: None, new_fee_collector_addr: None };
        if w.app.execute_contract(owner.clone(), fac.clone(), &fmsg::ExecuteMsg::UpdateVaultConfig { vault_addr: v1.to_string(), params }, &[]).is_err() {
            out.monitor_fail("C17", "the operator could not pause a vault the factory owns (removed from the registry and replaced)", rp.clone()); continue;
        }
        let cfg = |app: &cw_multi_test::App, v: &Addr| -> [bool; 3] { let c: vmsg::Config = app.wrap().query_wasm_smart(v, &vmsg::QueryMsg::Config {}).unwrap(); [c.deposit_enabled, c.withdraw_enabled, c.flash_loan_enabled] };
        let (c1, c2) = (cfg(&w.app, &v1), cfg(&w.app, &v2));
        let mut want1 = [true; 3]; want1[which] = false;
        if c1 != want1 { out.monitor_fail("C17", &format!("the switches of the vault named in UpdateVaultConfig are {:?}, expected {:?}", c1, want1), rp.clone()); }
        if c2 != [true; 3] { out.monitor_fail("C17", &format!("pausing one vault changed the switches of another vault: {:?}", c2), rp.clone()); }
        if which == 0 {
            if dep(&mut w.app, &v1, "alice", 500_000) { out.monitor_fail("C17", "a deposit into the paused vault was accepted", rp.clone()); }
            if !dep(&mut w.app, &v2, "bob", 500_000) { out.monitor_fail("C17", "a deposit into a vault nobody paused was refused", rp.clone()); }
        }
        out.count("probe:replaced_vault");
    }
}

pub fn run(args: &Args) {
    let mut out = Out::new(&args.out);
    out.rule = "exhaustive: 2^3 switch combinations x every entry path x {empty, funded} x {pair(native,native), pair(native,cw20), 3pool(nnn), 3pool(nnc)} and x {native, cw20} vault; \
                each case deploys the system twice (switches as given / all enabled twin); non-trivial = the path's own switch is off while the twin accepts the call".into();
    let _ = args.seed;
    if let Some(path) = &args.replay {
        let text = std::fs::read_to_string(path).or_else(|_| std::fs::read_to_string(format!("../{}", path))).unwrap_or_default();
        let v: serde_json::Value = serde_json::from_str(&text).unwrap_or(json!({}));
        let f = v.get("failing_input").unwrap_or(&v).clone();
        let g = |k: &str| f.get(k).and_then(|x| x.as_u64());
        if f.get("kind").and_then(|x| x.as_str()) == Some("replaced_vault_probe") { replay_probe(&mut out, &mut |o| replaced_vault_probe(o)); }
        match (f.get("kind").and_then(|x| x.as_str()), g("switch_bits"), g("path_index"), f.get("funded").and_then(|x| x.as_bool())) {
            (Some("pool_gate"), Some(fl), Some(p), Some(funded)) => {
                let kind = [PoolKind::PairNN, PoolKind::PairNC, PoolKind::TrioNNN, PoolKind::TrioNNC][g("pool_index").unwrap_or(0) as usize % 4];
                pool_case(&mut out, kind, funded, fl as u32, p as u32);
            }
            (Some("vault_toggles"), Some(fl), Some(p), Some(funded)) => {
                let cw20 = f.get("asset").and_then(|x| x.as_str()) == Some("cw20");
                vault_case(&mut out, cw20, funded, fl as u32, p as usize);
            }
            (Some("fresh vault"), _, _, _) => {
                let cw20 = f.get("asset_cw20").and_then(|x| x.as_bool()).unwrap_or(false);
                let fs: Vec<u128> = f.get("fees_protocol_flash_burn").and_then(|x| x.as_array()).map(|a| a.iter().filter_map(|s| s.as_str()?.parse().ok()).collect()).unwrap_or_default();
                if fs.len() == 3 {
                    if let Ok(w) = wv::deploy(cw20, (fs[0], fs[1], fs[2]), [0, 9_000_000, 5_000_000, 3_000_000, 3_000_000]) {
                        let d0 = w.dump();
                        if !(d0.dep && d0.wd && d0.fl) { out.monitor_fail("C17", "a fresh vault does not start with everything enabled", f.clone()); }
                    }
                }
            }
            _ => { eprintln!("cannot parse replay file"); std::process::exit(2); }
        }
        let bad = !out.monitor_failures.is_empty();
        for m in &out.monitor_failures { println!("REPLAY property predicate false: {}", m["what"]); }
        if !bad { println!("REPLAY: the property predicate holds on this input"); }
        out.finish();
        std::process::exit(if bad { 1 } else { 0 });
    }
    pools(&mut out);
    vaults(&mut out);
    replaced_vault_probe(&mut out);
    out.finish();
}
