//! Shared pieces: PRNG, generators, Coq term printing, error classes, output files.
#![allow(dead_code)]
use std::collections::BTreeMap;
use std::fmt::Write as _;
use std::io::Write as _;
use std::panic::{catch_unwind, AssertUnwindSafe};

pub const E_UNAUTH: i64 = 1;
pub const E_DISABLED: i64 = 2;
pub const E_SLIPPAGE: i64 = 3;
pub const E_OTHER: i64 = 5;

pub const DEC: u128 = 1_000_000_000_000_000_000;

/// splitmix64: every random choice of a run derives from one state seeded by VERIF_SEED
#[derive(Clone)]
pub struct Rng(pub u64);
impl Rng {
    pub fn new(seed: u64) -> Self {
        // scramble: consecutive seeds must not give shifted copies of one stream (splitmix64 state is additive)
        let mut r = Rng(seed ^ 0xD1B54A32D192ED03);
        let s = r.next() ^ seed.rotate_left(32);
        Rng(s.wrapping_mul(0xBF58476D1CE4E5B9) ^ 0x94D049BB133111EB)
    }
    pub fn next(&mut self) -> u64 {
        self.0 = self.0.wrapping_add(0x9E3779B97F4A7C15);
        let mut z = self.0;
        z = (z ^ (z >> 30)).wrapping_mul(0xBF58476D1CE4E5B9);
        z = (z ^ (z >> 27)).wrapping_mul(0x94D049BB133111EB);
        z ^ (z >> 31)
    }
    pub fn below(&mut self, n: u64) -> u64 {
        if n == 0 { 0 } else { self.next() % n }
    }
    pub fn u128(&mut self) -> u128 {
        ((self.next() as u128) << 64) | self.next() as u128
    }
    pub fn below128(&mut self, n: u128) -> u128 {
        if n == 0 { 0 } else { self.u128() % n }
    }
    pub fn range128(&mut self, lo: u128, hi: u128) -> u128 {
        // inclusive
        if hi <= lo { lo } else { lo + self.below128(hi - lo + 1) }
    }
    pub fn chance(&mut self, num: u64, den: u64) -> bool {
        self.below(den) < num
    }
    pub fn pick<'a, T>(&mut self, v: &'a [T]) -> &'a T {
        &v[self.below(v.len() as u64) as usize]
    }
}

/// amount magnitudes used by every generator (DESIGN 2.3)
pub fn magnitude(rng: &mut Rng, max_bits: u32) -> u128 {
    let buckets: [u128; 14] = [
        1, 7, 1_000, 999_983, 1_000_000, 1_000_000_000_000, DEC, 1_000_000_000_000_000_000_000_000,
        (1u128 << 64) - 1, (1u128 << 64) + 1, 1u128 << 96, 1u128 << 100, 1u128 << 110, 1u128 << 127,
    ];
    let cap: u128 = if max_bits >= 128 { u128::MAX } else { (1u128 << max_bits) - 1 };
    let mut v = match rng.below(10) {
        0..=5 => *rng.pick(&buckets),
        6..=7 => {
            let bits = 1 + rng.below(max_bits.min(128) as u64) as u32;
            if bits >= 128 { rng.u128() } else { rng.below128(1u128 << bits) }
        }
        8 => cap,
        _ => rng.below128(10_000_000),
    };
    // perturb: +-small, remainder-forcing
    match rng.below(4) {
        0 => v = v.saturating_add(rng.below(5) as u128),
        1 => v = v.saturating_sub(rng.below(5) as u128),
        2 => v = v.saturating_add(rng.below128(v / 3 + 1)),
        _ => {}
    }
    v.clamp(1, cap)
}

/// fee share atomics (Decimal, 18 places)
pub fn fee_share(rng: &mut Rng) -> u128 {
    match rng.below(12) {
        0 | 1 => 0,
        2 => 1,
        3 => DEC / 1000,
        4 | 5 => 3 * DEC / 1000,
        6 => DEC / 100,
        7 => 30 * DEC / 100,
        8 => rng.below128(DEC / 10),
        9 => rng.below128(DEC),
        10 => DEC / 3,
        _ => 2 * DEC / 1000 + rng.below128(1000),
    }
}

/// a fee triple; `valid` forces total < 100 %
pub fn fee_triple(rng: &mut Rng, valid: bool) -> (u128, u128, u128) {
    loop {
        let t = match rng.below(10) {
            0 => (0, 0, 0),
            1 => (DEC - 3, 1, 1), // just below 1 in sum
            2 => (DEC / 3, DEC / 3, DEC / 3),
            _ => (fee_share(rng), fee_share(rng), fee_share(rng)),
        };
        if !valid || (t.0 < DEC && t.1 < DEC && t.2 < DEC && t.0 + t.1 + t.2 < DEC) {
            return t;
        }
    }
}

// ---- Coq term printing -------------------------------------------------------
pub fn zs(v: &str) -> String {
    if let Some(rest) = v.strip_prefix('-') { format!("(-{})", rest) } else { v.to_string() }
}
pub fn z<T: ToString>(v: T) -> String { zs(&v.to_string()) }
pub fn zlist<T: ToString>(v: &[T]) -> String {
    let mut s = String::from("[");
    for (i, x) in v.iter().enumerate() {
        if i > 0 { s.push_str("; "); }
        s.push_str(&z(x.to_string()));
    }
    s.push(']');
    s
}
pub fn tuple(parts: &[String]) -> String { format!("({})", parts.join(", ")) }
pub fn coqlist(parts: &[String]) -> String { format!("[{}]", parts.join("; ")) }
pub fn coqbool(b: bool) -> &'static str { if b { "true" } else { "false" } }

/// result of running something on the implementation
pub enum Outcome<T> { Ok(T), Err(i64), Panic(String) }

pub fn run_catch<T, E>(f: impl FnOnce() -> Result<T, E>, classify: impl Fn(&E) -> i64) -> Outcome<T> {
    match catch_unwind(AssertUnwindSafe(f)) {
        Ok(Ok(v)) => Outcome::Ok(v),
        Ok(Err(e)) => Outcome::Err(classify(&e)),
        Err(p) => {
            let msg = if let Some(s) = p.downcast_ref::<&str>() { s.to_string() }
                else if let Some(s) = p.downcast_ref::<String>() { s.clone() } else { "panic".into() };
            Outcome::Panic(msg)
        }
    }
}

/// classify an error by its rendered text (variant names / prefixes only; never compared verbatim)
pub fn classify_text(t: &str) -> i64 {
    let l = t.to_lowercase();
    if l.contains("unauthorized") { E_UNAUTH }
    else if l.contains("operation disabled") || l.contains("disabled") { E_DISABLED }
    else if l.contains("spread limit exceeded") || l.contains("slippage tolerance exceeded") || l.contains("minimum receive")
        || l.contains("minimumreceive") { E_SLIPPAGE }
    else { E_OTHER }
}

/// observation encoding shared with Prim.obs_of: Ok -> 0 :: vals, Err c -> [1; c], Panic -> [2]
pub fn obs<T>(o: &Outcome<T>, f: impl Fn(&T) -> Vec<String>) -> Vec<String> {
    match o {
        Outcome::Ok(v) => { let mut r = vec!["0".to_string()]; r.extend(f(v)); r }
        Outcome::Err(c) => vec!["1".into(), c.to_string()],
        Outcome::Panic(_) => vec!["2".into()],
    }
}
pub fn obs_coarse<T>(o: &Outcome<T>, f: impl Fn(&T) -> Vec<String>) -> Vec<String> {
    match o {
        Outcome::Ok(v) => { let mut r = vec!["0".to_string()]; r.extend(f(v)); r }
        _ => vec!["1".into()],
    }
}

/// Collects everything a run writes: per-stream case files, monitor failures, statistics.
pub struct Out {
    pub dir: String,
    streams: BTreeMap<String, (std::fs::File, u64)>,
    pub monitor_failures: Vec<serde_json::Value>,
    pub known_hits: Vec<serde_json::Value>,
    pub hist: BTreeMap<String, u64>,
    pub samples: Vec<serde_json::Value>,
    pub evaluations: u64,
    pub nontrivial: std::collections::BTreeSet<u64>,
    pub rule: String,
    pub monitor_evals: u64,
}
impl Out {
    pub fn new(dir: &str) -> Self {
        std::fs::create_dir_all(dir).unwrap();
        for e in std::fs::read_dir(dir).unwrap() {
            let p = e.unwrap().path();
            if p.is_file() { let _ = std::fs::remove_file(p); }
        }
        Out { dir: dir.to_string(), streams: BTreeMap::new(), monitor_failures: vec![], known_hits: vec![],
              hist: BTreeMap::new(), samples: vec![], evaluations: 0, nontrivial: Default::default(),
              rule: String::new(), monitor_evals: 0 }
    }
    /// one correspondence case: `stream` names the Coq run function (run_<stream>)
    pub fn case(&mut self, stream: &str, input: &str, expected: &[String], replay: serde_json::Value) {
        let e = self.streams.entry(stream.to_string()).or_insert_with(|| {
            (std::fs::File::create(format!("{}/cases_{}.txt", self.dir, stream)).unwrap(), 0)
        });
        let idx = e.1;
        e.1 += 1;
        let mut line = String::new();
        write!(line, "({}, {}, {})", idx, input, zlist(expected)).unwrap();
        writeln!(e.0, "{}\t{}", line, replay).unwrap();
        self.evaluations += 1;
    }
    pub fn count(&mut self, key: &str) { *self.hist.entry(key.to_string()).or_insert(0) += 1; }
    pub fn nontrivial_key(&mut self, h: u64) { self.nontrivial.insert(h); }
    pub fn sample(&mut self, v: serde_json::Value) { if self.samples.len() < 5 { self.samples.push(v); } }
    pub fn monitor_fail(&mut self, property: &str, what: &str, replay: serde_json::Value) {
        self.monitor_failures.push(serde_json::json!({"property": property, "what": what, "replay": replay}));
    }
    pub fn known_hit(&mut self, property: &str, class: &str, what: &str, replay: serde_json::Value) {
        self.known_hits.push(serde_json::json!({"property": property, "class": class, "what": what, "replay": replay}));
    }
    pub fn finish(self) {
        let streams: BTreeMap<String, u64> = self.streams.iter().map(|(k, v)| (k.clone(), v.1)).collect();
        let stats = serde_json::json!({
            "evaluations": self.evaluations,
            "distinct_nontrivial": self.nontrivial.len(),
            "rule": self.rule,
            "histogram": self.hist,
            "samples": self.samples,
            "streams": streams,
            "monitor_evals": self.monitor_evals,
            "monitor_failures": self.monitor_failures,
            "known_hits": self.known_hits,
        });
        std::fs::write(format!("{}/stats.json", self.dir), serde_json::to_string_pretty(&stats).unwrap()).unwrap();
    }
}

pub fn hash64(parts: &[u128]) -> u64 {
    let mut h: u64 = 0xcbf29ce484222325;
    for p in parts {
        for b in p.to_le_bytes() { h ^= b as u64; h = h.wrapping_mul(0x100000001b3); }
    }
    h
}
pub fn hash_str(s: &str) -> u64 {
    let mut h: u64 = 0xcbf29ce484222325;
    for b in s.bytes() { h ^= b as u64; h = h.wrapping_mul(0x100000001b3); }
    h
}

pub struct Args { pub seed: u64, pub n: u64, pub out: String, pub replay: Option<String>, pub tier: String }

/// `failing_input.kind` of a replay file ("" when absent): lets a check re-run the probe a recorded failure came from
pub fn replay_kind(path: &str) -> String {
    std::fs::read_to_string(path).ok().and_then(|s| serde_json::from_str::<serde_json::Value>(&s).ok())
        .and_then(|v| v["failing_input"]["kind"].as_str().map(|s| s.to_string())).unwrap_or_default()
}
/// run `probe`, print its monitor failures, exit 1 if there are any
pub fn replay_probe(out: &mut Out, probe: &mut dyn FnMut(&mut Out)) -> ! {
    probe(out);
    for f in &out.monitor_failures { println!("REPLAY property predicate false: {}", f["what"]); }
    let bad = !out.monitor_failures.is_empty();
    if !bad { println!("REPLAY: the property predicate holds"); }
    std::process::exit(if bad { 1 } else { 0 })
}
