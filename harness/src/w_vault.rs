//! Vault family world: REAL vault_factory + vault + vault_router + LP token from the repo, plus the scripted borrower
//! ("adversary") contract of the harness. Operation alphabet = coq/theories/Vault.v `op` / `action`.
#![allow(dead_code)]
use crate::common::*;
use cosmwasm_std::{
    coin, to_json_binary, Addr, BankMsg, Binary, Coin, CosmosMsg, Deps, DepsMut, Empty, Env, MessageInfo, Reply, Response,
    StdError, StdResult, SubMsg, Uint128, Uint256, WasmMsg,
};
use cw20::{Cw20Coin, Cw20ExecuteMsg, Cw20QueryMsg, MinterResponse};
use cw_multi_test::{App, AppBuilder, BankKeeper, Contract, ContractWrapper, Executor};
use cw_storage_plus::Item;
use serde::{Deserialize, Serialize};
use serde_json::json;
use white_whale_std::fee::{Fee, VaultFee};
use white_whale_std::pool_network::asset::{Asset, AssetInfo};
use white_whale_std::vault_network::vault as vmsg;
use white_whale_std::vault_network::vault_factory as fmsg;
use white_whale_std::vault_network::vault_router as rmsg;

pub const DENOM: &str = "uwhale";
/// an IBC voucher denom (`ibc/` + 64 hex characters)
pub const IBC_DENOM: &str = "ibc/27394FB092D2ECCD56123C74F36E4C1F926001CEADA9CA97EA622B25F41E5EB2";
/// the denom of a native vault: vaults whose burn fee share has odd atomics sit on the IBC denom (a deterministic function of the
/// case, so replays rebuild the same world); the model knows native / cw20 only
pub fn native_denom(fees: (u128, u128, u128)) -> &'static str { if fees.2 % 2 == 1 { IBC_DENOM } else { DENOM } }
pub const COLLECTOR: &str = "collector";
pub const FOWNER: &str = "owner";
pub const USERS: [&str; 3] = ["alice", "bob", "carol"];
/// model account indices (Vault.v)
pub const I_VAULT: usize = 0;
pub const I_COLL: usize = 1;
pub const I_ADV: usize = 2;
pub const I_ROUTER: usize = 3;
pub const I_FACT: usize = 4;
pub const I_FOWNER: usize = 5;
pub const N_ACC: usize = 9;

// ---------------------------------------------------------------------------------------------
// the scripted borrower contract
// ---------------------------------------------------------------------------------------------
#[derive(Serialize, Deserialize, Clone, Debug, PartialEq)]
#[serde(rename_all = "snake_case")]
pub enum Act {
    Pay { to: usize, amount: Uint128 },
    RepayQ { neg: bool, delta: Uint128 },
    Loan { amount: Uint128, script: Vec<Act> },
    Deposit { amount: Uint128 },
    Withdraw { amount: Uint128 },
    Collect {},
    Fail {},
    Try { script: Vec<Act> },
    /// send an arbitrary message to a contract (only used by the C16 nested-call probe; no model counterpart)
    Raw { target: String, msg: cosmwasm_std::Binary },
}

#[derive(Serialize, Deserialize, Clone, Debug)]
#[serde(rename_all = "snake_case")]
pub enum AdvExec {
    Run { loan: Uint128, script: Vec<Act> },
    Fail {},
}
#[derive(Serialize, Deserialize, Clone, Debug)]
pub struct AdvInit { pub vault: String, pub asset: AssetInfo, pub lp: String, pub accounts: Vec<String> }
#[derive(Serialize, Deserialize, Clone, Debug)]
pub enum AdvQuery {}

const ADV_CFG: Item<AdvInit> = Item::new("cfg");

fn asset_send(asset: &AssetInfo, to: &str, amount: Uint128) -> StdResult<CosmosMsg> {
    Ok(match asset {
        AssetInfo::NativeToken { denom } => BankMsg::Send { to_address: to.to_string(), amount: vec![coin(amount.u128(), denom)] }.into(),
        AssetInfo::Token { contract_addr } => WasmMsg::Execute { contract_addr: contract_addr.clone(),
            msg: to_json_binary(&Cw20ExecuteMsg::Transfer { recipient: to.to_string(), amount })?, funds: vec![] }.into(),
    })
}

fn adv_execute(deps: DepsMut, env: Env, _info: MessageInfo, msg: AdvExec) -> StdResult<Response> {
    let cfg = ADV_CFG.load(deps.storage)?;
    match msg {
        AdvExec::Fail {} => Err(StdError::generic_err("scripted failure")),
        AdvExec::Run { loan, script } => {
            let mut resp = Response::new();
            for a in script {
                match a {
                    Act::Pay { to, amount } => {
                        let me = env.contract.address.to_string();
                        let to = if to == I_ADV { &me } else { cfg.accounts.get(to).ok_or_else(|| StdError::generic_err("no such account"))? };
                        resp = resp.add_message(asset_send(&cfg.asset, to, amount)?);
                    }
                    Act::RepayQ { neg, delta } => {
                        let q: vmsg::PaybackAmountResponse = deps.querier.query_wasm_smart(&cfg.vault, &vmsg::QueryMsg::GetPaybackAmount { amount: loan })?;
                        let q = Uint256::from(q.payback_amount);
                        let d = Uint256::from(delta);
                        let amt = if neg { if d >= q { Uint256::zero() } else { q - d } } else { q + d };
                        if !amt.is_zero() {
                            let amt = Uint128::try_from(amt).map_err(|_| StdError::generic_err("repay amount too large"))?;
                            resp = resp.add_message(asset_send(&cfg.asset, &cfg.vault, amt)?);
                        }
                    }
                    Act::Loan { amount, script } => {
                        // loans whose amount is 3 mod 7 carry coins of a denom the vault has nothing to do with (they must not
                        // count as repayment of anything): the model is unaffected, foreign coins are not part of its state
                        let junk = deps.querier.query_balance(env.contract.address.clone(), "ujunk").map(|c| c.amount).unwrap_or_default();
                        // (a small amount, so that several loans dispatched from one handler can all be funded)
                        let attach = if amount.u128() % 7 == 3 && junk.u128() >= 1_000_000_000 { Uint128::new((amount.u128() / 2).min(1_000_000)) } else { Uint128::zero() };
                        resp = resp.add_message(WasmMsg::Execute { contract_addr: cfg.vault.clone(), funds: if attach.is_zero() { vec![] } else { vec![coin(attach.u128(), "ujunk")] },
                            msg: to_json_binary(&vmsg::ExecuteMsg::FlashLoan { amount,
                                msg: to_json_binary(&AdvExec::Run { loan: amount, script })? })? });
                    }
                    Act::Deposit { amount } => match &cfg.asset {
                        AssetInfo::NativeToken { denom } => {
                            resp = resp.add_message(WasmMsg::Execute { contract_addr: cfg.vault.clone(), funds: if amount.is_zero() { vec![] } else { vec![coin(amount.u128(), denom)] },
                                msg: to_json_binary(&vmsg::ExecuteMsg::Deposit { amount })? });
                        }
                        AssetInfo::Token { contract_addr } => {
                            resp = resp.add_message(WasmMsg::Execute { contract_addr: contract_addr.clone(), funds: vec![],
                                msg: to_json_binary(&Cw20ExecuteMsg::IncreaseAllowance { spender: cfg.vault.clone(), amount, expires: None })? });
                            resp = resp.add_message(WasmMsg::Execute { contract_addr: cfg.vault.clone(), funds: vec![],
                                msg: to_json_binary(&vmsg::ExecuteMsg::Deposit { amount })? });
                        }
                    },
                    Act::Withdraw { amount } => {
                        resp = resp.add_message(WasmMsg::Execute { contract_addr: cfg.lp.clone(), funds: vec![],
                            msg: to_json_binary(&Cw20ExecuteMsg::Send { contract: cfg.vault.clone(), amount,
                                msg: to_json_binary(&vmsg::Cw20HookMsg::Withdraw {})? })? });
                    }
                    Act::Collect {} => {
                        resp = resp.add_message(WasmMsg::Execute { contract_addr: cfg.vault.clone(), funds: vec![],
                            msg: to_json_binary(&vmsg::ExecuteMsg::CollectProtocolFees {})? });
                    }
                    Act::Fail {} => {
                        resp = resp.add_message(WasmMsg::Execute { contract_addr: env.contract.address.to_string(), funds: vec![],
                            msg: to_json_binary(&AdvExec::Fail {})? });
                    }
                    Act::Raw { target, msg } => { resp = resp.add_message(WasmMsg::Execute { contract_addr: target, funds: vec![], msg }); }
                    Act::Try { script } => {
                        resp = resp.add_submessage(SubMsg::reply_on_error(WasmMsg::Execute { contract_addr: env.contract.address.to_string(),
                            funds: vec![], msg: to_json_binary(&AdvExec::Run { loan, script })? }, 1));
                    }
                }
            }
            Ok(resp)
        }
    }
}
fn adv_instantiate(deps: DepsMut, _env: Env, _info: MessageInfo, msg: AdvInit) -> StdResult<Response> {
    ADV_CFG.save(deps.storage, &msg)?;
    Ok(Response::new())
}
fn adv_query(_deps: Deps, _env: Env, _msg: AdvQuery) -> StdResult<Binary> { Err(StdError::generic_err("no queries")) }
fn adv_reply(_deps: DepsMut, _env: Env, _msg: Reply) -> StdResult<Response> { Ok(Response::new()) }

pub fn adv_contract() -> Box<dyn Contract<Empty>> {
    Box::new(ContractWrapper::new(adv_execute, adv_instantiate, adv_query).with_reply(adv_reply))
}

// ---------------------------------------------------------------------------------------------
// operations (Vault.v `op`)
// ---------------------------------------------------------------------------------------------
#[derive(Serialize, Deserialize, Clone, Debug, Default, PartialEq)]
pub struct UParams {
    pub fl: Option<bool>, pub wd: Option<bool>, pub dep: Option<bool>,
    pub owner: Option<usize>, pub fees: Option<(Uint128, Uint128, Uint128)>,
}

#[derive(Serialize, Deserialize, Clone, Debug, PartialEq)]
#[serde(rename_all = "snake_case")]
pub enum Op {
    Deposit { u: usize, amount: Uint128, sent: Uint128 },
    Withdraw { u: usize, amount: Uint128 },
    WithdrawDirect { u: usize },
    Collect { u: usize },
    Update { u: usize, via_factory: bool, p: UParams },
    Donate { u: usize, amount: Uint128 },
    BurnLp { u: usize, amount: Uint128 },
    Run { script: Vec<Act> },
    RouterLoan { u: usize, amount: Uint128, pre: Uint128, script: Vec<Act> },
    /// vault-router FlashLoan with `attached` coins of the vault asset attached to the message (native vaults)
    RouterLoanF { u: usize, amount: Uint128, pre: Uint128, script: Vec<Act>, attached: Uint128 },
    RouterMany { u: usize, n: u32 },
    CallbackExt { u: usize, old: Uint128, amount: Uint128 },
    NextLoanExt { u: usize },
    CompleteLoanExt { u: usize },
}

fn ob(o: &Option<bool>) -> String { match o { Some(b) => format!("(Some {})", coqbool(*b)), None => "None".into() } }

pub fn script_coq(s: &[Act]) -> String {
    let mut out = String::from("SNil");
    for a in s.iter().rev() { out = format!("(SCons {} {})", act_coq(a), out); }
    out
}
pub fn act_coq(a: &Act) -> String {
    match a {
        Act::Pay { to, amount } => format!("(APay {}%nat {})", to, amount),
        Act::RepayQ { neg, delta } => if *neg && !delta.is_zero() { format!("(ARepayQ (-{}))", delta) } else { format!("(ARepayQ {})", delta) },
        Act::Loan { amount, script } => format!("(ALoan {} {})", amount, script_coq(script)),
        Act::Deposit { amount } => format!("(ADeposit {})", amount),
        Act::Withdraw { amount } => format!("(AWithdraw {})", amount),
        Act::Collect {} => "ACollect".into(),
        Act::Fail {} => "AFail".into(),
        Act::Try { script } => format!("(ATry {})", script_coq(script)),
        Act::Raw { .. } => "AFail".into(),      // never part of a model-compared history
    }
}
pub fn op_coq(o: &Op) -> String {
    match o {
        Op::Deposit { u, amount, sent } => format!("ODeposit {}%nat {} {}", u, amount, sent),
        Op::Withdraw { u, amount } => format!("OWithdraw {}%nat {}", u, amount),
        Op::WithdrawDirect { u } => format!("OWithdrawDirect {}%nat", u),
        Op::Collect { u } => format!("OCollect {}%nat", u),
        Op::Update { u, via_factory, p } => format!("OUpdate {}%nat {} (mkUp {} {} {} {} {})", u, coqbool(*via_factory), ob(&p.fl), ob(&p.wd), ob(&p.dep),
            match p.owner { Some(i) => format!("(Some {}%nat)", i), None => "None".into() },
            match p.fees { Some((a, b, c)) => format!("(Some ({}, {}, {}))", a, b, c), None => "None".into() }),
        Op::Donate { u, amount } => format!("ODonate {}%nat {}", u, amount),
        Op::BurnLp { u, amount } => format!("OBurnLP {}%nat {}", u, amount),
        Op::Run { script } => format!("ORun {}", script_coq(script)),
        Op::RouterLoan { u, amount, pre, script } => format!("ORouterLoan {}%nat {} {} {}", u, amount, pre, script_coq(script)),
        Op::RouterLoanF { u, amount, pre, script, attached } => format!("ORouterLoanF {}%nat {} {} {} {}", u, amount, pre, script_coq(script), attached),
        Op::RouterMany { u, n } => format!("ORouterMany {}%nat {}", u, n),
        Op::CallbackExt { u, old, amount } => format!("OCallbackExt {}%nat {} {}", u, old, amount),
        Op::NextLoanExt { u } => format!("ONextLoanExt {}%nat", u),
        Op::CompleteLoanExt { u } => format!("OCompleteLoanExt {}%nat", u),
    }
}

/// loans in a script: (amount, depth) of every Loan node; `under_try` = some Loan sits below a Try
pub fn script_loans(s: &[Act], depth: u32, under_try: bool, acc: &mut Vec<(u128, u32, bool)>) {
    for a in s {
        match a {
            Act::Loan { amount, script } => { acc.push((amount.u128(), depth, under_try)); script_loans(script, depth + 1, under_try, acc); }
            Act::Try { script } => script_loans(script, depth, true, acc),
            _ => {}
        }
    }
}
/// the decidable signature of the known finding `nested_loan_same_vault` (= negb (op_unnested o) in Vault.v)
pub fn op_has_nested(o: &Op) -> bool {
    let mut v = vec![];
    match o {
        Op::Run { script } => { script_loans(script, 0, false, &mut v); v.iter().any(|l| l.1 >= 1) }
        Op::RouterLoan { script, .. } | Op::RouterLoanF { script, .. } => { script_loans(script, 1, false, &mut v); !v.is_empty() }
        _ => false,
    }
}
/// (all deposits of the script sit inside some loan's callback, there is at least one)
pub fn script_deposits_inside_loans(s: &[Act], in_loan: bool) -> (bool, bool) {
    let (mut all_inside, mut any) = (true, false);
    for a in s {
        match a {
            Act::Deposit { .. } => { any = true; if !in_loan { all_inside = false; } }
            Act::Loan { script, .. } => { let (i, n) = script_deposits_inside_loans(script, true); all_inside &= i; any |= n; }
            Act::Try { script } => { let (i, n) = script_deposits_inside_loans(script, in_loan); all_inside &= i; any |= n; }
            _ => {}
        }
    }
    (all_inside, any)
}
pub fn script_has_try(s: &[Act]) -> bool {
    s.iter().any(|a| match a { Act::Try { .. } => true, Act::Loan { script, .. } => script_has_try(script), _ => false })
}

// ---------------------------------------------------------------------------------------------
// the world
// ---------------------------------------------------------------------------------------------
pub struct VaultWorld {
    pub app: App,
    pub cw20: bool,
    pub asset: AssetInfo,
    pub factory: Addr,
    pub vault: Addr,
    pub lp: Addr,
    pub router: Addr,
    pub adv: Addr,
    pub accounts: Vec<String>,
    pub fees: (u128, u128, u128),
}

#[derive(Clone, Debug, PartialEq)]
pub struct Dump {
    pub bal: u128, pub pend: u128, pub allf: u128, pub burned: u128, pub supply: u128, pub counter: u128,
    pub dep: bool, pub wd: bool, pub fl: bool, pub fees: (u128, u128, u128), pub owner: usize,
    pub ab: Vec<u128>, pub lp: Vec<u128>,
    pub cw20: bool,
}
impl Dump {
    pub fn obs(&self) -> Vec<String> {
        let mut v: Vec<String> = vec![self.bal, self.pend, self.allf, self.burned, self.supply, self.counter,
            self.dep as u128, self.wd as u128, self.fl as u128, self.fees.0, self.fees.1, self.fees.2, self.owner as u128]
            .iter().map(|x| x.to_string()).collect();
        v.extend(self.ab.iter().map(|x| x.to_string()));
        v.extend(self.lp.iter().map(|x| x.to_string()));
        v
    }
    /// balance - pending protocol fees, possibly negative
    pub fn backing(&self) -> (bool, u128) { if self.bal >= self.pend { (true, self.bal - self.pend) } else { (false, self.pend - self.bal) } }
}

pub fn vfee(p: u128, f: u128, b: u128) -> VaultFee {
    let d = |x| Fee { share: cosmwasm_std::Decimal::new(Uint128::new(x)) };
    VaultFee { protocol_fee: d(p), flash_loan_fee: d(f), burn_fee: d(b) }
}

fn wrap_vault() -> Box<dyn Contract<Empty>> {
    Box::new(ContractWrapper::new_with_empty(::vault::contract::execute, ::vault::contract::instantiate, ::vault::contract::query)
        .with_reply(::vault::reply::reply))
}
fn wrap_factory() -> Box<dyn Contract<Empty>> {
    Box::new(ContractWrapper::new_with_empty(::vault_factory::contract::execute, ::vault_factory::contract::instantiate, ::vault_factory::contract::query)
        .with_reply(::vault_factory::reply::reply))
}
fn wrap_router() -> Box<dyn Contract<Empty>> {
    Box::new(ContractWrapper::new_with_empty(::vault_router::contract::execute, ::vault_router::contract::instantiate, ::vault_router::contract::query))
}
fn wrap_token() -> Box<dyn Contract<Empty>> {
    Box::new(ContractWrapper::new_with_empty(terraswap_token::contract::execute, terraswap_token::contract::instantiate, terraswap_token::contract::query))
}
fn wrap_cw20() -> Box<dyn Contract<Empty>> {
    Box::new(ContractWrapper::new_with_empty(cw20_base::contract::execute, cw20_base::contract::instantiate, cw20_base::contract::query))
}

/// deploy factory, vault (created through the factory), router and the borrower contract.
/// `funds[i]` = initial balance of FOWNER, alice, bob, carol and of the borrower contract (last).
pub fn deploy(cw20: bool, fees: (u128, u128, u128), funds: [u128; 5]) -> Result<VaultWorld, String> {
    let people: Vec<&str> = vec![FOWNER, USERS[0], USERS[1], USERS[2]];
    let mut app: App = AppBuilder::new().with_bank(BankKeeper::new()).build(|router, _api, storage| {
        for (i, a) in people.iter().enumerate() {
            let amt = funds[i] + if i == 0 { funds[4] } else { 0 };
            // every funded account also holds a token the vault has nothing to do with (mis-attached funds)
            if amt > 0 {
                let mut coins = vec![coin(u128::MAX / 8, "ujunk")];
                if !cw20 { coins.push(coin(amt, native_denom(fees))); }
                router.bank.init_balance(storage, &Addr::unchecked(*a), coins).unwrap();
            }
        }
    });
    let token_code = app.store_code(wrap_token());
    let cw20_code = app.store_code(wrap_cw20());
    let vault_code = app.store_code(wrap_vault());
    let factory_code = app.store_code(wrap_factory());
    let router_code = app.store_code(wrap_router());
    let adv_code = app.store_code(adv_contract());
    let owner = Addr::unchecked(FOWNER);
    let asset = if cw20 {
        let balances: Vec<Cw20Coin> = people.iter().enumerate().filter(|(i, _)| funds[*i] + if *i == 0 { funds[4] } else { 0 } > 0)
            .map(|(i, a)| Cw20Coin { address: a.to_string(), amount: Uint128::new(funds[i] + if i == 0 { funds[4] } else { 0 }) }).collect();
        let a = app.instantiate_contract(cw20_code, owner.clone(), &cw20_base::msg::InstantiateMsg {
            name: "vault asset".into(), symbol: "VASSET".into(), decimals: 6, initial_balances: balances,
            mint: Some(MinterResponse { minter: FOWNER.to_string(), cap: None }), marketing: None }, &[], "asset", None).map_err(|e| format!("{:#}", e))?;
        AssetInfo::Token { contract_addr: a.to_string() }
    } else { AssetInfo::NativeToken { denom: native_denom(fees).to_string() } };
    let factory = app.instantiate_contract(factory_code, owner.clone(), &fmsg::InstantiateMsg {
        owner: FOWNER.to_string(), vault_id: vault_code, token_id: token_code, fee_collector_addr: COLLECTOR.to_string() }, &[], "factory", None)
        .map_err(|e| format!("{:#}", e))?;
    app.execute_contract(owner.clone(), factory.clone(), &fmsg::ExecuteMsg::CreateVault {
        asset_info: asset.clone(), fees: vfee(fees.0, fees.1, fees.2), token_factory_lp: false }, &[]).map_err(|e| format!("{:#}", e))?;
    let v: Option<String> = app.wrap().query_wasm_smart(&factory, &fmsg::QueryMsg::Vault { asset_info: asset.clone() }).map_err(|e| e.to_string())?;
    let vault_addr = Addr::unchecked(v.ok_or("vault not registered")?);
    let cfg: vmsg::Config = app.wrap().query_wasm_smart(&vault_addr, &vmsg::QueryMsg::Config {}).map_err(|e| e.to_string())?;
    let lp = match cfg.lp_asset { AssetInfo::Token { contract_addr } => Addr::unchecked(contract_addr), _ => return Err("native lp".into()) };
    let router = app.instantiate_contract(router_code, owner.clone(), &rmsg::InstantiateMsg {
        owner: FOWNER.to_string(), vault_factory_addr: factory.to_string() }, &[], "router", None).map_err(|e| format!("{:#}", e))?;
    // account table in model order; the borrower refers to itself through env.contract.address
    let mut accounts: Vec<String> = vec![vault_addr.to_string(), COLLECTOR.to_string(), String::new(), router.to_string(), factory.to_string(),
        FOWNER.to_string(), USERS[0].to_string(), USERS[1].to_string(), USERS[2].to_string()];
    let adv = app.instantiate_contract(adv_code, owner.clone(), &AdvInit { vault: vault_addr.to_string(), asset: asset.clone(), lp: lp.to_string(), accounts: accounts.clone() },
        &[], "adv", None).map_err(|e| format!("{:#}", e))?;
    accounts[I_ADV] = adv.to_string();
    let mut w = VaultWorld { app, cw20, asset, factory, vault: vault_addr, lp, router, adv, accounts, fees };
    if funds[4] > 0 { w.transfer_asset(FOWNER, &w.adv.to_string(), funds[4]).map_err(|e| format!("{:#}", e))?; }
    // the borrower contract also holds coins of a foreign denom (attached to some of its FlashLoan calls)
    for a in [FOWNER, USERS[0], USERS[1], USERS[2]] {
        if w.app.wrap().query_balance(a, "ujunk").map(|c| !c.amount.is_zero()).unwrap_or(false) {
            let _ = w.app.send_tokens(Addr::unchecked(a), w.adv.clone(), &[coin(1_000_000_000_000, "ujunk")]);
            break;
        }
    }
    Ok(w)
}

pub fn classify_code(e: &anyhow::Error) -> i64 {
    let t = format!("{:#}", e).to_lowercase();
    if t.contains("not enabled") { 2 } else if t.contains("unauthorized") { 3 } else { 1 }
}

impl VaultWorld {
    pub fn addr(&self, i: usize) -> Addr { Addr::unchecked(self.accounts.get(i).cloned().unwrap_or_else(|| "nobody".into())) }
    pub fn transfer_asset(&mut self, from: &str, to: &str, amount: u128) -> anyhow::Result<cw_multi_test::AppResponse> {
        match &self.asset {
            AssetInfo::NativeToken { denom } => self.app.send_tokens(Addr::unchecked(from), Addr::unchecked(to), &[coin(amount, denom)]),
            AssetInfo::Token { contract_addr } => self.app.execute_contract(Addr::unchecked(from), Addr::unchecked(contract_addr),
                &Cw20ExecuteMsg::Transfer { recipient: to.to_string(), amount: Uint128::new(amount) }, &[]),
        }
    }
    pub fn asset_bal(&self, who: &str) -> u128 {
        match &self.asset {
            AssetInfo::NativeToken { denom } => self.app.wrap().query_balance(who, denom).unwrap().amount.u128(),
            AssetInfo::Token { contract_addr } => {
                let r: cw20::BalanceResponse = self.app.wrap().query_wasm_smart(contract_addr, &Cw20QueryMsg::Balance { address: who.to_string() }).unwrap();
                r.balance.u128()
            }
        }
    }
    pub fn lp_bal(&self, who: &str) -> u128 {
        let r: cw20::BalanceResponse = self.app.wrap().query_wasm_smart(&self.lp, &Cw20QueryMsg::Balance { address: who.to_string() }).unwrap();
        r.balance.u128()
    }
    pub fn set_allowance(&mut self, who: &str, amount: u128) {
        if let AssetInfo::Token { contract_addr } = &self.asset {
            let tok = Addr::unchecked(contract_addr);
            let cur: cw20::AllowanceResponse = self.app.wrap().query_wasm_smart(&tok,
                &Cw20QueryMsg::Allowance { owner: who.to_string(), spender: self.vault.to_string() }).unwrap();
            if !cur.allowance.is_zero() {
                self.app.execute_contract(Addr::unchecked(who), tok.clone(),
                    &Cw20ExecuteMsg::DecreaseAllowance { spender: self.vault.to_string(), amount: cur.allowance, expires: None }, &[]).unwrap();
            }
            if amount > 0 {
                self.app.execute_contract(Addr::unchecked(who), tok,
                    &Cw20ExecuteMsg::IncreaseAllowance { spender: self.vault.to_string(), amount: Uint128::new(amount), expires: None }, &[]).unwrap();
            }
        }
    }
    pub fn dump(&self) -> Dump {
        let q = self.app.wrap();
        let pend: vmsg::ProtocolFeesResponse = q.query_wasm_smart(&self.vault, &vmsg::QueryMsg::ProtocolFees { all_time: false }).unwrap();
        let allf: vmsg::ProtocolFeesResponse = q.query_wasm_smart(&self.vault, &vmsg::QueryMsg::ProtocolFees { all_time: true }).unwrap();
        let burned: vmsg::ProtocolFeesResponse = q.query_wasm_smart(&self.vault, &vmsg::QueryMsg::BurnedFees {}).unwrap();
        let cfg: vmsg::Config = q.query_wasm_smart(&self.vault, &vmsg::QueryMsg::Config {}).unwrap();
        let ti: cw20::TokenInfoResponse = q.query_wasm_smart(&self.lp, &Cw20QueryMsg::TokenInfo {}).unwrap();
        let raw = q.query_wasm_raw(&self.vault, b"loan_counter".to_vec()).unwrap().unwrap_or_default();
        let counter: u128 = String::from_utf8_lossy(&raw).trim().parse().unwrap_or(u128::MAX);
        let owner = self.accounts.iter().position(|a| a == cfg.owner.as_str()).unwrap_or(99);
        Dump {
            bal: self.asset_bal(self.vault.as_str()), pend: pend.fees.amount.u128(), allf: allf.fees.amount.u128(), burned: burned.fees.amount.u128(),
            supply: ti.total_supply.u128(), counter, dep: cfg.deposit_enabled, wd: cfg.withdraw_enabled, fl: cfg.flash_loan_enabled,
            fees: (cfg.fees.protocol_fee.share.atomics().u128(), cfg.fees.flash_loan_fee.share.atomics().u128(), cfg.fees.burn_fee.share.atomics().u128()),
            owner,
            ab: self.accounts.iter().map(|a| self.asset_bal(a)).collect(),
            lp: self.accounts.iter().map(|a| self.lp_bal(a)).collect(),
            cw20: self.cw20,
        }
    }
    pub fn payback(&self, z: u128) -> Result<(u128, u128, u128, u128), String> {
        let r: Result<vmsg::PaybackAmountResponse, _> = self.app.wrap().query_wasm_smart(&self.vault, &vmsg::QueryMsg::GetPaybackAmount { amount: Uint128::new(z) });
        r.map(|r| (r.payback_amount.u128(), r.protocol_fee.u128(), r.flash_loan_fee.u128(), r.burn_fee.u128())).map_err(|e| e.to_string())
    }
    pub fn share(&self, a: u128) -> Result<u128, String> {
        let app = &self.app; let v = self.vault.clone();
        match std::panic::catch_unwind(std::panic::AssertUnwindSafe(|| {
            app.wrap().query_wasm_smart::<Uint128>(&v, &vmsg::QueryMsg::Share { amount: Uint128::new(a) })
        })) { Ok(r) => r.map(|x| x.u128()).map_err(|e| e.to_string()), Err(_) => Err("PANIC".into()) }
    }
    fn adv_run_msg(&self, loan: u128, script: &[Act]) -> CosmosMsg {
        WasmMsg::Execute { contract_addr: self.adv.to_string(), funds: vec![],
            msg: to_json_binary(&AdvExec::Run { loan: Uint128::new(loan), script: script.to_vec() }).unwrap() }.into()
    }
    fn upd_params(&self, p: &UParams) -> vmsg::UpdateConfigParams {
        vmsg::UpdateConfigParams {
            flash_loan_enabled: p.fl, deposit_enabled: p.dep, withdraw_enabled: p.wd,
            new_owner: p.owner.map(|i| self.addr(i).to_string()),
            new_vault_fees: p.fees.map(|(a, b, c)| vfee(a.u128(), b.u128(), c.u128())),
            new_fee_collector_addr: None,
        }
    }
    /// owner (through the factory) points the vault at another fee collector; not an `Op` of the model (the collector identity
    /// is not part of the modelled state): used by the monitor-only stream of C05/C07
    pub fn set_collector(&mut self, new_collector: &str) -> i64 {
        let params = vmsg::UpdateConfigParams { flash_loan_enabled: None, deposit_enabled: None, withdraw_enabled: None, new_owner: None, new_vault_fees: None,
            new_fee_collector_addr: Some(new_collector.to_string()) };
        let (who, factory, vault) = (self.addr(I_FOWNER), self.factory.clone(), self.vault.to_string());
        let r = std::panic::catch_unwind(std::panic::AssertUnwindSafe(|| self.app.execute_contract(who, factory, &fmsg::ExecuteMsg::UpdateVaultConfig { vault_addr: vault, params }, &[])));
        match r { Ok(Ok(_)) => 0, Ok(Err(e)) => classify_code(&e), Err(_) => 1 }
    }
    /// vault-router FlashLoan with native coins attached to the message (monitor-only stream of C06: not an `Op` of the model)
    pub fn router_loan_with_funds(&mut self, u: usize, amount: u128, pre: u128, script: &[Act], attached: u128) -> i64 {
        let denom = match &self.asset { AssetInfo::NativeToken { denom } => denom.clone(), _ => return 1 };
        let mut msgs: Vec<CosmosMsg> = vec![];
        if pre > 0 { if let Ok(m) = asset_send(&self.asset, self.adv.as_str(), Uint128::new(pre)) { msgs.push(m); } }
        msgs.push(self.adv_run_msg(amount, script));
        let who = self.addr(u); let router = self.router.clone(); let asset = self.asset.clone();
        let r = std::panic::catch_unwind(std::panic::AssertUnwindSafe(|| self.app.execute_contract(who, router,
            &rmsg::ExecuteMsg::FlashLoan { assets: vec![Asset { info: asset, amount: Uint128::new(amount) }], msgs }, &[coin(attached, denom)])));
        match r { Ok(Ok(_)) => 0, Ok(Err(e)) => classify_code(&e), Err(_) => 1 }
    }
    /// run one operation on the real contracts; result code as CorrVault.code (0 ok, 1 other, 2 disabled, 3 unauthorized)
    pub fn exec(&mut self, o: &Op) -> i64 {
        let r = std::panic::catch_unwind(std::panic::AssertUnwindSafe(|| self.exec_inner(o)));
        match r { Ok(Ok(_)) => 0, Ok(Err(e)) => classify_code(&e), Err(_) => 1 }
    }
    fn exec_inner(&mut self, o: &Op) -> anyhow::Result<cw_multi_test::AppResponse> {
        let vault_addr = self.vault.clone();
        match o {
            Op::Deposit { u, amount, sent } => {
                let who = self.addr(*u);
                let funds: Vec<Coin> = match &self.asset {
                    // sent = 0 with a non-zero declared amount: attach the declared amount in a FOREIGN denom instead
                    // (the model sees "nothing of the vault asset was sent": FundsMismatch)
                    AssetInfo::NativeToken { denom } => if sent.is_zero() { if amount.is_zero() { vec![] } else { vec![coin(amount.u128(), "ujunk")] } } else { vec![coin(sent.u128(), denom)] },
                    AssetInfo::Token { .. } => { self.set_allowance(who.as_str(), sent.u128()); vec![] }
                };
                self.app.execute_contract(who, vault_addr, &vmsg::ExecuteMsg::Deposit { amount: *amount }, &funds)
            }
            Op::Withdraw { u, amount } => self.app.execute_contract(self.addr(*u), self.lp.clone(),
                &Cw20ExecuteMsg::Send { contract: vault_addr.to_string(), amount: *amount, msg: to_json_binary(&vmsg::Cw20HookMsg::Withdraw {})? }, &[]),
            // the token-factory entry: odd account indices attach coins of a denom that is not the (cw20) share token
            Op::WithdrawDirect { u } => { let f = if *u % 2 == 1 { vec![coin(100 + 37 * *u as u128, "ujunk")] } else { vec![] };
                                          self.app.execute_contract(self.addr(*u), vault_addr, &vmsg::ExecuteMsg::Withdraw {}, &f) }
            Op::Collect { u } => self.app.execute_contract(self.addr(*u), vault_addr, &vmsg::ExecuteMsg::CollectProtocolFees {}, &[]),
            Op::Update { u, via_factory, p } => {
                let params = self.upd_params(p);
                if *via_factory {
                    self.app.execute_contract(self.addr(*u), self.factory.clone(),
                        &fmsg::ExecuteMsg::UpdateVaultConfig { vault_addr: vault_addr.to_string(), params }, &[])
                } else {
                    self.app.execute_contract(self.addr(*u), vault_addr, &vmsg::ExecuteMsg::UpdateConfig(params), &[])
                }
            }
            Op::Donate { u, amount } => { let who = self.addr(*u); self.transfer_asset(who.as_str(), vault_addr.as_str(), amount.u128()) }
            Op::BurnLp { u, amount } => self.app.execute_contract(self.addr(*u), self.lp.clone(), &Cw20ExecuteMsg::Burn { amount: *amount }, &[]),
            Op::Run { script } => self.app.execute_contract(Addr::unchecked(USERS[0]), self.adv.clone(),
                &AdvExec::Run { loan: Uint128::zero(), script: script.clone() }, &[]),
            Op::RouterLoan { u, amount, pre, script } => {
                let mut msgs: Vec<CosmosMsg> = vec![];
                if !pre.is_zero() { msgs.push(asset_send(&self.asset, self.adv.as_str(), *pre)?); }
                msgs.push(self.adv_run_msg(amount.u128(), script));
                self.app.execute_contract(self.addr(*u), self.router.clone(), &rmsg::ExecuteMsg::FlashLoan {
                    assets: vec![Asset { info: self.asset.clone(), amount: *amount }], msgs }, &[])
            }
            Op::RouterLoanF { u, amount, pre, script, attached } => {
                let mut msgs: Vec<CosmosMsg> = vec![];
                if !pre.is_zero() { msgs.push(asset_send(&self.asset, self.adv.as_str(), *pre)?); }
                msgs.push(self.adv_run_msg(amount.u128(), script));
                let funds: Vec<Coin> = match &self.asset { AssetInfo::NativeToken { denom } if !attached.is_zero() => vec![coin(attached.u128(), denom)], _ => vec![] };
                self.app.execute_contract(self.addr(*u), self.router.clone(), &rmsg::ExecuteMsg::FlashLoan {
                    assets: vec![Asset { info: self.asset.clone(), amount: *amount }], msgs }, &funds)
            }
            Op::RouterMany { u, n } => {
                let assets: Vec<Asset> = (0..*n).map(|_| Asset { info: self.asset.clone(), amount: Uint128::new(1) }).collect();
                self.app.execute_contract(self.addr(*u), self.router.clone(), &rmsg::ExecuteMsg::FlashLoan { assets, msgs: vec![] }, &[])
            }
            Op::CallbackExt { u, old, amount } => self.app.execute_contract(self.addr(*u), vault_addr,
                &vmsg::ExecuteMsg::Callback(vmsg::CallbackMsg::AfterTrade { old_balance: *old, loan_amount: *amount }), &[]),
            Op::NextLoanExt { u } => self.app.execute_contract(self.addr(*u), self.router.clone(), &rmsg::ExecuteMsg::NextLoan {
                initiator: self.addr(*u), source_vault: vault_addr.to_string(), source_vault_asset_info: self.asset.clone(),
                payload: vec![], to_loan: vec![], loaned_assets: vec![] }, &[]),
            Op::CompleteLoanExt { u } => self.app.execute_contract(self.addr(*u), self.router.clone(), &rmsg::ExecuteMsg::CompleteLoan {
                initiator: self.addr(*u), loaned_assets: vec![(vault_addr.to_string(), Asset { info: self.asset.clone(), amount: Uint128::new(1) })] }, &[]),
        }
    }
}

/// Coq input term of run_vault and the replay json of a history
pub fn history_term(cw20: bool, fees: (u128, u128, u128), bals: &[u128], ops: &[Op]) -> String {
    format!("(({}, {}, {}), {}, {}, {})", fees.0, fees.1, fees.2, coqbool(cw20), zlist(bals), coqlist(&ops.iter().map(op_coq).collect::<Vec<_>>()))
}
pub fn history_replay(kind: &str, cw20: bool, fees: (u128, u128, u128), funds: &[u128; 5], ops: &[Op]) -> serde_json::Value {
    json!({"kind": kind, "asset": if cw20 { "cw20" } else { "native" },
           "fees_protocol_flash_burn": [fees.0.to_string(), fees.1.to_string(), fees.2.to_string()],
           "funds_owner_alice_bob_carol_borrower": funds.iter().map(|x| x.to_string()).collect::<Vec<_>>(),
           "accounts": "0 vault, 1 collector, 2 borrower contract, 3 router, 4 factory, 5 owner, 6 alice, 7 bob, 8 carol",
           "ops": ops})
}

pub fn u256(x: u128) -> Uint256 { Uint256::from(Uint128::new(x)) }
pub fn floor_fee(z: u128, share: u128) -> u128 {
    let r = u256(z) * u256(share) / u256(DEC);
    Uint128::try_from(r).map(|x| x.u128()).unwrap_or(u128::MAX)
}
