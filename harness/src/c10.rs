//! C10 — fee pipeline: real factory, router, 3 pairs, 3 vaults, fee collector, fee distributor, whale lair.
//! NewEpoch (and the public CollectFees / AggregateFees / ForwardFees / UpdateConfig entry points) over fee states
//! {zero, below, above thresholds}, with / without routes, failing simulations and failing hops, take rates
//! {off, 0, 1e-18, 1 %, 0.999..}. Oracle inputs of the model (what each pool/vault hands over, what the router
//! returns) are measured on a PROBE world: the same history replayed deterministically, with the phases of
//! ForwardFees run one by one through the collector's public entry points.
use crate::common::*;
use crate::w_epochs::*;
use crate::world::*;
use cosmwasm_std::{coin, Addr, Empty, Uint64};
use cw_multi_test::Executor;
use serde_json::{json, Value};
use white_whale_std::fee_collector as fc;

const A: [&str; 4] = ["uwhale", "uusdc", "uatom", "ubtc"]; // asset ids 0..3; 0 = distribution asset
const SENDERS: [&str; 4] = ["owner", "alice", "bob", "carol"];
const DAO: &str = "dao";
const MINAGG: u128 = 1_000;

#[derive(Clone, Debug)]
pub struct Setup {
    pub grace: u64,
    pub pair_fees: [u128; 3],           // protocol fee share of pairs (uwhale,uusdc) (uwhale,uatom) (uusdc,ubtc)
    pub liquidity: [(u128, u128); 3],
    pub vault_fees: [u128; 3],          // protocol fee share of the vaults of uwhale, uusdc, ubtc
    pub routes: [u8; 3],                // for uusdc, uatom, ubtc: 0 none, 1 good, 2 route over a missing pool (simulation fails)
    pub cw20_btc: bool,                 // asset 3 ("ubtc") is a cw20 token with that symbol instead of a native denom
    pub many_vaults: bool,              // nine further (empty) vaults are registered, whose denoms sort before the three that earn fees
}
#[derive(Clone, Debug)]
pub enum Ev {
    Swap { who: usize, pair: usize, offer_first: bool, amount: u128 },
    Loan { vault: usize, amount: u128 },
    Fee { asset: usize, amount: u128 },                 // a plain transfer to the collector
    Stray { amount: u128 },                             // a plain transfer of the distribution asset to the DISTRIBUTOR (belongs to no epoch)
    Config { admin: bool, active: Option<bool>, rate: Option<u128>, dao: Option<bool> },
    Collect { who: usize, vaults: bool },
    Aggregate { who: usize, vaults: bool },
    ForwardDirect { who: usize },
    NewEpoch { who: usize },
}

pub struct W { pub w: EpochWorld, pub pairs: Vec<Addr>, pub vaults: Vec<Addr>, pub borrower: Addr }
const PAIR_ASSETS: [(usize, usize); 3] = [(0, 1), (0, 2), (1, 3)];
const VAULT_ASSETS: [usize; 3] = [0, 1, 3];

fn build(s: &Setup) -> W {
    let cfg = EpochCfg { grace_period: s.grace, ..Default::default() };
    let mut w = deploy_epoch_world(cfg).expect("deploy");
    if s.cw20_btc { w.make_cw20("ubtc", &["donor"]); }
    for d in A { if !w.cw20s.contains_key(d) { w.add_native_decimals(d).expect("decimals"); } }
    let mut pairs = vec![];
    for (i, (a, b)) in PAIR_ASSETS.iter().enumerate() {
        let p = w.create_pair(A[*a], A[*b], s.pair_fees[i], 3_000_000_000_000_000, 0).expect("pair");
        w.provide(&p, A[*a], s.liquidity[i].0, A[*b], s.liquidity[i].1).expect("provide");
        pairs.push(p);
    }
    let mut vaults = vec![];
    for (i, a) in VAULT_ASSETS.iter().enumerate() {
        let v = w.create_vault(A[*a], s.vault_fees[i], 1_000_000_000_000_000).expect("vault");
        w.vault_deposit(&v, A[*a], 1_000_000_000_000).expect("deposit");
        vaults.push(v);
    }
    if s.many_vaults { for c in "abcdefghi".chars() { w.create_vault(&format!("uaa{c}"), 0, 1_000_000_000_000_000).expect("extra vault"); } }
    let bcode = w.app.store_code(borrower::contract());
    let borrower = w.app.instantiate_contract(bcode, Addr::unchecked(OWNER), &Empty {}, &[], "borrower", None).unwrap();
    for d in A { w.transfer("donor", borrower.as_str(), d, 1u128 << 99).unwrap(); }
    let hops: [Vec<(&str, &str)>; 3] = [vec![("uusdc", "uwhale")], vec![("uatom", "uwhale")], vec![("ubtc", "uusdc"), ("uusdc", "uwhale")]];
    for (i, asset) in [1usize, 2, 3].iter().enumerate() {
        match s.routes[i] {
            1 => { w.add_route(A[*asset], "uwhale", &hops[i]).expect("route"); }
            2 => { let _ = w.add_route(A[*asset], "uwhale", &[(A[*asset], "uluna"), ("uluna", "uwhale")]); }
            _ => {}
        }
    }
    W { w, pairs, vaults, borrower }
}

fn fees_for(w: &W, vaults: bool) -> fc::FeesFor {
    if vaults { fc::FeesFor::Factory { factory_addr: w.w.vault_factory.to_string(), factory_type: fc::FactoryType::Vault { start_after: None, limit: Some(30) } } }
    else { fc::FeesFor::Factory { factory_addr: w.w.pool_factory.to_string(), factory_type: fc::FactoryType::Pool { start_after: None, limit: Some(30) } } }
}

/// apply one event to a world (no recording); returns whether the call was accepted
fn apply(w: &mut W, t: u64, e: &Ev) -> Outcome<()> {
    w.w.set_time(t);
    let classify = |e: &anyhow::Error| classify_text(&format!("{:#}", e));
    match e {
        Ev::Swap { who, pair, offer_first, amount } => {
            let (a, b) = PAIR_ASSETS[*pair];
            let offer = if *offer_first { A[a] } else { A[b] };
            let p = w.pairs[*pair].clone();
            run_catch(|| w.w.pair_swap(SENDERS[*who], &p, offer, *amount).map(|_| ()), classify)
        }
        Ev::Loan { vault, amount } => {
            let (b, v) = (w.borrower.clone(), w.vaults[*vault].clone());
            run_catch(|| w.w.flash_loan(&b, &v, A[VAULT_ASSETS[*vault]], *amount).map(|_| ()), classify)
        }
        Ev::Fee { asset, amount } => {
            let c = w.w.collector.clone();
            run_catch(|| w.w.transfer("donor", c.as_str(), A[*asset], *amount).map(|_| ()), classify)
        }
        Ev::Stray { amount } => {
            let d = w.w.distributor.clone();
            run_catch(|| w.w.transfer("donor", d.as_str(), A[0], *amount).map(|_| ()), classify)
        }
        Ev::Config { admin, active, rate, dao } => {
            let msg = fc::ExecuteMsg::UpdateConfig { owner: None, pool_router: None, fee_distributor: None, pool_factory: None, vault_factory: None,
                take_rate: rate.map(dec), take_rate_dao_address: dao.map(|_| DAO.to_string()), is_take_rate_active: *active };
            run_catch(|| w.w.collector_exec(if *admin { "owner" } else { "alice" }, &msg).map(|_| ()), classify)
        }
        // the class of a failure inside a pool / vault / router call is theirs: compared as "other"
        Ev::Collect { who, vaults } => { let m = fc::ExecuteMsg::CollectFees { collect_fees_for: fees_for(w, *vaults) }; run_catch(|| w.w.collector_exec(SENDERS[*who], &m).map(|_| ()), |_e| E_OTHER) }
        Ev::Aggregate { who, vaults } => { let m = fc::ExecuteMsg::AggregateFees { aggregate_fees_for: fees_for(w, *vaults) }; run_catch(|| w.w.collector_exec(SENDERS[*who], &m).map(|_| ()), |_e| E_OTHER) }
        Ev::ForwardDirect { who } => {
            let m = fc::ExecuteMsg::ForwardFees { epoch: white_whale_std::fee_distributor::Epoch { id: Uint64::new(77), ..Default::default() }, forward_fees_as: native("uwhale") };
            run_catch(|| w.w.collector_exec(SENDERS[*who], &m).map(|_| ()), classify)
        }
        Ev::NewEpoch { who } => run_catch(|| w.w.new_epoch(SENDERS[*who]).map(|_| ()), |_e| E_OTHER),
    }
}

fn cbal(w: &W) -> [u128; 4] { let c = w.w.collector.to_string(); [w.w.bal(&c, A[0]), w.w.bal(&c, A[1]), w.w.bal(&c, A[2]), w.w.bal(&c, A[3])] }

/// assets a factory reports, in the order aggregate_fees walks them (TMP_ASSET_INFOS is keyed by label = denom, ascending)
fn reported_assets(vaults: bool) -> Vec<usize> {
    let mut v: Vec<usize> = if vaults { VAULT_ASSETS.to_vec() } else { PAIR_ASSETS.iter().flat_map(|(a, b)| [*a, *b]).collect() };
    v.sort_by(|x, y| A[*x].cmp(A[*y]));
    v.dedup();
    v
}

/// run one aggregation phase on a (probe) world and describe, per reported asset, what the router did
fn probe_aggregate(p: &mut W, t: u64, vaults: bool) -> (bool, Vec<(usize, String)>) {
    let before = cbal(p);
    let mut pre: Vec<(usize, &'static str)> = vec![];
    for a in reported_assets(vaults) {
        let kind = if a == 0 || before[a] <= MINAGG { "skip" } else {
            match p.w.route_ops(A[a], "uwhale") { None => "noroute", Some(ops) => if p.w.simulate_route(before[a], &ops) { "swap" } else { "simfails" } }
        };
        pre.push((a, kind));
    }
    let ok = matches!(apply(p, t, &Ev::Aggregate { who: 1, vaults }), Outcome::Ok(_));
    let after = cbal(p);
    let mut proceeds = if ok { after[0] - before[0] } else { 0 };
    let mut out = vec![];
    for (a, kind) in pre {
        let term = match kind {
            "noroute" => "NoRoute".to_string(),
            "simfails" => "SimFails".to_string(),
            "swap" => if ok { let r = proceeds; proceeds = 0; format!("Swapped {}", r) } else { "HopFails".to_string() },
            _ => "NoRoute".to_string(),     // ignored by the model: balance not above the threshold (or the distribution asset)
        };
        out.push((a, term));
    }
    (ok, out)
}

fn transfers_term(before: &[u128; 4], after: &[u128; 4]) -> String {
    coqlist(&(0..4).filter(|i| after[*i] > before[*i]).map(|i| format!("({}, {})", i, after[i] - before[i])).collect::<Vec<_>>())
}
fn assets_term(v: &[(usize, String)]) -> String { coqlist(&v.iter().map(|(a, s)| format!("({}, {})", a, s)).collect::<Vec<_>>()) }

#[derive(Clone, PartialEq, Debug)]
struct Snap { coll: [u128; 4], dao: u128, dist: u128, active: bool, rate: u128, dao_set: bool, epochs: Vec<(u64, i128, i128)>, hist: i128, others: Vec<[u128; 4]> }
fn enc(assets: &[white_whale_std::pool_network::asset::Asset]) -> i128 { match assets.len() { 0 => -1, 1 => asset_amount(assets, A[0]) as i128, _ => -2 } }
fn snap(w: &W) -> Snap {
    let cfg: fc::Config = w.w.app.wrap().query_wasm_smart(&w.w.collector, &fc::QueryMsg::Config {}).unwrap();
    let cur = w.w.q_current_epoch().id.u64();
    let epochs = (1..=cur).rev().map(|id| { let e = w.w.q_epoch(id); (id, enc(&e.total), enc(&e.available)) }).collect();
    let hist = match w.w.app.wrap().query_wasm_smart::<cosmwasm_std::Coin>(&w.w.collector, &fc::QueryMsg::TakeRateHistory { epoch_id: Uint64::new(cur) }) { Ok(c) => c.amount.u128() as i128, Err(_) => -1 };
    let mut others = vec![];
    for p in w.pairs.iter().chain(w.vaults.iter()) { others.push([w.w.bal(p.as_str(), A[0]), w.w.bal(p.as_str(), A[1]), w.w.bal(p.as_str(), A[2]), w.w.bal(p.as_str(), A[3])]); }
    others.push([w.w.bal(w.w.router.as_str(), A[0]), w.w.bal(w.w.router.as_str(), A[1]), w.w.bal(w.w.router.as_str(), A[2]), w.w.bal(w.w.router.as_str(), A[3])]);
    Snap { coll: cbal(w), dao: w.w.bal(DAO, A[0]), dist: w.w.bal(w.w.distributor.as_str(), A[0]), active: cfg.is_take_rate_active, rate: cfg.take_rate.atomics().u128(),
           dao_set: !cfg.take_rate_dao_address.to_string().is_empty(), epochs, hist, others }
}
fn snap_obs(s: &Snap) -> Vec<String> {
    let mut v: Vec<String> = s.coll.iter().map(|x| x.to_string()).collect();
    v.extend([s.dao.to_string(), s.dist.to_string(), (s.active as u8).to_string(), s.rate.to_string(), (s.dao_set as u8).to_string(), s.hist.to_string(), s.epochs.len().to_string()]);
    for e in &s.epochs { v.push(e.0.to_string()); v.push(e.1.to_string()); v.push(e.2.to_string()); }
    v
}
fn nz(x: i128) -> u128 { if x < 0 { 0 } else { x as u128 } }

pub struct Exec { pub setup: Setup, pub w: W, pub events: Vec<(u64, Ev)>, pub terms: Vec<String>, pub obs: Vec<String>,
                  n_epochs: u64, n_swapped: u64, n_taken: u64, n_left: u64, dao0: Option<u128>,
                  /// what strangers sent straight to the distributor so far: kept apart from the distributor balance the model accounts for
                  stray: u128 }
impl Exec {
    pub fn new(setup: Setup) -> Exec { let w = build(&setup); Exec { setup, w, events: vec![], terms: vec![], obs: vec![], n_epochs: 0, n_swapped: 0, n_taken: 0, n_left: 0, dao0: None, stray: 0 } }
    fn replay_json(&self) -> Value {
        json!({"kind": "fee_pipeline_history", "setup": format!("{:?}", self.setup), "assets": A, "pairs": ["uwhale-uusdc", "uwhale-uatom", "uusdc-ubtc"], "vaults": ["uwhale", "uusdc", "ubtc"],
               "events": self.events.iter().map(|(t, e)| json!({"t": t.to_string(), "ev": format!("{:?}", e)})).collect::<Vec<_>>()})
    }
    /// the same history on a fresh world
    fn probe(&self) -> W { let mut p = build(&self.setup); for (t, e) in &self.events { let _ = apply(&mut p, *t, e); } p }

    pub fn exec(&mut self, out: &mut Out, t: u64, e: &Ev) {
        // model term (measured on the probe before the real call)
        let mut probe_step_failed = false;
        let term: Option<String> = match e {
            Ev::Swap { .. } | Ev::Loan { .. } => None,
            Ev::Stray { amount } => Some(format!("PStray {}", amount)),
            Ev::Fee { asset, amount } => Some(format!("PCollect true [({}, {})]", asset, amount)),
            Ev::Config { admin, active, rate, dao } => Some(format!("PConfig {} {} {} {}", coqbool(*admin),
                active.map(|b| format!("(Some {})", coqbool(b))).unwrap_or("None".into()), rate.map(|r| format!("(Some {})", r)).unwrap_or("None".into()),
                dao.map(|b| format!("(Some {})", coqbool(b))).unwrap_or("None".into()))),
            Ev::ForwardDirect { .. } => Some("PForwardDirect".to_string()),
            Ev::Collect { vaults, .. } => {
                let mut p = self.probe();
                let b0 = cbal(&p);
                let ok = matches!(apply(&mut p, t, &Ev::Collect { who: 1, vaults: *vaults }), Outcome::Ok(_));
                Some(format!("PCollect {} {}", coqbool(ok), transfers_term(&b0, &cbal(&p))))
            }
            Ev::Aggregate { vaults, .. } => { let mut p = self.probe(); let (_ok, v) = probe_aggregate(&mut p, t, *vaults); Some(format!("PAggregate {}", assets_term(&v))) }
            Ev::NewEpoch { .. } => {
                let mut p = self.probe();
                let b0 = cbal(&p);
                let ok1 = matches!(apply(&mut p, t, &Ev::Collect { who: 1, vaults: true }), Outcome::Ok(_));
                let b1 = cbal(&p);
                let ok2 = matches!(apply(&mut p, t, &Ev::Collect { who: 1, vaults: false }), Outcome::Ok(_));
                let b2 = cbal(&p);
                let (_a1, v1) = probe_aggregate(&mut p, t, true);
                let (_a2, v2) = probe_aggregate(&mut p, t, false);
                probe_step_failed = !(ok1 && ok2) || v1.iter().chain(v2.iter()).any(|(_, s)| s == "HopFails");
                Some(format!("PNewEpoch (mkFeeds {} {} {} {} {})", coqbool(ok1 && ok2), transfers_term(&b0, &b1), transfers_term(&b1, &b2), assets_term(&v1), assets_term(&v2)))
            }
        };
        let before = snap(&self.w);
        let r = apply(&mut self.w, t, e);
        self.events.push((t, e.clone()));
        let after = snap(&self.w);
        if let (Ev::Stray { amount }, Outcome::Ok(_)) = (e, &r) { self.stray += *amount; }
        let replay = self.replay_json();
        let ok = matches!(r, Outcome::Ok(_));
        let kind = match e { Ev::Swap { .. } => "env:swap", Ev::Loan { .. } => "env:loan", Ev::Stray { .. } => "plain_transfer_to_distributor", Ev::Fee { .. } => "fee", Ev::Config { .. } => "config", Ev::Collect { .. } => "collect",
                             Ev::Aggregate { .. } => "aggregate", Ev::ForwardDirect { .. } => "forward_direct", Ev::NewEpoch { .. } => "new_epoch" };
        out.count(&format!("{}:{}", kind, if ok { "ok" } else { "rejected" }));
        // ---- the property's predicates on the implementation
        out.monitor_evals += 1;
        // conservation over {pairs, vaults, router, collector, DAO, distributor}: the pipeline entry points only move funds between them
        if !matches!(e, Ev::Swap { .. } | Ev::Loan { .. } | Ev::Fee { .. } | Ev::Stray { .. }) {
            for a in 0..4 {
                let tot = |s: &Snap| s.others.iter().map(|o| o[a]).sum::<u128>() + s.coll[a] + if a == 0 { s.dao + s.dist } else { 0 };
                if tot(&before) != tot(&after) { out.monitor_fail("C10", &format!("{} is not conserved across pools, vaults, router, collector, DAO and distributor ({} -> {})", A[a], tot(&before), tot(&after)), replay.clone()); }
            }
        }
        if !ok && after != before { out.monitor_fail("C10", "a rejected call changed a balance, the configuration or an epoch", replay.clone()); }
        // a failed step aborts everything: when collecting or aggregating on its own fails in this very state, NewEpoch must fail too
        if ok && probe_step_failed && matches!(e, Ev::NewEpoch { .. }) {
            out.monitor_fail("C10", "a new epoch was created although one of its collection / aggregation steps fails in this state (a failed step must leave every balance unchanged)", replay.clone());
        }
        match e {
            Ev::ForwardDirect { .. } => { if ok { out.monitor_fail("C10", "ForwardFees was accepted from an address that is not the fee distributor", replay.clone()); } }
            Ev::Aggregate { .. } | Ev::Collect { .. } if ok => {
                if after.dao != before.dao || after.dist != before.dist { out.monitor_fail("C10", "collecting / aggregating paid the DAO or the distributor", replay.clone()); }
                // a collection on its own: afterwards no registered vault owes anything, no registered pool more than its minimum collectable balance
                if let Ev::Collect { vaults, .. } = e {
                    if *vaults {
                        for (i, v) in self.w.vaults.iter().enumerate() {
                            let r: Result<white_whale_std::vault_network::vault::ProtocolFeesResponse, _> = self.w.w.app.wrap().query_wasm_smart(v, &white_whale_std::vault_network::vault::QueryMsg::ProtocolFees { all_time: false });
                            if let Ok(r) = r { if !r.fees.amount.is_zero() {
                                out.monitor_fail("C10", &format!("after CollectFees the vault of {} still holds {} of pending protocol fees", A[VAULT_ASSETS[i]], r.fees.amount), replay.clone()); } }
                        }
                    } else {
                        for (i, pr) in self.w.pairs.iter().enumerate() {
                            let r: Result<white_whale_std::pool_network::pair::ProtocolFeesResponse, _> = self.w.w.app.wrap().query_wasm_smart(pr, &white_whale_std::pool_network::pair::QueryMsg::ProtocolFees { asset_id: None, all_time: Some(false) });
                            if let Ok(r) = r { for f in r.fees { if f.amount.u128() > 1_000 {
                                out.monitor_fail("C10", &format!("after CollectFees pair {} still holds {} of pending protocol fees (above its minimum collectable balance)", i, f.amount), replay.clone()); } } }
                        }
                    }
                }
                for a in 1..4 { if matches!(e, Ev::Aggregate { .. }) {
                    if after.coll[a] != before.coll[a] && after.coll[a] != 0 { out.monitor_fail("C10", "an asset was neither swapped entirely nor left untouched", replay.clone()); }
                    if after.coll[a] != before.coll[a] && before.coll[a] <= MINAGG { out.monitor_fail("C10", "a balance not above MINIMUM_AGGREGABLE_BALANCE was swapped", replay.clone()); }
                    if after.coll[a] != before.coll[a] && self.setup.routes[a - 1] != 1 { out.monitor_fail("C10", "an asset without a usable route left the collector", replay.clone()); }
                } }
            }
            Ev::NewEpoch { .. } if ok => {
                self.n_epochs += 1;
                // "the protocol fees pending in the registered pools and vaults are collected": afterwards a vault owes nothing
                // (its collection has no minimum and nothing in the pipeline borrows from it)
                for (i, v) in self.w.vaults.iter().enumerate() {
                    let r: Result<white_whale_std::vault_network::vault::ProtocolFeesResponse, _> = self.w.w.app.wrap().query_wasm_smart(v, &white_whale_std::vault_network::vault::QueryMsg::ProtocolFees { all_time: false });
                    if let Ok(r) = r { if !r.fees.amount.is_zero() {
                        out.monitor_fail("C10", &format!("after the new epoch the vault of {} still holds {} of pending protocol fees", A[VAULT_ASSETS[i]], r.fees.amount), replay.clone()); } }
                }
                // (no such statement for the pools: the aggregation swaps run through them after the collection and charge new fees)
                let dao_delta = after.dao - before.dao;
                let dist_delta = after.dist - before.dist;
                let b = dao_delta + dist_delta + after.coll[0];       // the collector's balance of the distribution asset when the reply ran
                let expect = if before.active && before.rate != 0 && before.dao_set {
                    (cosmwasm_std::Uint256::from(b) * cosmwasm_std::Uint256::from(before.rate) / cosmwasm_std::Uint256::from(DEC)).to_string().parse::<u128>().unwrap_or(0) } else { 0 };
                if dao_delta != expect { out.monitor_fail("C10", &format!("the DAO received {} but floor(take_rate * {}) = {} (active {}, rate {}, dao set {})", dao_delta, b, expect, before.active, before.rate, before.dao_set), replay.clone()); }
                if dao_delta > 0 { self.n_taken += 1; if after.hist != dao_delta as i128 { out.monitor_fail("C10", "TakeRateHistory of the new epoch differs from what the DAO received", replay.clone()); } }
                else if after.hist != -1 { out.monitor_fail("C10", "a take rate is recorded for an epoch in which the DAO received nothing", replay.clone()); }
                if after.coll[0] != 0 { out.monitor_fail("C10", "the collector kept some of the distribution asset", replay.clone()); }
                // whole-history ledger (Coq: C10_take_rate_history): the records of ALL epochs so far sum to what the DAO received in total
                { let d0 = *self.dao0.get_or_insert(before.dao);
                  let cur = self.w.w.q_current_epoch().id.u64();
                  let mut sum: u128 = 0;
                  for id in 1..=cur { if let Ok(c) = self.w.w.app.wrap().query_wasm_smart::<cosmwasm_std::Coin>(&self.w.w.collector, &fc::QueryMsg::TakeRateHistory { epoch_id: Uint64::new(id) }) { sum += c.amount.u128(); } }
                  out.monitor_evals += 1;
                  if sum != after.dao - d0 { out.monitor_fail("C10", &format!("the take-rate records of epochs 1..{} sum to {} but the DAO received {} over the history", cur, sum, after.dao - d0), replay.clone()); } }
                let g = self.setup.grace as usize;
                let rolled = if before.epochs.len() >= g { nz(before.epochs[g - 1].2) } else { 0 };
                let new = after.epochs[0];
                if nz(new.1) != dist_delta + rolled { out.monitor_fail("C10", &format!("new epoch total {} != forwarded {} + rolled over {}", nz(new.1), dist_delta, rolled), replay.clone()); }
                for a in 1..4 {
                    if after.coll[a] != 0 && after.coll[a] < before.coll[a] { out.monitor_fail("C10", "a non-distribution asset was partly taken from the collector", replay.clone()); }
                    if after.coll[a] == 0 && before.coll[a] > 0 { self.n_swapped += 1; if self.setup.routes[a - 1] != 1 { out.monitor_fail("C10", "an asset without a usable route left the collector", replay.clone()); } }
                    if after.coll[a] != 0 { self.n_left += 1; }
                }
            }
            Ev::Stray { amount } if ok => {
                let mut b = before.clone(); b.dist += *amount;
                if b != after { out.monitor_fail("C10", "a plain transfer to the distributor changed more than the distributor's balance", replay.clone()); }
            }
            _ => {}
        }
        // the distributor holds exactly what its epochs still account for plus what plain transfers added (Coq: C10_distributor_solvent / C09)
        { let sum_av: u128 = after.epochs.iter().map(|e| nz(e.2)).sum();
          out.monitor_evals += 1;
          if after.dist != sum_av + self.stray { out.monitor_fail("C10", &format!("the distributor holds {} but its epochs' available amounts sum to {} and plain transfers added {}", after.dist, sum_av, self.stray), replay.clone()); } }
        if let Some(term) = term {
            self.terms.push(format!("({}, {})", t, term));
            let mut o = obs(&r, |_| vec![]);
            o.extend(snap_obs(&after));
            self.obs.extend(o);
        }
    }
    pub fn emit(self, out: &mut Out) {
        let c = &self.w.w.cfg;
        let input = format!("(({}, {}, {}), {})", c.duration, c.genesis, self.setup.grace, coqlist(&self.terms));
        let replay = self.replay_json();
        if self.n_epochs >= 2 && self.n_swapped >= 1 && self.n_taken >= 1 && self.n_left >= 1 { out.nontrivial_key(hash_str(&input)); }
        out.sample(replay.clone());
        out.case("c10", &input, &self.obs, replay);
    }
}

fn gen_setup(rng: &mut Rng) -> Setup {
    let pf = |rng: &mut Rng| *rng.pick(&[0u128, 1_000_000_000_000_000, 50_000_000_000_000_000, 300_000_000_000_000_000]);
    let liq = |rng: &mut Rng| { let x = *rng.pick(&[1_000_000u128, 50_000_000, 1_000_000_000_000, 1_000_000_000_000]); (x, x + rng.below128(x)) };
    Setup { grace: 1 + rng.below(3), pair_fees: [pf(rng), pf(rng), pf(rng)], liquidity: [liq(rng), liq(rng), liq(rng)],
            vault_fees: [pf(rng), pf(rng), pf(rng)], routes: [*rng.pick(&[1u8, 1, 1, 1, 0, 2]), *rng.pick(&[1u8, 1, 0, 0, 2]), *rng.pick(&[1u8, 1, 1, 0, 2])],
            cw20_btc: rng.below(5) < 2, many_vaults: rng.chance(1, 4) }
}
fn gen_rate(rng: &mut Rng) -> u128 { *rng.pick(&[0u128, 1, 10_000_000_000_000_000, 10_000_000_000_000_000, 333_333_333_333_333_333, DEC - 1, DEC, DEC + 5]) }

fn gen_history(out: &mut Out, rng: &mut Rng) {
    let setup = gen_setup(rng);
    let mut x = Exec::new(setup.clone());
    let mut t = GENESIS_DEFAULT;
    let target = setup.grace + 1 + rng.below(3);
    let mut made = 0u64;
    let mut steps = 0;
    if rng.chance(3, 4) { let r = *rng.pick(&[1u128, 10_000_000_000_000_000, 10_000_000_000_000_000, 333_333_333_333_333_333, DEC - 1]);
                          x.exec(out, t, &Ev::Config { admin: true, active: Some(true), rate: Some(r), dao: Some(true) }); }
    while made < target && steps < 40 {
        steps += 1;
        let e = match rng.below(20) {
            0..=5 => { let pair = rng.below(3) as usize; let l = setup.liquidity[pair].0;
                       Ev::Swap { who: 1 + rng.below(3) as usize, pair, offer_first: rng.chance(1, 2), amount: match rng.below(4) { 0 => 1 + rng.below128(2_000), 1 => l / 3, _ => 1 + rng.below128(l / 10 + 1) } } }
            6 | 7 => Ev::Loan { vault: rng.below(3) as usize, amount: *rng.pick(&[10_000u128, 90_000, 150_000, 5_000_000, 900_000_000]) },
            8..=10 if rng.chance(1, 8) => Ev::Stray { amount: match rng.below(3) { 0 => 1, 1 => 1_000_000, _ => 1 + rng.below128(5_000_000_000) } },
            8..=10 => Ev::Fee { asset: rng.below(4) as usize, amount: match rng.below(14) { 0 | 1 => 1 + rng.below128(999), 2 => 1_000, 3 | 4 => 1_001, 5 => 1_000_000_000_000_000, 6 => magnitude(rng, 40),
                                                                                       12 => 1_000_000_000_000_000_000_000 + rng.below128(1_000_000), 13 => 1_000_000_000_000_000_000_000_000_000, _ => 1_001 + rng.below128(200_000) } },
            11 => Ev::Config { admin: !rng.chance(1, 5), active: if rng.chance(1, 2) { Some(rng.chance(3, 4)) } else { None },
                               rate: if rng.chance(2, 3) { Some(gen_rate(rng)) } else { None }, dao: if rng.chance(1, 3) { Some(true) } else { None } },
            12 => Ev::Collect { who: rng.below(4) as usize, vaults: rng.chance(1, 2) },
            13 => Ev::Aggregate { who: rng.below(4) as usize, vaults: rng.chance(1, 2) },
            14 => Ev::ForwardDirect { who: rng.below(4) as usize },
            _ => {
                if !rng.chance(1, 8) { t = (GENESIS_DEFAULT + made * DAY_NS).max(t); }
                Ev::NewEpoch { who: rng.below(4) as usize }
            }
        };
        if !matches!(e, Ev::NewEpoch { .. }) { t += rng.below(1_000_000_000); }
        let before = x.w.w.q_current_epoch().id.u64();
        x.exec(out, t, &e);
        if x.w.w.q_current_epoch().id.u64() > before { made += 1; }
    }
    out.count(&format!("history:grace_{}", setup.grace));
    out.count(&format!("history:routes_{}{}{}", setup.routes[0], setup.routes[1], setup.routes[2]));
    out.count(if setup.cw20_btc { "history:ubtc_is_cw20" } else { "history:ubtc_is_native" });
    if setup.many_vaults { out.count("history:twelve_vaults"); }
    x.emit(out);
}

fn corpus(out: &mut Out) {
    let t0 = GENESIS_DEFAULT;
    let d = DAY_NS;
    let setup = Setup { grace: 1, pair_fees: [50_000_000_000_000_000; 3], liquidity: [(1_000_000_000, 1_000_000_000), (1_000_000_000, 2_000_000_000), (1_000_000, 1_000_000)],
                        vault_fees: [10_000_000_000_000_000; 3], routes: [1, 0, 1], cw20_btc: false, many_vaults: false };
    let evs: Vec<(u64, Ev)> = vec![
        (t0, Ev::Config { admin: true, active: Some(true), rate: Some(10_000_000_000_000_000), dao: Some(true) }),
        (t0, Ev::Config { admin: false, active: Some(false), rate: None, dao: None }),
        (t0, Ev::Config { admin: true, active: None, rate: Some(DEC), dao: None }),
        (t0 + 1, Ev::Swap { who: 1, pair: 0, offer_first: false, amount: 50_000_000 }),     // uusdc fees above the threshold
        (t0 + 2, Ev::Swap { who: 2, pair: 1, offer_first: false, amount: 90_000_000 }),     // uatom fees: no route -> stays
        (t0 + 3, Ev::Swap { who: 2, pair: 0, offer_first: true, amount: 10_000 }),          // uwhale fee below the pair's threshold
        (t0 + 4, Ev::Loan { vault: 1, amount: 5_000_000 }),
        (t0 + 5, Ev::Loan { vault: 0, amount: 90_000 }),
        (t0 + 6, Ev::Fee { asset: 3, amount: 999 }),
        (t0 + 7, Ev::ForwardDirect { who: 0 }),
        (t0 + 8, Ev::NewEpoch { who: 2 }),
        (t0 + 9, Ev::NewEpoch { who: 2 }),                                                   // early: rejected, nothing moves
        (t0 + 10, Ev::Fee { asset: 3, amount: 900_000_000_000 }),                            // ubtc far larger than the pool: the hop exceeds max spread -> everything aborts
        (t0 + d, Ev::NewEpoch { who: 1 }),
        (t0 + d + 1, Ev::Aggregate { who: 3, vaults: false }),
        (t0 + d + 2, Ev::Collect { who: 3, vaults: true }),
        (t0 + d + 3, Ev::Config { admin: true, active: Some(false), rate: None, dao: None }),
        (t0 + d + 4, Ev::Fee { asset: 0, amount: 123_457 }),
        (t0 + d + 5, Ev::Fee { asset: 1, amount: 1_001 }),
    ];
    let mut x = Exec::new(setup);
    for (t, e) in &evs { x.exec(out, *t, e); }
    out.count("history:corpus");
    x.emit(out);
}

pub fn run(args: &Args) {
    let mut out = Out::new(&args.out);
    out.rule = "a history on a freshly deployed system (3 pairs, 3 vaults, routes {good, none, over a missing pool}): swaps and flash loans (fee states zero / below / above the thresholds), \
                plain transfers to the collector {<1000, 1000, 1001, huge}, take-rate changes {off, 0, 1e-18, 1%, 33%, 0.999.., >= 1 (rejected)}, public CollectFees / AggregateFees / ForwardFees, \
                and NewEpoch (early ones included) until grace+1.. epochs exist; non-trivial = >= 2 epochs created, >= 1 asset swapped away, >= 1 asset left in the collector, >= 1 take-rate payment; \
                distinct = by hash of the model input".into();
    if let Some(p) = &args.replay { if replay_kind(p) == "distribution_asset_change" { replay_probe(&mut out, &mut |o| distribution_asset_change_probe(o)); } }
    let mut rng = Rng::new(args.seed);
    corpus(&mut out);
    distribution_asset_change_probe(&mut out);
    for _ in 0..args.n { gen_history(&mut out, &mut rng); }
    out.finish();
}

/// The distributor's owner changes the distribution asset between two epochs. The collector must follow the distributor's current
/// configuration: the new epoch consists of the collector's balance of the NEW distribution asset, that amount reaches the distributor,
/// and the old distribution asset - now an ordinary asset without a route to the new one - stays in the collector untouched.
/// (Monitor only: the pipeline model has a fixed distribution asset.)
fn distribution_asset_change_probe(out: &mut Out) {
    let setup = Setup { grace: 2, pair_fees: [50_000_000_000_000_000; 3], liquidity: [(1_000_000_000, 1_000_000_000), (1_000_000_000, 2_000_000_000), (1_000_000, 1_000_000)],
                        vault_fees: [10_000_000_000_000_000; 3], routes: [0, 1, 0], cw20_btc: false, many_vaults: false };
    let mut w = build(&setup);
    let t0 = GENESIS_DEFAULT;
    let replay = json!({"kind": "distribution_asset_change", "setup": format!("{:?}", setup),
        "script": "fees 1_000_000 uwhale; NewEpoch; distributor UpdateConfig{distribution_asset: uusdc}; fees 300_000 uwhale + 500_000 uusdc + 40_000 uatom; one day later NewEpoch"});
    let coll = w.w.collector.to_string();
    let dist = w.w.distributor.to_string();
    let ok = |r: Outcome<()>| matches!(r, Outcome::Ok(_));
    if !ok(apply(&mut w, t0, &Ev::Fee { asset: 0, amount: 1_000_000 })) || !ok(apply(&mut w, t0, &Ev::NewEpoch { who: 1 })) { out.count("dist_asset_probe:setup_failed"); return; }
    let owner = Addr::unchecked(OWNER);
    let d = w.w.distributor.clone();
    let r = w.w.app.execute_contract(owner, d, &white_whale_std::fee_distributor::ExecuteMsg::UpdateConfig { owner: None, bonding_contract_addr: None, fee_collector_addr: None,
        grace_period: None, distribution_asset: Some(native("uusdc")), epoch_config: None }, &[]);
    if r.is_err() { out.count("dist_asset_probe:update_rejected"); return; }
    for (a, x) in [(0usize, 300_000u128), (1, 500_000), (2, 40_000)] { if !ok(apply(&mut w, t0 + 5, &Ev::Fee { asset: a, amount: x })) { return; } }
    let before = (w.w.bal(&coll, "uwhale"), w.w.bal(&coll, "uusdc"), w.w.bal(&coll, "uatom"), w.w.bal(&dist, "uwhale"), w.w.bal(&dist, "uusdc"));
    let r2 = ok(apply(&mut w, t0 + DAY_NS + 10, &Ev::NewEpoch { who: 2 }));
    out.monitor_evals += 1;
    out.count(if r2 { "dist_asset_probe:second_epoch_created" } else { "dist_asset_probe:second_epoch_rejected" });
    if !r2 { out.monitor_fail("C10", "no epoch can be created after the distributor's distribution asset was changed", replay); return; }
    let after = (w.w.bal(&coll, "uwhale"), w.w.bal(&coll, "uusdc"), w.w.bal(&coll, "uatom"), w.w.bal(&dist, "uwhale"), w.w.bal(&dist, "uusdc"));
    let e = w.w.q_current_epoch();
    let total_new = asset_amount(&e.total, "uusdc");
    if e.total.len() != 1 || total_new == 0 { out.monitor_fail("C10", "the new epoch does not consist of the new distribution asset", replay.clone()); }
    if after.4 - before.4 != total_new { out.monitor_fail("C10", &format!("the distributor received {} of the new distribution asset but the new epoch's total is {}", after.4 - before.4, total_new), replay.clone()); }
    if after.1 != 0 { out.monitor_fail("C10", "the collector kept some of the (new) distribution asset", replay.clone()); }
    if after.0 != before.0 || after.3 != before.3 { out.monitor_fail("C10", "the old distribution asset (no route to the new one) moved although it is an ordinary asset now", replay.clone()); }
    if after.2 != before.2 { out.monitor_fail("C10", "an asset whose route leads to the OLD distribution asset left the collector", replay.clone()); }
}
