//! factory + three constant-product pairs over assets A,B,C (pool i trades asset i against asset (i+1)%3) + router
#![allow(dead_code)]
use crate::common::*;
use crate::world::*;
use cosmwasm_std::{coin, to_json_binary, Addr, Uint128};
use cw20::Cw20ExecuteMsg;
use cw_multi_test::{App, ContractWrapper, Executor};
use serde_json::json;
use white_whale_std::pool_network::asset::{Asset, AssetInfo, PairInfo, PairType};
use white_whale_std::pool_network::{factory, pair, router};

pub struct RouterWorld { pub app: App, pub factory: Addr, pub router: Addr, pub assets: [AssetInfo; 3], pub pairs: [Addr; 3] }

#[derive(Clone, Debug)]
pub struct RouterCase {
    pub cw20_c: bool,                       // asset C is a cw20 (A, B native)
    pub fees: [(u128, u128, u128); 3],
    pub liq: [(u128, u128); 3],
    pub hops: Vec<(usize, bool)>,
    pub offer: u128,
    pub donate: [u128; 3],                  // third-party transfers of A,B,C to the router beforehand
    pub min_receive: Option<u128>,
    pub max_spread: Option<u128>,
    pub receiver_is_other: bool,
    pub sender_is_poorer: bool,
}

pub fn deploy_router(case: &RouterCase) -> Option<RouterWorld> {
    let mut app = new_app();
    let token_code = app.store_code(token_contract());
    let cw20_code = app.store_code(cw20_base_contract());
    let pair_code = app.store_code(pair_contract());
    let trio_code = app.store_code(trio_contract());
    let factory_code = app.store_code(Box::new(ContractWrapper::new_with_empty(
        terraswap_factory::contract::execute, terraswap_factory::contract::instantiate, terraswap_factory::contract::query)
        .with_reply(terraswap_factory::contract::reply).with_migrate(terraswap_factory::contract::migrate)));
    let router_code = app.store_code(Box::new(ContractWrapper::new_with_empty(
        terraswap_router::contract::execute, terraswap_router::contract::instantiate, terraswap_router::contract::query)));
    let owner = Addr::unchecked(OWNER);
    let factory = app.instantiate_contract(factory_code, owner.clone(), &factory::InstantiateMsg {
        pair_code_id: pair_code, trio_code_id: trio_code, token_code_id: token_code, fee_collector_addr: COLLECTOR.to_string() }, &[], "factory", None).ok()?;
    let c_info = if case.cw20_c { token(&deploy_cw20(&mut app, cw20_code, "TOKC", 6)) } else { native(DENOMS[2]) };
    let assets = [native(DENOMS[0]), native(DENOMS[1]), c_info];
    for a in assets.iter() {
        if let AssetInfo::NativeToken { denom } = a {
            app.execute_contract(owner.clone(), factory.clone(), &factory::ExecuteMsg::AddNativeTokenDecimals { denom: denom.clone(), decimals: 6 }, &[coin(1, denom)]).ok()?;
        }
    }
    let mut pairs = vec![];
    for i in 0..3 {
        let infos = [assets[i].clone(), assets[(i + 1) % 3].clone()];
        let f = case.fees[i];
        app.execute_contract(owner.clone(), factory.clone(), &factory::ExecuteMsg::CreatePair {
            asset_infos: infos.clone(), pool_fees: pool_fee(f.0, f.1, f.2), pair_type: PairType::ConstantProduct, token_factory_lp: false }, &[]).ok()?;
        let info: PairInfo = app.wrap().query_wasm_smart(&factory, &factory::QueryMsg::Pair { asset_infos: infos }).ok()?;
        pairs.push(Addr::unchecked(info.contract_addr));
    }
    let router = app.instantiate_contract(router_code, owner.clone(), &router::InstantiateMsg { terraswap_factory: factory.to_string() }, &[], "router", None).ok()?;
    let mut w = RouterWorld { app, factory, router, assets, pairs: [pairs[0].clone(), pairs[1].clone(), pairs[2].clone()] };
    // liquidity
    for i in 0..3 {
        let (d0, d1) = case.liq[i];
        let infos = [w.assets[i].clone(), w.assets[(i + 1) % 3].clone()];
        let mut funds = vec![];
        for (inf, d) in [(&infos[0], d0), (&infos[1], d1)] {
            match inf {
                AssetInfo::NativeToken { denom } => funds.push(coin(d, denom)),
                AssetInfo::Token { contract_addr } => { w.app.execute_contract(Addr::unchecked("alice"), Addr::unchecked(contract_addr),
                    &Cw20ExecuteMsg::IncreaseAllowance { spender: w.pairs[i].to_string(), amount: Uint128::new(d), expires: None }, &[]).ok()?; }
            }
        }
        funds.sort_by(|a, b| a.denom.cmp(&b.denom));
        w.app.execute_contract(Addr::unchecked("alice"), w.pairs[i].clone(), &pair::ExecuteMsg::ProvideLiquidity {
            assets: [Asset { info: infos[0].clone(), amount: Uint128::new(d0) }, Asset { info: infos[1].clone(), amount: Uint128::new(d1) }],
            slippage_tolerance: None, receiver: None }, &funds).ok()?;
    }
    // the alternative receiver (carol) and the sender (bob) hold different balances: one of them parks 3/4 of each asset
    let poor = if case.sender_is_poorer { "bob" } else { "carol" };
    for i in 0..3 {
        match &w.assets[i] {
            AssetInfo::NativeToken { denom } => { w.app.send_tokens(Addr::unchecked(poor), Addr::unchecked("vaultkeeper"), &[coin(RICH / 4 * 3 + 12345, denom)]).ok()?; }
            AssetInfo::Token { contract_addr } => { w.app.execute_contract(Addr::unchecked(poor), Addr::unchecked(contract_addr),
                &Cw20ExecuteMsg::Transfer { recipient: "vaultkeeper".to_string(), amount: Uint128::new(RICH / 32 * 3 + 12345) }, &[]).ok()?; }
        }
    }
    for i in 0..3 {
        if case.donate[i] > 0 {
            match &w.assets[i] {
                AssetInfo::NativeToken { denom } => { w.app.send_tokens(Addr::unchecked("donor"), w.router.clone(), &[coin(case.donate[i], denom)]).ok()?; }
                AssetInfo::Token { contract_addr } => { w.app.execute_contract(Addr::unchecked("donor"), Addr::unchecked(contract_addr),
                    &Cw20ExecuteMsg::Transfer { recipient: w.router.to_string(), amount: Uint128::new(case.donate[i]) }, &[]).ok()?; }
            }
        }
    }
    Some(w)
}

impl RouterCase {
    /// asset offered by hop (i, dir)
    pub fn offer_asset(h: (usize, bool)) -> usize { if h.1 { (h.0 + 1) % 3 } else { h.0 } }
    pub fn ask_asset(h: (usize, bool)) -> usize { if h.1 { h.0 } else { (h.0 + 1) % 3 } }
    pub fn revisits(&self) -> bool { let mut seen = [false; 3]; for h in &self.hops { if seen[h.0] { return true; } seen[h.0] = true; } false }
    /// router's pre-existing balance of each hop's offer asset at the time of the hop
    pub fn pre(&self) -> Vec<u128> {
        let mut left = self.donate; let mut out = vec![];
        for h in &self.hops { let a = Self::offer_asset(*h); out.push(left[a]); left[a] = 0; }
        out
    }
    pub fn has_donation(&self) -> bool { self.pre().iter().any(|x| *x > 0) }
    pub fn coq(&self) -> String {
        let f: Vec<String> = self.fees.iter().map(|f| format!("({}, {}, {})", f.0, f.1, f.2)).collect();
        let l: Vec<String> = self.liq.iter().map(|l| format!("({}, {})", l.0, l.1)).collect();
        let h: Vec<String> = self.hops.iter().map(|h| format!("({}%nat, {})", h.0, coqbool(h.1))).collect();
        let o = |x: &Option<u128>| match x { Some(v) => format!("(Some {})", v), None => "None".into() };
        format!("({}, [{}], [{}], [{}], {}, {}, {}, {})", coqbool(self.cw20_c), f.join("; "), l.join("; "), h.join("; "), self.offer, zlist(&self.pre()), o(&self.max_spread), o(&self.min_receive))
    }
    pub fn json(&self) -> serde_json::Value {
        json!({"asset_C_is_cw20": self.cw20_c, "pool_fees_protocol_swap_burn": self.fees.iter().map(|f| [f.0.to_string(), f.1.to_string(), f.2.to_string()]).collect::<Vec<_>>(),
               "liquidity": self.liq.iter().map(|l| [l.0.to_string(), l.1.to_string()]).collect::<Vec<_>>(), "hops_pool_dir": self.hops,
               "offer": self.offer.to_string(), "donated_to_router_ABC": self.donate.iter().map(|d| d.to_string()).collect::<Vec<_>>(),
               "minimum_receive": self.min_receive.map(|m| m.to_string()), "max_spread": self.max_spread.map(|m| m.to_string()), "receiver_is_other": self.receiver_is_other, "sender_is_poorer": self.sender_is_poorer})
    }
}

pub fn ops_of(w: &RouterWorld, case: &RouterCase) -> Vec<router::SwapOperation> {
    case.hops.iter().map(|h| router::SwapOperation::TerraSwap {
        offer_asset_info: w.assets[RouterCase::offer_asset(*h)].clone(), ask_asset_info: w.assets[RouterCase::ask_asset(*h)].clone() }).collect()
}

pub struct RouterRun { pub sim: Result<u128, String>, pub exec: Outcome<u128>, pub pools: Vec<[u128; 4]> }

pub fn run_router(case: &RouterCase) -> Option<RouterRun> {
    let mut w = deploy_router(case)?;
    let ops = ops_of(&w, case);
    let sim = {
        let app = &w.app; let r = w.router.clone(); let o = ops.clone(); let amt = case.offer;
        match std::panic::catch_unwind(std::panic::AssertUnwindSafe(|| app.wrap().query_wasm_smart::<router::SimulateSwapOperationsResponse>(&r,
            &router::QueryMsg::SimulateSwapOperations { offer_amount: Uint128::new(amt), operations: o }))) {
            Ok(Ok(v)) => Ok(v.amount.u128()), Ok(Err(e)) => Err(e.to_string()), Err(_) => Err("PANIC".into()) }
    };
    let user = "bob";
    let receiver = if case.receiver_is_other { "carol" } else { user };
    let target = w.assets[RouterCase::ask_asset(*case.hops.last()?)].clone();
    let before = asset_balance(&w.app, &target, receiver);
    let first = w.assets[RouterCase::offer_asset(case.hops[0])].clone();
    let to = if case.receiver_is_other { Some(receiver.to_string()) } else { None };
    let r = std::panic::catch_unwind(std::panic::AssertUnwindSafe(|| match &first {
        AssetInfo::NativeToken { denom } => {
            let funds = if case.offer > 0 { vec![coin(case.offer, denom)] } else { vec![] };
            w.app.execute_contract(Addr::unchecked(user), w.router.clone(), &router::ExecuteMsg::ExecuteSwapOperations {
                operations: ops.clone(), minimum_receive: case.min_receive.map(Uint128::new), to: to.clone(), max_spread: case.max_spread.map(dec) }, &funds)
        }
        AssetInfo::Token { contract_addr } => w.app.execute_contract(Addr::unchecked(user), Addr::unchecked(contract_addr),
            &Cw20ExecuteMsg::Send { contract: w.router.to_string(), amount: Uint128::new(case.offer),
                msg: to_json_binary(&router::Cw20HookMsg::ExecuteSwapOperations { operations: ops.clone(), minimum_receive: case.min_receive.map(Uint128::new), to: to.clone(), max_spread: case.max_spread.map(dec) }).unwrap() }, &[]),
    }));
    let after = asset_balance(&w.app, &target, receiver);
    let exec = match r {
        Ok(Ok(_)) => {
            // a cyclic route pays and receives the same asset: add the offer back when payer = receiver
            let paid = if !case.receiver_is_other && first == target { case.offer } else { 0 };
            Outcome::Ok((after + paid).wrapping_sub(before))
        }
        Ok(Err(e)) => Outcome::Err(classify_text(&format!("{:#}", e))),
        Err(_) => Outcome::Panic("panic".into()),
    };
    let mut pools = vec![];
    for i in 0..3 {
        let f: pair::ProtocolFeesResponse = w.app.wrap().query_wasm_smart(&w.pairs[i], &pair::QueryMsg::ProtocolFees { asset_id: None, all_time: Some(false) }).ok()?;
        pools.push([asset_balance(&w.app, &w.assets[i], w.pairs[i].as_str()), asset_balance(&w.app, &w.assets[(i + 1) % 3], w.pairs[i].as_str()),
                    f.fees[0].amount.u128(), f.fees[1].amount.u128()]);
    }
    Some(RouterRun { sim, exec, pools })
}


/// the same route executed hop by hop by the user directly on the pairs (each Swap with the case's max_spread, the proceeds of one hop
/// being the offer of the next): Some(true) when every hop was accepted
pub fn run_hops_directly(case: &RouterCase) -> Option<bool> {
    let mut w = deploy_router(case)?;
    let user = "bob";
    let mut offer = case.offer;
    for h in &case.hops {
        let (oi, ai) = (RouterCase::offer_asset(*h), RouterCase::ask_asset(*h));
        let (oinfo, ainfo) = (w.assets[oi].clone(), w.assets[ai].clone());
        let pair_addr = w.pairs[h.0].clone();
        let before = asset_balance(&w.app, &ainfo, user);
        let ms = case.max_spread.map(dec);
        let r = std::panic::catch_unwind(std::panic::AssertUnwindSafe(|| match &oinfo {
            AssetInfo::NativeToken { denom } => w.app.execute_contract(Addr::unchecked(user), pair_addr.clone(), &pair::ExecuteMsg::Swap {
                offer_asset: Asset { info: oinfo.clone(), amount: Uint128::new(offer) }, belief_price: None, max_spread: ms, to: None }, &[coin(offer, denom)]),
            AssetInfo::Token { contract_addr } => w.app.execute_contract(Addr::unchecked(user), Addr::unchecked(contract_addr),
                &Cw20ExecuteMsg::Send { contract: pair_addr.to_string(), amount: Uint128::new(offer),
                    msg: to_json_binary(&pair::Cw20HookMsg::Swap { belief_price: None, max_spread: ms, to: None }).unwrap() }, &[]),
        }));
        match r { Ok(Ok(_)) => {} _ => return Some(false) }
        offer = asset_balance(&w.app, &ainfo, user).saturating_sub(before);
        if oinfo == ainfo { return None; }
    }
    Some(true)
}

pub fn gen_router_case(rng: &mut Rng) -> RouterCase {
    let scale = *rng.pick(&[1_000_000u128, 1_000_000_000, 1_000_000_000_000_000]);
    let mut liq = [(0u128, 0u128); 3];
    for l in liq.iter_mut() { *l = (scale + rng.below128(scale), scale / (1 + rng.below(3) as u128) + rng.below128(scale / 3 + 1)); }
    let fees = [fee_triple_small(rng), fee_triple_small(rng), fee_triple_small(rng)];
    let nh = 1 + rng.below(3) as usize;
    let mut a = rng.below(3) as usize;
    let mut hops = vec![];
    for _ in 0..nh {
        // from asset a: pool a (dir false) goes to a+1 ; pool a-1 (dir true) goes to a-1
        if rng.chance(1, 2) { hops.push((a, false)); a = (a + 1) % 3; } else { let p = (a + 2) % 3; hops.push((p, true)); a = p; }
    }
    let offer = match rng.below(6) { 0 => 1 + rng.below(100) as u128, 1 => scale / 1000, 2 => scale / 10, _ => scale / 100 + rng.below128(scale / 50 + 1) };
    let mut donate = [0u128; 3];
    if rng.chance(1, 6) { donate[rng.below(3) as usize] = 1 + rng.below128(scale / 100 + 1); }
    RouterCase { cw20_c: rng.chance(1, 3), fees, liq, hops, offer, donate, min_receive: None,
                 max_spread: if rng.chance(3, 4) { Some(DEC / 2) } else { Some(*rng.pick(&[DEC / 100, DEC / 10, DEC])) }, receiver_is_other: rng.chance(1, 2), sender_is_poorer: rng.chance(1, 2) }
}
fn fee_triple_small(rng: &mut Rng) -> (u128, u128, u128) {
    match rng.below(4) { 0 => (0, 0, 0), 1 => (DEC / 1000, 3 * DEC / 1000, 0), 2 => (DEC / 100, DEC / 500, DEC / 1000), _ => fee_triple(rng, true) }
}
