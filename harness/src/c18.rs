//! C18 — stored configuration always within its documented bounds, through every write path.
//! Histories of instantiations / direct updates / factory-mediated updates / factory creations on the REAL contracts;
//! after every operation the Config query of every contract created so far is read back (observation for the
//! correspondence with coq/theories/Config.v) and the property's own predicate is evaluated on it (monitor).
use crate::common::*;
use crate::w_admin::*;
use cosmwasm_std::{Addr, Uint64};
use cw_multi_test::{App, Executor};
use serde::{Deserialize, Serialize};
use serde_json::json;
use white_whale_std::epoch_manager::epoch_manager::EpochConfig;
use white_whale_std::pool_network::asset::{is_factory_token, AssetInfo, PairInfo, PairType, TrioInfo};
use white_whale_std::pool_network::trio::RampAmp;

type F3 = (u128, u128, u128);

// u128 values travel through the replay json as decimal strings (serde_json has no u128)
mod s128 {
    use serde::{Deserialize, Deserializer, Serializer};
    pub fn serialize<S: Serializer>(v: &u128, s: S) -> Result<S::Ok, S::Error> { s.serialize_str(&v.to_string()) }
    pub fn deserialize<'de, D: Deserializer<'de>>(d: D) -> Result<u128, D::Error> { String::deserialize(d)?.parse().map_err(serde::de::Error::custom) }
}
mod opt_s128 {
    use serde::{Deserialize, Deserializer, Serialize, Serializer};
    pub fn serialize<S: Serializer>(v: &Option<u128>, s: S) -> Result<S::Ok, S::Error> { v.map(|x| x.to_string()).serialize(s) }
    pub fn deserialize<'de, D: Deserializer<'de>>(d: D) -> Result<Option<u128>, D::Error> {
        match Option::<String>::deserialize(d)? { None => Ok(None), Some(t) => t.parse().map(Some).map_err(serde::de::Error::custom) } }
}
mod f3 {
    use serde::{Deserialize, Deserializer, Serialize, Serializer};
    pub fn serialize<S: Serializer>(v: &(u128, u128, u128), s: S) -> Result<S::Ok, S::Error> { [v.0.to_string(), v.1.to_string(), v.2.to_string()].serialize(s) }
    pub fn deserialize<'de, D: Deserializer<'de>>(d: D) -> Result<(u128, u128, u128), D::Error> {
        let a = <[String; 3]>::deserialize(d)?;
        let p = |t: &String| t.parse::<u128>().map_err(serde::de::Error::custom);
        Ok((p(&a[0])?, p(&a[1])?, p(&a[2])?)) }
}
mod opt_f3 {
    use serde::{Deserialize, Deserializer, Serialize, Serializer};
    pub fn serialize<S: Serializer>(v: &Option<(u128, u128, u128)>, s: S) -> Result<S::Ok, S::Error> { v.map(|v| [v.0.to_string(), v.1.to_string(), v.2.to_string()]).serialize(s) }
    pub fn deserialize<'de, D: Deserializer<'de>>(d: D) -> Result<Option<(u128, u128, u128)>, D::Error> {
        match Option::<[String; 3]>::deserialize(d)? { None => Ok(None), Some(a) => {
            let p = |t: &String| t.parse::<u128>().map_err(serde::de::Error::custom);
            Ok(Some((p(&a[0])?, p(&a[1])?, p(&a[2])?))) } } }
}

#[derive(Clone, Debug, Serialize, Deserialize)]
pub enum Op {
    Advance(u64),
    PairInst(#[serde(with = "f3")] F3),
    PairCreate { who: u8, a: usize, b: usize, #[serde(with = "f3")] f: F3 },
    PairUpd { who: u8, i: usize, #[serde(with = "opt_f3")] f: Option<F3> },
    TrioInst(#[serde(with = "f3")] F3, u64),
    TrioCreate { who: u8, a: usize, b: usize, c: usize, #[serde(with = "f3")] f: F3, amp: u64 },
    TrioUpd { who: u8, i: usize, #[serde(with = "opt_f3")] f: Option<F3>, ramp: Option<(u64, u64)> },
    VaultInst { asset: usize, #[serde(with = "f3")] f: F3, tf: bool },
    VaultCreate { who: u8, asset: usize, #[serde(with = "f3")] f: F3, tf: bool },
    VaultUpd { who: u8, i: usize, #[serde(with = "opt_f3")] f: Option<F3> },
    DistInst(u64, u64),
    DistUpd { who: u8, i: usize, grace: Option<u64>, dur: Option<u64> },
    /// (growth rate, kinds of the listed bonding assets, `dup`: consecutive native entries name the SAME denom - [a, a, b, b, ..])
    LairInst(#[serde(with = "s128")] u128, Vec<bool>, #[serde(default)] bool),
    LairUpd { who: u8, i: usize, #[serde(with = "opt_s128")] growth: Option<u128> },
    CollInst,
    CollUpd { who: u8, i: usize, #[serde(with = "opt_s128")] rate: Option<u128> },
}

/// vault assets: 0..7 = plain native denoms, 8.. = denoms the code classifies as token-factory assets
pub const VAULT_ASSETS: [&str; 12] = ["uwhale", "uusdc", "uatom", "ubtc", "uluna", "uosmo", "ujuno", "ukuji",
    "factory/contract0/uLP", "factory/migaloo1abcdefghijklmnop/sub", "x/y/z", "factory/wasm1qwertyuiopasdfgh/abcdefghijklmnopqrst"];

fn fz(f: &F3) -> String { format!("(mkFees {} {} {})", f.0, f.1, f.2) }
fn optf(f: &Option<F3>) -> String { match f { None => "None".into(), Some(f) => format!("(Some {})", fz(f)) } }
fn optz<T: ToString>(v: &Option<T>) -> String { match v { None => "None".into(), Some(x) => format!("(Some {})", x.to_string()) } }
fn is_fa(asset: usize) -> bool { is_factory_token(VAULT_ASSETS[asset]) }

impl Op {
    pub fn coq(&self) -> String {
        match self {
            Op::Advance(d) => format!("Advance {}", d),
            Op::PairInst(f) => format!("PairInst {}", fz(f)),
            Op::PairCreate { who, a, b, f } => format!("PairCreate {} {} {} {}", who, a, b, fz(f)),
            Op::PairUpd { who, i, f } => format!("PairUpd {} {} {}", who, i, optf(f)),
            Op::TrioInst(f, amp) => format!("TrioInst {} {}", fz(f), amp),
            Op::TrioCreate { who, a, b, c, f, amp } => format!("TrioCreate {} {} {} {} {} {}", who, a, b, c, fz(f), amp),
            Op::TrioUpd { who, i, f, ramp } => format!("TrioUpd {} {} {} {}", who, i, optf(f),
                match ramp { None => "None".to_string(), Some((a, b)) => format!("(Some ({}, {}))", a, b) }),
            Op::VaultInst { asset, f, tf } => format!("VaultInst {} {} {}", fz(f), coqbool(is_fa(*asset)), coqbool(*tf)),
            Op::VaultCreate { who, asset, f, tf } => format!("VaultCreate {} {} {} {} {}", who, asset, fz(f), coqbool(is_fa(*asset)), coqbool(*tf)),
            Op::VaultUpd { who, i, f } => format!("VaultUpd {} {} {}", who, i, optf(f)),
            Op::DistInst(g, d) => format!("DistInst {} {}", g, d),
            Op::DistUpd { who, i, grace, dur } => format!("DistUpd {} {} {} {}", who, i, optz(grace), optz(dur)),
            Op::LairInst(g, a, _) => format!("LairInst {} {}", g, coqlist(&a.iter().map(|b| coqbool(*b).to_string()).collect::<Vec<_>>())),
            Op::LairUpd { who, i, growth } => format!("LairUpd {} {} {}", who, i, optz(growth)),
            Op::CollInst => "CollInst".into(),
            Op::CollUpd { who, i, rate } => format!("CollUpd {} {} {}", who, i, optz(rate)),
        }
    }
    fn kind(&self) -> &'static str {
        match self {
            Op::Advance(_) => "Advance", Op::PairInst(_) => "PairInst", Op::PairCreate { .. } => "PairCreate", Op::PairUpd { .. } => "PairUpd",
            Op::TrioInst(..) => "TrioInst", Op::TrioCreate { .. } => "TrioCreate", Op::TrioUpd { .. } => "TrioUpd",
            Op::VaultInst { .. } => "VaultInst", Op::VaultCreate { .. } => "VaultCreate", Op::VaultUpd { .. } => "VaultUpd",
            Op::DistInst(..) => "DistInst", Op::DistUpd { .. } => "DistUpd", Op::LairInst(..) => "LairInst", Op::LairUpd { .. } => "LairUpd",
            Op::CollInst => "CollInst", Op::CollUpd { .. } => "CollUpd",
        }
    }
}

pub struct W18 {
    pub app: App, pub codes: Codes, pub collector: Addr, pub factory: Addr, pub vault_factory: Addr, pub cw20: Addr,
    pub pairs: Vec<Addr>, pub trios: Vec<Addr>, pub vaults: Vec<Addr>, pub dists: Vec<Addr>, pub lairs: Vec<Addr>, pub colls: Vec<Addr>,
    /// number of update messages sent so far: every update also carries (count % 3 = 1) a switch turned off / (= 2) turned on again in
    /// the same message - the bounds on what is stored do not depend on the switches (the model has no switch)
    pub upd: u64,
}

pub fn world18() -> W18 {
    let mut app = admin_app();
    let codes = store_codes(&mut app);
    let cw20 = deploy_cw20_for(&mut app, codes.cw20, "TOKA", 6);
    let collector = inst_collector(&mut app, &codes, ADMIN).unwrap();
    let factory = inst_factory(&mut app, &codes, ADMIN, collector.as_str()).unwrap();
    for d in DENOMS8.iter() {
        app.execute_contract(admin(), factory.clone(), &white_whale_std::pool_network::factory::ExecuteMsg::AddNativeTokenDecimals {
            denom: d.to_string(), decimals: 6 }, &[cosmwasm_std::coin(1, *d)]).unwrap();
    }
    let vault_factory = inst_vault_factory(&mut app, &codes, ADMIN, ADMIN, collector.as_str()).unwrap();
    W18 { app, codes, collector, factory, vault_factory, cw20, pairs: vec![], trios: vec![], vaults: vec![], dists: vec![], lairs: vec![], colls: vec![], upd: 0 }
}

fn sender(who: u8) -> Addr { Addr::unchecked(if who == 0 || who == 1 { ADMIN } else { STRANGER }) }

/// what the Config queries report, per contract class (the implementation side of Config.dump)
#[derive(Clone, Debug, PartialEq, Default)]
pub struct Dump {
    pub height: u64,
    pub pairs: Vec<[u128; 3]>,
    pub trios: Vec<([u128; 3], [u64; 4])>,
    pub vaults: Vec<([u128; 3], bool)>,   // fees, asset or lp asset classified as token-factory denom
    pub dists: Vec<(u64, u64)>,
    pub lairs: Vec<(u128, usize, bool)>,  // growth, number of bonding assets, all native
    pub colls: Vec<u128>,
}

fn at(d: cosmwasm_std::Decimal) -> u128 { d.atomics().u128() }

impl W18 {
    pub fn dump(&self) -> Dump {
        let q = self.app.wrap();
        let mut d = Dump { height: self.app.block_info().height, ..Default::default() };
        for p in &self.pairs {
            let c: white_whale_std::pool_network::pair::Config = q.query_wasm_smart(p, &white_whale_std::pool_network::pair::QueryMsg::Config {}).unwrap();
            d.pairs.push([at(c.pool_fees.protocol_fee.share), at(c.pool_fees.swap_fee.share), at(c.pool_fees.burn_fee.share)]);
        }
        for t in &self.trios {
            let c: white_whale_std::pool_network::trio::Config = q.query_wasm_smart(t, &white_whale_std::pool_network::trio::QueryMsg::Config {}).unwrap();
            d.trios.push(([at(c.pool_fees.protocol_fee.share), at(c.pool_fees.swap_fee.share), at(c.pool_fees.burn_fee.share)],
                          [c.initial_amp, c.future_amp, c.initial_amp_block, c.future_amp_block]));
        }
        for v in &self.vaults {
            let c: white_whale_std::vault_network::vault::Config = q.query_wasm_smart(v, &white_whale_std::vault_network::vault::QueryMsg::Config {}).unwrap();
            let fa = |a: &AssetInfo| match a { AssetInfo::NativeToken { denom } => !denom.is_empty() && is_factory_token(denom), _ => false };
            d.vaults.push(([at(c.fees.protocol_fee.share), at(c.fees.flash_loan_fee.share), at(c.fees.burn_fee.share)], fa(&c.asset_info) || fa(&c.lp_asset)));
        }
        for x in &self.dists {
            let c: white_whale_std::fee_distributor::Config = q.query_wasm_smart(x, &white_whale_std::fee_distributor::QueryMsg::Config {}).unwrap();
            d.dists.push((c.grace_period.u64(), c.epoch_config.duration.u64()));
        }
        for x in &self.lairs {
            let c: white_whale_std::whale_lair::Config = q.query_wasm_smart(x, &white_whale_std::whale_lair::QueryMsg::Config {}).unwrap();
            d.lairs.push((at(c.growth_rate), c.bonding_assets.len(), c.bonding_assets.iter().all(|a| matches!(a, AssetInfo::NativeToken { .. }))));
        }
        for x in &self.colls {
            let c: white_whale_std::fee_collector::Config = q.query_wasm_smart(x, &white_whale_std::fee_collector::QueryMsg::Config {}).unwrap();
            d.colls.push(at(c.take_rate));
        }
        d
    }
    fn all_contracts(&self) -> Vec<Addr> {
        let mut v = vec![self.collector.clone(), self.factory.clone(), self.vault_factory.clone()];
        for l in [&self.pairs, &self.trios, &self.vaults, &self.dists, &self.lairs, &self.colls] { v.extend(l.iter().cloned()); }
        v
    }
    pub fn raw(&self) -> Vec<(String, Vec<u8>, Vec<u8>)> { snapshot(&self.app, &self.all_contracts(), &[], &[]) }

    /// run one operation on the real contracts; true = accepted
    pub fn exec(&mut self, op: &Op) -> bool {
        let c = self.codes;
        let coll = self.collector.to_string();
        match op.clone() {
            Op::Advance(d) => { self.app.update_block(|b| { b.height += d; b.time = b.time.plus_seconds(5 * d.min(1_000_000)); }); true }
            Op::PairInst(f) => {
                let r = catch(|| inst_pair(&mut self.app, &c, ADMIN, [native("uwhale"), native("uusdc")], [6, 6], pool_fee(f.0, f.1, f.2), &coll, false));
                match r { Some(a) => { self.pairs.push(a); true } None => false }
            }
            Op::PairCreate { who, a, b, f } => {
                let infos = [native(DENOMS8[a]), native(DENOMS8[b])];
                let fac = self.factory.clone();
                let r = catch(|| self.app.execute_contract(sender(who), fac.clone(), &white_whale_std::pool_network::factory::ExecuteMsg::CreatePair {
                    asset_infos: infos.clone(), pool_fees: pool_fee(f.0, f.1, f.2), pair_type: PairType::ConstantProduct, token_factory_lp: false }, &[]));
                if r.is_none() { return false; }
                let info: PairInfo = self.app.wrap().query_wasm_smart(&self.factory, &white_whale_std::pool_network::factory::QueryMsg::Pair { asset_infos: infos }).unwrap();
                self.pairs.push(Addr::unchecked(info.contract_addr));
                true
            }
            Op::PairUpd { who, i, f } => {
                self.upd += 1;
                let ft = match self.upd % 3 { 1 => Some(white_whale_std::pool_network::pair::FeatureToggle { withdrawals_enabled: true, deposits_enabled: true, swaps_enabled: false }),
                                              2 => Some(white_whale_std::pool_network::pair::FeatureToggle { withdrawals_enabled: true, deposits_enabled: true, swaps_enabled: true }), _ => None };
                let target = self.pairs[i].clone();
                let fees = f.map(|f| pool_fee(f.0, f.1, f.2));
                let fac = self.factory.clone();
                let r = if who == 0 || who == 2 {
                    catch(|| self.app.execute_contract(sender(who), target.clone(), &white_whale_std::pool_network::pair::ExecuteMsg::UpdateConfig {
                        owner: None, fee_collector_addr: None, pool_fees: fees.clone(), feature_toggle: ft.clone() }, &[]))
                } else {
                    catch(|| self.app.execute_contract(sender(who), fac.clone(), &white_whale_std::pool_network::factory::ExecuteMsg::UpdatePairConfig {
                        pair_addr: target.to_string(), owner: None, fee_collector_addr: None, pool_fees: fees.clone(), feature_toggle: ft.clone() }, &[]))
                };
                r.is_some()
            }
            Op::TrioInst(f, amp) => {
                let r = catch(|| inst_trio(&mut self.app, &c, ADMIN, [native("uwhale"), native("uusdc"), native("uatom")], [6, 6, 6], trio_fee(f.0, f.1, f.2), &coll, amp));
                match r { Some(a) => { self.trios.push(a); true } None => false }
            }
            Op::TrioCreate { who, a, b, c: c3, f, amp } => {
                let infos = [native(DENOMS8[a]), native(DENOMS8[b]), native(DENOMS8[c3])];
                let fac = self.factory.clone();
                let r = catch(|| self.app.execute_contract(sender(who), fac.clone(), &white_whale_std::pool_network::factory::ExecuteMsg::CreateTrio {
                    asset_infos: infos.clone(), pool_fees: trio_fee(f.0, f.1, f.2), amp_factor: amp, token_factory_lp: false }, &[]));
                if r.is_none() { return false; }
                let info: TrioInfo = self.app.wrap().query_wasm_smart(&self.factory, &white_whale_std::pool_network::factory::QueryMsg::Trio { asset_infos: infos }).unwrap();
                self.trios.push(Addr::unchecked(info.contract_addr));
                true
            }
            Op::TrioUpd { who, i, f, ramp } => {
                self.upd += 1;
                let ft = match self.upd % 3 { 1 => Some(white_whale_std::pool_network::trio::FeatureToggle { withdrawals_enabled: true, deposits_enabled: true, swaps_enabled: false }),
                                              2 => Some(white_whale_std::pool_network::trio::FeatureToggle { withdrawals_enabled: true, deposits_enabled: true, swaps_enabled: true }), _ => None };
                let target = self.trios[i].clone();
                let fees = f.map(|f| trio_fee(f.0, f.1, f.2));
                let amp = ramp.map(|(a, b)| RampAmp { future_a: a, future_block: b });
                let fac = self.factory.clone();
                let r = if who == 0 || who == 2 {
                    catch(|| self.app.execute_contract(sender(who), target.clone(), &white_whale_std::pool_network::trio::ExecuteMsg::UpdateConfig {
                        owner: None, fee_collector_addr: None, pool_fees: fees.clone(), feature_toggle: ft.clone(), amp_factor: amp.clone() }, &[]))
                } else {
                    catch(|| self.app.execute_contract(sender(who), fac.clone(), &white_whale_std::pool_network::factory::ExecuteMsg::UpdateTrioConfig {
                        trio_addr: target.to_string(), owner: None, fee_collector_addr: None, pool_fees: fees.clone(), feature_toggle: ft.clone(), amp_factor: amp.clone() }, &[]))
                };
                r.is_some()
            }
            Op::VaultInst { asset, f, tf } => {
                let r = catch(|| inst_vault(&mut self.app, &c, ADMIN, ADMIN, native(VAULT_ASSETS[asset]), vault_fee(f.0, f.1, f.2), &coll, tf));
                match r { Some(a) => { self.vaults.push(a); true } None => false }
            }
            Op::VaultCreate { who, asset, f, tf } => {
                let info = native(VAULT_ASSETS[asset]);
                let fac = self.vault_factory.clone();
                let r = catch(|| self.app.execute_contract(sender(who), fac.clone(), &white_whale_std::vault_network::vault_factory::ExecuteMsg::CreateVault {
                    asset_info: info.clone(), fees: vault_fee(f.0, f.1, f.2), token_factory_lp: tf }, &[]));
                if r.is_none() { return false; }
                let v: Option<String> = self.app.wrap().query_wasm_smart(&self.vault_factory, &white_whale_std::vault_network::vault_factory::QueryMsg::Vault { asset_info: info }).unwrap();
                self.vaults.push(Addr::unchecked(v.expect("vault registered after CreateVault succeeded")));
                true
            }
            Op::VaultUpd { who, i, f } => {
                self.upd += 1;
                let sw = match self.upd % 3 { 1 => Some(false), 2 => Some(true), _ => None };
                let target = self.vaults[i].clone();
                let params = white_whale_std::vault_network::vault::UpdateConfigParams { flash_loan_enabled: sw, deposit_enabled: None, withdraw_enabled: None,
                    new_owner: None, new_vault_fees: f.map(|f| vault_fee(f.0, f.1, f.2)), new_fee_collector_addr: None };
                let fac = self.vault_factory.clone();
                let r = if who == 0 || who == 2 {
                    catch(|| self.app.execute_contract(sender(who), target.clone(), &white_whale_std::vault_network::vault::ExecuteMsg::UpdateConfig(params.clone()), &[]))
                } else {
                    catch(|| self.app.execute_contract(sender(who), fac.clone(), &white_whale_std::vault_network::vault_factory::ExecuteMsg::UpdateVaultConfig {
                        vault_addr: target.to_string(), params: params.clone() }, &[]))
                };
                r.is_some()
            }
            Op::DistInst(g, d) => {
                let r = catch(|| inst_distributor(&mut self.app, &c, ADMIN, "lairaddr", &coll, g, d, 0, native("uwhale")));
                match r { Some(a) => { self.dists.push(a); true } None => false }
            }
            Op::DistUpd { who, i, grace, dur } => {
                let target = self.dists[i].clone();
                catch(|| self.app.execute_contract(sender(who), target.clone(), &white_whale_std::fee_distributor::ExecuteMsg::UpdateConfig {
                    owner: None, bonding_contract_addr: None, fee_collector_addr: None, grace_period: grace.map(Uint64::new), distribution_asset: None,
                    epoch_config: dur.map(|d| EpochConfig { duration: Uint64::new(d), genesis_epoch: Uint64::new(0) }) }, &[])).is_some()
            }
            Op::LairInst(g, kinds, dup) => {
                let cw = self.cw20.clone();
                let assets: Vec<AssetInfo> = kinds.iter().enumerate().map(|(k, t)| if *t { token(&cw) } else { native(DENOMS8[(if dup { k / 2 } else { k }) % 8]) }).collect();
                let r = catch(|| inst_lair(&mut self.app, &c, ADMIN, 1_000_000, g, assets.clone()));
                match r { Some(a) => { self.lairs.push(a); true } None => false }
            }
            Op::LairUpd { who, i, growth } => {
                let target = self.lairs[i].clone();
                catch(|| self.app.execute_contract(sender(who), target.clone(), &white_whale_std::whale_lair::ExecuteMsg::UpdateConfig {
                    owner: None, unbonding_period: None, growth_rate: growth.map(crate::world::dec), fee_distributor_addr: None }, &[])).is_some()
            }
            Op::CollInst => {
                match catch(|| inst_collector(&mut self.app, &c, ADMIN)) { Some(a) => { self.colls.push(a); true } None => false }
            }
            Op::CollUpd { who, i, rate } => {
                self.upd += 1;
                let sw = match self.upd % 3 { 1 => Some(false), 2 => Some(true), _ => None };
                let target = self.colls[i].clone();
                catch(|| self.app.execute_contract(sender(who), target.clone(), &white_whale_std::fee_collector::ExecuteMsg::UpdateConfig {
                    owner: None, pool_router: None, fee_distributor: None, pool_factory: None, vault_factory: None,
                    take_rate: rate.map(crate::world::dec), take_rate_dao_address: None, is_take_rate_active: sw }, &[])).is_some()
            }
        }
    }
}

/// Some(v) if the call returned Ok, None on Err or panic
fn catch<T>(f: impl FnOnce() -> anyhow::Result<T>) -> Option<T> {
    match run_catch(f, |e| { if std::env::var("WWVERIF_ERRORS").is_ok() { eprintln!("rejected: {:#}", e); } E_OTHER }) { Outcome::Ok(v) => Some(v), _ => None }
}

pub fn dump_obs(d: &Dump) -> Vec<String> {
    let mut v: Vec<String> = vec![d.height.to_string()];
    for p in &d.pairs { v.extend(p.iter().map(|x| x.to_string())); }
    v.push("-1".into());
    for (f, a) in &d.trios { v.extend(f.iter().map(|x| x.to_string())); v.extend(a.iter().map(|x| x.to_string())); }
    v.push("-1".into());
    for (f, _) in &d.vaults { v.extend(f.iter().map(|x| x.to_string())); }
    v.push("-1".into());
    for (g, x) in &d.dists { v.push(g.to_string()); v.push(x.to_string()); }
    v.push("-1".into());
    for (g, n, _) in &d.lairs { v.push(g.to_string()); v.push(n.to_string()); }
    v.push("-1".into());
    for r in &d.colls { v.push(r.to_string()); }
    v
}

/// the property's predicate (its literals, not the code's constants) on what the contracts report
pub fn cfg_violation(d: &Dump, prev: &Dump) -> Option<String> {
    let fees_ok = |f: &[u128; 3]| f[0] < DEC && f[1] < DEC && f[2] < DEC && f[0].checked_add(f[1]).and_then(|s| s.checked_add(f[2])).map(|s| s < DEC).unwrap_or(false);
    for (i, p) in d.pairs.iter().enumerate() { if !fees_ok(p) { return Some(format!("pair #{i} stores pool fees {:?} (a share or their sum is >= 100%)", p)); } }
    for (i, (f, a)) in d.trios.iter().enumerate() {
        if !fees_ok(f) { return Some(format!("trio #{i} stores pool fees {:?} (a share or their sum is >= 100%)", f)); }
        if a[0] < 1 || a[0] > 1_000_000 || a[1] < 1 || a[1] > 1_000_000 { return Some(format!("trio #{i} stores amplification (initial {}, future {}) outside [1, 10^6]", a[0], a[1])); }
    }
    for (i, (f, fa)) in d.vaults.iter().enumerate() {
        if !fees_ok(f) { return Some(format!("vault #{i} stores fees {:?} (a share or their sum is >= 100%)", f)); }
        if *fa && f[2] > 0 { return Some(format!("vault #{i} over a token-factory asset stores burn fee {}", f[2])); }
    }
    for (i, (g, x)) in d.dists.iter().enumerate() {
        if *g < 1 || *g > 30 { return Some(format!("distributor #{i} stores grace period {g} outside [1, 30]")); }
        if *x < 86_400_000_000_000 { return Some(format!("distributor #{i} stores epoch duration {x} ns < 1 day")); }
        if let Some((g0, _)) = prev.dists.get(i) { if g < g0 { return Some(format!("distributor #{i}: grace period decreased {g0} -> {g}")); } }
    }
    for (i, (g, n, nat)) in d.lairs.iter().enumerate() {
        if *g > DEC { return Some(format!("lair #{i} stores growth rate {g} > 1")); }
        if *n > 2 || !*nat { return Some(format!("lair #{i} stores {n} bonding assets (all native: {nat})")); }
    }
    for (i, r) in d.colls.iter().enumerate() { if *r >= DEC { return Some(format!("collector #{i} stores take rate {r} >= 1")); } }
    None
}

pub fn run_history(out: &mut Out, h: &[Op], record: bool) -> Vec<String> {
    let mut w = world18();
    let h0 = w.app.block_info().height;
    let mut obs: Vec<String> = vec![];
    let mut prev = w.dump();
    let replay = json!({"kind": "config_history", "initial_height": h0, "ops": serde_json::to_value(h).unwrap(),
                        "note": "who: 0 admin direct, 1 admin via factory, 2 stranger direct, 3 stranger via factory; fee triples are Decimal atomics (protocol, swap|flash, burn)"});
    let mut kinds = std::collections::BTreeSet::new();
    let mut boundary_accepts = 0u32;
    for (k, op) in h.iter().enumerate() {
        let raw_before = w.raw();
        let ok = w.exec(op);
        let d = w.dump();
        out.monitor_evals += 1;
        if let Some(what) = cfg_violation(&d, &prev) {
            mfail(out, "C18", &format!("after op #{k} ({}): {what}", op.kind()), replay.clone());
        }
        if !ok {
            out.monitor_evals += 1;
            if d != prev || w.raw() != raw_before {
                mfail(out, "C18", &format!("op #{k} ({}) was rejected but changed stored state", op.kind()), replay.clone());
            }
        }
        if record {
            out.count(&format!("{}:{}", op.kind(), if ok { "ok" } else { "rejected" }));
            kinds.insert(op.kind());
            if ok && !matches!(op, Op::Advance(_)) { boundary_accepts += 1; }
        }
        obs.push(if ok { "0".into() } else { "1".into() });
        obs.extend(dump_obs(&d));
        prev = d;
    }
    if record {
        let input = format!("({}, {})", h0, coqlist(&h.iter().map(|o| o.coq()).collect::<Vec<_>>()));
        if kinds.len() >= 4 && boundary_accepts >= 2 { out.nontrivial_key(hash_str(&input)); }
        out.sample(replay.clone());
        out.case("c18", &input, &obs, replay);
    }
    obs
}

// ---- generators -------------------------------------------------------------------------------------------------
fn gen_fees(rng: &mut Rng) -> F3 {
    match rng.below(20) {
        0 => (DEC - 1, 0, 0),
        1 => (DEC, 0, 0),
        2 => (0, DEC, 0),
        3 => (0, 0, DEC + 1),
        4 => (DEC / 2, DEC / 2 - 1, 0),          // sum = 1 - 10^-18
        5 => (DEC / 2, DEC / 2, 0),              // sum = 1
        6 => (DEC / 3 + 1, DEC / 3, DEC / 3),    // sum = 1
        7 => (DEC / 3, DEC / 3, DEC / 3),        // sum = 1 - 10^-18
        8 => (u128::MAX, 0, 0),
        9 => (1u128 << 127, 1u128 << 127, 0),
        10 => (0, 0, 0),
        11 => (DEC - 3, 1, 1),
        12 => (DEC - 2, 1, 1),
        13 => (0, DEC - 1, 1),
        14 => (1, 0, DEC - 1),
        _ => { let v = rng.chance(4, 5); fee_triple(rng, v) }
    }
}
/// creations: half of them with ordinary valid fees so that later updates have targets
fn gen_fees_c(rng: &mut Rng) -> F3 { if rng.chance(1, 2) { fee_triple(rng, true) } else { gen_fees(rng) } }
fn distinct(rng: &mut Rng, k: usize) -> Vec<usize> {
    let mut v: Vec<usize> = vec![];
    while v.len() < k { let x = rng.below(8) as usize; if !v.contains(&x) || rng.chance(1, 12) { v.push(x); } }
    v
}
fn gen_amp(rng: &mut Rng) -> u64 {
    *rng.pick(&[0u64, 1, 2, 9, 10, 11, 100, 999_999, 1_000_000, 1_000_001, 10_000_000, u64::MAX, 5, 50, 1000])
}
/// caller class for an update of a child whose owner kind is `k` (0 admin, 1 factory): mostly the authorised path
fn gen_who_child(rng: &mut Rng, k: u8) -> u8 { match rng.below(10) { 0..=5 => k, 6 => 1 - k, 7 => 2, 8 => 3, _ => rng.below(4) as u8 } }
fn gen_who(rng: &mut Rng) -> u8 { if rng.chance(1, 7) { 2 } else { 0 } }

pub fn gen_history(rng: &mut Rng) -> Vec<Op> {
    let len = 8 + rng.below(9) as usize;
    let mut h: Vec<Op> = vec![];
    // shadow counts (upper bounds: a creation may be rejected; indices are only drawn among contracts that exist for sure)
    let (mut np, mut nt, mut nv, mut nd, mut nl, mut nc) = (0usize, 0usize, 0usize, 0usize, 0usize, 0usize);
    let mut w = world18();
    let mut grace_seen: Vec<u64> = vec![];
    let (mut pk, mut tk, mut vk): (Vec<u8>, Vec<u8>, Vec<u8>) = (vec![], vec![], vec![]);
    while h.len() < len {
        let k = rng.below(100);
        let op = match k {
            0..=4 => Op::Advance(*rng.pick(&[0u64, 1, 9_999, 10_000, 10_001, 25_000, 100_000])),
            5..=9 => Op::PairInst(gen_fees_c(rng)),
            10..=15 => { let v = distinct(rng, 2); Op::PairCreate { who: if rng.chance(1, 8) { 3 } else { 1 }, a: v[0], b: v[1], f: gen_fees_c(rng) } }
            16..=27 if np > 0 => { let i = rng.below(np as u64) as usize; Op::PairUpd { who: gen_who_child(rng, pk[i]), i, f: if rng.chance(1, 8) { None } else { Some(gen_fees_c(rng)) } } }
            28..=31 => Op::TrioInst(if rng.chance(2, 3) { fee_triple(rng, true) } else { gen_fees(rng) }, gen_amp(rng)),
            32..=36 => { let v = distinct(rng, 3); let (a, b, c) = (v[0], v[1], v[2]);
                         Op::TrioCreate { who: if rng.chance(1, 8) { 3 } else { 1 }, a, b, c, f: if rng.chance(2, 3) { fee_triple(rng, true) } else { gen_fees(rng) }, amp: gen_amp(rng) } }
            37..=50 if nt > 0 => {
                let i = rng.below(nt as u64) as usize;
                let d = w.dump();
                let hgt = d.height;
                let (ia, fa, ib, fb) = { let a = d.trios[i].1; (a[0], a[1], a[2], a[3]) };
                // current amp as the code computes it (used only to aim at the thresholds)
                let cur = if hgt < fb && fb > ib { if fa >= ia { ia + ((fa - ia) as u128 * (hgt - ib) as u128 / (fb - ib) as u128) as u64 } else { ia - ((ia - fa) as u128 * (hgt - ib) as u128 / (fb - ib) as u128) as u64 } } else { fa };
                let ramp = match rng.below(12) {
                    0 => None,
                    1 => Some((cur.saturating_mul(10), hgt + 10_000)),          // exactly x10: accepted
                    2 => Some((cur.saturating_mul(10) + 1, hgt + 10_000)),      // just over x10
                    3 => Some((cur, hgt + 10_000)),                             // unchanged value
                    4 => Some((cur.saturating_mul(10), hgt + 9_999)),           // ramp time just under the minimum
                    5 => Some(((cur / 10).max(1), hgt + 10_000)),                // about /10: accepted iff future_a * 10 >= current
                    6 => Some((0, hgt + 20_000)),
                    7 => Some((1_000_001, hgt + 20_000)),
                    8 => Some((1_000_000.min(cur.saturating_mul(10)), hgt + 50_000)),
                    9 => Some((cur + 1, u64::MAX)),
                    10 => Some((cur.saturating_mul(2).max(1), hgt + 10_000 + rng.below(5))),
                    _ => Some((if rng.chance(1, 2) { gen_amp(rng) } else { (cur / 10).saturating_sub(rng.below(2)) + rng.below(2) }, hgt + 10_000)),
                };
                Op::TrioUpd { who: gen_who_child(rng, tk[i]), i, f: if rng.chance(1, 3) { Some(gen_fees(rng)) } else { None }, ramp }
            }
            51..=54 => Op::VaultInst { asset: if rng.chance(1, 3) { 8 + rng.below(4) as usize } else { rng.below(8) as usize }, f: gen_fees_c(rng), tf: rng.chance(1, 8) },
            55..=62 => Op::VaultCreate { who: if rng.chance(1, 8) { 3 } else { 1 }, asset: if rng.chance(1, 3) { 8 + rng.below(4) as usize } else { rng.below(8) as usize },
                                         f: if rng.chance(1, 2) { fee_triple(rng, true) } else { gen_fees(rng) }, tf: rng.chance(1, 8) },
            63..=72 if nv > 0 => { let i = rng.below(nv as u64) as usize; Op::VaultUpd { who: gen_who_child(rng, vk[i]), i, f: if rng.chance(1, 8) { None } else { Some(gen_fees_c(rng)) } } }
            73..=76 => Op::DistInst(*rng.pick(&[0u64, 1, 2, 15, 29, 30, 31, u64::MAX, (1u64 << 32) + 1, (1u64 << 32) + 30, (1u64 << 32)]), *rng.pick(&[DAY_NS - 1, DAY_NS, DAY_NS + 1, 0, 7 * DAY_NS, u64::MAX])),
            77..=84 if nd > 0 => {
                let i = rng.below(nd as u64) as usize;
                let g0 = grace_seen.get(i).copied().unwrap_or(1);
                let grace = match rng.below(8) { 0 => None, 1 => Some(g0.saturating_sub(1)), 2 => Some(g0), 3 => Some(g0 + 1), 4 => Some(30), 5 => Some(31), 6 => Some(if rng.chance(1, 2) { 0 } else { (1u64 << 32) + 1 + rng.below(30) }), _ => Some(1 + rng.below(31)) };
                // durations include multiples of a day, so that a lower grace period can come together with a longer epoch
                let dur = match rng.below(8) { 0 => Some(DAY_NS - 1), 1 => Some(DAY_NS), 2 => Some(DAY_NS + 1), 3 => Some(0), 4 => Some(2 * DAY_NS), 5 => Some(7 * DAY_NS), _ => None };
                Op::DistUpd { who: gen_who(rng), i, grace, dur }
            }
            85..=88 => { let n = rng.below(5) as usize; let mut kinds = vec![false; n]; if n > 0 && rng.chance(1, 4) { let j = rng.below(n as u64) as usize; kinds[j] = true; }
                         Op::LairInst(*rng.pick(&[0u128, 1, DEC - 1, DEC, DEC + 1, 2 * DEC, u128::MAX]), kinds, rng.chance(1, 3)) }
            89..=92 if nl > 0 => Op::LairUpd { who: gen_who(rng), i: rng.below(nl as u64) as usize, growth: if rng.chance(1, 8) { None } else { Some(*rng.pick(&[0u128, DEC / 2, DEC - 1, DEC, DEC + 1, u128::MAX])) } },
            93..=94 => Op::CollInst,
            95..=99 if nc > 0 => Op::CollUpd { who: gen_who(rng), i: rng.below(nc as u64) as usize, rate: if rng.chance(1, 8) { None } else { Some(*rng.pick(&[0u128, DEC / 10, DEC - 1, DEC, DEC + 1, u128::MAX])) } },
            _ => continue,
        };
        // keep the shadow world in step so that indices and thresholds refer to contracts that exist
        let ok = w.exec(&op);
        if ok {
            match &op { Op::PairInst(_) => { np += 1; pk.push(0) } Op::PairCreate { .. } => { np += 1; pk.push(1) }
                        Op::TrioInst(..) => { nt += 1; tk.push(0) } Op::TrioCreate { .. } => { nt += 1; tk.push(1) }
                        Op::VaultInst { .. } => { nv += 1; vk.push(0) } Op::VaultCreate { .. } => { nv += 1; vk.push(1) } Op::DistInst(..) => nd += 1, Op::LairInst(..) => nl += 1, Op::CollInst => nc += 1, _ => {} }
        }
        grace_seen = w.dump().dists.iter().map(|d| d.0).collect();
        h.push(op);
    }
    h
}

fn corpus() -> Vec<Vec<Op>> {
    let ok = (DEC / 1000, 2 * DEC / 1000, 0);
    vec![
        // partial updates cannot combine into an invalid whole: each update replaces the whole triple
        vec![Op::PairCreate { who: 1, a: 0, b: 1, f: (DEC / 2, DEC / 2 - 1, 0) }, Op::PairUpd { who: 1, i: 0, f: Some((DEC / 2, DEC / 2, 0)) },
             Op::PairUpd { who: 0, i: 0, f: Some(ok) }, Op::PairUpd { who: 1, i: 0, f: Some(ok) }, Op::PairCreate { who: 1, a: 1, b: 0, f: ok }],
        // amp range at instantiate and through ramps
        vec![Op::TrioCreate { who: 1, a: 0, b: 1, c: 2, f: ok, amp: 1_000_000 }, Op::TrioCreate { who: 1, a: 2, b: 1, c: 3, f: ok, amp: 1_000_001 },
             Op::TrioInst(ok, 0), Op::TrioInst(ok, 100_000), Op::TrioUpd { who: 0, i: 1, f: None, ramp: Some((1_000_000, 22_345)) },
             Op::TrioUpd { who: 0, i: 1, f: None, ramp: Some((1_000_001, 22_345)) }, Op::Advance(5_000), Op::TrioUpd { who: 0, i: 1, f: Some(ok), ramp: Some((1_000_000, 40_000)) },
             Op::Advance(30_000), Op::TrioUpd { who: 1, i: 0, f: None, ramp: Some((100_000, 60_000)) }],
        // token-factory assets: no such vault can be created, with or without burn fee, through either path
        vec![Op::VaultCreate { who: 1, asset: 8, f: ok, tf: false }, Op::VaultCreate { who: 1, asset: 9, f: ok, tf: true }, Op::VaultCreate { who: 1, asset: 9, f: (1, 1, 1), tf: false },
             Op::VaultInst { asset: 10, f: ok, tf: false }, Op::VaultInst { asset: 11, f: ok, tf: false }, Op::VaultCreate { who: 1, asset: 0, f: (DEC - 1, DEC - 1, 0), tf: false },
             Op::VaultCreate { who: 1, asset: 0, f: (1, 1, DEC - 3), tf: false }, Op::VaultUpd { who: 1, i: 0, f: Some((1, 1, DEC - 2)) }, Op::VaultUpd { who: 0, i: 0, f: Some(ok) }],
        // grace period: bounds, monotone
        vec![Op::DistInst(0, DAY_NS), Op::DistInst(31, DAY_NS), Op::DistInst(1, DAY_NS - 1), Op::DistInst(1, DAY_NS), Op::DistUpd { who: 0, i: 0, grace: Some(30), dur: None },
             Op::DistUpd { who: 0, i: 0, grace: Some(29), dur: None }, Op::DistUpd { who: 0, i: 0, grace: Some(31), dur: None }, Op::DistUpd { who: 0, i: 0, grace: None, dur: Some(DAY_NS - 1) },
             Op::DistUpd { who: 2, i: 0, grace: Some(30), dur: Some(DAY_NS) }],
        // lair and collector
        vec![Op::LairInst(DEC, vec![false, false], false), Op::LairInst(DEC + 1, vec![false], false), Op::LairInst(0, vec![false, false, false], false), Op::LairInst(0, vec![true], false),
             Op::LairInst(DEC, vec![false, false, false], true), Op::LairInst(0, vec![false, false, false, false], true), Op::LairInst(DEC / 2, vec![false, false], true),
             Op::LairUpd { who: 0, i: 0, growth: Some(DEC + 1) }, Op::LairUpd { who: 0, i: 0, growth: Some(DEC) }, Op::CollInst, Op::CollUpd { who: 0, i: 0, rate: Some(DEC) },
             Op::CollUpd { who: 0, i: 0, rate: Some(DEC - 1) }, Op::CollUpd { who: 2, i: 0, rate: Some(0) }],
    ]
}

pub fn run(args: &Args) {
    let mut out = Out::new(&args.out);
    out.rule = "one case = one history of 8..16 configuration writes (instantiate / direct update / factory-mediated update / factory create, by the admin or a stranger) \
                over pairs, trios, vaults, distributors, lairs and collectors, values drawn on / just inside / just outside every bound; \
                non-trivial = at least 4 different operation kinds and at least 2 accepted writes; distinct = by hash of the history".into();
    if let Some(path) = &args.replay {
        let j = read_replay(path);
        if j["failing_input"]["kind"] == "factory_asset_vault_instantiate" {
            factory_asset_vault_probe(&mut out);
            for f in &out.monitor_failures { println!("MONITOR-FAIL {}", f["what"]); }
            let failed = !out.monitor_failures.is_empty();
            out.finish();
            std::process::exit(if failed { 1 } else { 0 });
        }
        let ops: Vec<Op> = serde_json::from_value(j["failing_input"]["ops"].clone()).expect("failing_input.ops");
        let obs = run_history(&mut out, &ops, false);
        println!("replayed {} ops; observation: {}", ops.len(), obs.join(" "));
        for f in &out.monitor_failures { println!("MONITOR-FAIL {}", f["what"]); }
        let failed = !out.monitor_failures.is_empty();
        out.finish();
        std::process::exit(if failed { 1 } else { 0 });
    }
    factory_asset_vault_probe(&mut out);
    let mut rng = Rng::new(args.seed);
    let mut hs = corpus();
    for _ in 0..args.n { hs.push(gen_history(&mut rng)); }
    for h in &hs { run_history(&mut out, h, true); }
    out.finish();
}

/// In this build a vault over a token-factory denom cannot be brought up on the test chain at all (its cw20 share token's ticker is
/// refused, and token-factory share tokens are compiled out), so the rule "a vault over a token-factory asset has no burn fee" is
/// exercised on the vault's `instantiate` entry point directly (mock dependencies; the share-token sub-message is only returned):
/// with a burn fee it must be refused, without one accepted.
fn factory_asset_vault_probe(out: &mut Out) {
    use cosmwasm_std::testing::{mock_dependencies, mock_env, mock_info};
    use white_whale_std::vault_network::vault::InstantiateMsg;
    for denom in VAULT_ASSETS.iter().filter(|d| is_factory_token(d)) {
        for burn in [0u128, 1, DEC / 1000, DEC / 2] {
            for tf in [false, true] {
                let mut deps = mock_dependencies();
                let msg = InstantiateMsg { owner: "owner".into(), asset_info: native(denom), token_id: 5, vault_fees: vault_fee(DEC / 1000, DEC / 1000, burn),
                    fee_collector_addr: "collector".into(), token_factory_lp: tf };
                let r = run_catch(|| vault::contract::instantiate(deps.as_mut(), mock_env(), mock_info("factory", &[]), msg).map(|_| ()), |_e| E_OTHER);
                let accepted = matches!(r, Outcome::Ok(()));
                out.monitor_evals += 1;
                out.count(&format!("factory_asset_vault:burn_{}:{}", if burn == 0 { "zero" } else { "positive" }, if accepted { "accepted" } else { "refused" }));
                let replay = json!({"kind": "factory_asset_vault_instantiate", "asset_denom": denom, "burn_share_atomics": burn.to_string(), "token_factory_lp": tf});
                if burn > 0 && accepted { out.monitor_fail("C18", &format!("a vault over the token-factory asset {} was instantiated with a burn fee", denom), replay); }
            }
        }
    }
}
