//! C04 — three-asset stableswap pool: amp ramp (pure interpolation + UpdateConfig histories on the real trio),
//! curve functions through the hook, pool histories on the real trio.
use crate::common::*;
use crate::w_stable::*;
use crate::world::*;
use serde_json::json;
use stableswap_3pool::verif_hooks as trioh;

pub const E_NONE: i64 = 9;
pub const MIN_AMP: u64 = 1;
pub const MAX_AMP: u64 = 1_000_000;
pub const MAX_AMP_CHANGE: u64 = 10;
pub const MIN_RAMP_BLOCKS: u64 = 10_000;

// ---------------------------------------------------------------------------------------------
// amp: pure interpolation
// ---------------------------------------------------------------------------------------------
pub fn impl_amp(a0: u64, a1: u64, now: u64, h0: u64, h1: u64) -> Outcome<u64> {
    run_catch(|| trioh::StableSwap::new(a0, a1, now, h0, h1).compute_amp_factor().ok_or(()), |_| E_NONE)
}

/// independent evaluation of the property's statement about the effective amp (u128 arithmetic cannot overflow: 64x64 bits)
fn amp_expected(a0: u64, a1: u64, now: u64, h0: u64, h1: u64) -> u64 {
    if now >= h1 { return a1; }
    let t = (h1 - h0) as u128;
    let d = (now - h0) as u128;
    if a1 >= a0 { a0 + (((a1 - a0) as u128 * d) / t) as u64 } else { a0 - (((a0 - a1) as u128 * d) / t) as u64 }
}

fn u64_value(rng: &mut Rng) -> u64 {
    match rng.below(10) {
        0 => 0,
        1 => 1,
        2 => rng.below(1000),
        3 => 1_000_000 - rng.below(3),
        4 => rng.below(1_000_001),
        5 => (1u64 << 32) + rng.below(5),
        6 => (1u64 << 63) + rng.below(5),
        7 => u64::MAX - rng.below(3),
        8 => rng.next(),
        _ => 12_345 + rng.below(100_000),
    }
}

fn amp_pure(out: &mut Out, rng: &mut Rng, n: u64) {
    let mut cases: Vec<(u64, u64, u64, u64, u64)> = vec![
        (100, 9, 12_400, 12_345, 30_000), (100, 1000, 20_000, 12_345, 30_000), (1, 1_000_000, 12_346, 12_345, 22_345),
        (5, 5, 0, 0, 0), (7, 9, 3, 5, 10), (7, 9, 3, 5, 2), (u64::MAX, 0, u64::MAX - 1, 0, u64::MAX), (0, u64::MAX, u64::MAX - 1, 0, u64::MAX),
    ];
    for _ in 0..n {
        let c = match rng.below(4) {
            // inside a ramp of realistic values
            0 | 1 => {
                let h0 = 12_345 + rng.below(1_000_000);
                let len = 1 + match rng.below(3) { 0 => rng.below(20), 1 => 10_000 + rng.below(10), _ => rng.below(10_000_000) };
                let now = match rng.below(6) { 0 => h0, 1 => h0 + len - 1, 2 => h0 + len, 3 => h0 + len + rng.below(1000), _ => h0 + rng.below(len) };
                (1 + rng.below(1_000_000), 1 + rng.below(1_000_000), now, h0, h0 + len)
            }
            // arbitrary u64 fields, ordered or not
            2 => (u64_value(rng), u64_value(rng), u64_value(rng), u64_value(rng), u64_value(rng)),
            _ => {
                let mut h = [u64_value(rng), u64_value(rng), u64_value(rng)];
                h.sort();
                (u64_value(rng), u64_value(rng), h[1], h[0], h[2])
            }
        };
        cases.push(c);
    }
    for (a0, a1, now, h0, h1) in cases {
        let replay = json!({"kind": "pure_compute_amp_factor", "initial_amp": a0, "target_amp": a1, "height": now, "start": h0, "stop": h1});
        let r = impl_amp(a0, a1, now, h0, h1);
        // monitor: for a ramp that has started the value is the linear interpolation, between both ends; never a panic
        out.monitor_evals += 1;
        match &r {
            Outcome::Panic(m) => out.monitor_fail("C04", &format!("compute_amp_factor aborted ({m})"), replay.clone()),
            Outcome::Ok(a) => {
                if *a < a0.min(a1) || *a > a0.max(a1) { out.monitor_fail("C04", "effective amp outside [min(start,target), max(start,target)]", replay.clone()); }
                if now >= h0 && *a != amp_expected(a0, a1, now, h0, h1) { out.monitor_fail("C04", "effective amp is not the linear interpolation in block height", replay.clone()); }
                out.count("amp:ok");
                if now < h1 && now > h0 && a0 != a1 { out.nontrivial_key(hash64(&[a0 as u128, a1 as u128, now as u128, h0 as u128, h1 as u128])); out.count("amp:inside_ramp"); }
            }
            Outcome::Err(_) => {
                if now >= h0 { out.monitor_fail("C04", "compute_amp_factor returned None although the ramp has started", replay.clone()); }
                out.count("amp:none");
            }
        }
        out.sample(replay.clone());
        out.case("c04_amp", &format!("({}, {}, {}, {}, {})", a0, a1, now, h0, h1), &obs(&r, |a| vec![a.to_string()]), replay);
    }
}

// ---------------------------------------------------------------------------------------------
// amp: UpdateConfig{amp_factor} histories on the deployed trio
// ---------------------------------------------------------------------------------------------
#[derive(Clone, Debug)]
pub struct RampOp { pub dh: u64, pub owner: bool, pub fa: u64, pub fb: u64 }

fn cfg_obs(w: &TrioWorld) -> Vec<String> {
    let c = w.config();
    vec![c.initial_amp.to_string(), c.future_amp.to_string(), c.initial_amp_block.to_string(), c.future_amp_block.to_string()]
}

/// runs one ramp history on the real contract; returns (coq input, observation) and evaluates the monitors
pub fn run_ramp_history(out: &mut Out, amp: u64, next_op: &mut dyn FnMut(usize, u64, &white_whale_std::pool_network::trio::Config) -> Option<RampOp>,
                        replay: &mut serde_json::Value) -> Option<(String, Vec<String>)> {
    let mut obsv: Vec<String> = vec![];
    let mut w = match deploy_trio([false, false, false], [6, 6, 6], trio_fee(0, 0, 0), amp) {
        Ok(w) => w,
        Err(e) => {
            out.count("ramp:instantiate_rejected");
            out.monitor_evals += 1;
            if (MIN_AMP..=MAX_AMP).contains(&amp) { out.monitor_fail("C04", "instantiate rejected an amp inside [MIN_AMP, MAX_AMP]", replay.clone()); }
            let input = format!("(({}, {}), [])", amp, 12_345);
            return Some((input, match fail_class(&e) { Some(c) => vec!["1".into(), c.to_string()], None => vec!["2".into()] }));
        }
    };
    out.monitor_evals += 1;
    if !(MIN_AMP..=MAX_AMP).contains(&amp) { out.monitor_fail("C04", "instantiate accepted an amp outside [MIN_AMP, MAX_AMP]", replay.clone()); }
    let h_init = w.height();
    obsv.push("0".into());
    let mut items = vec![];
    let mut k = 0usize;
    loop {
        let op = match next_op(k, w.height(), &w.config()) { Some(o) => o, None => break };
        k += 1;
        replay["ops"].as_array_mut().unwrap().push(json!({"advance_blocks": op.dh, "by_owner": op.owner, "future_a": op.fa, "future_block": op.fb}));
        w.advance(op.dh);
        let h = w.height();
        let before = w.config();
        // the effective amp now, computed independently (the config invariant start <= height holds on the real chain)
        let cur = amp_expected(before.initial_amp, before.future_amp, h, before.initial_amp_block, before.future_amp_block);
        let r = w.ramp(if op.owner { OWNER } else { "alice" }, op.fa, op.fb);
        let after = w.config();
        out.monitor_evals += 1;
        let in_range = op.fa >= MIN_AMP && op.fa <= MAX_AMP;
        let in_factor = (op.fa as u128) <= (cur as u128) * MAX_AMP_CHANGE as u128 && (cur as u128) <= (op.fa as u128) * MAX_AMP_CHANGE as u128;
        let long_enough = (op.fb as u128) >= h as u128 + MIN_RAMP_BLOCKS as u128;
        match &r {
            Ok(_) => {
                out.count("ramp:accepted");
                if !op.owner { out.monitor_fail("C04", "a ramp request by a non-owner was accepted", replay.clone()); }
                if !in_range { out.monitor_fail("C04", "accepted ramp target outside [MIN_AMP, MAX_AMP]", replay.clone()); }
                if !in_factor { out.monitor_fail("C04", &format!("accepted ramp target {} is more than a factor {} from the current amp {}", op.fa, MAX_AMP_CHANGE, cur), replay.clone()); }
                if !long_enough { out.monitor_fail("C04", "accepted ramp shorter than MIN_RAMP_BLOCKS", replay.clone()); }
                if after.initial_amp != cur || after.future_amp != op.fa || after.initial_amp_block != h || after.future_amp_block != op.fb {
                    out.monitor_fail("C04", "accepted ramp did not start from the current effective amp at the current height", replay.clone());
                }
                out.nontrivial_key(hash64(&[cur as u128, op.fa as u128, h as u128, op.fb as u128]));
            }
            Err(e) => {
                out.count(if fail_class(e).is_none() { "ramp:panic" } else if op.owner { "ramp:rejected" } else { "ramp:unauthorized" });
                if fail_class(e).is_none() { out.monitor_fail("C04", &format!("UpdateConfig aborted: {e}"), replay.clone()); }
                if op.owner && in_range && in_factor && long_enough && h.checked_add(MIN_RAMP_BLOCKS).is_some() {
                    out.monitor_fail("C04", &format!("ramp request inside all bounds rejected (current amp {}, target {})", cur, op.fa), replay.clone());
                }
                if after != before { out.monitor_fail("C04", "rejected UpdateConfig changed the configuration", replay.clone()); }
            }
        }
        // effective amp at a few later heights stays inside the range and between the ends (through the hook, on the stored config)
        for dh in [0u64, 1, 5_000, 10_000, 1_000_000] {
            let hh = h.saturating_add(dh);
            out.monitor_evals += 1;
            match impl_amp(after.initial_amp, after.future_amp, hh, after.initial_amp_block, after.future_amp_block) {
                Outcome::Ok(a) => {
                    if a < MIN_AMP || a > MAX_AMP { out.monitor_fail("C04", "effective amp left [MIN_AMP, MAX_AMP]", replay.clone()); }
                    if a < after.initial_amp.min(after.future_amp) || a > after.initial_amp.max(after.future_amp) { out.monitor_fail("C04", "effective amp not between ramp start and target", replay.clone()); }
                }
                _ => out.monitor_fail("C04", "effective amp undefined on a reachable configuration", replay.clone()),
            }
        }
        match &r {
            Ok(_) => obsv.push("0".into()),
            Err(e) => match fail_class(e) { Some(c) => { obsv.push("1".into()); obsv.push(c.to_string()); } None => obsv.push("2".into()) },
        }
        obsv.extend(cfg_obs(&w));
        items.push(format!("({}, {}, {}, {})", op.dh, coqbool(op.owner), op.fa, op.fb));
    }
    Some((format!("(({}, {}), {})", amp, h_init, coqlist(&items)), obsv))
}

/// next request given the real configuration: targets sit on and around the acceptance boundaries of the CURRENT effective amp
fn gen_ramp_op(rng: &mut Rng, h: u64, c: &white_whale_std::pool_network::trio::Config) -> RampOp {
    let dh = match rng.below(6) { 0 => 0, 1 => 1, 2 => 9_999 + rng.below(3), 3 => rng.below(50_000), 4 => rng.below(2_000_000), _ => rng.below(100) };
    let h = h + dh;
    let cur = amp_expected(c.initial_amp, c.future_amp, h, c.initial_amp_block, c.future_amp_block);
    let fa = match rng.below(16) {
        0 => cur.saturating_mul(10), 1 => cur.saturating_mul(10) + 1, 2 => cur / 10, 3 => (cur / 10).saturating_sub(1),
        4 => cur / 10 + 1, 5 => cur, 6 => 0, 7 => 1_000_001, 8 => 1_000_000, 9 => 1,
        10 => cur / 2, 11 => cur.saturating_mul(2), 12 => (cur + 9) / 10, 13 => cur / 11, 14 => cur.saturating_mul(3).min(1_000_000), _ => 1 + rng.below(1_000_000),
    };
    let fb = match rng.below(10) { 0 => h + 9_999, 1 => h + 10_000, 2 => h + 10_001, 3 => h, 4 => 0, 5 => u64::MAX, _ => h + 10_000 + rng.below(100_000) };
    RampOp { dh, owner: !rng.chance(1, 8), fa, fb }
}

fn ramp_histories(out: &mut Out, rng: &mut Rng, n: u64) {
    // corpus: the witness of the (repaired) inverted decrease test, DESIGN section 5 #3
    let corpus: Vec<(u64, Vec<RampOp>)> = vec![
        (100, vec![RampOp { dh: 55, owner: true, fa: 9, fb: 30_000 }]),
        (100, vec![RampOp { dh: 55, owner: true, fa: 50, fb: 30_000 }, RampOp { dh: 5_000, owner: true, fa: 11, fb: 60_000 }]),
        (100, vec![RampOp { dh: 55, owner: true, fa: 1, fb: 30_000 }, RampOp { dh: 20_000, owner: true, fa: 5, fb: 90_000 }]),
        (100, vec![RampOp { dh: 0, owner: true, fa: 10, fb: 22_345 }, RampOp { dh: 10_000, owner: true, fa: 100, fb: 40_000 }, RampOp { dh: 1, owner: false, fa: 100, fb: 90_000 }]),
    ];
    for (amp, ops) in corpus {
        let mut replay = json!({"kind": "ramp_history", "amp": amp, "ops": []});
        let r = run_ramp_history(out, amp, &mut |k, _h, _c| ops.get(k).cloned(), &mut replay);
        if let Some((input, obsv)) = r { out.case("c04_ramp", &input, &obsv, replay); }
    }
    for _ in 0..n {
        let amp = match rng.below(12) { 0 => 0, 1 => 1, 2 => 1_000_000, 3 => 1_000_001, 4 => 100, _ => 1 + rng.below(1_000_000) };
        let len = 1 + rng.below(8) as usize;
        let mut replay = json!({"kind": "ramp_history", "amp": amp, "ops": []});
        let r = run_ramp_history(out, amp, &mut |k, h, c| if k < len { Some(gen_ramp_op(rng, h, c)) } else { None }, &mut replay);
        if let Some((input, obsv)) = r { out.sample(replay.clone()); out.case("c04_ramp", &input, &obsv, replay); }
    }
}

pub fn run(args: &Args) {
    let mut out = Out::new(&args.out);
    out.rule = "amp: non-trivial = height strictly inside a started ramp with start != target; ramp histories: non-trivial = an accepted ramp, \
                distinct by (current amp, target, height, stop height)".into();
    let mut rng = Rng::new(args.seed);
    amp_pure(&mut out, &mut rng, args.n);
    ramp_histories(&mut out, &mut rng, (args.n / 8).max(30));
    out.finish();
}
