//! C04 — three-asset stableswap pool: amp ramp (pure interpolation + UpdateConfig histories on the real trio),
//! curve functions through the hook, pool histories on the real trio.
use crate::common::*;
use crate::w_stable::*;
use crate::world::*;
use serde_json::json;
use stableswap_3pool::verif_hooks as trioh;

pub const E_NONE: i64 = 9;
pub const MIN_AMP: u64 = 1;
pub const MAX_AMP: u64 = 1_000_000;
pub const MAX_AMP_CHANGE: u64 = 10;
pub const MIN_RAMP_BLOCKS: u64 = 10_000;

// ---------------------------------------------------------------------------------------------
// amp: pure interpolation
// ---------------------------------------------------------------------------------------------
pub fn impl_amp(a0: u64, a1: u64, now: u64, h0: u64, h1: u64) -> Outcome<u64> {
    run_catch(|| trioh::StableSwap::new(a0, a1, now, h0, h1).compute_amp_factor().ok_or(()), |_| E_NONE)
}

/// independent evaluation of the property's statement about the effective amp (u128 arithmetic cannot overflow: 64x64 bits)
pub fn amp_expected(a0: u64, a1: u64, now: u64, h0: u64, h1: u64) -> u64 {
    if now >= h1 { return a1; }
    let t = (h1 - h0) as u128;
    let d = (now - h0) as u128;
    if a1 >= a0 { a0 + (((a1 - a0) as u128 * d) / t) as u64 } else { a0 - (((a0 - a1) as u128 * d) / t) as u64 }
}

fn u64_value(rng: &mut Rng) -> u64 {
    match rng.below(10) {
        0 => 0,
        1 => 1,
        2 => rng.below(1000),
        3 => 1_000_000 - rng.below(3),
        4 => rng.below(1_000_001),
        5 => (1u64 << 32) + rng.below(5),
        6 => (1u64 << 63) + rng.below(5),
        7 => u64::MAX - rng.below(3),
        8 => rng.next(),
        _ => 12_345 + rng.below(100_000),
    }
}

fn monitor_amp(out: &mut Out, a0: u64, a1: u64, now: u64, h0: u64, h1: u64, r: &Outcome<u64>, replay: &serde_json::Value) {
    // for a ramp that has started the value is the linear interpolation, between both ends; never a panic
    out.monitor_evals += 1;
    match r {
        Outcome::Panic(m) => out.monitor_fail("C04", &format!("compute_amp_factor aborted ({m})"), replay.clone()),
        Outcome::Ok(a) => {
            if *a < a0.min(a1) || *a > a0.max(a1) { out.monitor_fail("C04", "effective amp outside [min(start,target), max(start,target)]", replay.clone()); }
            if now >= h0 && *a != amp_expected(a0, a1, now, h0, h1) { out.monitor_fail("C04", "effective amp is not the linear interpolation in block height", replay.clone()); }
            out.count("amp:ok");
            if now < h1 && now > h0 && a0 != a1 { out.nontrivial_key(hash64(&[a0 as u128, a1 as u128, now as u128, h0 as u128, h1 as u128])); out.count("amp:inside_ramp"); }
        }
        Outcome::Err(_) => {
            if now >= h0 { out.monitor_fail("C04", "compute_amp_factor returned None although the ramp has started", replay.clone()); }
            out.count("amp:none");
        }
    }
}

fn amp_pure(out: &mut Out, rng: &mut Rng, n: u64) {
    let mut cases: Vec<(u64, u64, u64, u64, u64)> = vec![
        (100, 9, 12_400, 12_345, 30_000), (100, 1000, 20_000, 12_345, 30_000), (1, 1_000_000, 12_346, 12_345, 22_345),
        (5, 5, 0, 0, 0), (7, 9, 3, 5, 10), (7, 9, 3, 5, 2), (u64::MAX, 0, u64::MAX - 1, 0, u64::MAX), (0, u64::MAX, u64::MAX - 1, 0, u64::MAX),
    ];
    for _ in 0..n {
        let c = match rng.below(4) {
            // inside a ramp of realistic values
            0 | 1 => {
                let h0 = 12_345 + rng.below(1_000_000);
                let len = 1 + match rng.below(3) { 0 => rng.below(20), 1 => 10_000 + rng.below(10), _ => rng.below(10_000_000) };
                let now = match rng.below(6) { 0 => h0, 1 => h0 + len - 1, 2 => h0 + len, 3 => h0 + len + rng.below(1000), _ => h0 + rng.below(len) };
                (1 + rng.below(1_000_000), 1 + rng.below(1_000_000), now, h0, h0 + len)
            }
            // arbitrary u64 fields, ordered or not
            2 => (u64_value(rng), u64_value(rng), u64_value(rng), u64_value(rng), u64_value(rng)),
            _ => {
                let mut h = [u64_value(rng), u64_value(rng), u64_value(rng)];
                h.sort();
                (u64_value(rng), u64_value(rng), h[1], h[0], h[2])
            }
        };
        cases.push(c);
    }
    for (a0, a1, now, h0, h1) in cases {
        let replay = json!({"kind": "pure_compute_amp_factor", "initial_amp": a0, "target_amp": a1, "height": now, "start": h0, "stop": h1});
        let r = impl_amp(a0, a1, now, h0, h1);
        monitor_amp(out, a0, a1, now, h0, h1, &r, &replay);
        out.sample(replay.clone());
        out.case("c04_amp", &format!("({}, {}, {}, {}, {})", a0, a1, now, h0, h1), &obs(&r, |a| vec![a.to_string()]), replay);
    }
}

// ---------------------------------------------------------------------------------------------
// amp: UpdateConfig{amp_factor} histories on the deployed trio
// ---------------------------------------------------------------------------------------------
#[derive(Clone, Debug)]
pub struct RampOp { pub dh: u64, pub owner: bool, pub fa: u64, pub fb: u64 }

fn cfg_obs(w: &TrioWorld) -> Vec<String> {
    let c = w.config();
    vec![c.initial_amp.to_string(), c.future_amp.to_string(), c.initial_amp_block.to_string(), c.future_amp_block.to_string()]
}

/// runs one ramp history on the real contract; returns (coq input, observation) and evaluates the monitors
pub fn run_ramp_history(out: &mut Out, amp: u64, next_op: &mut dyn FnMut(usize, u64, &white_whale_std::pool_network::trio::Config) -> Option<RampOp>,
                        replay: &mut serde_json::Value) -> Option<(String, Vec<String>)> {
    let mut obsv: Vec<String> = vec![];
    let mut w = match deploy_trio([false, false, false], [6, 6, 6], trio_fee(0, 0, 0), amp) {
        Ok(w) => w,
        Err(e) => {
            out.count("ramp:instantiate_rejected");
            out.monitor_evals += 1;
            if (MIN_AMP..=MAX_AMP).contains(&amp) { out.monitor_fail("C04", "instantiate rejected an amp inside [MIN_AMP, MAX_AMP]", replay.clone()); }
            let input = format!("(({}, {}), [])", amp, 12_345);
            return Some((input, match fail_class(&e) { Some(c) => vec!["1".into(), c.to_string()], None => vec!["2".into()] }));
        }
    };
    out.monitor_evals += 1;
    if !(MIN_AMP..=MAX_AMP).contains(&amp) { out.monitor_fail("C04", "instantiate accepted an amp outside [MIN_AMP, MAX_AMP]", replay.clone()); }
    let h_init = w.height();
    obsv.push("0".into());
    let mut items = vec![];
    let mut k = 0usize;
    loop {
        let op = match next_op(k, w.height(), &w.config()) { Some(o) => o, None => break };
        k += 1;
        replay["ops"].as_array_mut().unwrap().push(json!({"advance_blocks": op.dh, "by_owner": op.owner, "future_a": op.fa, "future_block": op.fb}));
        w.advance(op.dh);
        let h = w.height();
        let before = w.config();
        // the effective amp now, computed independently (the config invariant start <= height holds on the real chain)
        let cur = amp_expected(before.initial_amp, before.future_amp, h, before.initial_amp_block, before.future_amp_block);
        let r = w.ramp(if op.owner { OWNER } else { "alice" }, op.fa, op.fb);
        let after = w.config();
        out.monitor_evals += 1;
        let in_range = op.fa >= MIN_AMP && op.fa <= MAX_AMP;
        let in_factor = (op.fa as u128) <= (cur as u128) * MAX_AMP_CHANGE as u128 && (cur as u128) <= (op.fa as u128) * MAX_AMP_CHANGE as u128;
        let long_enough = (op.fb as u128) >= h as u128 + MIN_RAMP_BLOCKS as u128;
        match &r {
            Ok(_) => {
                out.count("ramp:accepted");
                if !op.owner { out.monitor_fail("C04", "a ramp request by a non-owner was accepted", replay.clone()); }
                if !in_range { out.monitor_fail("C04", "accepted ramp target outside [MIN_AMP, MAX_AMP]", replay.clone()); }
                if !in_factor { out.monitor_fail("C04", &format!("accepted ramp target {} is more than a factor {} from the current amp {}", op.fa, MAX_AMP_CHANGE, cur), replay.clone()); }
                if !long_enough { out.monitor_fail("C04", "accepted ramp shorter than MIN_RAMP_BLOCKS", replay.clone()); }
                if after.initial_amp != cur || after.future_amp != op.fa || after.initial_amp_block != h || after.future_amp_block != op.fb {
                    out.monitor_fail("C04", "accepted ramp did not start from the current effective amp at the current height", replay.clone());
                }
                out.nontrivial_key(hash64(&[cur as u128, op.fa as u128, h as u128, op.fb as u128]));
            }
            Err(e) => {
                out.count(if fail_class(e).is_none() { "ramp:panic" } else if op.owner { "ramp:rejected" } else { "ramp:unauthorized" });
                if fail_class(e).is_none() { out.monitor_fail("C04", &format!("UpdateConfig aborted: {e}"), replay.clone()); }
                if op.owner && in_range && in_factor && long_enough && h.checked_add(MIN_RAMP_BLOCKS).is_some() {
                    out.monitor_fail("C04", &format!("ramp request inside all bounds rejected (current amp {}, target {})", cur, op.fa), replay.clone());
                }
                if after != before { out.monitor_fail("C04", "rejected UpdateConfig changed the configuration", replay.clone()); }
            }
        }
        // effective amp at a few later heights stays inside the range and between the ends (through the hook, on the stored config)
        for dh in [0u64, 1, 5_000, 10_000, 1_000_000] {
            let hh = h.saturating_add(dh);
            out.monitor_evals += 1;
            match impl_amp(after.initial_amp, after.future_amp, hh, after.initial_amp_block, after.future_amp_block) {
                Outcome::Ok(a) => {
                    if a < MIN_AMP || a > MAX_AMP { out.monitor_fail("C04", "effective amp left [MIN_AMP, MAX_AMP]", replay.clone()); }
                    if a < after.initial_amp.min(after.future_amp) || a > after.initial_amp.max(after.future_amp) { out.monitor_fail("C04", "effective amp not between ramp start and target", replay.clone()); }
                }
                _ => out.monitor_fail("C04", "effective amp undefined on a reachable configuration", replay.clone()),
            }
        }
        match &r {
            Ok(_) => obsv.push("0".into()),
            Err(e) => match fail_class(e) { Some(c) => { obsv.push("1".into()); obsv.push(c.to_string()); } None => obsv.push("2".into()) },
        }
        obsv.extend(cfg_obs(&w));
        items.push(format!("({}, {}, {}, {})", op.dh, coqbool(op.owner), op.fa, op.fb));
    }
    Some((format!("(({}, {}), {})", amp, h_init, coqlist(&items)), obsv))
}

/// next request given the real configuration: targets sit on and around the acceptance boundaries of the CURRENT effective amp
fn gen_ramp_op(rng: &mut Rng, h: u64, c: &white_whale_std::pool_network::trio::Config) -> RampOp {
    let dh = match rng.below(6) { 0 => 0, 1 => 1, 2 => 9_999 + rng.below(3), 3 => rng.below(50_000), 4 => rng.below(2_000_000), _ => rng.below(100) };
    let h = h + dh;
    let cur = amp_expected(c.initial_amp, c.future_amp, h, c.initial_amp_block, c.future_amp_block);
    let fa = match rng.below(16) {
        0 => cur.saturating_mul(10), 1 => cur.saturating_mul(10) + 1, 2 => cur / 10, 3 => (cur / 10).saturating_sub(1),
        4 => cur / 10 + 1, 5 => cur, 6 => 0, 7 => 1_000_001, 8 => 1_000_000, 9 => 1,
        10 => cur / 2, 11 => cur.saturating_mul(2), 12 => (cur + 9) / 10, 13 => cur / 11, 14 => cur.saturating_mul(3).min(1_000_000), _ => 1 + rng.below(1_000_000),
    };
    let fb = match rng.below(10) { 0 => h + 9_999, 1 => h + 10_000, 2 => h + 10_001, 3 => h, 4 => 0, 5 => u64::MAX, _ => h + 10_000 + rng.below(100_000) };
    RampOp { dh, owner: !rng.chance(1, 8), fa, fb }
}

fn ramp_histories(out: &mut Out, rng: &mut Rng, n: u64) {
    // corpus: the witness of the (repaired) inverted decrease test, DESIGN section 5 #3
    let corpus: Vec<(u64, Vec<RampOp>)> = vec![
        (100, vec![RampOp { dh: 55, owner: true, fa: 9, fb: 30_000 }]),
        (100, vec![RampOp { dh: 55, owner: true, fa: 50, fb: 30_000 }, RampOp { dh: 5_000, owner: true, fa: 11, fb: 60_000 }]),
        (100, vec![RampOp { dh: 55, owner: true, fa: 1, fb: 30_000 }, RampOp { dh: 20_000, owner: true, fa: 5, fb: 90_000 }]),
        (100, vec![RampOp { dh: 0, owner: true, fa: 10, fb: 22_345 }, RampOp { dh: 10_000, owner: true, fa: 100, fb: 40_000 }, RampOp { dh: 1, owner: false, fa: 100, fb: 90_000 }]),
    ];
    for (amp, ops) in corpus {
        let mut replay = json!({"kind": "ramp_history", "amp": amp, "ops": []});
        let r = run_ramp_history(out, amp, &mut |k, _h, _c| ops.get(k).cloned(), &mut replay);
        if let Some((input, obsv)) = r { out.case("c04_ramp", &input, &obsv, replay); }
    }
    for _ in 0..n {
        let amp = match rng.below(12) { 0 => 0, 1 => 1, 2 => 1_000_000, 3 => 1_000_001, 4 => 100, _ => 1 + rng.below(1_000_000) };
        let len = 1 + rng.below(8) as usize;
        let mut replay = json!({"kind": "ramp_history", "amp": amp, "ops": []});
        let r = run_ramp_history(out, amp, &mut |k, h, c| if k < len { Some(gen_ramp_op(rng, h, c)) } else { None }, &mut replay);
        if let Some((input, obsv)) = r { out.sample(replay.clone()); out.case("c04_ramp", &input, &obsv, replay); }
    }
}


// ---------------------------------------------------------------------------------------------
// curve functions through the hook
// ---------------------------------------------------------------------------------------------
use crate::big::{self, b, B};
use crate::c04_pool::{dust_allowance, KNOWN_DUST};
use cosmwasm_std::{Uint128, Uint256};

pub type Ramp5 = (u64, u64, u64, u64, u64);
fn inv(t: Ramp5) -> trioh::StableSwap { trioh::StableSwap::new(t.0, t.1, t.2, t.3, t.4) }
fn ramp_term(t: Ramp5) -> String { format!("({}, {}, {}, {}, {})", t.0, t.1, t.2, t.3, t.4) }
fn ramp_json(t: Ramp5) -> serde_json::Value { json!({"initial_amp": t.0, "target_amp": t.1, "height": t.2, "start": t.3, "stop": t.4}) }
fn u(x: u128) -> Uint128 { Uint128::new(x) }

pub fn impl_d(t: Ramp5, a: u128, b_: u128, c: u128) -> Outcome<Uint256> {
    run_catch(|| inv(t).compute_d(u(a), u(b_), u(c)).ok_or(()), |_| E_NONE)
}
pub struct Res3 { pub ns: u128, pub nd: u128, pub dy: u128 }
pub fn impl_swap_to(t: Ramp5, x: u128, src: u128, dst: u128, uns: u128) -> Outcome<Res3> {
    run_catch(|| inv(t).swap_to(u(x), u(src), u(dst), u(uns))
        .map(|r| Res3 { ns: r.new_source_amount.u128(), nd: r.new_destination_amount.u128(), dy: r.amount_swapped.u128() }).ok_or(()), |_| E_NONE)
}
pub fn impl_rsim(t: Ramp5, ask: u128, src: u128, dst: u128, uns: u128) -> Outcome<u128> {
    run_catch(|| inv(t).reverse_sim(u(ask), u(src), u(dst), u(uns)).map(|r| r.u128()).ok_or(()), |_| E_NONE)
}
pub fn impl_mint(t: Ramp5, d: [u128; 3], r: [u128; 3], s: u128) -> Outcome<u128> {
    run_catch(|| inv(t).compute_mint_amount_for_deposit(u(d[0]), u(d[1]), u(d[2]), u(r[0]), u(r[1]), u(r[2]), u(s)).map(|r| r.u128()).ok_or(()), |_| E_NONE)
}
pub struct Swap5 { pub ret: u128, pub spread: u128, pub sf: u128, pub pf: u128, pub bf: u128 }
pub fn impl_cswap(t: Ramp5, op: u128, ask: u128, uns: u128, x: u128, f: (u128, u128, u128)) -> Outcome<Swap5> {
    run_catch(|| trioh::compute_swap(u(op), u(ask), u(uns), u(x), trio_fee(f.0, f.1, f.2), inv(t))
        .map(|s| Swap5 { ret: s.return_amount.u128(), spread: s.spread_amount.u128(), sf: s.swap_fee_amount.u128(),
                         pf: s.protocol_fee_amount.u128(), bf: s.burn_fee_amount.u128() }), |_| E_OTHER)
}

fn big256(x: &Uint256) -> B { big::bs(&x.to_string()) }

/// effective amp for monitor arithmetic (only called on started ramps)
fn amp_of(t: Ramp5) -> Option<u64> { if t.2 >= t.3 { Some(amp_expected(t.0, t.1, t.2, t.3, t.4)) } else { None } }

fn gen_amp_state(rng: &mut Rng) -> Ramp5 {
    match rng.below(20) {
        0 => (u64_value(rng), u64_value(rng), u64_value(rng), u64_value(rng), u64_value(rng)),
        1..=5 => {
            let h0 = 12_345 + rng.below(1_000_000);
            let len = 10_000 + rng.below(1_000_000);
            let a0 = 1 + rng.below(1_000_000);
            let a1 = match rng.below(3) { 0 => (a0 * 10).min(1_000_000), 1 => (a0 / 10).max(1), _ => 1 + rng.below(1_000_000) };
            (a0, a1, h0 + rng.below(len + 10), h0, h0 + len)
        }
        _ => {
            let a = *rng.pick(&[1u64, 1, 2, 10, 85, 100, 1000, 1000, 5000, 1_000_000, 1_000_000]);
            let a = if rng.chance(1, 5) { 1 + rng.below(1_000_000) } else { a };
            (a, a, 12_345 + rng.below(1000), 12_345, 12_345)
        }
    }
}

/// reserve triples: balanced around a magnitude (the realistic region, where the computation succeeds), skewed, tiny, arbitrary
fn gen_reserves(rng: &mut Rng) -> [u128; 3] {
    let mags: [u128; 10] = [1_000, 1_000_000, 1_000_000_000, 1_000_000_000_000, DEC, 1u128 << 64, 1u128 << 80, 1u128 << 96, 1u128 << 100, 1u128 << 110];
    let m = *rng.pick(&mags);
    let around = |rng: &mut Rng, m: u128, spread: u128| -> u128 {
        // m * k / 1000 with k in [1000/spread, 1000*spread]
        let lo = (1000 / spread).max(1);
        let k = rng.range128(lo, 1000 * spread);
        (m / 1000).max(1).saturating_mul(k).max(1).min((1u128 << 110) + 5)
    };
    match rng.below(12) {
        0..=4 => [around(rng, m, 2), around(rng, m, 2), around(rng, m, 2)],
        5..=6 => [around(rng, m, 20), around(rng, m, 20), around(rng, m, 20)],
        7 => [around(rng, m, 1000), around(rng, m, 1000), around(rng, m, 1000)],
        8 => [m, m, m],
        9 => [1 + rng.below(10) as u128, 1 + rng.below(10) as u128, 1 + rng.below(10) as u128],
        10 => [magnitude(rng, 111), magnitude(rng, 111), magnitude(rng, 111)],
        _ => { let mut v = [around(rng, m, 2), around(rng, m, 2), around(rng, m, 2)]; v[rng.below(3) as usize] = rng.below(2) as u128; v }
    }
}

fn gen_offer(rng: &mut Rng, src: u128) -> u128 {
    match rng.below(12) {
        0 => 0, 1 => 1, 2 => src, 3 => src.saturating_mul(2), 4 => src / 2, 5 => src / 1000, 6 => src / 1_000_000 + 1,
        7 => magnitude(rng, 111), 8 => 1 + rng.below(1000) as u128, _ => rng.range128(1, src.max(2) / 3 + 1),
    }
}

/// (offer, ask, unswapped) indices: all six directions
pub const DIRS: [(usize, usize, usize); 6] = [(0, 1, 2), (0, 2, 1), (1, 0, 2), (1, 2, 0), (2, 0, 1), (2, 1, 0)];

fn curve_pure(out: &mut Out, rng: &mut Rng, n: u64) {
    // corpus
    let flat = |a: u64| -> Ramp5 { (a, a, 12_345, 12_345, 12_345) };
    let mut cases: Vec<(Ramp5, [u128; 3], usize, u128)> = vec![
        (flat(1000), [1_000_000, 1_000_000, 1_000_000], 0, 1000),
        (flat(1), [1u128 << 110, 1u128 << 110, 1u128 << 110], 3, 1u128 << 100),
        (flat(1_000_000), [1u128 << 110, 1u128 << 110, 1u128 << 110], 5, 1u128 << 109),
        (flat(85), [0, 0, 0], 0, 5), (flat(85), [0, 0, 0], 0, 0), (flat(85), [5, 0, 7], 1, 5),
        ((100, 1000, 20_000, 12_345, 30_000), [123_456_789_012, 98_765_432_109, 111_111_111_111], 4, 7_777_777),
        ((7, 9, 3, 5, 10), [1000, 1000, 1000], 0, 10),
    ];
    for _ in 0..n {
        let t = gen_amp_state(rng);
        let r = gen_reserves(rng);
        let dir = rng.below(6) as usize;
        let x = gen_offer(rng, r[DIRS[dir].0]);
        cases.push((t, r, dir, x));
    }
    for (t, r, dir, x) in cases {
        let (io, ia, iu) = DIRS[dir];
        let (src, dst, uns) = (r[io], r[ia], r[iu]);
        let replay = json!({"kind": "pure_curve", "amp_state": ramp_json(t), "reserves": [r[0].to_string(), r[1].to_string(), r[2].to_string()],
                            "offer_index": io, "ask_index": ia, "offer": x.to_string()});
        // compute_d
        let d = impl_d(t, r[0], r[1], r[2]);
        out.count(match &d { Outcome::Ok(_) => "d:ok", Outcome::Err(_) => "d:none", Outcome::Panic(_) => "d:panic" });
        out.case("c04_d", &format!("({}, ({}, {}, {}))", ramp_term(t), r[0], r[1], r[2]), &obs(&d, |v| vec![v.to_string()]), replay.clone());
        // swap_to
        let s = impl_swap_to(t, x, src, dst, uns);
        out.count(match &s { Outcome::Ok(_) => "swap:ok", Outcome::Err(_) => "swap:none", Outcome::Panic(_) => "swap:panic" });
        out.case("c04_swap", &format!("({}, ({}, {}, {}, {}))", ramp_term(t), x, src, dst, uns),
                 &obs(&s, |v| vec![v.ns.to_string(), v.nd.to_string(), v.dy.to_string()]), replay.clone());
        out.count(&format!("reserve_bits:{}", (128 - src.leading_zeros()) / 16 * 16));
        // NB compute_d is not symmetric in its arguments (three successive truncating divisions): swap_to uses (source, destination, unswapped)
        if let (Outcome::Ok(sr), Outcome::Ok(dv), Some(amp)) = (&s, &impl_d(t, src, dst, uns), amp_of(t)) {
            monitor_swap(out, t, amp, (src, dst, uns), x, sr, dv, &replay);
            if sr.dy > 0 { out.nontrivial_key(hash64(&[t.0 as u128, t.1 as u128, t.2 as u128, src, dst, uns, x])); }
        }
        out.sample(replay.clone());
        // helpers::compute_swap with fees
        if rng.chance(1, 2) {
            let f = fee_triple(rng, true);
            let cs = impl_cswap(t, src, dst, uns, x, f);
            let mut rp = replay.clone();
            rp["fees_protocol_swap_burn"] = json!([f.0.to_string(), f.1.to_string(), f.2.to_string()]);
            out.count(match &cs { Outcome::Ok(_) => "cswap:ok", Outcome::Err(_) => "cswap:err", Outcome::Panic(_) => "cswap:panic" });
            monitor_cswap(out, &cs, &s, dst, f, &rp);
            out.case("c04_cswap", &format!("({}, ({}, {}, {}, {}), ({}, {}, {}))", ramp_term(t), src, dst, uns, x, f.0, f.1, f.2),
                     &obs(&cs, |v| vec![v.ret.to_string(), v.spread.to_string(), v.sf.to_string(), v.pf.to_string(), v.bf.to_string()]), rp);
        }
        // reverse_sim (a quarter of the cases)
        if rng.chance(1, 4) {
            let ask = match rng.below(4) { 0 => dst, 1 => dst.saturating_add(1), 2 => 0, _ => rng.range128(0, dst / 2 + 1) };
            let rs = impl_rsim(t, ask, src, dst, uns);
            out.count(match &rs { Outcome::Ok(_) => "rsim:ok", Outcome::Err(_) => "rsim:none", Outcome::Panic(_) => "rsim:panic" });
            out.case("c04_rsim", &format!("({}, ({}, {}, {}, {}))", ramp_term(t), ask, src, dst, uns), &obs(&rs, |v| vec![v.to_string()]), replay.clone());
        }
        // deposit
        if rng.chance(1, 2) {
            let dep = match rng.below(5) {
                0 => [r[0] / 10 + 1, r[1] / 10 + 1, r[2] / 10 + 1],
                1 => [1, 1, 1],
                2 => [gen_offer(rng, r[0]), gen_offer(rng, r[1]), gen_offer(rng, r[2])],
                3 => { let mut v = [1u128, 1, 1]; v[rng.below(3) as usize] = gen_offer(rng, r[0]).max(1); v }
                _ => [rng.range128(1, r[0].max(2)), rng.range128(1, r[1].max(2)), rng.range128(1, r[2].max(2))],
            };
            let supply = match rng.below(4) { 0 => 1, 1 => magnitude(rng, 120), _ => { let s = r[0].saturating_add(r[1]).saturating_add(r[2]); rng.range128(s / 2 + 1, s.max(2)) } };
            let m = impl_mint(t, dep, r, supply);
            let mut rp = replay.clone();
            rp["deposit"] = json!([dep[0].to_string(), dep[1].to_string(), dep[2].to_string()]);
            rp["lp_supply"] = json!(supply.to_string());
            out.count(match &m { Outcome::Ok(_) => "mint:ok", Outcome::Err(_) => "mint:none", Outcome::Panic(_) => "mint:panic" });
            if let (Outcome::Ok(mv), Some(amp)) = (&m, amp_of(t)) { monitor_mint(out, t, amp, r, dep, supply, *mv, &rp); }
            out.case("c04_mint", &format!("({}, ({}, {}, {}), ({}, {}, {}), {})", ramp_term(t), dep[0], dep[1], dep[2], r[0], r[1], r[2], supply),
                     &obs(&m, |v| vec![v.to_string()]), rp);
        }
    }
}

fn dust_log(out: &mut Out, kind: &str, loss: &str, amp: u64, before: [u128; 3], after: [u128; 3]) {
    use std::io::Write;
    let mut f = std::fs::OpenOptions::new().create(true).append(true).open(format!("{}/dust.csv", out.dir)).unwrap();
    writeln!(f, "{},{},{},{},{},{},{},{},{}", kind, loss, amp, before[0], before[1], before[2], after[0], after[1], after[2]).unwrap();
}

fn monitor_cswap(out: &mut Out, cs: &Outcome<Swap5>, s: &Outcome<Res3>, dst: u128, f: (u128, u128, u128), rp: &serde_json::Value) {
    out.monitor_evals += 1;
    match (cs, s) {
        (Outcome::Ok(c), Outcome::Ok(sr)) => {
            if b(c.ret) + b(c.sf) + b(c.pf) + b(c.bf) != b(sr.dy) { out.monitor_fail("C04", "proceeds + fees != curve output", rp.clone()); }
            let fl = |share: u128| b(sr.dy) * b(share) / b(DEC);
            if b(c.sf) != fl(f.1) || b(c.pf) != fl(f.0) || b(c.bf) != fl(f.2) { out.monitor_fail("C04", "a fee differs from floor(share * curve output)", rp.clone()); }
            if c.ret >= dst { out.monitor_fail("C04", "proceeds not below the ask reserve", rp.clone()); }
        }
        (Outcome::Ok(_), _) => out.monitor_fail("C04", "compute_swap succeeded although swap_to did not", rp.clone()),
        (Outcome::Err(_), Outcome::Ok(_)) | (Outcome::Panic(_), Outcome::Ok(_)) => out.monitor_fail("C04", "compute_swap failed although swap_to succeeded and fees are valid", rp.clone()),
        _ => {}
    }
}

/// property predicates on one successful swap_to of the implementation
fn monitor_swap(out: &mut Out, t: Ramp5, amp: u64, (src, dst, uns): (u128, u128, u128), x: u128, sr: &Res3, d: &Uint256, replay: &serde_json::Value) {
    out.monitor_evals += 1;
    if b(sr.ns) != b(src) + b(x) || b(sr.nd) + b(sr.dy) != b(dst) { out.monitor_fail("C04", "swap result does not balance (new reserves vs amount swapped)", replay.clone()); }
    if sr.dy >= dst { out.monitor_fail("C04", "curve output not below the ask reserve", replay.clone()); }
    // the code's quadratic, recomputed with wide integers: the reserve kept (y + 1) lies strictly beyond its root
    let ann = b(amp as u128 * 3);
    let dd = big256(d);
    if sr.ns > 0 && uns > 0 {
        let c = dd * dd / (b(sr.ns) * b(3)) * dd / (b(uns) * b(3)) * dd / (ann * b(3));
        let bb = dd / ann + b(sr.ns) + b(uns);
        let y1 = b(sr.nd);
        if !(y1 * y1 + bb * y1 > c + dd * y1) { out.monitor_fail("C04", "reserve kept after the swap is not beyond the root of the curve quadratic", replay.clone()); }
    }
    // VALIDATION (not proof) of the exact-curve clause: the true invariant, solved independently to one base unit, does not fall across the swap
    if src > 0 && dst > 0 && uns > 0 && sr.nd > 0 {
        out.monitor_evals += 1;
        let before = big::d3_true_floor(amp as u128 * 3, [src, dst, uns]);
        let after = big::d3_true_floor(amp as u128 * 3, [sr.ns, sr.nd, uns]);
        out.count("validation:d_true_across_swap");
        if after < before {
            dust_log(out, "swap_d", &(before - after).to_string(), amp, [src, dst, uns], [sr.ns, sr.nd, uns]);
            if before - after <= dust_allowance(amp, &[[src, dst, uns], [sr.ns, sr.nd, uns]]) {
                out.known_hit("C04", KNOWN_DUST, &format!("true invariant fell by {} (rounding dust) across a swap", before - after), replay.clone());
            } else {
                out.monitor_fail("C04", &format!("VALIDATION exact curve: true invariant fell across a swap beyond rounding dust ({} -> {})", before, after), replay.clone());
            }
        }
    }
    // there and straight back never yields a profit
    if sr.dy > 0 {
        out.monitor_evals += 1;
        if let Outcome::Ok(back) = impl_swap_to(t, sr.dy, sr.nd, sr.ns, uns) {
            out.count("roundtrip:evaluated");
            if back.dy > x {
                dust_log(out, "roundtrip", &(back.dy - x).to_string(), amp, [src, dst, uns], [sr.ns, sr.nd, uns]);
                if b(back.dy - x) <= dust_allowance(amp, &[[src, dst, uns], [sr.ns, sr.nd, uns]]) {
                    out.known_hit("C04", KNOWN_DUST, &format!("swap there-and-back returned {} for {} put in (rounding dust)", back.dy, x), replay.clone());
                } else {
                    out.monitor_fail("C04", &format!("swap there-and-back returned {} for {} put in", back.dy, x), replay.clone());
                }
            }
        }
    }
}

fn monitor_mint(out: &mut Out, t: Ramp5, amp: u64, r: [u128; 3], dep: [u128; 3], supply: u128, mint: u128, replay: &serde_json::Value) {
    out.monitor_evals += 1;
    let n = [r[0] + dep[0], r[1] + dep[1], r[2] + dep[2]];
    if let (Outcome::Ok(d0), Outcome::Ok(d1)) = (impl_d(t, r[0], r[1], r[2]), impl_d(t, n[0], n[1], n[2])) {
        let (d0, d1) = (big256(&d0), big256(&d1));
        if (b(supply) + b(mint)) * d0 > b(supply) * d1 { out.monitor_fail("C04", "deposit minted more LP than the increase of the pool's own invariant (D/S fell)", replay.clone()); }
    }
    if r.iter().all(|v| *v > 0) {
        out.monitor_evals += 1;
        out.count("validation:d_true_per_lp_deposit");
        let f0 = big::d3_true_floor(amp as u128 * 3, r);
        let f1 = big::d3_true_floor(amp as u128 * 3, n);
        // D1/(S+m) >= D0/S for the true values implies (floor D1 + 1) S > floor D0 (S + m)
        if !((f1 + B::ONE) * b(supply) > f0 * (b(supply) + b(mint))) {
            // the code's D is an integer: a truncation of a few units of D0 is magnified by the growth D1/D0 of the deposit
            let allow = dust_allowance(amp, &[r, n]) * (B::ONE + if f0.is_zero() { B::ZERO } else { f1 / f0 });
            if (f1 + B::ONE + allow) * b(supply) > f0 * (b(supply) + b(mint)) {
                out.known_hit("C04", KNOWN_DUST, "true invariant per LP token fell by rounding dust across a deposit", replay.clone());
            } else {
                out.monitor_fail("C04", "VALIDATION exact curve: true invariant per LP token fell across a deposit beyond rounding dust", replay.clone());
            }
        }
    }
}

/// `./check C04 --replay FILE`: re-run the failing input of a replay file on the real code and report the monitors' verdict
fn replay(args: &Args, path: &str) {
    std::panic::set_hook(Box::new(|i| eprintln!("[panic] {i}")));
    let mut out = Out::new(&args.out);
    let j: serde_json::Value = serde_json::from_str(&std::fs::read_to_string(path).or_else(|_| std::fs::read_to_string(format!("../{path}"))).expect("replay file")).expect("json");
    let fi = if j.get("failing_input").is_some() { j["failing_input"].clone() } else { j.clone() };
    let fi = if fi.get("kind").is_none() && fi.get("replay").is_some() { fi["replay"].clone() } else { fi };
    let us = |v: &serde_json::Value| -> u128 { v.as_str().map(|s| s.parse().unwrap()).or(v.as_u64().map(|x| x as u128)).unwrap_or(0) };
    let u6 = |v: &serde_json::Value| -> u64 { v.as_u64().or(v.as_str().map(|s| s.parse().unwrap())).unwrap_or(0) };
    let ramp = |v: &serde_json::Value| -> Ramp5 { (u6(&v["initial_amp"]), u6(&v["target_amp"]), u6(&v["height"]), u6(&v["start"]), u6(&v["stop"])) };
    let mut rng = Rng::new(1);
    match fi["kind"].as_str().unwrap_or("") {
        "pure_compute_amp_factor" => {
            let t = ramp(&fi);
            let r = impl_amp(t.0, t.1, t.2, t.3, t.4);
            println!("compute_amp_factor{:?} -> {}", t, match &r { Outcome::Ok(a) => format!("Some({a})"), Outcome::Err(_) => "None".into(), Outcome::Panic(m) => format!("panic: {m}") });
            monitor_amp(&mut out, t.0, t.1, t.2, t.3, t.4, &r, &fi);
        }
        "ramp_history" => {
            let ops: Vec<RampOp> = fi["ops"].as_array().unwrap().iter().map(|o| RampOp { dh: u6(&o["advance_blocks"]), owner: o["by_owner"].as_bool().unwrap(), fa: u6(&o["future_a"]), fb: u6(&o["future_block"]) }).collect();
            let mut rp = json!({"kind": "ramp_history", "amp": fi["amp"], "ops": []});
            if let Some((_, obsv)) = run_ramp_history(&mut out, u6(&fi["amp"]), &mut |k, _h, _c| ops.get(k).cloned(), &mut rp) { println!("observation: {}", obsv.join(" ")); }
        }
        "pure_curve" => {
            let t = ramp(&fi["amp_state"]);
            let r = [us(&fi["reserves"][0]), us(&fi["reserves"][1]), us(&fi["reserves"][2])];
            let (io, ia) = (u6(&fi["offer_index"]) as usize, u6(&fi["ask_index"]) as usize);
            let iu = 3 - io - ia;
            let x = us(&fi["offer"]);
            let s = impl_swap_to(t, x, r[io], r[ia], r[iu]);
            println!("swap_to -> {}", match &s { Outcome::Ok(v) => format!("new_src {} new_dst {} swapped {}", v.ns, v.nd, v.dy), Outcome::Err(_) => "None".into(), Outcome::Panic(m) => format!("panic: {m}") });
            if let (Outcome::Ok(sr), Outcome::Ok(dv), Some(amp)) = (&s, &impl_d(t, r[io], r[ia], r[iu]), amp_of(t)) { monitor_swap(&mut out, t, amp, (r[io], r[ia], r[iu]), x, sr, dv, &fi); }
            if let Some(f) = fi.get("fees_protocol_swap_burn") {
                let f = (us(&f[0]), us(&f[1]), us(&f[2]));
                let cs = impl_cswap(t, r[io], r[ia], r[iu], x, f);
                monitor_cswap(&mut out, &cs, &s, r[ia], f, &fi);
            }
            if let Some(d) = fi.get("deposit") {
                let dep = [us(&d[0]), us(&d[1]), us(&d[2])];
                let supply = us(&fi["lp_supply"]);
                if let (Outcome::Ok(mv), Some(amp)) = (&impl_mint(t, dep, r, supply), amp_of(t)) { println!("mint -> {mv}"); monitor_mint(&mut out, t, amp, r, dep, supply, *mv, &fi); }
            }
        }
        "pool_history" => {
            use crate::c04_pool::{run_history, run_history_with, History, Op};
            let uidx = |v: &serde_json::Value| -> usize { ["alice", "bob", "carol", "donor"].iter().position(|n| Some(*n) == v.as_str()).unwrap_or(0) };
            let ops: Vec<Op> = fi["ops"].as_array().unwrap().iter().map(|o| match o["op"].as_str().unwrap() {
                "provide" => Op::Provide { u: uidx(&o["user"]), d: [us(&o["amounts"][0]), us(&o["amounts"][1]), us(&o["amounts"][2])] },
                "withdraw" => Op::Withdraw { u: uidx(&o["user"]), amount: us(&o["lp"]) },
                "swap" => Op::Swap { u: uidx(&o["user"]), i: u6(&o["offer_index"]) as usize, j: u6(&o["ask_index"]) as usize, x: us(&o["offer"]),
                                      ms: if o["max_spread_atomics"].is_null() { None } else { Some(us(&o["max_spread_atomics"])) } },
                "collect" => Op::Collect,
                "ramp" => Op::Ramp { owner: o["by_owner"].as_bool().unwrap(), fa: u6(&o["future_a"]), fb: u6(&o["future_block"]) },
                "donate" => Op::Donate { i: u6(&o["index"]) as usize, x: us(&o["amount"]) },
                "set_fees" => Op::SetFees { owner: o["by_owner"].as_bool().unwrap_or(true), f: (us(&o["fees_protocol_swap_burn"][0]), us(&o["fees_protocol_swap_burn"][1]), us(&o["fees_protocol_swap_burn"][2])) },
                _ => Op::Advance { dh: u6(&o["blocks"]) },
            }).collect();
            let f = &fi["fees_protocol_swap_burn"];
            let k = &fi["asset_kinds_cw20"];
            let h = History { amp: u6(&fi["amp"]), fees: (us(&f[0]), us(&f[1]), us(&f[2])), kinds: [k[0].as_bool().unwrap(), k[1].as_bool().unwrap(), k[2].as_bool().unwrap()], fixed: Some(ops), len: 0 };
            let dn: Vec<String> = fi["native_denoms"].as_array().map(|a| a.iter().filter_map(|x| x.as_str().map(|s| s.to_string())).collect()).unwrap_or_default();
            if dn.len() == 3 { run_history_with(&mut out, &mut rng, &h, [dn[0].as_str(), dn[1].as_str(), dn[2].as_str()]); } else { run_history(&mut out, &mut rng, &h); }
        }
        other => { println!("unknown replay kind {other:?}"); std::process::exit(2); }
    }
    for h in &out.known_hits { println!("KNOWN-FINDING (class {}): {}", h["class"].as_str().unwrap_or(""), h["what"].as_str().unwrap_or("")); }
    let fails = out.monitor_failures.clone();
    for f in &fails { println!("PROPERTY VIOLATED on the implementation: {}", f["what"].as_str().unwrap_or("")); }
    out.finish();
    if fails.is_empty() { println!("replay: no property violation on this input"); std::process::exit(0); } else { std::process::exit(1); }
}

pub fn run(args: &Args) {
    if let Some(p) = &args.replay { replay(args, p); return; }
    let mut out = Out::new(&args.out);
    out.rule = "amp: non-trivial = height strictly inside a started ramp with start != target; ramp histories: non-trivial = an accepted ramp, \
                distinct by (current amp, target, height, stop height)".into();
    // common::Rng::new(k+1) is Rng::new(k) shifted by one draw; scramble so that different VERIF_SEEDs give unrelated streams
    let mut rng = Rng::new(hash64(&[args.seed as u128, 0xC04]));
    amp_pure(&mut out, &mut rng, args.n);
    ramp_histories(&mut out, &mut rng, (args.n / 8).max(30));
    curve_pure(&mut out, &mut rng, args.n);
    crate::c04_pool::pool_histories(&mut out, &mut rng, (args.n / 10).max(20));
    out.finish();
}
