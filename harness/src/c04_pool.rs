//! C04 — histories on the deployed stableswap_3pool: provide / withdraw / swap (six directions, there-and-back) / collect /
//! ramp / donate with the block height advancing. Observation after every operation + the property monitors.
use crate::big::{self, b, B};
use crate::c04::{amp_expected, impl_swap_to, Ramp5, MAX_AMP, MIN_AMP};
use crate::common::*;
use crate::w_stable::*;
use crate::world::*;
use cosmwasm_std::Decimal;
use serde_json::json;

pub const KNOWN_DUST: &str = "curve_rounding_dust";
const USERS4: [&str; 4] = ["alice", "bob", "carol", "donor"];

#[derive(Clone, Debug)]
pub enum Op {
    Provide { u: usize, d: [u128; 3] },
    Withdraw { u: usize, amount: u128 },
    Swap { u: usize, i: usize, j: usize, x: u128, ms: Option<u128> },
    Collect,
    Ramp { owner: bool, fa: u64, fb: u64 },
    Donate { i: usize, x: u128 },
    Advance { dh: u64 },
    /// UpdateConfig { pool_fees } (protocol, swap, burn) by the owner or by somebody else
    SetFees { owner: bool, f: (u128, u128, u128) },
}
impl Op {
    pub fn coq(&self) -> String {
        match self {
            Op::Provide { u, d } => format!("Provide {}%nat ({}, {}, {})", u, d[0], d[1], d[2]),
            Op::Withdraw { u, amount } => format!("Withdraw {}%nat {}", u, amount),
            Op::Swap { u, i, j, x, ms } => format!("Swap {}%nat {} {} {} {}", u, i, j, x, match ms { Some(m) => format!("(Some {})", m), None => "None".into() }),
            Op::Collect => "Collect".into(),
            Op::Ramp { owner, fa, fb } => format!("Ramp {} {} {}", coqbool(*owner), fa, fb),
            Op::Donate { i, x } => format!("Donate {} {}", i, x),
            Op::Advance { dh } => format!("Advance {}", dh),
            Op::SetFees { owner, f } => format!("SetFees {} (mkFees {} {} {})", coqbool(*owner), f.0, f.1, f.2),
        }
    }
    pub fn json(&self) -> serde_json::Value {
        match self {
            Op::Provide { u, d } => json!({"op": "provide", "user": USERS4[*u], "amounts": [d[0].to_string(), d[1].to_string(), d[2].to_string()]}),
            Op::Withdraw { u, amount } => json!({"op": "withdraw", "user": USERS4[*u], "lp": amount.to_string()}),
            Op::Swap { u, i, j, x, ms } => json!({"op": "swap", "user": USERS4[*u], "offer_index": i, "ask_index": j, "offer": x.to_string(), "max_spread_atomics": ms.map(|m| m.to_string())}),
            Op::Collect => json!({"op": "collect"}),
            Op::Ramp { owner, fa, fb } => json!({"op": "ramp", "by_owner": owner, "future_a": fa, "future_block": fb}),
            Op::Donate { i, x } => json!({"op": "donate", "index": i, "amount": x.to_string()}),
            Op::Advance { dh } => json!({"op": "advance", "blocks": dh}),
            Op::SetFees { owner, f } => json!({"op": "set_fees", "by_owner": owner, "fees_protocol_swap_burn": [f.0.to_string(), f.1.to_string(), f.2.to_string()]}),
        }
    }
    fn kind(&self) -> &'static str {
        match self { Op::Provide { .. } => "provide", Op::Withdraw { .. } => "withdraw", Op::Swap { .. } => "swap", Op::Collect => "collect",
                     Op::Ramp { .. } => "ramp", Op::Donate { .. } => "donate", Op::Advance { .. } => "advance", Op::SetFees { .. } => "set_fees" }
    }
}

#[derive(Clone, PartialEq, Debug)]
pub struct Snap {
    pub bal: [u128; 3], pub fee: [u128; 3], pub all: [u128; 3], pub burn: [u128; 3], pub supply: u128,
    pub lp: [u128; 4], pub lp_self: u128, pub cfg: [u64; 4], pub height: u64,
    pub user: [[u128; 3]; 4], pub coll: [u128; 3], pub qmis: Option<String>,
}
pub fn snap(w: &TrioWorld) -> Snap {
    let c = w.config();
    let mut user = [[0u128; 3]; 4];
    for (k, name) in USERS4.iter().enumerate() { for i in 0..3 { user[k][i] = w.bal(i, name); } }
    Snap {
        bal: [w.pool_bal(0), w.pool_bal(1), w.pool_bal(2)], fee: w.fees_query(false), all: w.fees_query(true), burn: w.burned_query(),
        supply: w.lp_supply(), lp: [w.lp_bal("alice"), w.lp_bal("bob"), w.lp_bal("carol"), w.lp_bal("donor")], lp_self: w.lp_bal(w.trio.as_str()),
        cfg: [c.initial_amp, c.future_amp, c.initial_amp_block, c.future_amp_block], height: w.height(),
        user, coll: [w.bal(0, COLLECTOR), w.bal(1, COLLECTOR), w.bal(2, COLLECTOR)], qmis: w.ledger_queries_disagree(),
    }
}
fn pool_obs(s: &Snap) -> Vec<String> {
    let mut v: Vec<String> = vec![];
    for a in [&s.bal, &s.fee, &s.all, &s.burn] { v.extend(a.iter().map(|x| x.to_string())); }
    v.push(s.supply.to_string());
    v.extend(s.lp.iter().map(|x| x.to_string()));
    v.push(s.lp_self.to_string());
    v.extend(s.cfg.iter().map(|x| x.to_string()));
    v.push(s.height.to_string());
    v
}
fn sdiff(a: u128, bb: u128) -> String { if a >= bb { (a - bb).to_string() } else { format!("-{}", bb - a) } }

/// who receives the proceeds of a swap: for offers with x % 5 == 2 another user than the sender (`to` argument), else the sender.
/// The model's swap does not depend on the receiver; the user effect observed is the sum over sender and receiver.
pub fn receiver(op: &Op) -> Option<usize> {
    match op { Op::Swap { u, x, .. } => Some(if *x % 5 == 2 { (*u + 1) % 4 } else { *u }), _ => None }
}
pub fn exec(w: &mut TrioWorld, op: &Op) -> Result<(), String> {
    match op {
        Op::Provide { u, d } => w.provide(USERS4[*u], *d, None).map(|_| ()),
        Op::Withdraw { u, amount } => w.withdraw(USERS4[*u], *amount).map(|_| ()),
        Op::Swap { u, i, j, x, ms } => { let rc = receiver(op).unwrap();
            w.swap_to(USERS4[*u], *i, *j, *x, None, ms.map(|m| Decimal::new(m.into())), if rc != *u { Some(USERS4[rc].to_string()) } else { None }).map(|_| ()) }
        Op::Collect => w.collect("bob").map(|_| ()),
        Op::Ramp { owner, fa, fb } => w.ramp(if *owner { OWNER } else { "carol" }, *fa, *fb).map(|_| ()),
        Op::Donate { i, x } => w.donate("donor", *i, *x).map(|_| ()),
        Op::Advance { dh } => { w.advance(*dh); Ok(()) }
        Op::SetFees { owner, f } => {
            let msg = white_whale_std::pool_network::trio::ExecuteMsg::UpdateConfig { owner: None, fee_collector_addr: None, pool_fees: Some(trio_fee(f.0, f.1, f.2)), feature_toggle: None, amp_factor: None };
            let (app, trio) = (&mut w.app, w.trio.clone());
            guarded(|| cw_multi_test::Executor::execute_contract(app, cosmwasm_std::Addr::unchecked(if *owner { OWNER } else { "carol" }), trio, &msg, &[])).map(|_| ())
        }
    }
}

/// Dust allowance of the known finding `curve_rounding_dust` (its decidable signature): a loss (in base units of the asset, resp. of D)
/// of at most this much is attributed to the truncating divisions of the two Newton solvers; anything larger is a violation.
///   4 + 4*floor(kappa / (3 amp)) + 4*ceil(D*T/M)    evaluated on every reserve triple involved, maximum taken, where
///   kappa = sum/min reserve  (error of the truncated `c` of the y-quadratic, worth D/(9 u) units of y),
///   T = D^2/(9 m1 m2) + D/(3 m1) + 1 (m1 <= m2 the two smallest reserves: worst-case truncation of d_prod),
///   M = (3 amp - 1) D + 4 D^4/(27 abc)  (denominator of the D iteration), D = exact invariant (floor).
pub fn dust_allowance(amp: u64, states: &[[u128; 3]]) -> B {
    let ann = 3 * amp as u128;
    let mut best = B::ZERO;
    for r in states {
        if r.iter().any(|v| *v == 0) { continue; }
        let s = b(r[0]) + b(r[1]) + b(r[2]);
        let mut srt = *r; srt.sort();
        let (m1, m2) = (b(srt[0]), b(srt[1]));
        let kappa = s / m1;
        let d = big::d3_true_floor(ann, *r);
        let t = d * d / (b(9) * m1 * m2) + d / (b(3) * m1) + B::ONE;
        let dp = d.pow(4) / (b(27) * b(r[0]) * b(r[1]) * b(r[2]));
        let m = b(ann.saturating_sub(1)) * d + b(4) * dp;
        let e_d = if m.is_zero() { B::ZERO } else { (d * t + m - B::ONE) / m };
        let a = b(4) + b(4) * (kappa / b(ann)) + b(4) * e_d;
        if a > best { best = a; }
    }
    best
}

pub struct Ctx<'a> { pub out: &'a mut Out, pub replay: serde_json::Value, pub fees: (u128, u128, u128) }

fn reserves(s: &Snap) -> [u128; 3] { [s.bal[0].saturating_sub(s.fee[0]), s.bal[1].saturating_sub(s.fee[1]), s.bal[2].saturating_sub(s.fee[2])] }

/// the property's predicates evaluated on what the real contract did in one operation
fn monitors(cx: &mut Ctx, op: &Op, ok: bool, before: &Snap, after: &Snap) {
    let out = &mut *cx.out;
    let rp = cx.replay.clone();
    out.monitor_evals += 1;
    // solvency and ledgers (after every operation, successful or not)
    for k in 0..3 {
        if after.bal[k] < after.fee[k] { out.monitor_fail("C04", "pool balance below the pending protocol fee", rp.clone()); }
        if b(after.all[k]) != b(after.fee[k]) + b(after.coll[k]) { out.monitor_fail("C04", "all-time protocol fee ledger != pending + received by the collector", rp.clone()); }
    }
    if let Some(m) = &after.qmis { out.monitor_fail("C07", m, rp.clone()); }
    if b(after.supply) != after.lp.iter().fold(b(after.lp_self), |a, x| a + b(*x)) { out.monitor_fail("C04", "LP supply != sum of LP balances", rp.clone()); }
    if !ok {
        if before != after { out.monitor_fail("C04", "a rejected operation changed balances or contract state", rp.clone()); }
        return;
    }
    let amp = amp_expected(before.cfg[0], before.cfg[1], before.height, before.cfg[2], before.cfg[3]);
    if amp < MIN_AMP || amp > MAX_AMP { out.monitor_fail("C04", "effective amp outside [MIN_AMP, MAX_AMP]", rp.clone()); }
    let (r0, r1) = (reserves(before), reserves(after));
    // conservation: what left the pool went to the user, the collector or was burned (and nothing else)
    for k in 0..3 {
        let user_gain: i128 = (0..4).map(|u| after.user[u][k] as i128 - before.user[u][k] as i128).sum();
        let coll_gain = after.coll[k] as i128 - before.coll[k] as i128;
        let burned = after.burn[k] as i128 - before.burn[k] as i128;
        let pool_gain = after.bal[k] as i128 - before.bal[k] as i128;
        if pool_gain + user_gain + coll_gain + burned != 0 { out.monitor_fail("C04", "tokens not conserved between pool, users, collector and burns", rp.clone()); }
    }
    match op {
        Op::Swap { u, i, j, x, .. } => {
            let u = &receiver(op).unwrap_or(*u);
            let unsw = 3 - i - j;
            let t: Ramp5 = (before.cfg[0], before.cfg[1], before.height, before.cfg[2], before.cfg[3]);
            // curve output recomputed through the hook on the reserves the contract saw
            if let Outcome::Ok(sr) = impl_swap_to(t, *x, r0[*i], r0[*j], r0[unsw]) {
                let dy = b(sr.dy);
                let fl = |share: u128| dy * b(share) / b(DEC);
                let (pf, sf, bf) = (fl(cx.fees.0), fl(cx.fees.1), fl(cx.fees.2));
                let got = b(after.user[*u][*j] - before.user[*u][*j]);
                let ledger = b(after.fee[*j] - before.fee[*j]);
                let burned = b(after.burn[*j] - before.burn[*j]);
                if got + ledger + burned + sf != dy { out.monitor_fail("C04", "proceeds + fees != curve output", rp.clone()); }
                if ledger != pf || burned != bf { out.monitor_fail("C04", "protocol / burn fee differs from floor(share * curve output)", rp.clone()); }
                if b(r1[*j]) + dy != b(r0[*j]) + sf { out.monitor_fail("C04", "ask reserve did not fall by exactly curve output - swap fee", rp.clone()); }
                if b(r1[*i]) != b(r0[*i]) + b(*x) { out.monitor_fail("C04", "offer reserve did not grow by exactly the offer", rp.clone()); }
                if got >= b(r0[*j]) { out.monitor_fail("C04", "proceeds not below the ask reserve", rp.clone()); }
            } else { out.monitor_fail("C04", "swap executed although the curve computation fails on the same reserves", rp.clone()); }
        }
        Op::Provide { d, .. } if before.supply > 0 => {
            // a deposit is priced on the reported reserves (balance - pending protocol fee, whatever the asset kind): the LP minted is the
            // pool's own mint formula (through the hook) on those reserves
            let t: Ramp5 = (before.cfg[0], before.cfg[1], before.height, before.cfg[2], before.cfg[3]);
            if let Outcome::Ok(m) = crate::c04::impl_mint(t, *d, r0, before.supply) {
                let minted = after.supply - before.supply;
                if m != minted { out.monitor_fail("C04", &format!("a deposit minted {} LP but the mint formula on the reported reserves (balances minus pending protocol fees) gives {}", minted, m), rp.clone()); }
            }
        }
        Op::Withdraw { u, amount } => {
            for k in 0..3 {
                let got = b(after.user[*u][k] - before.user[*u][k]);
                if got * b(before.supply) > b(r0[k]) * b(*amount) { out.monitor_fail("C04", "withdrawal paid more than the pro-rata share of a reserve", rp.clone()); }
            }
            if before.supply - after.supply != *amount || before.lp[*u] - after.lp[*u] != *amount { out.monitor_fail("C04", "withdrawal did not burn exactly the LP sent", rp.clone()); }
        }
        Op::SetFees { .. } => {
            // a fee update names no ramp: the amplification schedule (both amps, both blocks) stays what it was, and nothing moves
            if after.cfg != before.cfg { out.monitor_fail("C04", &format!("an UpdateConfig that names only the fee schedule changed the amplification schedule from {:?} to {:?}", before.cfg, after.cfg), rp.clone()); }
            if after.bal != before.bal || after.fee != before.fee || after.supply != before.supply { out.monitor_fail("C04", "a fee update moved funds or ledgers", rp.clone()); }
        }
        Op::Collect => {
            for k in 0..3 {
                let sent = after.coll[k] - before.coll[k];
                if !(sent == 0 && after.fee[k] == before.fee[k] || sent == before.fee[k] && after.fee[k] == 0 && sent > 1000) {
                    out.monitor_fail("C04", "collect: pending fee neither kept nor paid in full", rp.clone());
                }
                if r1[k] != r0[k] { out.monitor_fail("C04", "collect changed a reported reserve", rp.clone()); }
            }
        }
        _ => {}
    }
    // VALIDATION (exact curve, independent solver): invariant per LP token does not fall across the operation, at the amp in force
    if matches!(op, Op::Provide { .. } | Op::Withdraw { .. } | Op::Swap { .. } | Op::Collect | Op::Donate { .. })
        && r0.iter().all(|v| *v > 0) && r1.iter().all(|v| *v > 0) && before.supply > 0 && after.supply > 0 {
        out.monitor_evals += 1;
        out.count("validation:d_true_per_lp_history");
        let f0 = big::d3_true_floor(amp as u128 * 3, r0);
        let f1 = big::d3_true_floor(amp as u128 * 3, r1);
        // D1/S1 >= D0/S0 for the true values  ==>  (floor D1 + 1) * S0 > floor D0 * S1
        if !((f1 + B::ONE) * b(before.supply) > f0 * b(after.supply)) {
            let allow = dust_allowance(amp, &[r0, r1]) * (B::ONE + if f0.is_zero() { B::ZERO } else { f1 / f0 });
            if (f1 + B::ONE + allow) * b(before.supply) > f0 * b(after.supply) {
                out.known_hit("C04", KNOWN_DUST, &format!("true invariant per LP fell by rounding dust across a {}", op.kind()), rp.clone());
            } else {
                out.monitor_fail("C04", &format!("VALIDATION exact curve: true invariant per LP token fell across a {} beyond rounding dust", op.kind()), rp.clone());
            }
        }
    }
}

fn gen_first_deposit(rng: &mut Rng) -> [u128; 3] {
    let mags: [u128; 8] = [10_000, 1_000_000, 1_000_000_000, 1_000_000_000_000, DEC, 1u128 << 80, 1u128 << 100, 1u128 << 109];
    let m = *rng.pick(&mags);
    let f = |rng: &mut Rng| (m / 1000).max(1) * rng.range128(500, 2000);
    match rng.below(10) {
        0 => [m, m, m],
        1 => [f(rng), f(rng), (m / 1000).max(1) * rng.range128(20, 50_000)],
        2 => [1 + rng.below(2000) as u128, 1 + rng.below(2000) as u128, 1 + rng.below(2000) as u128],
        _ => [f(rng), f(rng), f(rng)],
    }
}

fn gen_op(rng: &mut Rng, s: &Snap) -> Op {
    let r = reserves(s);
    let u = rng.below(3) as usize;
    match rng.below(20) {
        0..=2 => {
            let d = match rng.below(5) {
                0 => [r[0] / 10 + 1, r[1] / 10 + 1, r[2] / 10 + 1],
                1 => { let mut v = [1u128, 1, 1]; v[rng.below(3) as usize] = rng.range128(1, r[0].max(2)); v }
                2 => [rng.range128(0, 3), rng.range128(1, r[1].max(2)), rng.range128(1, r[2].max(2))],
                _ => [rng.range128(1, r[0].max(2)), rng.range128(1, r[1].max(2)), rng.range128(1, r[2].max(2))],
            };
            Op::Provide { u, d }
        }
        3..=5 => {
            let have = s.lp[u];
            let amount = match rng.below(7) { 0 => have, 1 => have.saturating_add(1), 2 => 0, 3 => 1, 4 => have / 2, _ => rng.range128(0, have) };
            Op::Withdraw { u, amount }
        }
        6..=13 => {
            let i = rng.below(3) as usize;
            let j = if rng.chance(1, 25) { i } else { (i + 1 + rng.below(2) as usize) % 3 };
            let x = match rng.below(10) { 0 => 0, 1 => 1, 2 => r[i] / 1_000_000 + 1, 3 => r[i] / 2, 4 => r[i], 5 => 1 + rng.below(1000) as u128, _ => rng.range128(1, r[i].max(3) / 3) };
            let ms = match rng.below(5) { 0 => None, 1 => Some(DEC / 1000), _ => Some(DEC / 2) };
            Op::Swap { u, i, j, x, ms }
        }
        14 | 15 => Op::Collect,
        16 => {
            let cur = amp_expected(s.cfg[0], s.cfg[1], s.height, s.cfg[2], s.cfg[3]);
            let fa = match rng.below(6) { 0 => cur.saturating_mul(10).min(1_000_000), 1 => (cur / 10).max(1), 2 => cur * 2, 3 => (cur / 2).max(1), 4 => cur.saturating_mul(11), _ => 1 + rng.below(1_000_000) };
            Op::Ramp { owner: !rng.chance(1, 6), fa, fb: s.height + 10_000 + rng.below(50_000) }
        }
        17 => Op::Donate { i: rng.below(3) as usize, x: 1 + rng.range128(0, r[0].max(2) / 10) },
        _ => Op::Advance { dh: match rng.below(4) { 0 => 1, 1 => 10_000, 2 => rng.below(100_000), _ => rng.below(100) } },
    }
}

pub struct History { pub amp: u64, pub fees: (u128, u128, u128), pub kinds: [bool; 3], pub fixed: Option<Vec<Op>>, pub len: usize }

pub fn run_history(out: &mut Out, rng: &mut Rng, h: &History) { run_history_with(out, rng, h, [DENOMS[0], DENOMS[1], DENOMS[2]]) }
/// `denoms`: the native denoms of the pool's assets (where an asset is native)
pub fn run_history_with(out: &mut Out, rng: &mut Rng, h: &History, denoms: [&str; 3]) {
    let mut replay = json!({"kind": "pool_history", "amp": h.amp, "fees_protocol_swap_burn": [h.fees.0.to_string(), h.fees.1.to_string(), h.fees.2.to_string()],
                            "asset_kinds_cw20": h.kinds, "native_denoms": denoms, "ops": []});
    let mut w = match deploy_trio_denoms(h.kinds, [6, 6, 6], trio_fee(h.fees.0, h.fees.1, h.fees.2), h.amp, denoms) { Ok(w) => w, Err(_) => { out.count("pool:instantiate_rejected"); return; } };
    let h_init = w.height();
    let mut obsv: Vec<String> = vec!["0".into()];
    let mut items: Vec<String> = vec![];
    let mut kinds_seen = std::collections::BTreeSet::new();
    let mut k = 0usize;
    let mut pending_back: Option<Op> = None;
    let mut last_swap: Option<(usize, usize, usize, u128, u128, u128, Snap)> = None;
    // the fee schedule in force (UpdateConfig may change it mid-history); the monitors judge every step by it
    let mut cur_fees = h.fees;
    // fee changes come from a generator state of their own and only in every second generated history, so the other histories stay what they were
    let mut side = Rng::new(h.amp ^ (h.fees.0 as u64).rotate_left(7) ^ (h.fees.1 as u64).rotate_left(29) ^ (h.len as u64) << 3 ^ 0x5345_5446);
    let fee_changes = h.fixed.is_none() && side.chance(1, 2);
    let mut just_changed = true;
    loop {
        let before = snap(&w);
        let op = if fee_changes && !just_changed && k >= 2 && k < h.len && pending_back.is_none() && side.chance(1, 7) {
                     just_changed = true;
                     let valid = !side.chance(1, 8);
                     let mut nf = fee_triple(&mut side, valid);
                     if side.chance(1, 2) { nf.0 = 0; }
                     k -= 1;
                     Op::SetFees { owner: !side.chance(1, 8), f: nf }
                 }
                 else if let Some(f) = &h.fixed { match f.get(k) { Some(Op::Withdraw { u, amount: u128::MAX }) => Op::Withdraw { u: *u, amount: before.lp[*u] }, Some(o) => o.clone(), None => break } }
                 else if k >= h.len { break }
                 else if let Some(o) = pending_back.take() { o }
                 else if k == 0 { Op::Provide { u: 0, d: gen_first_deposit(rng) } }
                 else { gen_op(rng, &before) };
        k += 1;
        replay["ops"].as_array_mut().unwrap().push(op.json());
        // C14: the Simulation query issued in the same state right before the swap
        let quote = if let Op::Swap { i, j, x, .. } = &op { Some(w.simulate(*i, *j, *x)) } else { None };
        if let (Some(q), Op::Swap { i, j, x, .. }) = (&quote, &op) {
            // correspondence of the query path itself (Stable3Quotes.simulate3 on the state the model reaches by the same history)
            let input = format!("(({}, {}, ({}, {}, {}), ({}, {}, {})), {}, ({}, {}, {}))", h.amp, h_init, h.fees.0, h.fees.1, h.fees.2,
                                coqbool(h.kinds[0]), coqbool(h.kinds[1]), coqbool(h.kinds[2]), coqlist(&items), i, j, x);
            let o: Vec<String> = match q { Ok(s) => vec!["0".into(), s.return_amount.to_string(), s.spread_amount.to_string(), s.swap_fee_amount.to_string(),
                                                         s.protocol_fee_amount.to_string(), s.burn_fee_amount.to_string()], Err(_) => vec!["1".into()] };
            out.case("c14_sim3", &input, &o, replay.clone());
        }
        if !matches!(op, Op::SetFees { .. }) { just_changed = false; }
        let r = exec(&mut w, &op);
        let after = snap(&w);
        if let (Ok(_), Op::SetFees { f, .. }) = (&r, &op) { cur_fees = *f; out.count(if f.0 == 0 { "pool:fees_changed_protocol_zero" } else { "pool:fees_changed" }); }
        // C15 on the 3pool (no belief price in this stream): accepted <=> floor(spread*1e18/(gross+spread)) <= min(max_spread or 1%, 50%)
        if let (Some(Ok(sim)), Op::Swap { ms, .. }) = (&quote, &op) {
            let gross = sim.return_amount.u128() + sim.swap_fee_amount.u128() + sim.protocol_fee_amount.u128() + sim.burn_fee_amount.u128();
            let sp = sim.spread_amount.u128();
            if gross + sp > 0 {
                out.monitor_evals += 1;
                let s_eff = ms.unwrap_or(DEC / 100).min(DEC / 2);
                let ratio = cosmwasm_std::Uint256::from(sp) * cosmwasm_std::Uint256::from(DEC) / cosmwasm_std::Uint256::from(gross + sp);
                let within = ratio <= cosmwasm_std::Uint256::from(s_eff);
                match &r {
                    Ok(_) => if !within { out.monitor_fail("C15", "3pool swap succeeded with spread/(return+spread) above the max spread", replay.clone()); },
                    Err(e) => if within && fail_class(e) == Some(E_SLIPPAGE) { out.monitor_fail("C15", "3pool swap within the max spread was rejected for slippage", replay.clone()); },
                }
            }
        }
        if let (Some(q), Ok(_), Op::Swap { j, .. }) = (&quote, &r, &op) {
            out.monitor_evals += 1;
            let rc = receiver(&op).unwrap();
            let got = after.user[rc][*j] - before.user[rc][*j];
            match q {
                Ok(sim) => {
                    if sim.return_amount.u128() != got || sim.protocol_fee_amount.u128() != after.fee[*j] - before.fee[*j] || sim.burn_fee_amount.u128() != after.burn[*j] - before.burn[*j] {
                        out.monitor_fail("C14", &format!("3pool: simulation (return {}, protocol fee {}, burn fee {}) differs from the executed swap (received {}, ledger +{}, burned +{})",
                            sim.return_amount, sim.protocol_fee_amount, sim.burn_fee_amount, got, after.fee[*j] - before.fee[*j], after.burn[*j] - before.burn[*j]), replay.clone());
                    }
                }
                Err(_) => out.monitor_fail("C14", "3pool: simulation failed but the swap executed", replay.clone()),
            }
        }
        out.count(&format!("pool:{}:{}", op.kind(), match &r { Ok(_) => "ok", Err(e) => if fail_class(e).is_none() { "panic" } else { "rejected" } }));
        let mut cx = Ctx { out: &mut *out, replay: replay.clone(), fees: cur_fees };
        monitors(&mut cx, &op, r.is_ok(), &before, &after);
        // there and straight back: a successful swap i->j followed by the same user's swap j->i of exactly the proceeds
        if let (Ok(_), Op::Swap { u, i, j, x, .. }) = (&r, &op) {
            let rc = receiver(&op).unwrap();
            let got = after.user[rc][*j] - before.user[rc][*j];
            if let Some((lu, li, lj, lx, lgot, start_bal, start)) = last_swap.take() {
                if lu == *u && li == *j && lj == *i && lgot == *x {
                    out.monitor_evals += 1;
                    out.count("roundtrip:evaluated");
                    let end_bal = after.user[lu][li];
                    if end_bal > start_bal {
                        let profit = end_bal - start_bal;
                        let amp = amp_expected(start.cfg[0], start.cfg[1], start.height, start.cfg[2], start.cfg[3]);
                        let (r0, r1) = (reserves(&start), reserves(&before));
                        let allow = dust_allowance(amp, &[r0, r1]);
                        if b(profit) <= allow { out.known_hit("C04", KNOWN_DUST, &format!("swap there-and-back of {} returned {} more (rounding dust)", lx, profit), replay.clone()); }
                        else { out.monitor_fail("C04", &format!("swap there-and-back of {} returned a profit of {}", lx, profit), replay.clone()); }
                    }
                }
            }
            last_swap = Some((*u, *i, *j, *x, got, before.user[*u][*i], before.clone()));
            if h.fixed.is_none() && got > 0 && rng.chance(1, 3) && k < h.len {
                pending_back = Some(Op::Swap { u: *u, i: *j, j: *i, x: got, ms: Some(DEC / 2) });
            }
        } else { last_swap = None; }
        match &r {
            Ok(_) => {
                kinds_seen.insert(op.kind());
                obsv.push("0".into());
                let u = match &op { Op::Provide { u, .. } | Op::Withdraw { u, .. } | Op::Swap { u, .. } => Some(*u), _ => None };
                let rc = receiver(&op).filter(|rc| Some(*rc) != u);
                for i in 0..3 { obsv.push(match u { Some(u) => match rc {
                    Some(rc) => sdiff(after.user[u][i].saturating_add(after.user[rc][i]), before.user[u][i].saturating_add(before.user[rc][i])),
                    None => sdiff(after.user[u][i], before.user[u][i]) }, None => "0".into() }); }
                for i in 0..3 { obsv.push(sdiff(after.coll[i], before.coll[i])); }
            }
            Err(e) => match fail_class(e) { Some(c) => { obsv.push("1".into()); obsv.push(c.to_string()); } None => obsv.push("2".into()) },
        }
        obsv.extend(pool_obs(&after));
        items.push(op.coq());
    }
    if kinds_seen.len() >= 3 { out.nontrivial_key(hash_str(&items.join(";"))); }
    out.sample(replay.clone());
    let input = format!("(({}, {}, ({}, {}, {}), ({}, {}, {})), {})", h.amp, h_init, h.fees.0, h.fees.1, h.fees.2,
                        coqbool(h.kinds[0]), coqbool(h.kinds[1]), coqbool(h.kinds[2]), coqlist(&items));
    out.case("c04_pool", &input, &obsv, replay);
}

pub fn pool_histories(out: &mut Out, rng: &mut Rng, n: u64) {
    // corpus: the there-and-back dust witnesses on the real contract (zero fees)
    let corpus = vec![
        History { amp: 10, fees: (0, 0, 0), kinds: [false, false, false], len: 0, fixed: Some(vec![
            Op::Provide { u: 0, d: [98_406_000_000, 606_646_000_000, 877_641_000_000] },
            Op::Swap { u: 1, i: 1, j: 2, x: 1, ms: Some(DEC / 2) },
            Op::Swap { u: 1, i: 2, j: 1, x: 2, ms: Some(DEC / 2) },
        ]) },
        History { amp: 1000, fees: (DEC / 1000, 3 * DEC / 1000, DEC / 1000), kinds: [false, true, false], len: 0, fixed: Some(vec![
            Op::Provide { u: 0, d: [1_000_000_000, 1_000_000_000, 1_000_000_000] },
            Op::Swap { u: 1, i: 0, j: 1, x: 5_000_000, ms: None },
            Op::Swap { u: 2, i: 1, j: 2, x: 7_000_000, ms: None },
            Op::Collect,
            Op::Provide { u: 1, d: [10_000_000, 1, 500] },
            Op::Ramp { owner: true, fa: 100, fb: 30_000 },
            Op::Advance { dh: 5_000 },
            Op::Swap { u: 1, i: 2, j: 0, x: 9_000_000, ms: None },
            Op::Withdraw { u: 0, amount: 1_000_000_000 },
            Op::Collect,
        ]) },
        // a ramp that has COMPLETED: swaps (and their quotes) at and after the ramp's last block use the target amplification
        History { amp: 85, fees: (DEC / 1000, 3 * DEC / 1000, DEC / 1000), kinds: [false, true, false], len: 0, fixed: Some(vec![
            Op::Provide { u: 0, d: [1_000_000_000, 1_200_000_000, 900_000_000] },
            Op::Ramp { owner: true, fa: 400, fb: 30_000 },
            Op::Advance { dh: 15_000 },
            Op::Swap { u: 1, i: 0, j: 1, x: 50_000_000, ms: Some(DEC / 2) },     // during the ramp
            Op::Advance { dh: 20_000 },
            Op::Swap { u: 1, i: 1, j: 2, x: 236_000_000, ms: Some(DEC / 2) },    // after its end
            Op::Swap { u: 2, i: 2, j: 0, x: 77_000_003, ms: Some(DEC / 2) },
            Op::Provide { u: 1, d: [10_000_000, 10_000_000, 10_000_000] },
            Op::Ramp { owner: true, fa: 60, fb: 90_000 },
            Op::Advance { dh: 70_000 },
            Op::Swap { u: 2, i: 0, j: 2, x: 150_000_000, ms: Some(DEC / 2) },
            Op::Withdraw { u: 0, amount: 300_000_000 },
        ]) },
        // a collection while one asset's pending fee is above the 1000-unit minimum and another's is between 1 and 1000
        History { amp: 100, fees: (DEC / 1000, 3 * DEC / 1000, 0), kinds: [false, false, true], len: 0, fixed: Some(vec![
            Op::Provide { u: 0, d: [1_000_000_000, 1_000_000_000, 1_000_000_000] },
            Op::Swap { u: 1, i: 0, j: 1, x: 5_000_000, ms: None },      // ~5000 pending on asset 1
            Op::Swap { u: 2, i: 1, j: 2, x: 300_000, ms: None },        // ~300 pending on asset 2
            Op::Swap { u: 2, i: 2, j: 0, x: 1_000_300, ms: None },      // ~1000 pending on asset 0 (around the boundary)
            Op::Collect,
            Op::Collect,
            Op::Swap { u: 1, i: 0, j: 2, x: 800_000, ms: None },        // asset 2 now ~1100: collectable
            Op::Collect,
            Op::Withdraw { u: 0, amount: 500_000_000 },
        ]) },
        // the third asset is bought out of the pool with both others until it is scarce (the protocol fees of those swaps are pending in
        // it, several per cent of its reserve); the owner then switches the protocol fee off (somebody else tries first); deposits of the
        // abundant assets follow, the depositor leaves; later another schedule, a swap, fees off entirely, a one-sided deposit
        History { amp: 100, fees: (5 * DEC / 1000, DEC / 1000, 0), kinds: [false, false, false], len: 0, fixed: Some(vec![
            Op::Provide { u: 0, d: [1_000_000_000_000, 1_000_000_000_000, 1_000_000_000_000] },
            Op::Provide { u: 1, d: [30_000_000_000, 5_000_000_000, 1_000_000_000] },
            Op::Swap { u: 2, i: 0, j: 2, x: 450_000_000_000, ms: Some(DEC / 2) },
            Op::Swap { u: 2, i: 1, j: 2, x: 450_000_000_000, ms: Some(DEC / 2) },
            Op::Swap { u: 2, i: 0, j: 2, x: 60_000_000_000, ms: Some(DEC / 2) },
            Op::Swap { u: 2, i: 1, j: 2, x: 30_000_000_000, ms: Some(DEC / 2) },
            Op::Provide { u: 1, d: [10_000_000_000, 10_000_000_000, 1_000] },
            Op::SetFees { owner: false, f: (0, DEC / 1000, 0) },
            Op::SetFees { owner: true, f: (0, DEC / 1000, 0) },
            Op::Provide { u: 1, d: [1_000_000_000_000, 1_000_000_000_000, 1_000] },
            Op::Withdraw { u: 1, amount: u128::MAX },      // = everything the user holds (resolved when the step runs)
            Op::SetFees { owner: true, f: (DEC / 100, 0, DEC / 1000) },
            Op::Swap { u: 2, i: 2, j: 0, x: 40_000_000_000, ms: Some(DEC / 2) },
            Op::SetFees { owner: true, f: (DEC / 2, DEC / 2, 0) },     // sums to 100 %: refused
            Op::SetFees { owner: true, f: (0, 0, 0) },
            Op::Provide { u: 1, d: [1_000, 1_000, 500_000_000_000] },
            Op::Withdraw { u: 1, amount: u128::MAX },
        ]) },
        // a steep ramp (1000 -> 10000 over 10 000 blocks: the interpolated amplification moves in almost every block); quotes and swaps in
        // consecutive blocks of it, in its last blocks and after it, in an imbalanced pool
        History { amp: 1000, fees: (DEC / 1000, 3 * DEC / 1000, 0), kinds: [false, false, false], len: 0, fixed: Some(vec![
            Op::Provide { u: 0, d: [1_000_000_000_000, 1_000_000_000_000, 1_000_000_000_000] },
            Op::Swap { u: 2, i: 0, j: 2, x: 800_000_000_000, ms: Some(DEC / 2) },
            Op::Ramp { owner: true, fa: 10_000, fb: 22_345 },
            Op::Advance { dh: 3_000 },
            Op::Swap { u: 1, i: 1, j: 2, x: 100_000_000_000, ms: Some(DEC / 2) },
            Op::Advance { dh: 1 },
            Op::Swap { u: 1, i: 2, j: 0, x: 150_000_000_000, ms: Some(DEC / 2) },
            Op::Advance { dh: 1 },
            Op::Swap { u: 2, i: 0, j: 1, x: 90_000_000_000, ms: Some(DEC / 2) },
            Op::Advance { dh: 1 },
            Op::Swap { u: 1, i: 1, j: 2, x: 70_000_000_000, ms: Some(DEC / 2) },
            Op::Advance { dh: 1 },
            Op::Swap { u: 2, i: 0, j: 2, x: 200_000_000_000, ms: Some(DEC / 2) },
            Op::Advance { dh: 6_000 },
            Op::Swap { u: 1, i: 2, j: 1, x: 300_000_000_000, ms: Some(DEC / 2) },
            Op::Advance { dh: 1 },
            Op::Swap { u: 1, i: 0, j: 2, x: 50_000_000_000, ms: Some(DEC / 2) },
            Op::Advance { dh: 2_000 },
            Op::Swap { u: 2, i: 1, j: 2, x: 50_000_000_000, ms: Some(DEC / 2) },
            Op::Advance { dh: 1 },
            Op::Swap { u: 2, i: 2, j: 0, x: 50_000_000_000, ms: Some(DEC / 2) },
        ]) },
    ];
    for h in corpus { run_history(out, rng, &h); }
    // bank denoms are case-sensitive: a pool over two denoms that differ only in case keeps three separate ledgers
    let twins = History { amp: 100, fees: (DEC / 1000, 3 * DEC / 1000, DEC / 1000), kinds: [false, false, false], len: 0, fixed: Some(vec![
        Op::Provide { u: 0, d: [1_000_000_000, 1_000_000_000, 1_000_000_000] },
        Op::Swap { u: 1, i: 2, j: 0, x: 5_000_000, ms: None },
        Op::Swap { u: 2, i: 2, j: 1, x: 7_000_000, ms: None },
        Op::Swap { u: 1, i: 0, j: 1, x: 3_000_000, ms: None },
        Op::Collect,
        Op::Provide { u: 1, d: [10_000_000, 1, 500] },
        Op::Swap { u: 2, i: 1, j: 0, x: 9_000_000, ms: None },
        Op::Withdraw { u: 0, amount: 500_000_000 },
        Op::Collect,
    ]) };
    run_history_with(out, rng, &twins, [DENOMS[0], "UWHALE", DENOMS[2]]);
    for _ in 0..n {
        let amp = match rng.below(10) { 0 => 1, 1 => 2, 2 => 10, 3 => 85, 4 => 1_000_000, 5 => 1 + rng.below(1_000_000), _ => *rng.pick(&[100u64, 1000, 5000]) };
        let fees = if rng.chance(1, 4) { (0, 0, 0) } else { fee_triple(rng, true) };
        let kinds = [rng.chance(1, 3), rng.chance(1, 3), rng.chance(1, 3)];
        let len = 4 + rng.below(12) as usize;
        run_history(out, rng, &History { amp, fees, kinds, fixed: None, len });
    }
}
