include!(concat!(env!("OUT_DIR"), "/mods.rs"));

use common::Args;

fn main() {
    // silence panic backtraces of caught panics; messages are recorded by the harness
    if std::env::var("WWVERIF_DEBUG").is_err() && std::env::var("WWVERIF_PANICS").is_err() && std::env::var("VERIF_SHOW_PANICS").is_err() { std::panic::set_hook(Box::new(|_| {})); }
    let a: Vec<String> = std::env::args().collect();
    if a.len() < 2 { eprintln!("usage: wwverif <property> [--seed S] [--n N] [--out DIR] [--tier T] [--replay FILE]"); std::process::exit(2); }
    let mut args = Args { seed: 1, n: 100, out: "out".into(), replay: None, tier: "quick".into() };
    let mut i = 2;
    while i + 1 < a.len() + 0 && i < a.len() {
        match a[i].as_str() {
            "--seed" => { args.seed = a[i + 1].parse().unwrap_or(1); i += 2; }
            "--n" => { args.n = a[i + 1].parse().unwrap_or(100); i += 2; }
            "--out" => { args.out = a[i + 1].clone(); i += 2; }
            "--tier" => { args.tier = a[i + 1].clone(); i += 2; }
            "--replay" => { args.replay = Some(a[i + 1].clone()); i += 2; }
            _ => { i += 1; }
        }
    }
    if a[1]=="exp" { exp::run_exp(); return; }
    if !dispatch(a[1].as_str(), &args) { eprintln!("unknown property {}", a[1]); std::process::exit(2); }
}
