//! C12 — incentive flows are fully funded and fully returned: histories of open/expand/claim/close flow (plus the
//! position operations claims depend on) on the real incentive contract, all fee-asset / flow-asset kind combinations.
use crate::common::*;
use crate::g_incentive::*;
use crate::w_incentive::*;
use serde_json::json;

pub const NSTREAMS: u64 = 8;

fn cfg_base(lp: i64, fee_asset: i64) -> IncCfg {
    IncCfg { lp, fee_asset, fee: 1000, max_flows: 7, buffer: 14, min_unb: 86_400, max_unb: 31_556_926 }
}

/// hand-picked regression histories: the witnesses of the three repaired defects, and one history per kind combination
pub fn corpus() -> Vec<(&'static str, IncCfg, Vec<Op>)> {
    let honest = |cfg: &IncCfg, sender: i64, asset: i64, amount: u128, start: Option<u64>, end: Option<u64>| -> Op {
        let (funds, allow) = Gen::flow_recipe(cfg, asset, amount);
        Op::OpenFlow { sender, funds, allow, start, end, asset, amount, label: None }
    };
    let mut v = vec![];
    // (i) flow denom = fee denom: declared 501000, only the 1000 fee sent; close pays 500000 out of bob's flow
    let c = cfg_base(10, 0);
    v.push(("witness_open_unfunded", c.clone(), vec![
        honest(&c, 2, 0, 1_001_000, None, None),
        Op::OpenFlow { sender: 1, funds: vec![(0, 1000)], allow: vec![], start: None, end: None, asset: 0, amount: 501_000, label: None },
        Op::CloseFlow { sender: 1, ident: Ident::Id(2) },
        Op::CloseFlow { sender: 2, ident: Ident::Id(1) },
    ]));
    // overpayment in the same configuration: declared 2000 (flow 1000), sent 7000
    v.push(("witness_open_overpaid", c.clone(), vec![
        Op::OpenFlow { sender: 1, funds: vec![(0, 7000)], allow: vec![], start: None, end: None, asset: 0, amount: 2000, label: None },
        Op::CloseFlow { sender: 1, ident: Ident::Id(1) },
    ]));
    // a flow claimed to the last unit (one staker holds 100 % in every epoch and claims after the flow's last epoch), then closed by its
    // creator: for a native reward the zero refund is refused by the bank (the close fails, nothing changes); for a cw20 reward the close
    // succeeds - and then the flow is gone
    for (lp, asset) in [(10i64, 1i64), (3, 11), (10, 0)] {
        let c = cfg_base(lp, if asset == 0 { 1 } else { 0 });
        // the staker's weight counts from the epoch after the position is opened: position first, flow one epoch later
        let mut ops: Vec<Op> = vec![
            if lp == 10 { Op::OpenPosition { sender: 2, funds: vec![], allow: vec![(10, 5_000)], amount: 5_000, dur: 86_400, receiver: None } }
            else { Op::OpenPosition { sender: 2, funds: vec![(3, 5_000)], allow: vec![], amount: 5_000, dur: 86_400, receiver: None } },
            Op::NewEpoch, Op::Snapshot,
            honest(&c, 1, asset, 900_000, None, Some(6)),
        ];
        for _ in 0..6 { ops.push(Op::NewEpoch); ops.push(Op::Snapshot); }
        ops.extend(vec![Op::Claim { sender: 2 }, Op::Claim { sender: 2 }, Op::CloseFlow { sender: 1, ident: Ident::Id(1) }, Op::CloseFlow { sender: 1, ident: Ident::Id(1) },
                        honest(&c, 3, asset, 50_000, None, None)]);
        v.push(("fully_claimed_flow_closed", c.clone(), ops));
    }
    // the same address in two roles: the factory's fee collector (a treasury account) opens flows itself, paid out of the creation fees it
    // received for three earlier flows - a flow in the fee denom and one in another native denom; every fee still reaches the collector,
    // the contract holds exactly what its flows hold
    let c = cfg_base(10, 0);
    v.push(("fee_collector_opens_flows", c.clone(), vec![
        honest(&c, 1, 1, 40_000, None, None),
        honest(&c, 2, 0, 30_000, None, None),
        honest(&c, 3, 11, 20_000, None, None),
        Op::OpenFlow { sender: COLLECTOR_ID, funds: vec![(0, 2_500)], allow: vec![], start: None, end: None, asset: 0, amount: 2_500, label: None },
        Op::NewEpoch, Op::Snapshot,
        Op::CloseFlow { sender: COLLECTOR_ID, ident: Ident::Id(4) },
        Op::CloseFlow { sender: 2, ident: Ident::Id(2) },
        Op::CloseFlow { sender: 1, ident: Ident::Id(1) },
    ]));
    // a single claim spanning more than EPOCH_CLAIM_CAP (100) epochs: the capped claim must still book what it pays, the rest is
    // claimed by the next call, and closing refunds exactly funded - claimed
    let c = cfg_base(10, 0);
    let mut long: Vec<Op> = vec![
        honest(&c, 1, 1, 12_000_000, None, Some(121)),
        Op::OpenPosition { sender: 2, funds: vec![], allow: vec![(10, 5_000)], amount: 5_000, dur: 86_400, receiver: None },
        Op::OpenPosition { sender: 3, funds: vec![], allow: vec![(10, 2_500)], amount: 2_500, dur: 86_400, receiver: None },
    ];
    for _ in 0..104 { long.push(Op::NewEpoch); long.push(Op::Snapshot); }
    long.extend(vec![Op::Claim { sender: 2 }, Op::Claim { sender: 2 }, Op::Claim { sender: 3 }, Op::CloseFlow { sender: 1, ident: Ident::Id(1) }]);
    v.push(("claim_beyond_epoch_cap", c.clone(), long));
    // a flow expanded early (its funded amount then lives in the expansion record), a claim more than 100 epochs after that expansion,
    // then the close: the refund is still latest funded amount - claimed, and a new flow can be opened afterwards
    let c = cfg_base(10, 0);
    let mut late: Vec<Op> = vec![
        honest(&c, 1, 1, 9_000, None, Some(140)),
        Op::OpenPosition { sender: 2, funds: vec![], allow: vec![(10, 5_000)], amount: 5_000, dur: 86_400, receiver: None },
        Op::NewEpoch, Op::Snapshot,
        Op::ExpandFlow { sender: 1, funds: vec![(1, 20_000)], allow: vec![], ident: Ident::Id(1), end: None, asset: 1, amount: 20_000 },
    ];
    for _ in 0..104 { late.push(Op::NewEpoch); late.push(Op::Snapshot); }
    late.extend(vec![Op::Claim { sender: 2 }, Op::CloseFlow { sender: 1, ident: Ident::Id(1) }, honest(&c, 3, 1, 5_000, None, None), Op::NewEpoch, Op::Snapshot, Op::Claim { sender: 2 }]);
    v.push(("late_claim_then_close_of_an_expanded_flow", c.clone(), late));
    // a flow whose start epoch lies in the past, one staker who claimed before it existed and one who never claimed: whatever
    // the late claim does, the flow never pays more than it was funded with and the other flow's funds stay untouched
    let c = cfg_base(10, 0);
    let mut past: Vec<Op> = vec![
        Op::OpenPosition { sender: 1, funds: vec![], allow: vec![(10, 1_000)], amount: 1_000, dur: 86_400, receiver: None },
        Op::OpenPosition { sender: 2, funds: vec![], allow: vec![(10, 1_000)], amount: 1_000, dur: 86_400, receiver: None },
    ];
    for _ in 0..8 { past.push(Op::NewEpoch); past.push(Op::Snapshot); }
    past.push(Op::Claim { sender: 1 });
    past.push(Op::NewEpoch); past.push(Op::Snapshot);
    past.push(honest(&c, 3, 1, 1_200, Some(2), Some(12)));
    past.push(honest(&c, 3, 1, 100_000, None, Some(20)));
    past.extend(vec![Op::Claim { sender: 1 }, Op::NewEpoch, Op::Snapshot, Op::Claim { sender: 1 }, Op::Claim { sender: 2 },
                     Op::CloseFlow { sender: 3, ident: Ident::Id(1) }, Op::CloseFlow { sender: 3, ident: Ident::Id(2) }]);
    v.push(("flow_started_in_the_past", c.clone(), past));
    // round 8: a flow topped up in its very LAST epoch with the same end epoch (the expansion record is keyed one past the end epoch),
    // a claim, then the close: the refund is still latest funded amount - claimed; top-ups after the end are refused
    let c = cfg_base(10, 0);
    let mut last: Vec<Op> = vec![
        honest(&c, 1, 1, 5_000, None, Some(6)),
        Op::OpenPosition { sender: 2, funds: vec![], allow: vec![(10, 5_000)], amount: 5_000, dur: 86_400, receiver: None },
        Op::NewEpoch, Op::Snapshot, Op::Claim { sender: 2 },
    ];
    for k in 0..7u128 {
        last.push(Op::NewEpoch); last.push(Op::Snapshot);
        last.push(Op::ExpandFlow { sender: 1, funds: vec![(1, 2_500 + k)], allow: vec![], ident: Ident::Id(1), end: Some(6), asset: 1, amount: 2_500 + k });
    }
    last.extend(vec![Op::Claim { sender: 2 }, Op::CloseFlow { sender: 1, ident: Ident::Id(1) }]);
    v.push(("expanded_in_its_last_epoch_then_closed", c.clone(), last));
    for e in [3u64, 4, 5] {
        let c = cfg_base(10, 0);
        let mut l2: Vec<Op> = vec![
            honest(&c, 1, 1, 5_000, None, Some(e)),
            Op::OpenPosition { sender: 2, funds: vec![], allow: vec![(10, 5_000)], amount: 5_000, dur: 86_400, receiver: None },
        ];
        for _ in 0..(e - 1) { l2.push(Op::NewEpoch); l2.push(Op::Snapshot); }
        for d in 0..2u64 {
            l2.push(Op::ExpandFlow { sender: 1, funds: vec![(1, 2_500)], allow: vec![], ident: Ident::Id(1), end: Some(e), asset: 1, amount: 2_500 });
            if d == 0 { l2.push(Op::NewEpoch); l2.push(Op::Snapshot); }
        }
        l2.push(Op::CloseFlow { sender: 1, ident: Ident::Id(1) });
        v.push(("expanded_at_end_epoch_then_closed", c.clone(), l2));
    }
    // (ii) close of an expanded flow returns only the original amount
    let c = cfg_base(10, 0);
    v.push(("witness_close_expanded", c.clone(), vec![
        honest(&c, 1, 1, 1_000_000, None, None),
        Op::ExpandFlow { sender: 3, funds: vec![(1, 300_000)], allow: vec![], ident: Ident::Id(1), end: None, asset: 1, amount: 300_000 },
        Op::CloseFlow { sender: 1, ident: Ident::Id(1) },
    ]));
    // (iii) reset path with empty asset history takes the expansion amount as the flow amount
    let c = cfg_base(3, 0);
    v.push(("witness_reset_expansion_amount", c.clone(), vec![
        honest(&c, 2, 1, 5_000_000, None, None),
        honest(&c, 1, 1, 1000, None, Some(190)),
        Op::ExpandFlow { sender: 1, funds: vec![(1, 1_000_000)], allow: vec![], ident: Ident::Id(2), end: None, asset: 1, amount: 1_000_000 },
        Op::CloseFlow { sender: 1, ident: Ident::Id(2) },
        Op::CloseFlow { sender: 2, ident: Ident::Id(1) },
    ]));
    // claims between expansions, cw20 fee = cw20 flow asset
    let c = cfg_base(3, 11);
    v.push(("claims_between_expansions", c.clone(), vec![
        honest(&c, 1, 11, 1_001_000, None, Some(6)),
        Op::OpenPosition { sender: 2, funds: vec![(3, 5000)], allow: vec![], amount: 5000, dur: 86_400, receiver: None },
        Op::OpenPosition { sender: 3, funds: vec![(3, 7000)], allow: vec![], amount: 7000, dur: 15_778_463, receiver: None },
        Op::NewEpoch, Op::Snapshot, Op::Claim { sender: 2 },
        Op::ExpandFlow { sender: 4, funds: vec![], allow: vec![(11, 333_333)], ident: Ident::Id(1), end: None, asset: 11, amount: 333_333 },
        Op::NewEpoch, Op::Snapshot, Op::Claim { sender: 3 }, Op::Claim { sender: 2 },
        Op::ExpandFlow { sender: 4, funds: vec![], allow: vec![(11, 77)], ident: Ident::Id(1), end: Some(9), asset: 11, amount: 77 },
        Op::NewEpoch, Op::Snapshot, Op::Claim { sender: 3 },
        Op::CloseFlow { sender: 0, ident: Ident::Id(1) },
    ]));
    // flow in the LP asset next to staked LP (cw20 LP), native fee
    let c = cfg_base(10, 1);
    v.push(("lp_asset_flow", c.clone(), vec![
        honest(&c, 1, 10, 900_000, None, Some(4)),
        Op::OpenPosition { sender: 2, funds: vec![], allow: vec![(10, 40_000)], amount: 40_000, dur: 259_200, receiver: Some(3) },
        Op::NewEpoch, Op::Snapshot, Op::Claim { sender: 3 }, Op::NewEpoch, Op::Snapshot, Op::Claim { sender: 3 },
        Op::ClosePosition { sender: 3, dur: 259_200, now: START_TIME + 3 * 86_400 }, Op::Withdraw { sender: 3 },
        Op::CloseFlow { sender: 1, ident: Ident::Id(1) },
    ]));
    v
}

pub fn run(args: &Args) {
    let mut out = Out::new(&args.out);
    out.rule = "a history on a freshly deployed incentive contract (real incentive_factory + incentive + epoch mock); non-trivial = at least 3 \
                different operation kinds succeeded, among them an OpenFlow and one of ExpandFlow/Claim/CloseFlow; distinct = by hash of the op list".into();
    // Rng::new seeds linearly (seed s+1 is seed s shifted by one draw); decorrelate the seeds of this property
    let mut rng = Rng::new(hash64(&[args.seed as u128, 0xC13_5EED]));
    let focus = focus_c12();
    let mut none = |_: &mut Mon, _: &IncWorld, _: &Snap, _: &Op, _: bool, _: &Snap| {};
    if let Some(path) = &args.replay {
        if replay_kind(path) == "migration_probe" { replay_probe(&mut out, &mut |o| migration_probe(o)); }
        let j: serde_json::Value = serde_json::from_str(&std::fs::read_to_string(path).expect("replay file")).expect("json");
        let fi = j.get("failing_input").cloned().unwrap_or(j);
        let cfg: IncCfg = serde_json::from_value(fi["cfg"].clone()).expect("cfg");
        let ops: Vec<Op> = serde_json::from_value(fi["ops"].clone()).expect("ops");
        let r = run_case(&mut out, &mut rng, &cfg, ops, 0, &focus, "C12", "replay", &mut none);
        for f in &out.monitor_failures { println!("MONITOR-FAIL {}", f["what"]); }
        println!("replayed {} ops, {} monitor failures", r.map(|r| r.ops.len()).unwrap_or(0), out.monitor_failures.len());
        let bad = !out.monitor_failures.is_empty();
        out.finish();
        std::process::exit(if bad { 1 } else { 0 });
    }
    migration_probe(&mut out);
    let mut idx = 0u64;
    for (tag, cfg, ops) in corpus() {
        if let Some(r) = run_case(&mut out, &mut rng, &cfg, ops, 0, &focus, "C12", tag, &mut none) {
            out.sample(json!({"tag": tag, "cfg": cfg, "ops": r.ops}));
            emit_case(&mut out, "inc", idx, NSTREAMS, &cfg, &r, tag);
            idx += 1;
        }
    }
    for i in 0..args.n {
        let cfg = gen_cfg(&mut rng, i);
        let len = focus.len.0 + rng.below(focus.len.1 - focus.len.0 + 1);
        let pre = if rng.chance(2, 3) { preamble(&mut rng, &cfg, focus.big_amounts) } else { vec![] };
        if let Some(r) = run_case(&mut out, &mut rng, &cfg, pre, len, &focus, "C12", "generated", &mut none) {
            out.count(&format!("cfg:lp={} fee_asset={}", if cfg.lp < 10 { "native" } else { "cw20" }, if cfg.fee_asset == cfg.lp { "lp" } else if cfg.fee_asset < 10 { "native" } else { "cw20" }));
            if r.kinds.len() >= 3 && r.kinds.contains("OpenFlow") && (r.kinds.contains("ExpandFlow") || r.kinds.contains("Claim") || r.kinds.contains("CloseFlow")) {
                out.nontrivial_key(hash_str(&coq_ops(&r.ops)));
            }
            if i < 3 { out.sample(json!({"tag": "generated", "cfg": cfg, "ops": r.ops})); }
            emit_case(&mut out, "inc", idx, NSTREAMS, &cfg, &r, "generated");
            idx += 1;
        }
    }
    out.finish();
}

/// two unlabelled, never expanded flows (a native and a cw20 reward), stakers, epochs, claims (so that claimed amounts and emitted
/// tokens are non-zero); then the incentive's `migrate` from the 1.0.5 flow layout on a copy of its storage (migr.rs)
fn migration_probe(out: &mut Out) {
    for lp in [10i64, 3] {
        let c = cfg_base(lp, 0);
        let Ok(mut w) = IncWorld::deploy(&c) else { out.count("migration:incentive:deploy_failed"); continue };
        let flow = |asset: i64, amount: u128, end: u64, sender: i64| { let (funds, allow) = Gen::flow_recipe(&c, asset, amount); Op::OpenFlow { sender, funds, allow, start: None, end: Some(end), asset, amount, label: None } };
        let pos = |sender: i64, amount: u128| if lp == 10 { Op::OpenPosition { sender, funds: vec![], allow: vec![(10, amount)], amount, dur: 86_400, receiver: None } }
                                           else { Op::OpenPosition { sender, funds: vec![(3, amount)], allow: vec![], amount, dur: 86_400, receiver: None } };
        let mut ops = vec![pos(2, 5_000), pos(3, 2_500), Op::NewEpoch, Op::Snapshot, flow(1, 3_000_000, 20, 1), flow(11, 700_000, 15, 4)];
        for _ in 0..4 { ops.push(Op::NewEpoch); ops.push(Op::Snapshot); }
        ops.extend(vec![Op::Claim { sender: 2 }, Op::NewEpoch, Op::Snapshot, Op::Claim { sender: 3 }]);
        for o in &ops { let _ = w.exec(o); }
        crate::migr::probe_incentive(out, &w.app.dump_wasm_raw(&w.incentive));
    }
}
