//! Incentive family: history generator (reads the real contract's state to stay mostly valid), the case runner,
//! and the property monitors of C11 / C12 / C13 (independent arithmetic on balances and raw storage).
#![allow(dead_code)]
use crate::common::*;
use crate::w_incentive::*;
use serde_json::json;
use std::collections::{BTreeMap, VecDeque};

pub const DURS: [u64; 7] = [86_400, 86_401, 259_200, 1_000_000, 15_778_463, 31_556_925, 31_556_926];

#[derive(Clone)]
pub struct Focus {
    /// weights: NewEpoch, Snapshot, OpenFlow, ExpandFlow, CloseFlow, Claim, OpenPosition, ExpandPosition, ClosePosition, Withdraw, Donate
    pub w: [u64; 11],
    pub len: (u64, u64),
    pub big_amounts: bool,
    /// share (out of 100) of frontend-helper operations when the world has a helper
    pub helper_w: u64,
    /// Some((a0, a1)): deploy the world with a real pair over (a0, a1), its LP token (asset 10), and the frontend helper
    pub helper_assets: Option<(i64, i64)>,
}
pub fn focus_c12() -> Focus { Focus { w: [12, 8, 16, 13, 8, 14, 9, 4, 4, 3, 3], len: (14, 34), big_amounts: true, helper_w: 0, helper_assets: None } }
pub fn focus_c11() -> Focus { Focus { w: [8, 6, 5, 3, 3, 8, 18, 14, 14, 12, 4], len: (14, 34), big_amounts: true, helper_w: 0, helper_assets: None } }
pub fn focus_c11_helper() -> Focus { Focus { w: [6, 5, 4, 2, 2, 8, 12, 8, 16, 14, 3], len: (12, 28), big_amounts: false, helper_w: 38, helper_assets: Some((1, 11)) } }
pub fn focus_c13() -> Focus { Focus { w: [14, 12, 6, 4, 2, 20, 14, 10, 10, 3, 1], len: (18, 40), big_amounts: false, helper_w: 0, helper_assets: None } }

pub fn gen_cfg(rng: &mut Rng, i: u64) -> IncCfg {
    // the six fee/flow kind combinations need: native fee / cw20 fee, lp native / cw20
    let lp = if i % 2 == 0 { 3 } else { 10 };
    let fee_asset = match (i / 2) % 4 { 0 => 0, 1 => 11, 2 => if lp == 3 { 3 } else { 10 }, _ => 1 };
    // a zero creation fee only with a native fee asset (the bank refuses the zero transfer to the collector, so every OpenFlow must
    // fail); with a cw20 fee asset a zero TransferFrom depends on whether cw20-base still holds an allowance record - not modelled
    let fee = match rng.below(7) { 0 => 1, 1 => 999, 2 => 12_345, 3 if fee_asset < 10 => 0, _ => 1000 };
    let (min_unb, max_unb) = match rng.below(6) { 0 => (86_400, 259_200), 1 => (1_000, 31_556_926), 2 => (86_400, 40_000_000), _ => (86_400, 31_556_926) };
    IncCfg { lp, fee_asset, fee, max_flows: *rng.pick(&[1u64, 2, 3, 7, 7]), buffer: *rng.pick(&[0u64, 2, 14, 14]), min_unb, max_unb }
}

pub fn amount(rng: &mut Rng, big: bool) -> u128 {
    match rng.below(20) {
        0 => rng.range128(1, 999),
        1 => 1000,
        2 if big => magnitude(rng, 100),
        3 if big => magnitude(rng, 124),
        4 => 999_983,
        5..=9 => rng.range128(1000, 50_000),
        _ => rng.range128(1000, 5_000_000_000),
    }
}
fn small_amount(rng: &mut Rng, big: bool) -> u128 {
    match rng.below(12) { 0 => 1, 1 => 3, 2 if big => magnitude(rng, 110), 3 => 7, 4 => rng.range128(1, 50), _ => rng.range128(1, 2_000_000) }
}

pub struct Gen { pub pending: VecDeque<Op>, pub focus: Focus }

fn perturb(rng: &mut Rng, v: u128) -> u128 {
    match rng.below(6) { 0 | 1 => v.saturating_sub(1), 2 | 3 => v + 1, 4 => v / 2, _ => v + rng.range128(1, 5000) }
}
fn sort_coins(mut c: Coins) -> Coins { c.sort(); c.retain(|x| x.1 > 0); c }

impl Gen {
    pub fn new(focus: Focus) -> Self { Gen { pending: VecDeque::new(), focus } }

    /// exactly the funds / allowances a well-formed OpenFlow needs
    pub fn flow_recipe(cfg: &IncCfg, asset: i64, amount: u128) -> (Coins, Coins) {
        let (fa, fee) = (cfg.fee_asset, cfg.fee);
        let mut funds: Coins = vec![];
        let mut allow: Coins = vec![];
        if fa < 10 {
            if asset == fa { funds.push((fa, amount)); }
            else { funds.push((fa, fee)); if asset < 10 { funds.push((asset, amount)); } else { allow.push((asset, amount)); } }
        } else if asset == fa { allow.push((fa, amount)); }
        else { allow.push((fa, fee)); if asset < 10 { funds.push((asset, amount)); } else { allow.push((asset, amount)); } }
        (sort_coins(funds), sort_coins(allow))
    }

    pub fn next(&mut self, rng: &mut Rng, w: &IncWorld) -> Op {
        if let Some(op) = self.pending.pop_front() { return op; }
        let st = w.state();
        let cfg = w.cfg.clone();
        let cur = w.epoch();
        let big = self.focus.big_amounts;
        if w.helper.is_some() && rng.below(100) < self.focus.helper_w {
            let user = 1 + rng.below(4) as i64;
            if rng.chance(1, 8) {
                // stray tokens sent to the helper (LP only if the sender holds some)
                let asset = if w.bal(user, 10) > 0 && rng.chance(1, 2) { 10 } else { *rng.pick(&[w.pair_assets.0, w.pair_assets.1]) };
                let amount = if asset == 10 { rng.range128(1, w.bal(user, 10).min(1000)) } else { rng.range128(1, 5000) };
                return Op::Gift { sender: user, to: HELPER_ID, asset, amount };
            }
            let (a0, a1) = w.pair_assets;
            let (mut d0, mut d1) = match rng.below(10) { 0 => (rng.range128(0, 30), rng.range128(0, 30)), 1 => (1_000_000, 1), _ => (rng.range128(1000, 5_000_000), rng.range128(1000, 5_000_000)) };
            if rng.chance(1, 25) { d0 = 0; }
            if rng.chance(1, 25) { d1 = 0; }
            let existing = st.open.get(&w.name(user)).cloned().unwrap_or_default();
            let dur = if !existing.is_empty() && rng.chance(1, 2) { rng.pick(&existing).1 } else if rng.chance(1, 12) { *rng.pick(&[86_399u64, 40_000_000]) } else { *rng.pick(&DURS) };
            let mut funds: Coins = vec![]; let mut allow: Coins = vec![];
            for (a, d) in [(a0, d0), (a1, d1)] { if a < 10 { funds.push((a, d)); } else { allow.push((a, d)); } }
            if rng.chance(1, 5) {
                match rng.below(5) {
                    0 => if let Some(c) = allow.first_mut() { c.1 = perturb(rng, c.1); },
                    1 => if let Some(c) = funds.first_mut() { c.1 = perturb(rng, c.1); },
                    2 => { let d = rng.below(4) as i64; if !funds.iter().any(|c| c.0 == d) { funds.push((d, rng.range128(1, 5000))); } }
                    3 => { funds.clear(); }
                    _ => { allow.clear(); }
                }
            }
            return Op::HelperDeposit { user, funds: sort_coins(funds), allow: sort_coins(allow), a0, d0, a1, d1, dur, pair_ok: true, minted: 0 };
        }
        let total: u64 = self.focus.w.iter().sum();
        let mut k = rng.below(total);
        let mut kind = 0;
        for (i, x) in self.focus.w.iter().enumerate() { if k < *x { kind = i; break; } k -= *x; }
        // keep the stream mostly valid: redirect operations that cannot succeed in the current state (7 times out of 8)
        if rng.chance(7, 8) {
            let any_open = st.open.values().any(|v| !v.is_empty());
            let snap_taken = st.snap.contains_key(&cur);
            kind = match kind {
                1 if snap_taken => 5,
                2 if st.flows.len() as u64 >= cfg.max_flows => if rng.chance(1, 2) { 3 } else { 4 },
                3 | 4 if st.flows.is_empty() => 2,
                5 if !snap_taken => 1,
                7 | 8 if !any_open => 6,
                9 if !st.closed.values().any(|v| !v.is_empty()) => if any_open { 8 } else { 6 },
                k => k,
            };
        }
        let user = |rng: &mut Rng| -> i64 { if rng.chance(1, 12) { 0 } else { 1 + rng.below(4) as i64 } };
        match kind {
            0 => {
                if rng.chance(3, 4) { self.pending.push_back(Op::Snapshot); }
                if rng.chance(1, 6) { self.pending.push_front(Op::NewEpoch); }
                Op::NewEpoch
            }
            1 => Op::Snapshot,
            2 => {
                let sender = user(rng);
                let assets: [i64; 6] = [0, 1, 10, 11, cfg.lp, cfg.fee_asset];
                let asset = *rng.pick(&assets);
                let mut amt = amount(rng, big);
                if asset == cfg.fee_asset && rng.chance(1, 5) { amt = cfg.fee + rng.range128(990, 1010); }
                let start = match rng.below(20) { 0..=11 => None, 12..=16 => Some(cur + rng.below(cfg.buffer + 2)), 17 => Some(cur.saturating_sub(1 + rng.below(3))), _ => Some(cur) };
                let s = start.unwrap_or(cur);
                let end = match rng.below(20) { 0..=7 => None, 8..=14 => Some(s + 1 + rng.below(20)), 15..=17 => Some(s + 181 + rng.below(20)), 18 => Some(s), _ => Some(cur.saturating_sub(rng.below(2) + 1)) };
                let label = if rng.chance(2, 5) { Some(rng.below(3)) } else { None };
                let (mut funds, mut allow) = Gen::flow_recipe(&cfg, asset, amt);
                if rng.chance(3, 10) {
                    // directed corner cases of the payment: fee over/under-paid, flow amount off by one, only the fee, extra / missing coins
                    let fa = cfg.fee_asset;
                    let bump = |rng: &mut Rng, v: u128| -> u128 { match rng.below(5) { 0 => v + 1, 1 => v.saturating_sub(1), 2 => v * 2, 3 => v + rng.range128(2, 5000), _ => v / 2 } };
                    match rng.below(8) {
                        0 | 1 => { // the fee coin / fee allowance
                            if let Some(c) = funds.iter_mut().find(|c| c.0 == fa) { c.1 = bump(rng, c.1); }
                            else if let Some(c) = allow.iter_mut().find(|c| c.0 == fa) { c.1 = bump(rng, c.1); }
                        }
                        2 | 3 => { // the flow asset coin / allowance
                            if let Some(c) = funds.iter_mut().find(|c| c.0 == asset) { c.1 = bump(rng, c.1); }
                            else if let Some(c) = allow.iter_mut().find(|c| c.0 == asset) { c.1 = bump(rng, c.1); }
                        }
                        4 => { funds = sort_coins(vec![(fa.min(3), cfg.fee)]); }           // pay only the fee
                        5 => { let d = rng.below(4) as i64; if !funds.iter().any(|c| c.0 == d) { funds.push((d, rng.range128(1, 5000))); funds = sort_coins(funds); } }
                        6 => { if !funds.is_empty() { let i = rng.below(funds.len() as u64) as usize; funds.remove(i); } else { allow.clear(); } }
                        _ => { for c in allow.iter_mut() { c.1 += rng.range128(1, 3000); } }
                    }
                    funds = sort_coins(funds);
                }
                Op::OpenFlow { sender, funds, allow, start, end, asset, amount: amt, label }
            }
            3 => {
                let sender = user(rng);
                if st.flows.is_empty() || rng.chance(1, 12) {
                    let asset = *rng.pick(&[0i64, 10]);
                    let amt = small_amount(rng, false);
                    let (funds, allow) = if asset < 10 { (vec![(asset, amt)], vec![]) } else { (vec![], vec![(asset, amt)]) };
                    return Op::ExpandFlow { sender, funds, allow, ident: Ident::Id(st.counter + 1 + rng.below(2)), end: None, asset, amount: amt };
                }
                let f = rng.pick(&st.flows).clone();
                let ident = match &f.label { Some(l) if rng.chance(1, 2) => Ident::Label(l.trim_start_matches('L').parse().unwrap_or(0)), _ => Ident::Id(f.id) };
                let fasset = w.asset_id(&f.asset);
                let asset = if rng.chance(1, 14) { *rng.pick(&[0i64, 1, 10, 11]) } else { fasset };
                let amt = if rng.chance(1, 6) { amount(rng, big) } else { small_amount(rng, big) };
                let (_, lend) = f.latest();
                let end = match rng.below(10) { 0..=5 => None, 6..=7 => Some(lend + rng.below(30)), 8 => Some(lend + 170 + rng.below(30)), _ => Some(lend.saturating_sub(1 + rng.below(3))) };
                let (mut funds, mut allow): (Coins, Coins) = if asset < 10 { (vec![(asset, amt)], vec![]) } else { (vec![], vec![(asset, amt)]) };
                if rng.chance(1, 4) {
                    match rng.below(6) {
                        0 | 1 | 2 => if let Some(c) = funds.first_mut() { c.1 = perturb(rng, c.1); } else if let Some(c) = allow.first_mut() { c.1 = perturb(rng, c.1); },
                        3 => { funds.clear(); allow.clear(); }
                        4 => { let d = rng.below(4) as i64; if !funds.iter().any(|c| c.0 == d) { funds.push((d, rng.range128(1, 5000))); funds = sort_coins(funds); } }
                        _ => if let Some(c) = allow.first_mut() { c.1 += 1000; },
                    }
                }
                Op::ExpandFlow { sender, funds, allow, ident, end, asset, amount: amt }
            }
            4 => {
                if st.flows.is_empty() || rng.chance(1, 12) { return Op::CloseFlow { sender: user(rng), ident: Ident::Id(st.counter + rng.below(2)) }; }
                let f = rng.pick(&st.flows).clone();
                let ident = match &f.label { Some(l) if rng.chance(1, 2) => Ident::Label(l.trim_start_matches('L').parse().unwrap_or(0)), _ => Ident::Id(f.id) };
                let sender = match rng.below(10) { 0..=5 => w.id_of(&f.creator), 6..=7 => 0, _ => user(rng) };
                Op::CloseFlow { sender, ident }
            }
            5 => {
                let holders: Vec<i64> = USER_IDS.iter().copied().filter(|u| !st.awh.get(&w.name(*u)).cloned().unwrap_or_default().is_empty()
                    && st.last.get(&w.name(*u)) != Some(&cur)).collect();
                let sender = if !holders.is_empty() && rng.chance(9, 10) { *rng.pick(&holders) } else { user(rng) };
                if rng.chance(1, 10) { self.pending.push_back(Op::Claim { sender }); }
                Op::Claim { sender }
            }
            6 | 7 => {
                let sender = user(rng);
                let receiver = if rng.chance(3, 10) { Some(user(rng)) } else { None };
                let recv = receiver.unwrap_or(sender);
                let existing = st.open.get(&w.name(recv)).cloned().unwrap_or_default();
                let dur = if kind == 7 && !existing.is_empty() && rng.chance(6, 7) { rng.pick(&existing).1 }
                          else if rng.chance(1, 15) { *rng.pick(&[86_399u64, 1_000, 31_556_927, 40_000_000]) } else { *rng.pick(&DURS) };
                let amt = if rng.chance(1, 12) { 0 } else { small_amount(rng, big).max(if rng.chance(1, 2) { 1 } else { 1000 }) };
                let amt = if rng.chance(1, 3) { amount(rng, big) } else { amt };
                let (mut funds, mut allow): (Coins, Coins) = if cfg.lp < 10 { (sort_coins(vec![(cfg.lp, amt)]), vec![]) } else { (vec![], sort_coins(vec![(cfg.lp, amt)])) };
                if rng.chance(1, 5) {
                    match rng.below(6) {
                        0 | 1 | 2 => if let Some(c) = funds.first_mut() { c.1 = perturb(rng, c.1); } else if let Some(c) = allow.first_mut() { c.1 = perturb(rng, c.1); },
                        3 => { funds.clear(); allow.clear(); }
                        4 => { let d = rng.below(3) as i64; if !funds.iter().any(|c| c.0 == d) { funds.push((d, rng.range128(1, 5000))); funds = sort_coins(funds); } }
                        _ => if let Some(c) = allow.first_mut() { c.1 += 777; },
                    }
                }
                if kind == 6 { Op::OpenPosition { sender, funds, allow, amount: amt, dur, receiver } }
                else { Op::ExpandPosition { sender, funds, allow, amount: amt, dur, receiver } }
            }
            8 => {
                let holders: Vec<i64> = USER_IDS.iter().copied().filter(|u| !st.open.get(&w.name(*u)).cloned().unwrap_or_default().is_empty()).collect();
                let sender = if !holders.is_empty() && rng.chance(6, 7) { *rng.pick(&holders) } else { user(rng) };
                let existing = st.open.get(&w.name(sender)).cloned().unwrap_or_default();
                let dur = if !existing.is_empty() && rng.chance(9, 10) { rng.pick(&existing).1 } else { *rng.pick(&DURS) };
                let now = START_TIME + cur * 86_400 + rng.below(1000);
                if rng.chance(1, 3) { self.pending.push_back(Op::Withdraw { sender }); }
                Op::ClosePosition { sender, dur, now }
            }
            9 => {
                let holders: Vec<i64> = USER_IDS.iter().copied().filter(|u| !st.closed.get(&w.name(*u)).cloned().unwrap_or_default().is_empty()).collect();
                let sender = if !holders.is_empty() && rng.chance(4, 5) { *rng.pick(&holders) } else { user(rng) };
                Op::Withdraw { sender }
            }
            _ => Op::Donate { sender: user(rng), asset: *rng.pick(&ASSETS), amount: rng.range128(1, 100_000) },
        }
    }
}

// ---------------------------------------------------------------------------------------------------------
/// everything a monitor may look at, before and after an op
#[derive(Clone)]
pub struct Snap { pub st: IncState, pub bal: BTreeMap<(i64, i64), u128>, pub epoch: u64, pub rewards: BTreeMap<i64, Result<Vec<(i64, u128)>, String>> }
pub fn snap(w: &IncWorld) -> Snap {
    let mut bal = BTreeMap::new();
    for a in w.obs_accounts() { for s in ASSETS { bal.insert((a, s), w.bal(a, s)); } }
    let mut rewards = BTreeMap::new();
    for u in USER_IDS { rewards.insert(u, w.rewards(u)); }
    Snap { st: w.state(), bal, epoch: w.epoch(), rewards }
}
impl Snap {
    pub fn b(&self, acct: i64, asset: i64) -> u128 { *self.bal.get(&(acct, asset)).unwrap_or(&0) }
    pub fn staked(&self) -> u128 {
        self.st.open.values().flatten().map(|p| p.0).sum::<u128>() + self.st.closed.values().flatten().map(|p| p.0).sum::<u128>()
    }
    pub fn flow_outstanding(&self, w: &IncWorld, asset: i64) -> u128 {
        self.st.flows.iter().filter(|f| w.asset_id(&f.asset) == asset).map(|f| f.outstanding()).sum()
    }
    pub fn obligations(&self, w: &IncWorld, asset: i64) -> u128 {
        self.flow_outstanding(w, asset) + if asset == w.cfg.lp { self.staked() } else { 0 }
    }
    pub fn flow(&self, id: u64) -> Option<&FlowRec> { self.st.flows.iter().find(|f| f.id == id) }
    pub fn find(&self, ident: &Ident) -> Option<&FlowRec> {
        match ident {
            Ident::Id(i) => self.st.flows.iter().find(|f| f.id == *i),
            Ident::Label(l) => { let s = format!("L{}", l); self.st.flows.iter().find(|f| f.label.as_deref() == Some(s.as_str())) }
        }
    }
}

pub struct Mon<'a> { pub out: &'a mut Out, pub prop: &'static str, pub replay: serde_json::Value, pub fails: u64 }
impl<'a> Mon<'a> {
    pub fn check(&mut self, cond: bool, what: &str) {
        self.out.monitor_evals += 1;
        if !cond { self.fails += 1; self.out.monitor_fail(self.prop, what, self.replay.clone()); }
    }
}

fn d(a: u128, b: u128) -> i128 { a as i128 - b as i128 }

/// C12: flows funded and returned
pub fn monitor_c12(m: &mut Mon, w: &IncWorld, pre: &Snap, op: &Op, ok: bool, post: &Snap) {
    let cfg = &w.cfg;
    for a in ASSETS {
        m.check(post.b(SELF_ID, a) >= post.obligations(w, a),
            &format!("flow_cover: the contract holds {} of asset {} but owes {} (outstanding flow funds{})", post.b(SELF_ID, a), a, post.obligations(w, a), if a == cfg.lp { " + staked LP" } else { "" }));
    }
    for f in &post.st.flows { m.check(f.claimed <= f.latest().0, "claims_le_funded: a flow's claimed amount exceeds its funded amount"); }
    let q = w.flow_queries_disagree(&post.st);
    m.check(q.is_none(), &format!("flow_queries: {}", q.unwrap_or_default()));
    if !ok { return; }
    match op {
        Op::OpenFlow { asset, sender, .. } => {
            let f = post.flow(post.st.counter);
            m.check(f.is_some() && post.st.flows.len() == pre.st.flows.len() + 1, "open_flow succeeded but no new flow is recorded");
            if let Some(f) = f {
                m.check(d(post.b(SELF_ID, *asset), pre.b(SELF_ID, *asset)) == f.latest().0 as i128,
                    &format!("open_funds: flow records {} but the contract received {} of the flow asset", f.latest().0, d(post.b(SELF_ID, *asset), pre.b(SELF_ID, *asset))));
                // (when the fee collector itself opens the flow its fee comes straight back: all it loses is what the contract keeps for the flow)
                let want = if *sender == COLLECTOR_ID { -d(post.b(SELF_ID, cfg.fee_asset), pre.b(SELF_ID, cfg.fee_asset)) } else { cfg.fee as i128 };
                m.check(d(post.b(COLLECTOR_ID, cfg.fee_asset), pre.b(COLLECTOR_ID, cfg.fee_asset)) == want, "open_funds: the fee collector did not receive exactly the flow creation fee");
                m.check(f.claimed == 0, "open_flow: new flow has a non-zero claimed amount");
            }
        }
        Op::ExpandFlow { ident, asset, .. } => {
            let (f0, f1) = (pre.find(ident), pre.find(ident).and_then(|f| post.flow(f.id)));
            m.check(f1.is_some(), "expand_flow succeeded but the flow is gone");
            if let (Some(f0), Some(f1)) = (f0, f1) {
                let recv = d(post.b(SELF_ID, *asset), pre.b(SELF_ID, *asset));
                m.check(d(f1.outstanding(), f0.outstanding()) == recv,
                    &format!("expand_funds: funded-claimed went from {} to {} but the contract received {}", f0.outstanding(), f1.outstanding(), recv));
            }
        }
        Op::Claim { sender } => {
            for a in ASSETS {
                let paid: i128 = pre.st.flows.iter().filter(|f| w.asset_id(&f.asset) == a)
                    .map(|f| post.flow(f.id).map(|g| d(g.claimed, f.claimed)).unwrap_or(0)).sum();
                m.check(paid >= 0 && d(pre.b(SELF_ID, a), post.b(SELF_ID, a)) == paid, "claim: contract balance decrease differs from the increase of claimed amounts");
                if *sender != SELF_ID { m.check(d(post.b(*sender, a), pre.b(*sender, a)) == paid, "claim: payout to the claimer differs from the increase of claimed amounts"); }
            }
            for f in &pre.st.flows {
                let g = post.flow(f.id);
                m.check(g.map(|g| g.amount == f.amount && g.hist == f.hist && g.claimed >= f.claimed).unwrap_or(false), "claim changed a flow's funding or lowered claimed");
            }
        }
        Op::CloseFlow { sender, ident } => {
            if let Some(f) = pre.find(ident) {
                let creator = w.id_of(&f.creator);
                let a = w.asset_id(&f.asset);
                m.check(post.flow(f.id).is_none() && post.st.flows.len() + 1 == pre.st.flows.len(), "close_flow: flow not removed");
                m.check(*sender == creator || *sender == 0, "close_auth: flow closed by someone who is neither its creator nor the factory owner");
                m.check(d(post.b(creator, a), pre.b(creator, a)) == f.outstanding() as i128,
                    &format!("close_returns: creator received {} but funded-claimed was {}", d(post.b(creator, a), pre.b(creator, a)), f.outstanding()));
                for g in &pre.st.flows { if g.id != f.id { m.check(post.flow(g.id) == Some(g), "close_flow changed another flow"); } }
            } else { m.check(false, "close_flow succeeded on a non-existent flow"); }
        }
        _ => {}
    }
}

/// C11: custody of staked LP
pub fn monitor_c11(m: &mut Mon, w: &IncWorld, pre: &Snap, op: &Op, ok: bool, post: &Snap, exact: bool) {
    let lp = w.cfg.lp;
    let s0 = d(pre.b(SELF_ID, lp), pre.obligations(w, lp));
    let s1 = d(post.b(SELF_ID, lp), post.obligations(w, lp));
    m.check(s1 >= 0, &format!("custody: LP balance {} is below open+closed positions+LP flow funds {}", post.b(SELF_ID, lp), post.obligations(w, lp)));
    m.check(s1 >= s0, "custody: the unaccounted LP surplus decreased");
    let donation = matches!(op, Op::Donate { asset, .. } if *asset == lp);
    if exact && !donation { m.check(s1 == s0, &format!("custody: LP balance moved by {} more than positions and LP flow funds although the operation carried exact funds", s1 - s0)); }
    // staked LP can be taken out again: the owner of an open position with no rewards pending can close it (only then can Withdraw return it)
    if let (false, Op::ClosePosition { sender, dur, .. }) = (ok, op) {
        let has = pre.st.open.get(&w.name(*sender)).map(|v| v.iter().any(|p| p.1 == *dur && p.0 > 0)).unwrap_or(false);
        let nothing_pending = matches!(pre.rewards.get(sender), Some(Ok(v)) if v.iter().all(|x| x.1 == 0));
        if has && nothing_pending { m.check(false, &format!("locked: the owner of an open position (unbonding duration {}) with no rewards pending cannot close it", dur)); }
    }
    if !ok { return; }
    let others_same = |except: &str| -> bool {
        pre.st.open.iter().all(|(k, v)| k == except || post.st.open.get(k) == Some(v))
            && post.st.open.iter().all(|(k, v)| k == except || pre.st.open.get(k) == Some(v) || v.is_empty())
            && pre.st.closed.iter().all(|(k, v)| k == except || post.st.closed.get(k) == Some(v))
            && post.st.closed.iter().all(|(k, v)| k == except || pre.st.closed.get(k) == Some(v) || v.is_empty())
    };
    let sum = |v: Option<&Vec<(u128, u64)>>| -> u128 { v.map(|v| v.iter().map(|p| p.0).sum()).unwrap_or(0) };
    match op {
        Op::Withdraw { sender } => {
            let n = w.name(*sender);
            let owed = sum(pre.st.closed.get(&n));
            m.check(d(post.b(*sender, lp), pre.b(*sender, lp)) == owed as i128, "withdraw_own: payout differs from the sum of the sender's closed positions");
            m.check(d(pre.b(SELF_ID, lp), post.b(SELF_ID, lp)) == owed as i128, "withdraw_own: contract paid out something else than the sender's closed positions");
            m.check(sum(post.st.closed.get(&n)) == 0 && post.st.open.get(&n) == pre.st.open.get(&n), "withdraw: sender's closed positions not cleared or open positions touched");
            m.check(others_same(&n), "withdraw_own: another user's positions changed");
        }
        Op::OpenPosition { sender, amount, dur, receiver, .. } | Op::ExpandPosition { sender, amount, dur, receiver, .. } => {
            let recv = w.name(receiver.unwrap_or(*sender));
            m.check(d(post.b(SELF_ID, lp), pre.b(SELF_ID, lp)) == *amount as i128, "position_needs_funds: position grew without the stated LP amount being received");
            m.check(d(pre.b(*sender, lp), post.b(*sender, lp)) == *amount as i128, "position_needs_funds: the sender was not debited the stated LP amount");
            m.check(sum(post.st.open.get(&recv)) == sum(pre.st.open.get(&recv)) + amount, "position: receiver's open positions did not grow by the stated amount");
            let p0 = pre.st.open.get(&recv).and_then(|v| v.iter().find(|p| p.1 == *dur)).map(|p| p.0).unwrap_or(0);
            let p1 = post.st.open.get(&recv).and_then(|v| v.iter().find(|p| p.1 == *dur)).map(|p| p.0).unwrap_or(0);
            m.check(p1 == p0 + amount, "position: the addressed position did not grow by the stated amount");
            m.check(others_same(&recv) && post.st.closed.get(&recv) == pre.st.closed.get(&recv), "position: somebody else's positions changed");
        }
        Op::ClosePosition { sender, dur, .. } => {
            let n = w.name(*sender);
            let p0 = pre.st.open.get(&n).and_then(|v| v.iter().find(|p| p.1 == *dur)).map(|p| p.0).unwrap_or(0);
            m.check(sum(post.st.open.get(&n)) + p0 == sum(pre.st.open.get(&n)) && sum(post.st.closed.get(&n)) == sum(pre.st.closed.get(&n)) + p0,
                "close_position: amount not moved one-for-one from open to closed");
            m.check(others_same(&n), "close_position: another user's positions changed");
            m.check(post.b(SELF_ID, lp) == pre.b(SELF_ID, lp), "close_position moved LP tokens");
        }
        Op::HelperDeposit { user, dur, minted, .. } => {
            let n = w.name(*user);
            let staked = pre.b(HELPER_ID, lp) + *minted;
            m.check(post.b(HELPER_ID, lp) == 0, &format!("helper_keeps_nothing: the frontend helper still holds {} LP tokens after a deposit", post.b(HELPER_ID, lp)));
            for s in ASSETS { if s != lp { m.check(post.b(HELPER_ID, s) == pre.b(HELPER_ID, s), &format!("helper_keeps_nothing: the frontend helper's balance of asset {} changed from {} to {}", s, pre.b(HELPER_ID, s), post.b(HELPER_ID, s))); } }
            m.check(d(post.b(SELF_ID, lp), pre.b(SELF_ID, lp)) == staked as i128, "helper deposit: the incentive contract did not receive helper balance + minted LP");
            let p0 = pre.st.open.get(&n).and_then(|v| v.iter().find(|p| p.1 == *dur)).map(|p| p.0).unwrap_or(0);
            let p1 = post.st.open.get(&n).and_then(|v| v.iter().find(|p| p.1 == *dur)).map(|p| p.0).unwrap_or(0);
            m.check(p1 == p0 + staked, "helper deposit: the user's position did not grow by what the helper staked");
            m.check(others_same(&n) && post.st.closed.get(&n) == pre.st.closed.get(&n), "helper deposit: somebody else's positions changed");
        }
        _ => { m.check(post.st.open == pre.st.open && post.st.closed == pre.st.closed, "positions changed by an operation that is not a position operation"); }
    }
}

/// does the op attach exactly the funds it needs (no overpayment / unrelated coins)?
pub fn op_exact(cfg: &IncCfg, op: &Op) -> bool {
    match op {
        Op::OpenFlow { funds, asset, amount, .. } => { let (f, _) = Gen::flow_recipe(cfg, *asset, *amount); *funds == f }
        Op::ExpandFlow { funds, asset, amount, .. } => if *asset < 10 { *funds == vec![(*asset, *amount)] } else { funds.is_empty() },
        Op::OpenPosition { funds, amount, .. } | Op::ExpandPosition { funds, amount, .. } => if cfg.lp < 10 { *funds == vec![(cfg.lp, *amount)] } else { funds.is_empty() },
        Op::Donate { .. } => false,
        _ => true,
    }
}

/// a warm start: honest flows ending soon, a few positions, so that claims pay and expansions / closes meet claimed amounts
pub fn preamble(rng: &mut Rng, cfg: &IncCfg, big: bool) -> Vec<Op> {
    let mut v = vec![];
    let nflows = 1 + rng.below(cfg.max_flows.min(2));
    for _ in 0..nflows {
        let asset = *rng.pick(&[0i64, 1, 10, 11, cfg.lp, cfg.fee_asset]);
        let amt = if asset == cfg.fee_asset { cfg.fee + rng.range128(1000, 3_000_000) } else { rng.range128(1000, 3_000_000) };
        let (funds, allow) = Gen::flow_recipe(cfg, asset, amt);
        let end = match rng.below(4) { 0 => None, 1 => Some(1 + rng.below(4)), 2 => Some(2 + rng.below(10)), _ => Some(182 + rng.below(10)) };
        v.push(Op::OpenFlow { sender: 1 + rng.below(4) as i64, funds, allow, start: None, end, asset, amount: amt, label: if rng.chance(1, 3) { Some(rng.below(3)) } else { None } });
    }
    let durs: Vec<u64> = DURS.iter().copied().filter(|d| *d >= cfg.min_unb && *d <= cfg.max_unb).collect();
    for _ in 0..(1 + rng.below(3)) {
        let amt = if big && rng.chance(1, 10) { magnitude(rng, 100) } else { rng.range128(1, 100_000) };
        let (funds, allow): (Coins, Coins) = if cfg.lp < 10 { (vec![(cfg.lp, amt)], vec![]) } else { (vec![], vec![(cfg.lp, amt)]) };
        v.push(Op::OpenPosition { sender: 1 + rng.below(4) as i64, funds, allow, amount: amt, dur: *rng.pick(&durs), receiver: None });
    }
    v.push(Op::NewEpoch); v.push(Op::Snapshot);
    v
}

pub struct CaseResult { pub ops: Vec<Op>, pub obs: Vec<String>, pub ok_ops: u64, pub kinds: std::collections::BTreeSet<&'static str> }

/// run one history (scripted prefix, then generated ops) on a fresh deployment; monitors of `prop` run after every op
pub fn run_case(out: &mut Out, rng: &mut Rng, cfg: &IncCfg, script: Vec<Op>, gen_len: u64, focus: &Focus, prop: &'static str, tag: &str,
                extra: &mut dyn FnMut(&mut Mon, &IncWorld, &Snap, &Op, bool, &Snap)) -> Option<CaseResult> {
    let dep = match focus.helper_assets { Some((a0, a1)) => IncWorld::deploy_with_helper(cfg, a0, a1), None => IncWorld::deploy(cfg) };
    let mut w = match dep { Ok(w) => w, Err(e) => { out.count(&format!("deploy_failed:{}", &e[..e.len().min(40)])); return None; } };
    let mut g = Gen::new(focus.clone());
    for o in script.iter() { g.pending.push_back(o.clone()); }
    let total = script.len() as u64 + gen_len;
    let mut ops: Vec<Op> = vec![];
    let mut obs: Vec<String> = vec![];
    let mut ok_ops = 0;
    let mut kinds = std::collections::BTreeSet::new();
    let mut pre = snap(&w);
    for _ in 0..total {
        let mut op = g.next(rng, &w);
        let r = if matches!(op, Op::HelperDeposit { .. }) { w.exec_helper(&mut op) } else { w.exec(&op) };
        let ok = r.is_ok();
        let post = snap(&w);
        ops.push(op.clone());
        let replay = json!({"kind": "incentive_history", "tag": tag, "cfg": cfg, "helper_assets": focus.helper_assets, "ops": ops, "failing_step": ops.len() - 1,
                            "last_result": match &r { Ok(_) => "ok".to_string(), Err(e) => e.chars().take(160).collect() }});
        {
            let mut m = Mon { out, prop, replay, fails: 0 };
            if !ok {
                m.check(pre.st == post.st && pre.bal == post.bal, "a rejected operation changed state or balances");
            }
            match prop {
                "C12" => monitor_c12(&mut m, &w, &pre, &op, ok, &post),
                "C11" => monitor_c11(&mut m, &w, &pre, &op, ok, &post, op_exact(cfg, &op)),
                _ => {}
            }
            extra(&mut m, &w, &pre, &op, ok, &post);
        }
        out.count(&format!("op:{}:{}", op.kind(), if ok { "ok" } else { "rejected" }));
        if let Err(e) = &r {
            if std::env::var("VERIF_REJ").is_ok() { let t: String = e.rsplit(": ").next().unwrap_or("").chars().take(48).collect(); out.count(&format!("rej:{}:{}", op.kind(), t)); }
        }
        if ok {
            match &op {
                Op::Claim { .. } => { if pre.st.flows.iter().any(|f| post.flow(f.id).map(|g| g.claimed > f.claimed).unwrap_or(false)) { out.count("claim:paid_something"); } }
                Op::ExpandFlow { ident, .. } => { if let Some(f) = pre.find(ident) { if post.flow(f.id).map(|g| g.start != f.start).unwrap_or(false) { out.count("expand_flow:reset"); }
                                                  if !f.hist.is_empty() { out.count("expand_flow:repeated"); } } }
                Op::CloseFlow { ident, .. } => { if let Some(f) = pre.find(ident) { if !f.hist.is_empty() { out.count("close_flow:expanded"); } if f.claimed > 0 { out.count("close_flow:partly_claimed"); } } }
                Op::OpenFlow { asset, .. } => { out.count(&format!("open_flow:kinds fee={} flow={}", if cfg.fee_asset < 10 { "native" } else { "cw20" },
                                                  if *asset == cfg.fee_asset { "same" } else if *asset < 10 { "native" } else { "cw20" })); }
                _ => {}
            }
        }
        if ok { ok_ops += 1; kinds.insert(op.kind()); }
        obs.extend(w.observe(ok));
        pre = post;
    }
    Some(CaseResult { ops, obs, ok_ops, kinds })
}

pub fn emit_case(out: &mut Out, stream_base: &str, idx: u64, nstreams: u64, cfg: &IncCfg, r: &CaseResult, tag: &str) {
    emit_case_h(out, stream_base, idx, nstreams, cfg, r, tag, None)
}
pub fn emit_case_h(out: &mut Out, stream_base: &str, idx: u64, nstreams: u64, cfg: &IncCfg, r: &CaseResult, tag: &str, helper_assets: Option<(i64, i64)>) {
    let input = format!("({}, {})", cfg.coq(), coq_ops(&r.ops));
    let replay = json!({"kind": "incentive_history", "tag": tag, "cfg": cfg, "helper_assets": helper_assets, "ops": r.ops});
    out.case(&format!("{}{}", stream_base, idx % nstreams), &input, &r.obs, replay);
}
