//! router correspondence stream + C14/C15 monitors
use crate::common::*;
use crate::w_router::*;

pub fn run_stream(out: &mut Out, prop: &str, rng: &mut Rng, n: u64) {
    for k in 0..n {
        let mut case = gen_router_case(rng);
        if k < 2 { case.hops = vec![(0, false), (0, true)]; case.donate = [0; 3]; } // corpus: the revisit witness shape
        if k == 2 && prop == "C15" {
            // corpus: a 2-hop route A -> B -> C whose hops have a spread of about 1.9 % each, sent with max_spread 2.5 %: within the limit on every hop
            case.hops = vec![(0, false), (1, false)]; case.donate = [0; 3];
            case.liq = [(1_000_000_000, 1_000_000_000), (1_000_000_000, 1_000_000_000), (1_000_000_000, 1_000_000_000)];
            case.fees = [(DEC / 1000, 2 * DEC / 1000, 0); 3];
            case.offer = 20_000_000; case.max_spread = Some(DEC / 40); case.min_receive = None; case.cw20_c = false;
        }
        // choose a minimum_receive around the unconstrained outcome (C15)
        let base = match run_router(&case) { Some(r) => r, None => { out.count("router:deploy_failed"); continue } };
        if prop == "C15" {
            if let Outcome::Ok(got) = base.exec {
                case.min_receive = Some(match rng.below(5) { 0 => got, 1 => got + 1, 2 => got.saturating_sub(1), 3 => 0, _ => got / 2 });
            } else { case.min_receive = Some(1); }
        } else if rng.chance(1, 5) { case.min_receive = Some(rng.below128(case.offer + 1)); }
        let run = if case.min_receive.is_some() { match run_router(&case) { Some(r) => r, None => continue } } else { base_clone(&base) };
        let replay = case.json();
        out.monitor_evals += 1;
        out.count(&format!("router:hops{}:{}", case.hops.len(), match &run.exec { Outcome::Ok(_) => "ok".into(), Outcome::Err(c) => format!("err{}", c), Outcome::Panic(_) => "panic".to_string() }));
        if case.revisits() { out.count("router:revisit"); }
        if case.has_donation() { out.count("router:donation"); }
        if prop == "C14" {
            if let (Ok(s), Outcome::Ok(got)) = (&run.sim, &run.exec) {
                if s != got {
                    if case.revisits() { out.known_hit("C14", "route_revisits_pool", "router simulation differs from execution for a route passing twice through the same pair", replay.clone()); }
                    // funds somebody parked on the router join the hop (it swaps its whole balance): the property's equality is about routes
                    // executed by a router holding nothing else, and net proceeds are not monotone in the amount swapped (fee floors that
                    // step together), so neither = nor >= is claimed here; the model correspondence still compares these cases exactly
                    else if case.has_donation() { out.count("router:donation_not_compared"); }
                    else { out.monitor_fail("C14", "router simulation differs from what the receiver got", replay.clone()); }
                }
            }
            if let (Err(_), Outcome::Ok(_)) = (&run.sim, &run.exec) { if !case.has_donation() { out.monitor_fail("C14", "router simulation failed but execution succeeded", replay.clone()); } }
        }
        if prop == "C15" {
            if let (Some(m), Outcome::Ok(got)) = (case.min_receive, &run.exec) { if *got < m { out.monitor_fail("C15", "router swap succeeded below minimum_receive", replay.clone()); } }
            if let (Some(m), Outcome::Err(c), Outcome::Ok(got)) = (case.min_receive, &run.exec, &base.exec) {
                let _ = c;
                if *got >= m { out.monitor_fail("C15", "router swap delivering at least minimum_receive was rejected", replay.clone()); }
            }
        }
        // "requests within the limits are not rejected for slippage": a route (nothing parked on the router) refused for slippage although the
        // user's own hop-by-hop execution with the same max_spread goes through on every pair
        if prop == "C15" && !case.has_donation() && case.offer > 0 {
            if let Outcome::Err(c) = &base.exec {
                if *c == E_SLIPPAGE {
                    out.monitor_evals += 1;
                    if run_hops_directly(&case) == Some(true) { out.monitor_fail("C15", "a route was refused for slippage although every hop, executed directly with the same max spread, is accepted", replay.clone()); }
                    out.count("router:slippage_refusal_cross_checked");
                }
            }
        }
        if let Outcome::Ok(g) = &run.exec { if *g > 0 && case.hops.len() >= 2 { out.nontrivial_key(hash_str(&case.coq())); } }
        if k < 2 { out.sample(replay.clone()); }
        let mut obs: Vec<String> = match &run.sim { Ok(v) => vec!["0".into(), v.to_string()], Err(_) => vec!["1".into()] };
        match &run.exec {
            Outcome::Ok(g) => { obs.push("0".into()); obs.push(g.to_string()); for p in &run.pools { for v in p { obs.push(v.to_string()); } } }
            Outcome::Err(c) => { obs.push("1".into()); obs.push(c.to_string()); }
            Outcome::Panic(_) => obs.push("2".into()),
        }
        out.case("router", &case.coq(), &obs, replay);
    }
}
fn base_clone(r: &RouterRun) -> RouterRun {
    RouterRun { sim: r.sim.clone(), exec: match &r.exec { Outcome::Ok(v) => Outcome::Ok(*v), Outcome::Err(c) => Outcome::Err(*c), Outcome::Panic(s) => Outcome::Panic(s.clone()) }, pools: r.pools.clone() }
}
