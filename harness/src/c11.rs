//! C11 — incentive custody of staked LP: histories of open / expand / close / withdraw (directly, for a receiver, through the
//! frontend helper + a real pair), next to flows in the LP asset. Streams `inc*` (plain worlds) and `hlp*` (helper worlds).
use crate::common::*;
use crate::g_incentive::*;
use crate::w_incentive::*;
use serde_json::json;

pub const NSTREAMS: u64 = 6;
pub const HSTREAMS: u64 = 4;

fn cfg_base(lp: i64, fee_asset: i64) -> IncCfg {
    IncCfg { lp, fee_asset, fee: 1000, max_flows: 7, buffer: 14, min_unb: 86_400, max_unb: 31_556_926 }
}
fn pos(cfg: &IncCfg, open: bool, sender: i64, amount: u128, dur: u64, receiver: Option<i64>) -> Op {
    let (funds, allow): (Coins, Coins) = if cfg.lp < 10 { (vec![(cfg.lp, amount)], vec![]) } else { (vec![], vec![(cfg.lp, amount)]) };
    if open { Op::OpenPosition { sender, funds, allow, amount, dur, receiver } } else { Op::ExpandPosition { sender, funds, allow, amount, dur, receiver } }
}

pub fn corpus() -> Vec<(&'static str, IncCfg, Option<(i64, i64)>, Vec<Op>)> {
    let mut v = vec![];
    // receiver-directed deposits, later close / withdraw by each party; native LP with a flow in the LP asset
    let c = cfg_base(3, 0);
    let (ff, fa) = Gen::flow_recipe(&c, 3, 900_000);
    v.push(("receiver_directed_native_lp", c.clone(), None, vec![
        Op::OpenFlow { sender: 1, funds: ff, allow: fa, start: None, end: Some(4), asset: 3, amount: 900_000, label: None },
        pos(&c, true, 2, 40_000, 259_200, Some(3)), pos(&c, true, 1, 777, 86_400, None), pos(&c, false, 4, 5, 259_200, Some(3)),
        pos(&c, true, 3, 1, 259_200, Some(3)),
        Op::NewEpoch, Op::Snapshot, Op::Claim { sender: 3 },
        Op::ClosePosition { sender: 3, dur: 259_200, now: START_TIME + 86_400 }, Op::Withdraw { sender: 2 }, Op::Withdraw { sender: 3 },
        Op::ClosePosition { sender: 1, dur: 86_400, now: START_TIME + 86_400 }, Op::Withdraw { sender: 1 }, Op::Withdraw { sender: 1 },
        Op::CloseFlow { sender: 1, ident: Ident::Id(1) },
    ]));
    // two closed positions of one user whose unbonding timestamps coincide: close, re-open with the same duration and close again
    // in the same block; and durations 86 500 / 86 400 closed 100 seconds apart. Both must be withdrawable in full.
    for lp in [3i64, 10] {
        let c = cfg_base(lp, 0);
        v.push(("coinciding_unbonding_timestamps", c.clone(), None, vec![
            pos(&c, true, 1, 1_000, 86_400, None), pos(&c, true, 2, 555, 86_400, None),
            Op::ClosePosition { sender: 1, dur: 86_400, now: START_TIME + 50 },
            pos(&c, true, 1, 900, 86_400, None),
            Op::ClosePosition { sender: 1, dur: 86_400, now: START_TIME + 50 },
            pos(&c, true, 1, 300, 86_500, None), pos(&c, true, 1, 200, 86_400, None),
            Op::ClosePosition { sender: 1, dur: 86_500, now: START_TIME + 1_000 },
            Op::ClosePosition { sender: 1, dur: 86_400, now: START_TIME + 1_100 },
            Op::Withdraw { sender: 1 }, Op::Withdraw { sender: 1 }, Op::Withdraw { sender: 2 },
        ]));
    }
    // one address with 12 closed positions (12 different durations): a single Withdraw returns all of them
    let c = cfg_base(3, 0);
    let mut many: Vec<Op> = vec![];
    for k in 0..12u64 { many.push(pos(&c, true, 1, 100 + k as u128, 86_400 + k, None)); }
    many.push(pos(&c, true, 2, 999, 86_400, None));
    for k in 0..12u64 { many.push(Op::ClosePosition { sender: 1, dur: 86_400 + k, now: START_TIME + 10 + k }); }
    many.extend(vec![Op::Withdraw { sender: 1 }, Op::Withdraw { sender: 1 }, Op::Withdraw { sender: 2 }]);
    v.push(("twelve_closed_positions", c.clone(), None, many));
    // the same with a cw20 LP token, allowance larger than the amount, wrong funds
    let c = cfg_base(10, 1);
    v.push(("cw20_lp_allowances", c.clone(), None, vec![
        Op::OpenPosition { sender: 1, funds: vec![], allow: vec![(10, 5000)], amount: 4000, dur: 86_400, receiver: None },
        Op::OpenPosition { sender: 2, funds: vec![], allow: vec![(10, 3999)], amount: 4000, dur: 86_400, receiver: None },
        Op::ExpandPosition { sender: 2, funds: vec![(0, 5)], allow: vec![(10, 7)], amount: 7, dur: 86_400, receiver: Some(1) },
        Op::OpenPosition { sender: 3, funds: vec![], allow: vec![(10, 1u128 << 100)], amount: 1u128 << 100, dur: 31_556_926, receiver: None },
        Op::ClosePosition { sender: 1, dur: 86_400, now: START_TIME + 5 }, Op::Withdraw { sender: 1 },
    ]));
    // frontend helper: first deposit, stray LP in the helper swept into the next deposit, expand path, withdraw, direct re-stake
    let c = cfg_base(10, 0);
    let dep = |user: i64, d0: u128, d1: u128, dur: u64| Op::HelperDeposit { user, funds: vec![(1, d0)], allow: vec![(11, d1)], a0: 1, d0, a1: 11, d1, dur, pair_ok: true, minted: 0 };
    v.push(("helper_deposits", c.clone(), Some((1, 11)), vec![
        dep(2, 1_000_000, 1_000_000, 86_400),
        dep(3, 500_000, 700_000, 259_200),
        dep(2, 10_000, 10_000, 86_400),
        Op::ClosePosition { sender: 2, dur: 86_400, now: START_TIME + 5 }, Op::Withdraw { sender: 2 },
        Op::Gift { sender: 2, to: HELPER_ID, asset: 10, amount: 7 },
        Op::Gift { sender: 4, to: HELPER_ID, asset: 11, amount: 9 },
        dep(3, 3000, 3000, 259_200),
        pos(&c, true, 2, 100, 15_778_463, None),
        Op::HelperDeposit { user: 1, funds: vec![(1, 5000)], allow: vec![(11, 4999)], a0: 1, d0: 5000, a1: 11, d1: 5000, dur: 86_400, pair_ok: true, minted: 0 },
        Op::HelperDeposit { user: 1, funds: vec![(1, 4999)], allow: vec![(11, 5000)], a0: 1, d0: 5000, a1: 11, d1: 5000, dur: 86_400, pair_ok: true, minted: 0 },
        dep(1, 5000, 5000, 86_399),
    ]));
    v
}

pub fn run(args: &Args) {
    let mut out = Out::new(&args.out);
    out.rule = "a history on a fresh deployment (plain world: incentive + factory + epoch mock; helper world: + real constant-product pair and frontend helper); \
                non-trivial = positions were opened for at least two addresses and a ClosePosition and a Withdraw succeeded (plain), or at least two helper deposits \
                succeeded (helper world); distinct = by hash of the op list".into();
    // Rng::new seeds linearly (seed s+1 is seed s shifted by one draw); decorrelate the seeds of this property
    let mut rng = Rng::new(hash64(&[args.seed as u128, 0xC13_5EED]));
    let mut none = |_: &mut Mon, _: &IncWorld, _: &Snap, _: &Op, _: bool, _: &Snap| {};
    if let Some(path) = &args.replay {
        let j: serde_json::Value = serde_json::from_str(&std::fs::read_to_string(path).expect("replay file")).expect("json");
        let fi = j.get("failing_input").cloned().unwrap_or(j);
        let cfg: IncCfg = serde_json::from_value(fi["cfg"].clone()).expect("cfg");
        let ops: Vec<Op> = serde_json::from_value(fi["ops"].clone()).expect("ops");
        let ha: Option<(i64, i64)> = serde_json::from_value(fi["helper_assets"].clone()).unwrap_or(None);
        let mut focus = if ha.is_some() { focus_c11_helper() } else { focus_c11() };
        focus.helper_assets = ha;
        let r = run_case(&mut out, &mut rng, &cfg, ops, 0, &focus, "C11", "replay", &mut none);
        for f in &out.monitor_failures { println!("MONITOR-FAIL {}", f["what"]); }
        println!("replayed {} ops, {} monitor failures", r.map(|r| r.ops.len()).unwrap_or(0), out.monitor_failures.len());
        let bad = !out.monitor_failures.is_empty();
        out.finish();
        std::process::exit(if bad { 1 } else { 0 });
    }
    let (mut idx, mut hidx) = (0u64, 0u64);
    for (tag, cfg, ha, ops) in corpus() {
        let mut focus = if ha.is_some() { focus_c11_helper() } else { focus_c11() };
        focus.helper_assets = ha;
        if let Some(r) = run_case(&mut out, &mut rng, &cfg, ops, 0, &focus, "C11", tag, &mut none) {
            out.sample(json!({"tag": tag, "cfg": cfg, "helper_assets": ha, "ops": r.ops}));
            if ha.is_some() { emit_case_h(&mut out, "hlp", hidx, HSTREAMS, &cfg, &r, tag, ha); hidx += 1; }
            else { emit_case(&mut out, "inc", idx, NSTREAMS, &cfg, &r, tag); idx += 1; }
        }
    }
    for i in 0..args.n {
        let helper = i % 3 == 2;
        let mut cfg = gen_cfg(&mut rng, i);
        let mut focus = if helper { focus_c11_helper() } else { focus_c11() };
        if helper {
            cfg.lp = 10;
            if cfg.fee_asset == 3 { cfg.fee_asset = 0; }
            focus.helper_assets = Some(*rng.pick(&[(1i64, 11i64), (1, 2), (0, 2), (11, 2)]));
        }
        let len = focus.len.0 + rng.below(focus.len.1 - focus.len.0 + 1);
        let pre = if !helper && rng.chance(1, 3) { preamble(&mut rng, &cfg, focus.big_amounts) } else { vec![] };
        if let Some(r) = run_case(&mut out, &mut rng, &cfg, pre, len, &focus, "C11", "generated", &mut none) {
            let deposits = r.ops.iter().filter(|o| matches!(o, Op::HelperDeposit { .. })).count();
            out.count(if helper { "world:helper" } else if cfg.lp < 10 { "world:native_lp" } else { "world:cw20_lp" });
            let nt = if helper { r.kinds.contains("HelperDeposit") && deposits >= 2 }
                     else { r.kinds.contains("OpenPosition") && r.kinds.contains("ClosePosition") && r.kinds.contains("Withdraw") };
            if nt { out.nontrivial_key(hash_str(&coq_ops(&r.ops))); }
            if i < 3 { out.sample(json!({"tag": "generated", "cfg": cfg, "helper_assets": focus.helper_assets, "ops": r.ops})); }
            if helper { emit_case_h(&mut out, "hlp", hidx, HSTREAMS, &cfg, &r, "generated", focus.helper_assets); hidx += 1; }
            else { emit_case(&mut out, "inc", idx, NSTREAMS, &cfg, &r, "generated"); idx += 1; }
        }
    }
    out.finish();
}
