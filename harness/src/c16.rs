//! C16 — only the owner / the designated contract can perform privileged operations.
//! The COMPLETE matrix: every ExecuteMsg variant of the 14 message enums x 7 caller classes (original owner, new owner,
//! parent/factory contract, sibling contract, user, the contract itself, the designated contract of that variant)
//! x before / after ownership transfer, on the real contracts, each cell on a freshly deployed and identically prepared world,
//! with a full raw-storage + balance diff after every rejected call. Plus ownership-transfer histories per ownable contract.
use crate::common::*;
use crate::w_admin::*;
use cosmwasm_std::{coin, to_json_binary, Addr, Binary, Coin, CosmosMsg, Deps, DepsMut, Empty, Env, MessageInfo, Response, StdResult, WasmMsg};
use cw_multi_test::{App, AppResponse, BankSudo, Contract, ContractWrapper, Executor, SudoMsg};
use serde_json::{json, Value};
use white_whale_std::epoch_manager::epoch_manager::EpochV2;

pub const BOB: &str = "bob";
pub const CAROL: &str = "carol";

#[derive(Clone, Copy, PartialEq, Eq, Debug, PartialOrd, Ord)]
pub enum C { Pair, Trio, Factory, Router, Incentive, IncentiveFactory, Helper, Vault, VaultFactory, VaultRouter, Collector, Distributor, Lair, EpochManager }
pub const ALL_C: [C; 14] = [C::Pair, C::Trio, C::Factory, C::Router, C::Incentive, C::IncentiveFactory, C::Helper, C::Vault, C::VaultFactory,
    C::VaultRouter, C::Collector, C::Distributor, C::Lair, C::EpochManager];
impl C {
    pub fn coq(&self) -> &'static str {
        match self { C::Pair => "Pair", C::Trio => "Trio", C::Factory => "Factory", C::Router => "Router", C::Incentive => "Incentive",
            C::IncentiveFactory => "IncentiveFactory", C::Helper => "Helper", C::Vault => "Vault", C::VaultFactory => "VaultFactory",
            C::VaultRouter => "VaultRouter", C::Collector => "Collector", C::Distributor => "Distributor", C::Lair => "Lair", C::EpochManager => "EpochManager" }
    }
    pub fn is_child(&self) -> bool { matches!(self, C::Pair | C::Trio | C::Vault) }
}

#[derive(Clone, Copy, PartialEq, Eq, Debug)]
pub enum Who { Admin, NewAdmin, Parent, Sibling, User, SelfC, Designated }
pub const ALL_WHO: [Who; 7] = [Who::Admin, Who::NewAdmin, Who::Parent, Who::Sibling, Who::User, Who::SelfC, Who::Designated];
impl Who {
    pub fn coq(&self) -> &'static str {
        match self { Who::Admin => "CAdmin", Who::NewAdmin => "CNewAdmin", Who::Parent => "CParent", Who::Sibling => "CSibling",
            Who::User => "CUser", Who::SelfC => "CSelf", Who::Designated => "CDesignated" }
    }
}

// ---- a permissive dummy contract: migration target and epoch hook receiver ---------------------------------------------
#[cosmwasm_schema::cw_serde]
pub enum DummyExec { EpochChangedHook { current_epoch: EpochV2 } }
fn dummy_exec(_d: DepsMut, _e: Env, _i: MessageInfo, _m: DummyExec) -> StdResult<Response> { Ok(Response::default()) }
fn dummy_inst(_d: DepsMut, _e: Env, _i: MessageInfo, _m: Empty) -> StdResult<Response> { Ok(Response::default()) }
fn dummy_query(_d: Deps, _e: Env, _m: Empty) -> StdResult<Binary> { to_json_binary(&Empty {}) }
fn dummy_migrate(_d: DepsMut, _e: Env, _m: Empty) -> StdResult<Response> { Ok(Response::default()) }
fn dummy_contract() -> Box<dyn Contract<Empty>> {
    Box::new(ContractWrapper::new_with_empty(dummy_exec, dummy_inst, dummy_query).with_migrate(dummy_migrate))
}

/// the run's seed (VERIF_SEED): the randomised payloads (k = 2) derive from it
pub static SEED: std::sync::atomic::AtomicU64 = std::sync::atomic::AtomicU64::new(1);

pub struct W16 { pub w: World, pub dummy_code: u64, pub hook: Addr, pub phase: u8, pub failed_transfers: Vec<C>, pub sibling_ix: usize, pub seed: u64 }

pub fn exec_json(app: &mut App, sender: &Addr, contract: &Addr, msg: &Value, funds: &[Coin]) -> anyhow::Result<AppResponse> {
    let mut f = funds.to_vec();
    f.sort_by(|a, b| a.denom.cmp(&b.denom));
    app.execute(sender.clone(), CosmosMsg::Wasm(WasmMsg::Execute { contract_addr: contract.to_string(), msg: Binary::from(serde_json::to_vec(msg).unwrap()), funds: f }))
}
fn b64(v: &Value) -> String { Binary::from(serde_json::to_vec(v).unwrap()).to_base64() }
fn nat(d: &str) -> Value { json!({"native_token": {"denom": d}}) }
fn tok(a: &Addr) -> Value { json!({"token": {"contract_addr": a.to_string()}}) }
fn asset(info: Value, amount: u128) -> Value { json!({"info": info, "amount": amount.to_string()}) }
fn op(a: &str, b: &str) -> Value { json!({"terra_swap": {"offer_asset_info": nat(a), "ask_asset_info": nat(b)}}) }
fn fees_json(kind: &str) -> Value {
    json!({"protocol_fee": {"share": "0.001"}, kind: {"share": "0.002"}, "burn_fee": {"share": "0"}})
}
/// contracts acting as callers get moderate funds (the router swaps its whole balance)
const CONTRACT_FUNDS: u128 = 4_000_000;
fn mint(app: &mut App, to: &Addr) {
    let coins: Vec<Coin> = DENOMS8.iter().map(|d| coin(CONTRACT_FUNDS, *d)).collect();
    app.sudo(SudoMsg::Bank(BankSudo::Mint { to_address: to.to_string(), amount: coins })).unwrap();
}
fn must(r: anyhow::Result<AppResponse>, what: &str) { if let Err(e) = r { panic!("world16 setup step `{}` failed: {:#}", what, e); } }

/// phase 0: as deployed; 1: top-level ownerships moved to NEW_ADMIN; 2: children's (pair, trio, vault) ownership moved to NEW_ADMIN
pub fn world16(phase: u8) -> W16 {
    let mut w = full_world();
    let alice = Addr::unchecked(USER);
    let bob = Addr::unchecked(BOB);
    let adm = admin();
    for (_, a) in w.contracts() { mint(&mut w.app, &a); }
    mint(&mut w.app, &Addr::unchecked(CAROL));
    let big = 1_000_000_000u128;
    must(exec_json(&mut w.app, &alice, &w.pair.clone(), &json!({"provide_liquidity": {"assets": [asset(nat("uwhale"), big), asset(nat("uusdc"), big)], "slippage_tolerance": null, "receiver": null}}),
        &[coin(big, "uwhale"), coin(big, "uusdc")]), "pair liquidity");
    must(exec_json(&mut w.app, &alice, &w.trio.clone(), &json!({"provide_liquidity": {"assets": [asset(nat("uusdc"), big), asset(nat("uatom"), big), asset(nat("uluna"), big)], "slippage_tolerance": null, "receiver": null}}),
        &[coin(big, "uusdc"), coin(big, "uatom"), coin(big, "uluna")]), "trio liquidity");
    must(exec_json(&mut w.app, &alice, &w.vault.clone(), &json!({"deposit": {"amount": big.to_string()}}), &[coin(big, "uwhale")]), "vault deposit");
    for (lp, holder) in [(w.pair_lp.clone(), w.pair.clone()), (w.trio_lp.clone(), w.trio.clone()), (w.vault_lp.clone(), w.vault.clone())] {
        must(exec_json(&mut w.app, &alice, &lp, &json!({"transfer": {"recipient": holder.to_string(), "amount": "5000"}}), &[]), "lp transfer to its minter");
    }
    must(exec_json(&mut w.app, &adm, &w.router.clone(), &json!({"add_swap_routes": {"swap_routes": [{"offer_asset_info": nat("uwhale"), "ask_asset_info": nat("uusdc"), "swap_operations": [op("uwhale", "uusdc")]}]}}), &[]), "router route");
    must(exec_json(&mut w.app, &alice, &w.distributor.clone(), &json!({"new_epoch": {}}), &[]), "first epoch");
    // protocol fees accrue in the pair and the vault so that later epochs have something to distribute
    must(exec_json(&mut w.app, &alice, &w.pair.clone(), &json!({"swap": {"offer_asset": asset(nat("uusdc"), 20_000_000), "belief_price": null, "max_spread": "0.5", "to": null}}), &[coin(20_000_000, "uusdc")]), "fee generating swap");
    must(exec_json(&mut w.app, &bob, &w.incentive.clone(), &json!({"open_flow": {"start_epoch": null, "end_epoch": null, "curve": null, "flow_asset": asset(nat("uusdc"), 100_000), "flow_label": "bobflow"}}),
        &[coin(1000, "uwhale"), coin(100_000, "uusdc")]), "bob's flow");
    let dummy_code = w.app.store_code(dummy_contract());
    let hook = w.app.instantiate_contract(dummy_code, adm.clone(), &Empty {}, &[], "dummy", None).unwrap();
    must(exec_json(&mut w.app, &adm, &w.epoch_manager.clone(), &json!({"add_hook": {"contract_addr": hook.to_string()}}), &[]), "epoch hook");
    // the factory owner uses its CloseFlow right once BEFORE any ownership transfer (a contract that remembers who was
    // allowed the first time would keep honouring the previous owner afterwards): carol opens a flow, the admin closes it
    let carol = Addr::unchecked(CAROL);
    must(exec_json(&mut w.app, &carol, &w.incentive.clone(), &json!({"open_flow": {"start_epoch": null, "end_epoch": null, "curve": null, "flow_asset": asset(nat("uusdc"), 50_000), "flow_label": "carolflow"}}),
        &[coin(1000, "uwhale"), coin(50_000, "uusdc")]), "carol's flow");
    must(exec_json(&mut w.app, &adm, &w.incentive.clone(), &json!({"close_flow": {"flow_identifier": {"label": "carolflow"}}}), &[]), "factory owner closes carol's flow");
    let mut x = W16 { w, dummy_code, hook, phase, failed_transfers: vec![], sibling_ix: 0, seed: SEED.load(std::sync::atomic::Ordering::Relaxed) };
    if phase == 1 { x.transfer_top(); }
    if phase == 2 { x.transfer_children(); }
    if phase == 3 {
        // the same router code deployed WITHOUT a wasm admin (route management then has no owner at all)
        let r = x.w.app.instantiate_contract(x.w.codes.router, adm.clone(), &white_whale_std::pool_network::router::InstantiateMsg { terraswap_factory: x.w.factory.to_string() }, &[], "router_noadmin", None).unwrap();
        mint(&mut x.w.app, &r);
        must(exec_json(&mut x.w.app, &alice, &r, &json!({"add_swap_routes": {"swap_routes": [{"offer_asset_info": nat("uwhale"), "ask_asset_info": nat("uusdc"), "swap_operations": [op("uwhale", "uusdc")]}]}}), &[]), "route on the admin-less router");
        x.w.router = r;
    }
    x
}

impl W16 {
    pub fn addr(&self, c: C) -> Addr {
        let w = &self.w;
        match c { C::Pair => &w.pair, C::Trio => &w.trio, C::Factory => &w.factory, C::Router => &w.router, C::Incentive => &w.incentive,
            C::IncentiveFactory => &w.incentive_factory, C::Helper => &w.helper, C::Vault => &w.vault, C::VaultFactory => &w.vault_factory,
            C::VaultRouter => &w.vault_router, C::Collector => &w.collector, C::Distributor => &w.distributor, C::Lair => &w.lair, C::EpochManager => &w.epoch_manager }.clone()
    }
    /// the message that moves the ownership of `c` to `to` (sent to `target` by the current owner)
    pub fn transfer_msg(&self, c: C, to: &str) -> (Addr, Value) {
        let t = self.addr(c);
        match c {
            C::Factory => (t, json!({"update_config": {"owner": to, "fee_collector_addr": null, "token_code_id": null, "pair_code_id": null, "trio_code_id": null}})),
            C::IncentiveFactory => (t, json!({"update_config": {"owner": to, "fee_collector_addr": null, "fee_distributor_addr": null, "create_flow_fee": null, "max_concurrent_flows": null,
                "incentive_code_id": null, "max_flow_start_time_buffer": null, "min_unbonding_duration": null, "max_unbonding_duration": null}})),
            C::Helper => (t, json!({"update_config": {"incentive_factory_addr": null, "owner": to}})),
            C::VaultFactory => (t, json!({"update_config": {"owner": to, "fee_collector_addr": null, "vault_id": null, "token_id": null}})),
            C::VaultRouter => (t, json!({"update_config": {"owner": to, "vault_factory_addr": null}})),
            C::Collector => (t, json!({"update_config": {"owner": to, "pool_router": null, "fee_distributor": null, "pool_factory": null, "vault_factory": null, "take_rate": null, "take_rate_dao_address": null, "is_take_rate_active": null}})),
            C::Distributor => (t, json!({"update_config": {"owner": to, "bonding_contract_addr": null, "fee_collector_addr": null, "grace_period": null, "distribution_asset": null, "epoch_config": null}})),
            C::Lair => (t, json!({"update_config": {"owner": to, "unbonding_period": null, "growth_rate": null, "fee_distributor_addr": null}})),
            C::EpochManager => (t, json!({"update_config": {"owner": to, "epoch_config": null}})),
            C::Pair => (t, json!({"update_config": {"owner": to, "fee_collector_addr": null, "pool_fees": null, "feature_toggle": null}})),
            C::Trio => (t, json!({"update_config": {"owner": to, "fee_collector_addr": null, "pool_fees": null, "feature_toggle": null, "amp_factor": null}})),
            C::Vault => (t, json!({"update_config": {"flash_loan_enabled": null, "deposit_enabled": null, "withdraw_enabled": null, "new_owner": to, "new_vault_fees": null, "new_fee_collector_addr": null}})),
            C::Router | C::Incentive => (t, Value::Null),
        }
    }
    pub fn transfer_top(&mut self) {
        let adm = admin();
        for c in [C::Factory, C::IncentiveFactory, C::Helper, C::VaultFactory, C::VaultRouter, C::Collector, C::Distributor, C::Lair, C::EpochManager] {
            let (t, m) = self.transfer_msg(c, NEW_ADMIN);
            if exec_json(&mut self.w.app, &adm, &t, &m, &[]).is_err() { self.failed_transfers.push(c); }
        }
        // the router's owner is its wasm admin
        if self.w.app.execute(adm, CosmosMsg::Wasm(WasmMsg::UpdateAdmin { contract_addr: self.w.router.to_string(), admin: NEW_ADMIN.to_string() })).is_err() { self.failed_transfers.push(C::Router); }
    }
    pub fn transfer_children(&mut self) {
        let adm = admin();
        let (f, vf) = (self.w.factory.clone(), self.w.vault_factory.clone());
        let msgs = [
            (C::Pair, f.clone(), json!({"update_pair_config": {"pair_addr": self.w.pair.to_string(), "owner": NEW_ADMIN, "fee_collector_addr": null, "pool_fees": null, "feature_toggle": null}})),
            (C::Trio, f, json!({"update_trio_config": {"trio_addr": self.w.trio.to_string(), "owner": NEW_ADMIN, "fee_collector_addr": null, "pool_fees": null, "feature_toggle": null, "amp_factor": null}})),
            (C::Vault, vf, json!({"update_vault_config": {"vault_addr": self.w.vault.to_string(), "params": {"flash_loan_enabled": null, "deposit_enabled": null, "withdraw_enabled": null,
                "new_owner": NEW_ADMIN, "new_vault_fees": null, "new_fee_collector_addr": null}}})),
        ];
        for (c, target, m) in msgs {
            if exec_json(&mut self.w.app, &adm, &target, &m, &[]).is_err() { self.failed_transfers.push(c); }
        }
    }

    pub fn parent(&self, c: C) -> Addr {
        match c { C::Pair | C::Trio => self.w.factory.clone(), C::Incentive => self.w.incentive_factory.clone(), C::Vault => self.w.vault_factory.clone(),
                  C::Factory => self.w.vault_factory.clone(), _ => self.w.factory.clone() }
    }
    /// the other contracts of the world that may play `sibling contract` for target `c`: not the target, not its parent, not the designated
    /// contract of the variant, and not a pool the target itself trades through (the router and the helper act on the pair)
    pub fn sibling_pool(&self, c: C, variant: &str) -> Vec<Addr> {
        let me = self.addr(c);
        let (par, des) = (self.parent(c), self.designated(c, variant));
        let mut v: Vec<Addr> = vec![];
        // the default sibling first
        let first = if c == C::Trio { self.w.pair.clone() } else { self.w.trio.clone() };
        v.push(first);
        for (name, a) in self.w.contracts() {
            if a == me || a == par || a == des || v.contains(&a) { continue; }
            if matches!(name, "pair" | "pair_lp" | "trio_lp" | "vault_lp" | "cw20") { continue; }   // token contracts and the traded pair are state-involved callers
            v.push(a);
        }
        v
    }
    pub fn sibling(&self, c: C, variant: &str) -> Addr { let p = self.sibling_pool(c, variant); p[self.sibling_ix % p.len()].clone() }
    pub fn designated(&self, c: C, variant: &str) -> Addr {
        match (c, variant) {
            (C::Pair, "Receive") => self.w.pair_lp.clone(), (C::Trio, "Receive") => self.w.trio_lp.clone(), (C::Vault, "Receive") => self.w.vault_lp.clone(),
            (C::VaultRouter, "NextLoan") => self.w.vault.clone(), (C::Collector, "ForwardFees") => self.w.distributor.clone(),
            (C::Incentive, "CloseFlow") => Addr::unchecked(BOB),
            _ => Addr::unchecked(CAROL),
        }
    }
    pub fn who_addr(&self, c: C, variant: &str, who: Who) -> Addr {
        match who { Who::Admin => admin(), Who::NewAdmin => Addr::unchecked(NEW_ADMIN), Who::Parent => self.parent(c), Who::Sibling => self.sibling(c, variant),
                    Who::User => Addr::unchecked(USER), Who::SelfC => self.addr(c), Who::Designated => self.designated(c, variant) }
    }

    /// give `a` everything an ordinary participant may need: funds, LP tokens of pair / trio / vault, an incentive position, a bond
    pub fn prepare_actor(&mut self, a: &Addr, out: &mut Out) -> bool {
        let mut complete = true;
        let m = 1_000_000u128;
        let w = &mut self.w;
        let steps: Vec<(&str, Addr, Value, Vec<Coin>)> = vec![
            ("pair_lp", w.pair.clone(), json!({"provide_liquidity": {"assets": [asset(nat("uwhale"), m), asset(nat("uusdc"), m)], "slippage_tolerance": null, "receiver": null}}), vec![coin(m, "uwhale"), coin(m, "uusdc")]),
            ("trio_lp", w.trio.clone(), json!({"provide_liquidity": {"assets": [asset(nat("uusdc"), m), asset(nat("uatom"), m), asset(nat("uluna"), m)], "slippage_tolerance": null, "receiver": null}}), vec![coin(m, "uusdc"), coin(m, "uatom"), coin(m, "uluna")]),
            ("vault_lp", w.vault.clone(), json!({"deposit": {"amount": m.to_string()}}), vec![coin(m, "uwhale")]),
            ("lp_allowance", w.pair_lp.clone(), json!({"increase_allowance": {"spender": w.incentive.to_string(), "amount": "100000", "expires": null}}), vec![]),
            ("position", w.incentive.clone(), json!({"open_position": {"amount": "5000", "unbonding_duration": 86400, "receiver": null}}), vec![]),
            ("bond", w.lair.clone(), json!({"bond": {"asset": asset(nat("uwhale"), 1000)}}), vec![coin(1000, "uwhale")]),
            ("unbond", w.lair.clone(), json!({"unbond": {"asset": asset(nat("uwhale"), 200)}}), vec![]),
        ];
        for (name, target, msg, funds) in steps {
            let app = &mut w.app;
            let r = run_catch(|| exec_json(app, a, &target, &msg, &funds), |e| { if std::env::var("WWVERIF_PREP").is_ok() { eprintln!("{:#}", e); } E_OTHER });
            if let Outcome::Err(_) = &r { if std::env::var("WWVERIF_PREP").is_ok() { eprintln!("prepare step {name} failed for {a}"); } }
            if !matches!(r, Outcome::Ok(_)) { out.count(&format!("prepare_failed:{name}")); complete = false; }
        }
        complete
    }
}

/// advance_s: seconds the block time moves before the call; pre_epochs: number of (one day passes, someone calls the distributor's NewEpoch) rounds before it
/// pre: a message the current owner of another contract sends before the call (part of the world's preparation, the same for every caller)
pub struct Payload { pub variant: &'static str, pub k: usize, pub msg: Value, pub funds: Vec<Coin>, pub advance_s: u64, pub pre_epochs: u32, pub pre: Option<(C, Value)> }
fn p(variant: &'static str, k: usize, msg: Value, funds: Vec<Coin>) -> Payload { Payload { variant, k, msg, funds, advance_s: 0, pre_epochs: 0, pre: None } }

const DAY_S: u64 = 86_400;

/// every ExecuteMsg variant of `c` with at least one payload that is valid for an authorised, prepared caller `a`
pub fn payloads(x: &W16, c: C, a: &Addr) -> Vec<Payload> {
    let mut v = payloads_fixed(x, c, a);
    // randomised payloads: every payload that sets several optional fields gets a sibling (k = 2) in which a seeded random subset of them is left out
    let mut extra = vec![];
    for pl in v.iter().filter(|p| p.k == 1) {
        let mut rng = Rng::new(x.seed ^ hash_str(&format!("{}{}", c.coq(), pl.variant)));
        let mut msg = pl.msg.clone();
        let mut changed = false;
        if let Some(obj) = msg.as_object_mut() {
            for (_, inner) in obj.iter_mut() {
                if let Some(fields) = inner.as_object_mut() {
                    for (_, val) in fields.iter_mut() { if !val.is_null() && rng.chance(1, 2) { *val = Value::Null; changed = true; } }
                }
            }
        }
        if changed && pl.variant == "UpdateConfig" { extra.push(Payload { variant: pl.variant, k: 2, msg, funds: pl.funds.clone(), advance_s: pl.advance_s, pre_epochs: pl.pre_epochs, pre: pl.pre.clone() }); }
    }
    v.extend(extra);
    v
}

fn payloads_fixed(x: &W16, c: C, a: &Addr) -> Vec<Payload> {
    let w = &x.w;
    let me = a.to_string();
    let nulls_pair = json!({"owner": null, "fee_collector_addr": null, "pool_fees": null, "feature_toggle": null});
    match c {
        C::Pair => vec![
            p("Receive", 0, json!({"receive": {"sender": me, "amount": "1000", "msg": b64(&json!({"withdraw_liquidity": {}}))}}), vec![]),
            p("ProvideLiquidity", 0, json!({"provide_liquidity": {"assets": [asset(nat("uwhale"), 500_000), asset(nat("uusdc"), 500_000)], "slippage_tolerance": null, "receiver": null}}), vec![coin(500_000, "uwhale"), coin(500_000, "uusdc")]),
            p("WithdrawLiquidity", 0, json!({"withdraw_liquidity": {}}), vec![]),
            p("WithdrawLiquidity", 1, json!({"withdraw_liquidity": {}}), vec![coin(10, "uwhale")]),
            p("Swap", 0, json!({"swap": {"offer_asset": asset(nat("uwhale"), 1000), "belief_price": null, "max_spread": null, "to": null}}), vec![coin(1000, "uwhale")]),
            p("UpdateConfig", 0, json!({"update_config": nulls_pair}), vec![]),
            p("UpdateConfig", 1, json!({"update_config": {"owner": null, "fee_collector_addr": me, "pool_fees": fees_json("swap_fee"), "feature_toggle": {"withdrawals_enabled": true, "deposits_enabled": false, "swaps_enabled": true}}}), vec![]),
            p("CollectProtocolFees", 0, json!({"collect_protocol_fees": {}}), vec![]),
        ],
        C::Trio => vec![
            p("Receive", 0, json!({"receive": {"sender": me, "amount": "1000", "msg": b64(&json!({"withdraw_liquidity": {}}))}}), vec![]),
            p("ProvideLiquidity", 0, json!({"provide_liquidity": {"assets": [asset(nat("uusdc"), 500_000), asset(nat("uatom"), 500_000), asset(nat("uluna"), 500_000)], "slippage_tolerance": null, "receiver": null}}),
                vec![coin(500_000, "uusdc"), coin(500_000, "uatom"), coin(500_000, "uluna")]),
            p("WithdrawLiquidity", 0, json!({"withdraw_liquidity": {}}), vec![]),
            p("Swap", 0, json!({"swap": {"offer_asset": asset(nat("uusdc"), 1000), "ask_asset": nat("uatom"), "belief_price": null, "max_spread": null, "to": null}}), vec![coin(1000, "uusdc")]),
            p("UpdateConfig", 0, json!({"update_config": {"owner": null, "fee_collector_addr": null, "pool_fees": null, "feature_toggle": null, "amp_factor": null}}), vec![]),
            p("UpdateConfig", 1, json!({"update_config": {"owner": null, "fee_collector_addr": null, "pool_fees": fees_json("swap_fee"), "feature_toggle": null, "amp_factor": {"future_a": 200, "future_block": 100_000}}}), vec![]),
            p("CollectProtocolFees", 0, json!({"collect_protocol_fees": {}}), vec![]),
        ],
        C::Factory => vec![
            p("UpdateConfig", 0, json!({"update_config": {"owner": null, "fee_collector_addr": null, "token_code_id": null, "pair_code_id": null, "trio_code_id": null}}), vec![]),
            p("UpdateConfig", 1, json!({"update_config": {"owner": null, "fee_collector_addr": me, "token_code_id": 77, "pair_code_id": null, "trio_code_id": null}}), vec![]),
            p("UpdatePairConfig", 0, json!({"update_pair_config": {"pair_addr": w.pair.to_string(), "owner": null, "fee_collector_addr": null, "pool_fees": fees_json("swap_fee"), "feature_toggle": null}}), vec![]),
            p("UpdateTrioConfig", 0, json!({"update_trio_config": {"trio_addr": w.trio.to_string(), "owner": null, "fee_collector_addr": null, "pool_fees": fees_json("swap_fee"), "feature_toggle": null, "amp_factor": null}}), vec![]),
            p("CreatePair", 0, json!({"create_pair": {"asset_infos": [nat("uatom"), nat("ubtc")], "pool_fees": fees_json("swap_fee"), "pair_type": "constant_product", "token_factory_lp": false}}), vec![]),
            p("CreateTrio", 0, json!({"create_trio": {"asset_infos": [nat("uwhale"), nat("ubtc"), nat("ujuno")], "pool_fees": fees_json("swap_fee"), "amp_factor": 50, "token_factory_lp": false}}), vec![]),
            p("AddNativeTokenDecimals", 0, json!({"add_native_token_decimals": {"denom": "unew", "decimals": 6}}), vec![]),
            p("MigratePair", 0, json!({"migrate_pair": {"contract": w.pair.to_string(), "code_id": x.dummy_code}}), vec![]),
            p("MigrateTrio", 0, json!({"migrate_trio": {"contract": w.trio.to_string(), "code_id": x.dummy_code}}), vec![]),
            p("RemovePair", 0, json!({"remove_pair": {"asset_infos": [nat("uusdc"), nat("uwhale")]}}), vec![]),
            p("RemoveTrio", 0, json!({"remove_trio": {"asset_infos": [nat("uluna"), nat("uusdc"), nat("uatom")]}}), vec![]),
        ],
        C::Router => vec![
            p("Receive", 0, json!({"receive": {"sender": me, "amount": "1000", "msg": b64(&json!({"execute_swap_operations": {"operations": [op("uwhale", "uusdc")], "minimum_receive": null, "to": null, "max_spread": null}}))}}), vec![coin(1000, "uwhale")]),
            p("ExecuteSwapOperations", 0, json!({"execute_swap_operations": {"operations": [op("uwhale", "uusdc")], "minimum_receive": "1", "to": null, "max_spread": null}}), vec![coin(1000, "uwhale")]),
            p("ExecuteSwapOperation", 0, json!({"execute_swap_operation": {"operation": op("uwhale", "uusdc"), "to": null, "max_spread": null}}), vec![coin(1000, "uwhale")]),
            p("AssertMinimumReceive", 0, json!({"assert_minimum_receive": {"asset_info": nat("uwhale"), "prev_balance": "0", "minimum_receive": "1", "receiver": me}}), vec![]),
            p("AddSwapRoutes", 0, json!({"add_swap_routes": {"swap_routes": [{"offer_asset_info": nat("uusdc"), "ask_asset_info": nat("uwhale"), "swap_operations": [op("uusdc", "uwhale")]}]}}), vec![]),
            p("RemoveSwapRoutes", 0, json!({"remove_swap_routes": {"swap_routes": [{"offer_asset_info": nat("uwhale"), "ask_asset_info": nat("uusdc"), "swap_operations": [op("uwhale", "uusdc")]}]}}), vec![]),
            // the same removal after the pool factory has dropped the pair the stored route goes through (a stale route)
            Payload { pre: Some((C::Factory, json!({"remove_pair": {"asset_infos": [nat("uusdc"), nat("uwhale")]}}))),
                      ..p("RemoveSwapRoutes", 3, json!({"remove_swap_routes": {"swap_routes": [{"offer_asset_info": nat("uwhale"), "ask_asset_info": nat("uusdc"), "swap_operations": [op("uwhale", "uusdc")]}]}}), vec![]) },
        ],
        C::Incentive => vec![
            Payload { advance_s: DAY_S + 1, ..p("TakeGlobalWeightSnapshot", 0, json!({"take_global_weight_snapshot": {}}), vec![]) },
            p("OpenFlow", 0, json!({"open_flow": {"start_epoch": null, "end_epoch": null, "curve": null, "flow_asset": asset(nat("uusdc"), 50_000), "flow_label": "another"}}), vec![coin(1000, "uwhale"), coin(50_000, "uusdc")]),
            p("CloseFlow", 0, json!({"close_flow": {"flow_identifier": {"id": 1}}}), vec![]),
            p("CloseFlow", 1, json!({"close_flow": {"flow_identifier": {"label": "bobflow"}}}), vec![]),
            p("OpenPosition", 0, json!({"open_position": {"amount": "1000", "unbonding_duration": 172_800, "receiver": null}}), vec![]),
            p("ExpandPosition", 0, json!({"expand_position": {"amount": "1000", "unbonding_duration": 86_400, "receiver": null}}), vec![]),
            p("ClosePosition", 0, json!({"close_position": {"unbonding_duration": 86_400}}), vec![]),
            p("Withdraw", 0, json!({"withdraw": {}}), vec![]),
            Payload { pre_epochs: 2, ..p("Claim", 0, json!({"claim": {}}), vec![]) },
            p("ExpandFlow", 0, json!({"expand_flow": {"flow_identifier": {"id": 1}, "end_epoch": null, "flow_asset": asset(nat("uusdc"), 2000)}}), vec![coin(2000, "uusdc")]),
        ],
        C::IncentiveFactory => vec![
            p("CreateIncentive", 0, json!({"create_incentive": {"lp_asset": tok(&w.trio_lp)}}), vec![]),
            p("UpdateConfig", 0, json!({"update_config": {"owner": null, "fee_collector_addr": null, "fee_distributor_addr": null, "create_flow_fee": null, "max_concurrent_flows": null,
                "incentive_code_id": null, "max_flow_start_time_buffer": null, "min_unbonding_duration": null, "max_unbonding_duration": null}}), vec![]),
            p("UpdateConfig", 1, json!({"update_config": {"owner": null, "fee_collector_addr": me, "fee_distributor_addr": null, "create_flow_fee": asset(nat("uwhale"), 5), "max_concurrent_flows": 9,
                "incentive_code_id": null, "max_flow_start_time_buffer": null, "min_unbonding_duration": null, "max_unbonding_duration": null}}), vec![]),
            p("MigrateIncentives", 0, json!({"migrate_incentives": {"incentive_address": w.incentive.to_string(), "code_id": x.dummy_code}}), vec![]),
            p("MigrateIncentives", 1, json!({"migrate_incentives": {"incentive_address": null, "code_id": x.dummy_code}}), vec![]),
        ],
        C::Helper => vec![
            p("Deposit", 0, json!({"deposit": {"pair_address": w.pair.to_string(), "assets": [asset(nat("uwhale"), 100_000), asset(nat("uusdc"), 100_000)], "slippage_tolerance": null, "unbonding_duration": 259_200}}),
                vec![coin(100_000, "uwhale"), coin(100_000, "uusdc")]),
            p("UpdateConfig", 0, json!({"update_config": {"incentive_factory_addr": null, "owner": null}}), vec![]),
            p("UpdateConfig", 1, json!({"update_config": {"incentive_factory_addr": me, "owner": null}}), vec![]),
        ],
        C::Vault => vec![
            p("Deposit", 0, json!({"deposit": {"amount": "1000"}}), vec![coin(1000, "uwhale")]),
            p("Withdraw", 0, json!({"withdraw": {}}), vec![]),
            p("FlashLoan", 0, json!({"flash_loan": {"amount": "1000", "msg": b64(&json!({"complete_loan": {"initiator": me, "loaned_assets": []}}))}}), vec![]),
            p("CollectProtocolFees", 0, json!({"collect_protocol_fees": {}}), vec![]),
            p("UpdateConfig", 0, json!({"update_config": {"flash_loan_enabled": null, "deposit_enabled": null, "withdraw_enabled": null, "new_owner": null, "new_vault_fees": null, "new_fee_collector_addr": null}}), vec![]),
            p("UpdateConfig", 1, json!({"update_config": {"flash_loan_enabled": false, "deposit_enabled": null, "withdraw_enabled": null, "new_owner": null, "new_vault_fees": fees_json("flash_loan_fee"), "new_fee_collector_addr": me}}), vec![]),
            p("Receive", 0, json!({"receive": {"sender": me, "amount": "1000", "msg": b64(&json!({"withdraw": {}}))}}), vec![]),
            p("Callback", 0, json!({"callback": {"after_trade": {"old_balance": "0", "loan_amount": "0"}}}), vec![]),
        ],
        C::VaultFactory => vec![
            p("CreateVault", 0, json!({"create_vault": {"asset_info": nat("uusdc"), "fees": fees_json("flash_loan_fee"), "token_factory_lp": false}}), vec![]),
            p("MigrateVaults", 0, json!({"migrate_vaults": {"vault_addr": w.vault.to_string(), "vault_code_id": x.dummy_code}}), vec![]),
            p("MigrateVaults", 1, json!({"migrate_vaults": {"vault_addr": null, "vault_code_id": x.dummy_code}}), vec![]),
            p("RemoveVault", 0, json!({"remove_vault": {"asset_info": nat("uwhale")}}), vec![]),
            p("UpdateVaultConfig", 0, json!({"update_vault_config": {"vault_addr": w.vault.to_string(), "params": {"flash_loan_enabled": false, "deposit_enabled": null, "withdraw_enabled": null, "new_owner": null,
                "new_vault_fees": null, "new_fee_collector_addr": null}}}), vec![]),
            p("UpdateConfig", 0, json!({"update_config": {"owner": null, "fee_collector_addr": null, "vault_id": null, "token_id": null}}), vec![]),
            p("UpdateConfig", 1, json!({"update_config": {"owner": null, "fee_collector_addr": me, "vault_id": 99, "token_id": null}}), vec![]),
        ],
        C::VaultRouter => vec![
            p("FlashLoan", 0, json!({"flash_loan": {"assets": [asset(nat("uwhale"), 1000)], "msgs": []}}), vec![coin(100, "uwhale")]),
            p("UpdateConfig", 0, json!({"update_config": {"owner": null, "vault_factory_addr": null}}), vec![]),
            p("UpdateConfig", 1, json!({"update_config": {"owner": null, "vault_factory_addr": me}}), vec![]),
            p("NextLoan", 0, json!({"next_loan": {"initiator": me, "source_vault": w.vault.to_string(), "source_vault_asset_info": nat("uwhale"), "payload": [], "to_loan": [], "loaned_assets": []}}), vec![]),
            // the caller names ITSELF as the source vault of an asset that does have a registered vault
            p("NextLoan", 3, json!({"next_loan": {"initiator": me, "source_vault": me, "source_vault_asset_info": nat("uwhale"), "payload": [], "to_loan": [], "loaned_assets": []}}), vec![]),
            // round 8: the caller names itself as the source vault AND lists itself among the loaned assets (that list is caller-supplied:
            // it proves nothing about who is a vault); and the real vault listed there while somebody else sends the message
            p("NextLoan", 4, json!({"next_loan": {"initiator": me, "source_vault": me, "source_vault_asset_info": nat("uwhale"), "payload": [], "to_loan": [],
                "loaned_assets": [[me, asset(nat("uwhale"), 1000)]]}}), vec![]),
            p("NextLoan", 5, json!({"next_loan": {"initiator": me, "source_vault": w.vault.to_string(), "source_vault_asset_info": nat("uwhale"), "payload": [], "to_loan": [],
                "loaned_assets": [[w.vault.to_string(), asset(nat("uwhale"), 1000)]]}}), vec![]),
            p("CompleteLoan", 0, json!({"complete_loan": {"initiator": me, "loaned_assets": []}}), vec![]),
        ],
        C::Collector => vec![
            p("CollectFees", 0, json!({"collect_fees": {"collect_fees_for": {"contracts": {"contracts": [{"address": w.pair.to_string(), "contract_type": {"pool": {}}}, {"address": w.vault.to_string(), "contract_type": {"vault": {}}}]}}}}), vec![]),
            p("AggregateFees", 0, json!({"aggregate_fees": {"aggregate_fees_for": {"factory": {"factory_addr": w.factory.to_string(), "factory_type": {"pool": {"start_after": null, "limit": null}}}}}}), vec![]),
            p("ForwardFees", 0, json!({"forward_fees": {"epoch": {"id": "2", "start_time": "1571883819879305533", "total": [], "available": [], "claimed": [],
                "global_index": {"bonded_amount": "0", "bonded_assets": [], "timestamp": "0", "weight": "0"}}, "forward_fees_as": nat("uwhale")}}), vec![]),
            p("UpdateConfig", 0, json!({"update_config": {"owner": null, "pool_router": null, "fee_distributor": null, "pool_factory": null, "vault_factory": null, "take_rate": null, "take_rate_dao_address": null, "is_take_rate_active": null}}), vec![]),
            p("UpdateConfig", 1, json!({"update_config": {"owner": null, "pool_router": null, "fee_distributor": null, "pool_factory": null, "vault_factory": null, "take_rate": "0.5", "take_rate_dao_address": me, "is_take_rate_active": true}}), vec![]),
        ],
        C::Distributor => vec![
            Payload { advance_s: DAY_S + 1, ..p("NewEpoch", 0, json!({"new_epoch": {}}), vec![]) },
            Payload { pre_epochs: 1, ..p("Claim", 0, json!({"claim": {}}), vec![]) },
            p("UpdateConfig", 0, json!({"update_config": {"owner": null, "bonding_contract_addr": null, "fee_collector_addr": null, "grace_period": null, "distribution_asset": null, "epoch_config": null}}), vec![]),
            p("UpdateConfig", 1, json!({"update_config": {"owner": null, "bonding_contract_addr": me, "fee_collector_addr": null, "grace_period": "25", "distribution_asset": null, "epoch_config": null}}), vec![]),
        ],
        C::Lair => vec![
            p("Bond", 0, json!({"bond": {"asset": asset(nat("uwhale"), 700)}}), vec![coin(700, "uwhale")]),
            p("Unbond", 0, json!({"unbond": {"asset": asset(nat("uwhale"), 300)}}), vec![]),
            Payload { advance_s: 2000, ..p("Withdraw", 0, json!({"withdraw": {"denom": "uwhale"}}), vec![]) },
            p("UpdateConfig", 0, json!({"update_config": {"owner": null, "unbonding_period": null, "growth_rate": null, "fee_distributor_addr": null}}), vec![]),
            p("UpdateConfig", 1, json!({"update_config": {"owner": null, "unbonding_period": "5", "growth_rate": "0.5", "fee_distributor_addr": null}}), vec![]),
        ],
        C::EpochManager => vec![
            Payload { advance_s: DAY_S + 1, ..p("CreateEpoch", 0, json!({"create_epoch": {}}), vec![]) },
            p("AddHook", 0, json!({"add_hook": {"contract_addr": "anotherhook"}}), vec![]),
            p("RemoveHook", 0, json!({"remove_hook": {"contract_addr": x.hook.to_string()}}), vec![]),
            p("UpdateConfig", 0, json!({"update_config": {"owner": null, "epoch_config": null}}), vec![]),
            p("UpdateConfig", 1, json!({"update_config": {"owner": null, "epoch_config": {"duration": "3600000000000", "genesis_epoch": "5"}}}), vec![]),
        ],
    }
}

/// the property's own list (properties.jsonl C16): who may perform (c, variant); None = not named by the property
#[derive(Clone, Copy, PartialEq, Debug)]
pub enum Need { Owner, SelfOnly, DesignatedOnly, CreatorOrFactoryOwner }
pub fn property_need(c: C, v: &str) -> Option<Need> {
    match (c, v) {
        (C::Pair | C::Trio, "UpdateConfig") => Some(Need::Owner),
        (C::Factory | C::IncentiveFactory | C::VaultFactory, _) => Some(Need::Owner),
        (C::Router, "AddSwapRoutes" | "RemoveSwapRoutes") => Some(Need::Owner),
        (C::Router, "ExecuteSwapOperation" | "AssertMinimumReceive") => Some(Need::SelfOnly),
        (C::Helper | C::Vault | C::VaultRouter | C::Collector | C::Distributor | C::Lair | C::EpochManager, "UpdateConfig") => Some(Need::Owner),
        (C::EpochManager, "AddHook" | "RemoveHook") => Some(Need::Owner),
        (C::Vault, "Callback") => Some(Need::SelfOnly),
        (C::VaultRouter, "NextLoan") => Some(Need::DesignatedOnly),
        (C::VaultRouter, "CompleteLoan") => Some(Need::SelfOnly),
        (C::Collector, "ForwardFees") => Some(Need::DesignatedOnly),
        (C::Incentive, "CloseFlow") => Some(Need::CreatorOrFactoryOwner),   // anchor incentive/src/execute/close_flow.rs
        _ => None,
    }
}
/// who owns `c` in `phase` (independent restatement used by the monitor)
pub fn owner_who(c: C, phase: u8) -> Who {
    if c.is_child() { if phase == 2 { Who::NewAdmin } else { Who::Parent } } else if phase == 1 { Who::NewAdmin } else { Who::Admin }
}

fn all_addrs(x: &W16) -> (Vec<Addr>, Vec<String>) {
    let mut cs: Vec<Addr> = x.w.contracts().into_iter().map(|(_, a)| a).collect();
    cs.push(x.hook.clone());
    let mut holders: Vec<String> = cs.iter().map(|a| a.to_string()).collect();
    for a in accounts() { holders.push(a.to_string()); }
    holders.push(CAROL.to_string());
    (cs, holders)
}
pub fn full_snapshot(x: &W16) -> Vec<(String, Vec<u8>, Vec<u8>)> {
    let (cs, holders) = all_addrs(x);
    snapshot(&x.w.app, &cs, &holders, &DENOMS8)
}

pub struct CellResult { pub accepted: bool, pub frame_ok: bool, pub err: String, pub prepared: bool }

/// one cell of the matrix on a fresh world
pub fn run_cell(out: &mut Out, phase: u8, c: C, variant: &str, k: usize, who: Who, sib: usize) -> CellResult {
    let mut x = world16(phase);
    x.sibling_ix = sib;
    let a = x.who_addr(c, variant, who);
    let prepared = x.prepare_actor(&a, out);
    let pl = payloads(&x, c, &a).into_iter().find(|p| p.variant == variant && p.k == k).expect("payload");
    for _ in 0..pl.pre_epochs {
        x.w.app.update_block(|b| { b.time = b.time.plus_seconds(DAY_S + 1); b.height += 17_280; });
        let d = x.w.distributor.clone();
        if exec_json(&mut x.w.app, &Addr::unchecked(BOB), &d, &json!({"new_epoch": {}}), &[]).is_err() { out.count("pre_epoch_failed"); }
        let inc = x.w.incentive.clone();
        let _ = exec_json(&mut x.w.app, &Addr::unchecked(BOB), &inc, &json!({"take_global_weight_snapshot": {}}), &[]);
    }
    if let Some((pc, pmsg)) = &pl.pre {
        let owner = x.who_addr(*pc, "", owner_who(*pc, phase));
        let target = x.addr(*pc);
        if exec_json(&mut x.w.app, &owner, &target, pmsg, &[]).is_err() { out.count("pre_message_failed"); }
    }
    if pl.advance_s > 0 { x.w.app.update_block(|b| { b.time = b.time.plus_seconds(pl.advance_s); b.height += pl.advance_s / 5; }); }
    let before = full_snapshot(&x);
    let target = x.addr(c);
    let app = &mut x.w.app;
    let r = run_catch(|| exec_json(app, &a, &target, &pl.msg, &pl.funds), |e| { if std::env::var("WWVERIF_ERRORS").is_ok() { eprintln!("[{:?} {} {} {:?} ph{}] {:#}", c, variant, k, who, phase, e); } E_OTHER });
    let accepted = matches!(r, Outcome::Ok(_));
    let err = match &r { Outcome::Panic(m) => format!("panic: {m}"), Outcome::Err(_) => "error".into(), _ => String::new() };
    let frame_ok = accepted || full_snapshot(&x) == before;
    CellResult { accepted, frame_ok, err, prepared }
}

/// variant names of a message enum as the compiled Rust type has them (independent of tools/extract_params.py)
fn schema_variants<T: schemars::JsonSchema>() -> Vec<String> {
    let s = schemars::schema_for!(T);
    let v = serde_json::to_value(&s).unwrap();
    let mut names = vec![];
    if let Some(arr) = v.get("oneOf").and_then(|x| x.as_array()) {
        for alt in arr {
            if let Some(req) = alt.get("required").and_then(|r| r.as_array()) { for r in req { names.push(r.as_str().unwrap().to_string()); } }
            else if let Some(en) = alt.get("enum").and_then(|r| r.as_array()) { for r in en { names.push(r.as_str().unwrap().to_string()); } }
        }
    }
    names
}
fn camel(s: &str) -> String {
    s.split('_').map(|w| { let mut c = w.chars(); match c.next() { Some(f) => f.to_uppercase().collect::<String>() + c.as_str(), None => String::new() } }).collect()
}
pub fn rust_inventory(c: C) -> Vec<String> {
    use white_whale_std as s;
    let v = match c {
        C::Pair => schema_variants::<s::pool_network::pair::ExecuteMsg>(), C::Trio => schema_variants::<s::pool_network::trio::ExecuteMsg>(),
        C::Factory => schema_variants::<s::pool_network::factory::ExecuteMsg>(), C::Router => schema_variants::<s::pool_network::router::ExecuteMsg>(),
        C::Incentive => schema_variants::<s::pool_network::incentive::ExecuteMsg>(), C::IncentiveFactory => schema_variants::<s::pool_network::incentive_factory::ExecuteMsg>(),
        C::Helper => schema_variants::<s::pool_network::frontend_helper::ExecuteMsg>(), C::Vault => schema_variants::<s::vault_network::vault::ExecuteMsg>(),
        C::VaultFactory => schema_variants::<s::vault_network::vault_factory::ExecuteMsg>(), C::VaultRouter => schema_variants::<s::vault_network::vault_router::ExecuteMsg>(),
        C::Collector => schema_variants::<s::fee_collector::ExecuteMsg>(), C::Distributor => schema_variants::<s::fee_distributor::ExecuteMsg>(),
        C::Lair => schema_variants::<s::whale_lair::ExecuteMsg>(), C::EpochManager => schema_variants::<s::epoch_manager::epoch_manager::ExecuteMsg>(),
    };
    v.iter().map(|n| camel(n)).collect()
}

/// observation of a cell: [0] accepted / [1] rejected; [9] for a cell of a not sender-checked variant whose caller could not be prepared like the reference
fn model_obs_shape(c: C, variant: &str, cmp: u8, accepted: bool) -> Vec<String> {
    // which variants the code guards by sender (restated here; the Coq tables are the reference and a difference shows as a disagreement)
    let sender_checked = (property_need(c, variant).is_some() && !(c == C::Router && variant == "AssertMinimumReceive")) || matches!((c, variant), (C::Pair | C::Trio | C::Vault, "Receive" | "WithdrawLiquidity" | "Withdraw"));
    if cmp == 2 && !sender_checked { vec!["9".to_string()] } else { vec![if accepted { "0".to_string() } else { "1".to_string() }] }
}

pub const KNOWN_AMR: &str = "router_assert_minimum_receive_unrestricted";
pub const KNOWN_NOADMIN: &str = "router_routes_open_without_wasm_admin";

fn cell_replay(phase: u8, c: C, variant: &str, k: usize, who: Who, sib: usize) -> Value {
    json!({"kind": "auth_matrix_cell", "sibling": sib, "phase": phase, "contract": c.coq(), "variant": variant, "payload": k, "caller": who.coq(),
           "note": "phase 0 as deployed, 1 after top-level ownership transfer to newowner, 2 after pair/trio/vault ownership transfer, 3 router deployed without wasm admin; each cell runs on a fresh full world"})
}

fn parse_c(s: &str) -> C { *ALL_C.iter().find(|c| c.coq() == s).expect("contract name") }
fn parse_who(s: &str) -> Who { *ALL_WHO.iter().find(|w| w.coq() == s).expect("caller name") }

/// evaluate the property's predicate on one executed cell
fn monitor_cell(out: &mut Out, phase: u8, c: C, variant: &str, k: usize, who: Who, sib: usize, r: &CellResult) {
    let replay = cell_replay(phase, c, variant, k, who, sib);
    out.monitor_evals += 1;
    if !r.frame_ok {
        mfail(out, "C16", &format!("{} {} by {} (phase {phase}) was rejected but storage or balances changed", c.coq(), variant, who.coq()), replay.clone());
    }
    if let Some(need) = property_need(c, variant) {
        let rightful = match need { Need::Owner => who == owner_who(c, phase), Need::SelfOnly => who == Who::SelfC, Need::DesignatedOnly => who == Who::Designated,
            Need::CreatorOrFactoryOwner => who == Who::Designated || who == owner_who(C::IncentiveFactory, phase) };
        if !rightful && r.accepted {
            if c == C::Router && phase == 3 && (variant == "AddSwapRoutes" || variant == "RemoveSwapRoutes") {
                out.known_hit("C16", KNOWN_NOADMIN, &format!("router deployed without wasm admin: {} accepted from {}", variant, who.coq()), replay.clone());
            } else if c == C::Router && variant == "AssertMinimumReceive" {
                out.known_hit("C16", KNOWN_AMR, &format!("router AssertMinimumReceive accepted from {} (no sender check)", who.coq()), replay.clone());
            } else {
                mfail(out, "C16", &format!("{} {} accepted from {} in phase {phase}: only {:?} may perform it", c.coq(), variant, who.coq(), need), replay.clone());
            }
        }
        if rightful && !r.accepted {
            mfail(out, "C16", &format!("{} {} rejected for its rightful caller {} in phase {phase} ({})", c.coq(), variant, who.coq(), r.err), replay.clone());
        }
    }
}

pub fn run(args: &Args) {
    let mut out = Out::new(&args.out);
    out.rule = "one case = one cell (contract, ExecuteMsg variant, payload, phase, caller class) executed on a freshly deployed full world (all 15 contracts) with the caller prepared \
                identically (funds, LP tokens, incentive position, bond); non-trivial = the variant is privileged (not `Anyone`) or the call was accepted; distinct = by cell".into();
    if let Some(path) = &args.replay {
        let j = read_replay(path);
        let f = &j["failing_input"];
        if f["kind"] == "inventory" {
            let c = parse_c(f["contract"].as_str().unwrap());
            let inv = rust_inventory(c);
            let probe = world16(0);
            let have: Vec<&str> = payloads(&probe, c, &admin()).iter().map(|p| p.variant).collect();
            let missing: Vec<&String> = inv.iter().filter(|v| !have.contains(&v.as_str())).collect();
            println!("{} ExecuteMsg variants in the compiled type: {:?}; without a classified payload in the matrix: {:?}", c.coq(), inv, missing);
            out.finish();
            std::process::exit(if missing.is_empty() { 0 } else { 1 });
        }
        if f["kind"] == "nested_call" {
            probe_nested_calls(&mut out);
            for f in &out.monitor_failures { println!("MONITOR-FAIL {}", f["what"]); }
            let failed = !out.monitor_failures.is_empty();
            out.finish();
            std::process::exit(if failed { 1 } else { 0 });
        }
        if f["kind"] == "config_named_caller" {
            probe_config_named_callers(&mut out);
            for f in &out.monitor_failures { println!("MONITOR-FAIL {}", f["what"]); }
            let failed = !out.monitor_failures.is_empty();
            out.finish();
            std::process::exit(if failed { 1 } else { 0 });
        }
        if f["kind"] == "lookalike_caller" {
            probe_lookalike_callers(&mut out);
            for f in &out.monitor_failures { println!("MONITOR-FAIL {}", f["what"]); }
            let failed = !out.monitor_failures.is_empty();
            out.finish();
            std::process::exit(if failed { 1 } else { 0 });
        }
        if f["kind"] == "ownership_history" { let ok = replay_history(&mut out, f); out.finish(); std::process::exit(if ok { 0 } else { 1 }); }
        let (phase, c, variant, k, who) = (f["phase"].as_u64().unwrap() as u8, parse_c(f["contract"].as_str().unwrap()), f["variant"].as_str().unwrap().to_string(),
            f["payload"].as_u64().unwrap() as usize, parse_who(f["caller"].as_str().unwrap()));
        std::env::set_var("WWVERIF_ERRORS", "1");
        let sib = f["sibling"].as_u64().unwrap_or(0) as usize;
        let r = run_cell(&mut out, phase, c, &variant, k, who, sib);
        println!("cell {} {} payload {} caller {} phase {}: accepted={} frame_ok={} {}", c.coq(), variant, k, who.coq(), phase, r.accepted, r.frame_ok, r.err);
        monitor_cell(&mut out, phase, c, &variant, k, who, sib, &r);
        for f in &out.monitor_failures { println!("MONITOR-FAIL {}", f["what"]); }
        for f in &out.known_hits { println!("KNOWN {}", f["what"]); }
        let failed = !out.monitor_failures.is_empty();
        out.finish();
        std::process::exit(if failed { 1 } else { 0 });
    }
    let mut rng = Rng::new(args.seed);
    SEED.store(args.seed, std::sync::atomic::Ordering::Relaxed);
    probe_router_without_admin(&mut out);
    probe_nested_calls(&mut out);
    probe_lookalike_callers(&mut out);
    probe_config_named_callers(&mut out);
    // 0. the ownership transfers the later phases rely on must be possible for the owner
    for ph in [1u8, 2u8] {
        let x = world16(ph);
        for c in &x.failed_transfers {
            out.monitor_evals += 1;
            mfail(&mut out, "C16", &format!("{}: the owner's own ownership transfer to a new owner was rejected", c.coq()),
                json!({"kind": "ownership_history", "contract": c.coq(), "initial_owner": if c.is_child() { 5 } else { 0 }, "attempts": [[if c.is_child() { 5 } else { 0 }, 1]],
                       "note": "the hand-over performed while deploying the after-transfer world (children: through their factory) failed"}));
        }
    }
    // 1. inventories: compiled message types vs Params.v vs the classification tables
    for c in ALL_C {
        let inv = rust_inventory(c);
        let probe = world16(0);
        let have: std::collections::BTreeSet<&str> = payloads(&probe, c, &admin()).iter().map(|p| p.variant).collect();
        for v in &inv {
            out.monitor_evals += 1;
            if !have.contains(v.as_str()) { mfail(&mut out, "C16", &format!("{} has an ExecuteMsg variant {} the matrix has no payload for", c.coq(), v), json!({"kind": "inventory", "contract": c.coq(), "variant": v})); }
        }
        let term = format!("({}, {})", c.coq(), coqlist(&inv.iter().map(|v| format!("\"{}\"%string", v)).collect::<Vec<_>>()));
        out.case("c16_inv", &term, &["1".to_string()], json!({"kind": "inventory", "contract": c.coq(), "variants": inv}));
    }
    // 2. the matrix: every variant, every payload, all callers, phases 0/1 (+2 for children). Both tiers run it completely; thorough adds ownership histories.
    let thorough = args.tier == "thorough";
    let probe = world16(0);
    let mut cells: Vec<(u8, C, &'static str, usize)> = vec![];
    for c in ALL_C {
        let phases: Vec<u8> = if c.is_child() { vec![0, 1, 2] } else if c == C::Router { vec![0, 1, 3] } else { vec![0, 1] };
        for pl in payloads(&probe, c, &admin()) {
            for ph in &phases {
                cells.push((*ph, c, pl.variant, pl.k));
            }
        }
    }
    drop(probe);
    let budget = if args.n == 0 { usize::MAX } else { args.n as usize };
    for (i, (phase, c, variant, k)) in cells.iter().enumerate() {
        if i >= budget { break; }
        let (phase, c, variant, k) = (*phase, *c, *variant, *k);
        // reference: the ordinary user on an identically prepared world
        let reference = run_cell(&mut out, phase, c, variant, k, Who::User, 0);
        // callers: the 7 classes; the `sibling` class is played by every other (not state-involved) contract of the world in turn
        let nsib = { let x = world16(0); x.sibling_pool(c, variant).len() };
        let mut callers: Vec<(Who, usize)> = vec![];
        for who in ALL_WHO {
            if who == Who::Sibling {
                for sx in 0..nsib { callers.push((who, sx)); }
            } else { callers.push((who, 0)); }
        }
        for (who, sib) in callers {
            let r = if who == Who::User { CellResult { accepted: reference.accepted, frame_ok: reference.frame_ok, err: reference.err.clone(), prepared: reference.prepared } } else { run_cell(&mut out, phase, c, variant, k, who, sib) };
            monitor_cell(&mut out, phase, c, variant, k, who, sib, &r);
            let privileged = property_need(c, variant).is_some();
            out.count(&format!("{}:{}", if privileged { "privileged" } else { "other" }, if r.accepted { "accepted" } else { "rejected" }));
            out.count(&format!("caller:{}:{}", who.coq(), if r.accepted { "accepted" } else { "rejected" }));
            if privileged || r.accepted { out.nontrivial_key(hash_str(&format!("{phase}{}{variant}{k}{}{sib}", c.coq(), who.coq()))); }
            // comparability of an `Anyone` cell with the reference run: 0 reference rejected, 1 reference accepted, 2 this caller could not be prepared like the reference
            // (a contract cannot, e.g., open an incentive position in itself): such cells are executed and monitored but carry no expectation
            let cmp = if !(r.prepared && reference.prepared) { 2 } else if reference.accepted { 1 } else { 0 };
            let term = format!("({}, \"{}\"%string, {}, {}, {})", c.coq(), variant, phase, who.coq(), cmp);
            let replay = cell_replay(phase, c, variant, k, who, sib);
            if i % 37 == 0 && who == Who::Sibling { out.sample(replay.clone()); }
            if cmp == 2 { out.count("cell_caller_not_preparable"); }
            out.case("c16", &term, &model_obs_shape(c, variant, cmp, r.accepted), replay);
        }
    }
    // 3. ownership histories
    run_histories(&mut out, &mut rng, if thorough { 60 } else { 6 });
    out.finish();
}

/// informational (not part of the matrix): the router's route management is guarded by the WASM ADMIN of the contract; deployed without one,
/// helpers.rs::assert_admin lets anybody through. Measured here and reported in the evidence histogram.
fn probe_router_without_admin(out: &mut Out) {
    let mut w = full_world();
    let big = 1_000_000u128;
    let alice = Addr::unchecked(USER);
    let _ = exec_json(&mut w.app, &alice, &w.pair.clone(), &json!({"provide_liquidity": {"assets": [asset(nat("uwhale"), big), asset(nat("uusdc"), big)], "slippage_tolerance": null, "receiver": null}}), &[coin(big, "uwhale"), coin(big, "uusdc")]);
    let router = w.app.instantiate_contract(w.codes.router, admin(), &white_whale_std::pool_network::router::InstantiateMsg { terraswap_factory: w.factory.to_string() }, &[], "router_noadmin", None).unwrap();
    let r = exec_json(&mut w.app, &Addr::unchecked(STRANGER), &router, &json!({"add_swap_routes": {"swap_routes": [{"offer_asset_info": nat("uwhale"), "ask_asset_info": nat("uusdc"), "swap_operations": [op("uwhale", "uusdc")]}]}}), &[]);
    out.count(if r.is_ok() { "info:router_without_wasm_admin:stranger_add_route_accepted" } else { "info:router_without_wasm_admin:stranger_add_route_rejected" });
}

// ---- self-only / designated-contract variants called from INSIDE a running flash loan -----------------------------------------
// The matrix above calls every variant as a stand-alone transaction. The vault's Callback and the vault router's NextLoan /
// CompleteLoan exist to be called in the middle of a loan, so a borrower contract also tries them from the callback it receives
// while its loan is outstanding (directly from the vault, and through the router): the attempt must fail the transaction, and,
// when the borrower catches the failure, must leave no trace (state and balances equal to the same loan without the attempt).
fn probe_nested_calls(out: &mut Out) {
    use crate::w_vault as wv;
    use cosmwasm_std::Uint128;
    for cw20 in [false, true] {
        let fees = (10_000_000_000_000_000u128, 3_000_000_000_000_000u128, if cw20 { 2_000_000_000_000_000u128 } else { 0 });
        let fresh = || -> wv::VaultWorld {
            let mut w = wv::deploy(cw20, fees, [1_000_000_000, 5_000_000_000, 5_000_000_000, 5_000_000_000, 2_000_000_000]).expect("vault world");
            let code = w.exec(&wv::Op::Deposit { u: 6, amount: Uint128::new(3_000_000_000), sent: Uint128::new(3_000_000_000) });
            assert_eq!(code, 0, "probe deposit");
            w
        };
        let loan = 700_000_000u128;
        let probe = fresh();
        let (vault, router, adv) = (probe.vault.to_string(), probe.router.to_string(), probe.adv.to_string());
        let asset_json = serde_json::to_value(&probe.asset).unwrap();
        let bal = probe.asset_bal(probe.vault.as_str());
        let attempts: Vec<(&str, String, Value)> = vec![
            ("vault Callback(AfterTrade{0,0})", vault.clone(), json!({"callback": {"after_trade": {"old_balance": "0", "loan_amount": "0"}}})),
            ("vault Callback(AfterTrade{balance,loan})", vault.clone(), json!({"callback": {"after_trade": {"old_balance": bal.to_string(), "loan_amount": loan.to_string()}}})),
            ("router CompleteLoan{[]}", router.clone(), json!({"complete_loan": {"initiator": adv, "loaned_assets": []}})),
            ("router CompleteLoan{[vault]}", router.clone(), json!({"complete_loan": {"initiator": adv, "loaned_assets": [[vault, {"info": asset_json, "amount": loan.to_string()}]]}})),
            ("router NextLoan", router.clone(), json!({"next_loan": {"initiator": adv, "source_vault": vault, "source_vault_asset_info": asset_json, "payload": [], "to_loan": [], "loaned_assets": []}})),
        ];
        let raw = |x: &wv::VaultWorld| -> Vec<(String, Vec<(Vec<u8>, Vec<u8>)>)> {
            vec![("vault".to_string(), x.app.dump_wasm_raw(&x.vault)), ("router".to_string(), x.app.dump_wasm_raw(&x.router)), ("lp".to_string(), x.app.dump_wasm_raw(&x.lp))]
        };
        for via_router in [false, true] {
            // control: the same loan, repaid as quoted, without the attempt
            let mut ctl = fresh();
            let wrap = |inner: Vec<wv::Act>| -> wv::Op {
                if via_router { wv::Op::RouterLoan { u: 7, amount: Uint128::new(loan), pre: Uint128::new(loan), script: inner } }
                else { wv::Op::Run { script: vec![wv::Act::Loan { amount: Uint128::new(loan), script: inner }] } }
            };
            // through the router the borrower must hand the loan plus fees back to the router; directly it repays the vault's quote
            let settle = |x: &wv::VaultWorld| -> wv::Act {
                if via_router { let q = x.payback(loan).map(|p| p.0).unwrap_or(loan); wv::Act::Pay { to: wv::I_ROUTER, amount: Uint128::new(q) } }
                else { wv::Act::RepayQ { neg: false, delta: Uint128::zero() } }
            };
            let s = settle(&ctl);
            let c0 = ctl.exec(&wrap(vec![s.clone()]));
            if c0 != 0 { out.count("nested:control_loan_failed"); continue; }
            let (ctl_dump, ctl_raw) = (ctl.dump(), raw(&ctl));
            for (name, target, msg) in &attempts {
                let act = wv::Act::Raw { target: target.clone(), msg: Binary::from(serde_json::to_vec(msg).unwrap()) };
                let replay = json!({"kind": "nested_call", "vault_asset_cw20": cw20, "through_router": via_router, "attempt": name, "message": msg, "loan": loan.to_string()});
                // (a) uncaught: the whole transaction must fail and change nothing
                let mut a = fresh();
                let (d0, r0) = (a.dump(), raw(&a));
                let code = a.exec(&wrap(vec![act.clone(), s.clone()]));
                out.monitor_evals += 1;
                out.count(&format!("nested:{}:{}", if via_router { "router_loan" } else { "direct_loan" }, if code == 0 { "accepted" } else { "rejected" }));
                if code == 0 { out.monitor_fail("C16", &format!("{} sent by the borrower from inside its running loan was accepted", name), replay.clone()); }
                else if a.dump() != d0 || raw(&a) != r0 { out.monitor_fail("C16", &format!("rejected nested {} changed state", name), replay.clone()); }
                // (b) caught by the borrower: the loan completes exactly as it does without the attempt
                let mut b = fresh();
                let code = b.exec(&wrap(vec![wv::Act::Try { script: vec![act.clone()] }, s.clone()]));
                out.monitor_evals += 1;
                if code != 0 { out.monitor_fail("C16", &format!("a caught nested {} made the loan fail", name), replay.clone()); }
                else if b.dump() != ctl_dump || raw(&b) != ctl_raw {
                    out.monitor_fail("C16", &format!("{} sent from inside a running loan (failure caught by the sender) left a trace: state differs from the same loan without it", name), replay.clone());
                }
            }
        }
    }
}

// ---- a designated contract is known by its ADDRESS, not by what it answers ------------------------------------------------------
// For the variants reserved to one designated contract (the collector's ForwardFees: the fee distributor; the vault router's
// NextLoan: a registered vault; the cw20 Receive hooks of pair / trio / vault: their own LP token), the caller is an outsider contract
// that answers EVERY smart query exactly as the designated contract answers `{"config":{}}` (and, for an LP token, `{"token_info":{}}`
// / `{"minter":{}}`). It must be refused like any other stranger, and nothing may change.
mod chameleon {
    use cosmwasm_std::{Binary, Deps, DepsMut, Empty, Env, MessageInfo, Response, StdResult};
    use cw_multi_test::{Contract, ContractWrapper};
    use cw_storage_plus::Item;
    const ANSWER: Item<Binary> = Item::new("answer");
    #[cosmwasm_schema::cw_serde]
    pub struct Init { pub answer: Binary }
    fn instantiate(d: DepsMut, _e: Env, _i: MessageInfo, m: Init) -> StdResult<Response> { ANSWER.save(d.storage, &m.answer)?; Ok(Response::default()) }
    fn execute(_d: DepsMut, _e: Env, _i: MessageInfo, _m: Empty) -> StdResult<Response> { Ok(Response::default()) }
    fn query(d: Deps, _e: Env, _m: serde_json::Value) -> StdResult<Binary> { ANSWER.load(d.storage) }
    pub fn contract() -> Box<dyn Contract<Empty>> { Box::new(ContractWrapper::new(execute, instantiate, query)) }
}

fn probe_lookalike_callers(out: &mut Out) {
    // round 8: the last case answers like a vault where the router would ask a vault something (its payback quote), and the router holds
    // funds of its own, so that nothing but the sender check stands between the impostor's NextLoan and a completed "loan"
    let cases: [(C, &str, &str); 6] = [(C::Collector, "ForwardFees", "config"), (C::VaultRouter, "NextLoan", "config"),
                                       (C::Pair, "Receive", "token_info"), (C::Trio, "Receive", "token_info"), (C::Vault, "Receive", "token_info"),
                                       (C::VaultRouter, "NextLoan", "{\"get_payback_amount\":{\"amount\":\"1000\"}}")];
    for (c, variant, q) in cases {
        let mut x = world16(0);
        let des = x.designated(c, variant);
        // what the designated contract answers to the query an impostor check would most plausibly make
        let qmsg = if q.starts_with('{') { Binary::from(q.as_bytes().to_vec()) } else { Binary::from(format!("{{\"{}\":{{}}}}", q).into_bytes()) };
        if q.starts_with('{') {
            let to = x.addr(c).to_string();
            let _ = x.w.app.sudo(cw_multi_test::SudoMsg::Bank(cw_multi_test::BankSudo::Mint { to_address: to, amount: vec![coin(50_000, "uwhale")] }));
        }
        let answer: Result<Binary, _> = x.w.app.wrap().query(&cosmwasm_std::QueryRequest::Wasm(cosmwasm_std::WasmQuery::Smart { contract_addr: des.to_string(), msg: qmsg }))
            .map(|v: Value| Binary::from(serde_json::to_vec(&v).unwrap()));
        let Ok(answer) = answer else { out.count(&format!("lookalike:{}:{}:no_answer_to_copy", c.coq(), variant)); continue };
        let code = x.w.app.store_code(chameleon::contract());
        let imp = x.w.app.instantiate_contract(code, admin(), &chameleon::Init { answer }, &[], "lookalike", None).unwrap();
        x.prepare_actor(&imp, out);
        let pls = payloads(&x, c, &imp);
        for pl in pls.into_iter().filter(|p| p.variant == variant) {
            let before = full_snapshot(&x);
            let target = x.addr(c);
            let app = &mut x.w.app;
            let r = run_catch(|| exec_json(app, &imp, &target, &pl.msg, &pl.funds), |_e| E_OTHER);
            let accepted = matches!(r, Outcome::Ok(_));
            out.monitor_evals += 1;
            out.count(&format!("lookalike:{}:{}:{}", c.coq(), variant, if accepted { "accepted" } else { "rejected" }));
            let replay = json!({"kind": "lookalike_caller", "contract": c.coq(), "variant": variant, "payload": pl.k, "copies_answer_to": q});
            if accepted { out.monitor_fail("C16", &format!("{} {} was accepted from an outsider contract that merely answers queries like the designated contract", c.coq(), variant), replay); }
            else if full_snapshot(&x) != before { out.monitor_fail("C16", &format!("a refused {} {} from a look-alike contract changed state", c.coq(), variant), replay); }
        }
    }
}

// ---- being NAMED in a contract's configuration is not being its owner ----------------------------------------------------------
// Every address a contract's Config answer names (fee collector, fee distributor, router, factories, DAO payee, bonding contract, ...)
// other than the owner sends every owner-only variant of that contract, with every payload of the matrix: refused, nothing changes.
// (The collector's DAO payee is set to a real address first - it is empty after instantiation.)
fn probe_config_named_callers(out: &mut Out) {
    fn strings(v: &Value, acc: &mut Vec<String>) {
        match v { Value::String(s) => acc.push(s.clone()), Value::Array(a) => a.iter().for_each(|x| strings(x, acc)), Value::Object(o) => o.values().for_each(|x| strings(x, acc)), _ => {} }
    }
    for c in ALL_C {
        let probe = world16(0);
        let owner_only: Vec<&'static str> = { let mut v: Vec<&'static str> = payloads(&probe, c, &admin()).iter().map(|p| p.variant).filter(|v| property_need(c, v) == Some(Need::Owner)).collect(); v.dedup(); v };
        if owner_only.is_empty() { continue; }
        let prep = |x: &mut W16| {
            if c == C::Collector {
                let t = x.addr(C::Collector);
                let _ = exec_json(&mut x.w.app, &admin(), &t, &json!({"update_config": {"owner": null, "pool_router": null, "fee_distributor": null, "pool_factory": null, "vault_factory": null,
                    "take_rate": "0.01", "take_rate_dao_address": "daopayee", "is_take_rate_active": true}}), &[]);
            }
        };
        let mut x0 = world16(0); prep(&mut x0);
        let cfg: Result<Value, _> = x0.w.app.wrap().query_wasm_smart(&x0.addr(c), &json!({"config": {}}));
        let Ok(cfg) = cfg else { continue };
        let mut named = vec![]; strings(&cfg, &mut named);
        let owner = cfg.get("owner").and_then(|o| o.as_str()).unwrap_or("").to_string();
        named.retain(|s| s != &owner && s.len() >= 3 && s.chars().all(|ch| ch.is_ascii_alphanumeric()) && s.chars().any(|ch| ch.is_ascii_alphabetic()) && !s.chars().next().unwrap().is_ascii_digit());
        named.sort(); named.dedup();
        for who in named {
            for variant in &owner_only {
                let ks: Vec<usize> = payloads(&x0, c, &Addr::unchecked(&who)).iter().filter(|p| p.variant == *variant).map(|p| p.k).collect();
                for k in ks {
                    let mut x = world16(0); prep(&mut x);
                    let a = Addr::unchecked(&who);
                    let Some(pl) = payloads(&x, c, &a).into_iter().find(|p| p.variant == *variant && p.k == k) else { continue };
                    let before = full_snapshot(&x);
                    let target = x.addr(c);
                    let app = &mut x.w.app;
                    let r = run_catch(|| exec_json(app, &a, &target, &pl.msg, &pl.funds), |_e| E_OTHER);
                    let accepted = matches!(r, Outcome::Ok(_));
                    out.monitor_evals += 1;
                    out.count(&format!("config_named:{}:{}", c.coq(), if accepted { "accepted" } else { "rejected" }));
                    let replay = json!({"kind": "config_named_caller", "contract": c.coq(), "variant": variant, "payload": k, "caller_named_in_config": who});
                    if accepted { out.monitor_fail("C16", &format!("{} {} (owner only) was accepted from `{}`, an address the contract's configuration merely names", c.coq(), variant, who), replay); }
                    else if full_snapshot(&x) != before { out.monitor_fail("C16", &format!("a refused {} {} from `{}` changed state", c.coq(), variant, who), replay); }
                }
            }
        }
    }
}

// ---- ownership-transfer histories on every ownable contract -------------------------------------------------------------------
const OWNABLE: [C; 12] = [C::Factory, C::IncentiveFactory, C::Helper, C::VaultFactory, C::VaultRouter, C::Collector, C::Distributor, C::Lair, C::EpochManager, C::Pair, C::Trio, C::Vault];
fn people() -> Vec<Addr> { vec![admin(), Addr::unchecked(NEW_ADMIN), Addr::unchecked(STRANGER), Addr::unchecked(USER), Addr::unchecked(BOB)] }

fn owner_of(x: &W16, c: C) -> String {
    let q = x.w.app.wrap();
    let v: Value = q.query_wasm_smart(x.addr(c), &json!({"config": {}})).expect("config query");
    v["owner"].as_str().expect("owner field").to_string()
}
/// ids: 0..4 = people(), 5 = the parent contract (initial owner of children)
fn id_of(x: &W16, c: C, a: &str) -> i64 {
    if let Some(i) = people().iter().position(|p| p.as_str() == a) { return i as i64; }
    if a == x.parent(c).as_str() { return 5; }
    99
}
fn addr_of(x: &W16, c: C, id: i64) -> Addr { if id == 5 { x.parent(c) } else { people()[id as usize].clone() } }

fn run_one_history(out: &mut Out, c: C, h: &[(i64, Option<i64>)], record: bool) -> bool {
    let mut x = world16(0);
    let initial = id_of(&x, c, &owner_of(&x, c));
    let replay = json!({"kind": "ownership_history", "contract": c.coq(), "initial_owner": initial, "attempts": h,
                        "note": "ids 0 owner, 1 newowner, 2 mallory, 3 alice, 4 bob, 5 the parent (factory) contract; attempt = [sender, new owner or null]"});
    let mut obs: Vec<String> = vec![];
    let mut owner = initial;
    let mut ok_all = true;
    for (k_attempt, (sender, newo)) in h.iter().enumerate() {
        let s = addr_of(&x, c, *sender);
        let to = newo.map(|n| addr_of(&x, c, n).to_string());
        let (t, mut m) = x.transfer_msg(c, to.as_deref().unwrap_or("x"));
        if to.is_none() { let key = if c == C::Vault { "new_owner" } else { "owner" }; m["update_config"][key] = Value::Null; }
        // every second attempt also names the other updatable fields with the values the contract reports now (a hand-over need not travel
        // alone): fields of the message that are null and have a same-named, non-empty entry in the contract's Config answer
        if k_attempt % 2 == 1 && !matches!(c, C::Pair | C::Trio | C::Vault) {
            let cfg: Result<Value, _> = x.w.app.wrap().query_wasm_smart(&t, &json!({"config": {}}));
            if let (Ok(cfg), Some(fields)) = (cfg, m["update_config"].as_object_mut()) {
                for (k, v) in fields.iter_mut() {
                    if v.is_null() && k != "owner" { if let Some(cur) = cfg.get(k) { if !cur.is_null() && cur.as_str() != Some("") { *v = cur.clone(); } } }
                }
            }
        }
        // ... and so do the hand-overs of a pair, a 3pool (which then also starts a ramp to the amplification it is heading for) and a vault
        if k_attempt % 2 == 1 && matches!(c, C::Pair | C::Trio | C::Vault) {
            let cfg: Result<Value, _> = x.w.app.wrap().query_wasm_smart(&t, &json!({"config": {}}));
            let h = x.w.app.block_info().height;
            if let (Ok(cfg), Some(f)) = (cfg, m["update_config"].as_object_mut()) {
                match c {
                    C::Vault => {
                        for (k, src) in [("flash_loan_enabled", "flash_loan_enabled"), ("deposit_enabled", "deposit_enabled"), ("withdraw_enabled", "withdraw_enabled"), ("new_vault_fees", "fees")] {
                            if let Some(cur) = cfg.get(src) { if !cur.is_null() { f.insert(k.to_string(), cur.clone()); } }
                        }
                    }
                    _ => {
                        for k in ["pool_fees", "feature_toggle"] { if let Some(cur) = cfg.get(k) { if !cur.is_null() { f.insert(k.to_string(), cur.clone()); } } }
                        if c == C::Trio { if let Some(fa) = cfg.get("future_amp") { f.insert("amp_factor".to_string(), json!({"future_a": fa.clone(), "future_block": h + 20_000})); } }
                    }
                }
            }
        }
        let before = full_snapshot(&x);
        let app = &mut x.w.app;
        let r = run_catch(|| exec_json(app, &s, &t, &m, &[]), |_e| E_OTHER);
        let accepted = matches!(r, Outcome::Ok(_));
        let reported = id_of(&x, c, &owner_of(&x, c));
        // the property: only the current owner's attempt is accepted; a rejected attempt changes nothing; the reported owner moves exactly on accepted transfers
        out.monitor_evals += 1;
        let expect_accept = *sender == owner;
        let expect_owner = if expect_accept { newo.unwrap_or(owner) } else { owner };
        if accepted != expect_accept || reported != expect_owner {
            mfail(out, "C16", &format!("{} ownership: attempt by #{} (owner #{}) accepted={} and the contract now reports owner #{}", c.coq(), sender, owner, accepted, reported), replay.clone());
            ok_all = false;
        }
        if !accepted && full_snapshot(&x) != before {
            mfail(out, "C16", &format!("{} ownership: rejected attempt by #{} changed storage or balances", c.coq(), sender), replay.clone());
            ok_all = false;
        }
        owner = reported;
        obs.push(if accepted { "0".into() } else { "1".into() });
        obs.push(reported.to_string());
        if record { out.count(&format!("ownership_attempt:{}", if accepted { "accepted" } else { "rejected" })); }
    }
    if record {
        let term = format!("({}, {})", initial, coqlist(&h.iter().map(|(s, n)| format!("({}, {})", s, match n { Some(n) => format!("Some {}", n), None => "None".into() })).collect::<Vec<_>>()));
        out.nontrivial_key(hash_str(&format!("{}{}", c.coq(), term)));
        out.case("c16_own", &term, &obs, replay);
    }
    ok_all
}

fn run_histories(out: &mut Out, rng: &mut Rng, per_contract: usize) {
    for c in OWNABLE {
        for _ in 0..per_contract {
            let len = 4 + rng.below(5) as usize;
            let mut h = vec![];
            let mut cur: i64 = if c.is_child() { 5 } else { 0 };
            for _ in 0..len {
                let sender = if rng.chance(1, 2) { cur } else { rng.below(6) as i64 };
                let newo = if rng.chance(1, 6) { None } else { Some(rng.below(5) as i64) };
                if sender == cur { if let Some(n) = newo { cur = n; } }
                h.push((sender, newo));
            }
            run_one_history(out, c, &h, true);
        }
    }
}

fn replay_history(out: &mut Out, f: &Value) -> bool {
    let c = parse_c(f["contract"].as_str().unwrap());
    let h: Vec<(i64, Option<i64>)> = serde_json::from_value(f["attempts"].clone()).expect("attempts");
    let ok = run_one_history(out, c, &h, false);
    for m in &out.monitor_failures { println!("MONITOR-FAIL {}", m["what"]); }
    ok
}
