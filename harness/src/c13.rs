//! C13 — incentive rewards: weights add up; claims are bounded, single and as quoted.
//! Streams: `weight` (hooked pure calculate_weight) and `inc*` (histories on the real contract, full state dump).
use crate::common::*;
use crate::g_incentive::*;
use crate::w_incentive::*;
use cosmwasm_std::Uint128;
use incentive::verif_hooks as inch;
use serde_json::json;

pub const NSTREAMS: u64 = 8;

fn cfg_base(lp: i64, fee_asset: i64) -> IncCfg {
    IncCfg { lp, fee_asset, fee: 1000, max_flows: 7, buffer: 14, min_unb: 86_400, max_unb: 31_556_926 }
}
fn open_pos(cfg: &IncCfg, sender: i64, amount: u128, dur: u64) -> Op {
    let (funds, allow): (Coins, Coins) = if cfg.lp < 10 { (vec![(cfg.lp, amount)], vec![]) } else { (vec![], vec![(cfg.lp, amount)]) };
    Op::OpenPosition { sender, funds, allow, amount, dur, receiver: None }
}
fn expand_pos(cfg: &IncCfg, sender: i64, amount: u128, dur: u64) -> Op {
    let (funds, allow): (Coins, Coins) = if cfg.lp < 10 { (vec![(cfg.lp, amount)], vec![]) } else { (vec![], vec![(cfg.lp, amount)]) };
    Op::ExpandPosition { sender, funds, allow, amount, dur, receiver: None }
}
fn flow(cfg: &IncCfg, sender: i64, asset: i64, amount: u128, end: Option<u64>) -> Op {
    let (funds, allow) = Gen::flow_recipe(cfg, asset, amount);
    Op::OpenFlow { sender, funds, allow, start: None, end, asset, amount, label: None }
}

/// regression histories: witnesses of the three repaired defects
pub fn corpus() -> Vec<(&'static str, IncCfg, Vec<Op>)> {
    let mut v = vec![];
    // (i) weight of a sum > sum of weights: open 3, expand 3, close at duration 15778463 next to a 15999-weight holder
    let c = cfg_base(3, 0);
    v.push(("witness_weight_desync", c.clone(), vec![
        open_pos(&c, 2, 1000, 31_556_926),
        open_pos(&c, 1, 3, 15_778_463),
        expand_pos(&c, 1, 3, 15_778_463),
        Op::ClosePosition { sender: 1, dur: 15_778_463, now: START_TIME + 100 },
    ]));
    // (ii) close before the epoch's snapshot: both holders then have a 100 % share of epoch 3
    let c = cfg_base(3, 0);
    v.push(("witness_close_before_snapshot", c.clone(), vec![
        flow(&c, 3, 1, 1_000_000, Some(11)),
        open_pos(&c, 1, 1000, 86_400), open_pos(&c, 2, 1000, 86_400),
        Op::NewEpoch, Op::Snapshot, Op::Claim { sender: 1 }, Op::Claim { sender: 2 },
        Op::NewEpoch,
        Op::ClosePosition { sender: 1, dur: 86_400, now: START_TIME + 2 * 86_400 },
        Op::Snapshot, Op::Claim { sender: 1 }, Op::Claim { sender: 2 },
    ]));
    // a staker who joins a flow more than EPOCH_CLAIM_CAP epochs after its start: few unclaimed epochs for that address
    let c = cfg_base(3, 0);
    let mut late: Vec<Op> = vec![flow(&c, 3, 1, 13_000_000, Some(131)), open_pos(&c, 1, 1000, 86_400)];
    for _ in 0..103 { late.push(Op::NewEpoch); late.push(Op::Snapshot); }
    late.push(open_pos(&c, 2, 1000, 86_400));
    for _ in 0..3 { late.push(Op::NewEpoch); late.push(Op::Snapshot); }
    late.extend(vec![Op::Claim { sender: 2 }, Op::Claim { sender: 2 }, Op::Claim { sender: 1 }, Op::Claim { sender: 1 }]);
    v.push(("late_joiner_beyond_claim_cap", c.clone(), late));
    // exactly EPOCH_CLAIM_CAP (100) unclaimed epochs: the claim must cover all of them (and equal the query)
    let c = cfg_base(3, 0);
    let mut exact: Vec<Op> = vec![flow(&c, 3, 1, 13_000_000, Some(131)), open_pos(&c, 1, 1000, 86_400), open_pos(&c, 2, 500, 86_400),
                                  Op::NewEpoch, Op::Snapshot, Op::Claim { sender: 1 }];
    for _ in 0..100 { exact.push(Op::NewEpoch); exact.push(Op::Snapshot); }
    exact.extend(vec![Op::Claim { sender: 1 }, Op::Claim { sender: 1 }]);
    v.push(("exactly_cap_unclaimed_epochs", c.clone(), exact));
    // (iii) claim after a close in the same epoch writes the stale weight back: weight without stake from then on
    let c = cfg_base(3, 0);
    v.push(("witness_claim_resurrects_weight", c.clone(), vec![
        flow(&c, 3, 1, 1_000_000, Some(2)),
        open_pos(&c, 1, 1000, 86_400), open_pos(&c, 2, 1000, 86_400),
        Op::NewEpoch, Op::Snapshot, Op::Claim { sender: 1 }, Op::Claim { sender: 2 },
        Op::NewEpoch, Op::Snapshot,
        Op::ClosePosition { sender: 1, dur: 86_400, now: START_TIME + 2 * 86_400 },
        Op::Claim { sender: 1 },
        flow(&c, 4, 0, 501_000, Some(9)),
        Op::NewEpoch, Op::Snapshot, Op::Claim { sender: 1 }, Op::Claim { sender: 2 },
    ]));
    // (vi) a flow that starts after several weight changes of an address that never claimed: the claim loop skipped the epochs
    // before the flow's start without reading the history, and used the address's EARLIEST weight (here: of a closed position)
    let c = cfg_base(3, 0);
    v.push(("witness_stale_weight_before_flow_start", c.clone(), vec![
        open_pos(&c, 1, 1000, 86_400), open_pos(&c, 2, 1000, 86_400),
        Op::NewEpoch, Op::Snapshot, Op::NewEpoch, Op::Snapshot,
        Op::ClosePosition { sender: 1, dur: 86_400, now: START_TIME + 2 * 86_400 },
        Op::NewEpoch, Op::Snapshot, Op::NewEpoch, Op::Snapshot,
        flow(&c, 3, 1, 1_000_000, Some(15)),
        Op::NewEpoch, Op::Snapshot, Op::Claim { sender: 1 }, Op::Claim { sender: 2 },
    ]));
    // first claim over TWO flows: the address has weight from before the second flow starts and changes it after that start
    // (per-flow weight tracking must restart from the address's earliest weight for every flow)
    let c = cfg_base(3, 0);
    v.push(("first_claim_two_flows_weight_change_after_second_start", c.clone(), vec![
        flow(&c, 3, 1, 2_000_000, Some(30)),
        open_pos(&c, 1, 1000, 86_400), open_pos(&c, 2, 3000, 86_400),
        Op::NewEpoch, Op::Snapshot, Op::NewEpoch, Op::Snapshot,
        flow(&c, 4, 1, 1_500_000, Some(31)),                       // second flow of the SAME reward asset, starts now (epoch 3)
        flow(&c, 4, 0, 900_000, Some(29)),                         // third flow, other asset
        Op::NewEpoch, Op::Snapshot, Op::NewEpoch, Op::Snapshot,
        expand_pos(&c, 1, 5000, 86_400),                           // weight change after the later flows started
        Op::NewEpoch, Op::Snapshot, Op::NewEpoch, Op::Snapshot,
        Op::Claim { sender: 1 }, Op::Claim { sender: 2 }, Op::Claim { sender: 1 },
    ]));
    // two flows, sixty unclaimed epochs each (120 epoch steps in one claim, at most 100 per flow): the rewards query and the claim
    // must walk the same epochs of every flow
    let c = cfg_base(3, 0);
    let mut two: Vec<Op> = vec![open_pos(&c, 1, 1000, 86_400), open_pos(&c, 2, 500, 86_400), Op::NewEpoch, Op::Snapshot,
                                flow(&c, 3, 1, 9_000_000, Some(90)), flow(&c, 4, 0, 6_000_000, Some(95))];
    for _ in 0..60 { two.push(Op::NewEpoch); two.push(Op::Snapshot); }
    two.extend(vec![Op::Claim { sender: 1 }, Op::Claim { sender: 2 }, Op::Claim { sender: 1 }]);
    v.push(("two_flows_sixty_unclaimed_epochs", c.clone(), two));
    // a position opened and claimed in the same epoch keeps its weight (the code as found lost it)
    let c = cfg_base(10, 1);
    v.push(("open_then_claim_same_epoch", c.clone(), vec![
        flow(&c, 3, 0, 700_000, Some(9)),
        open_pos(&c, 1, 5000, 259_200),
        Op::NewEpoch, Op::Snapshot,
        open_pos(&c, 1, 7000, 86_400), Op::Claim { sender: 1 },
        Op::NewEpoch, Op::Snapshot, Op::Claim { sender: 1 },
    ]));
    v
}

fn weight_at(h: &[(u64, u128)], e: u64) -> u128 { h.iter().filter(|(k, _)| *k <= e).last().map(|x| x.1).unwrap_or(0) }

/// C13 monitors on one step
pub fn monitor_c13(m: &mut Mon, w: &IncWorld, pre: &Snap, op: &Op, ok: bool, post: &Snap) {
    // global weight = sum of address weights
    let sum: u128 = post.st.aw.values().sum();
    m.check(post.st.gw == sum, &format!("global_eq_sum_weights: GLOBAL_WEIGHT {} but the address weights add up to {}", post.st.gw, sum));
    // the GlobalWeight query reports exactly the stored snapshots (current, previous and next epoch: stored value or an error)
    let cur = post.epoch;
    for e in [cur.saturating_sub(1), cur, cur + 1] {
        let r: Result<white_whale_std::pool_network::incentive::GlobalWeightResponse, _> = w.app.wrap().query_wasm_smart(&w.incentive,
            &white_whale_std::pool_network::incentive::QueryMsg::GlobalWeight { epoch_id: e });
        let agrees = match (r, post.st.snap.get(&e)) { (Ok(r), Some(g)) => r.global_weight.u128() == *g && r.epoch_id == e, (Err(_), None) => true, _ => false };
        m.check(agrees, &format!("global_weight_query: GlobalWeight{{epoch_id:{}}} disagrees with the stored snapshot", e));
    }
    // shares of the current epoch add up to at most 100 %
    if let Some(g) = post.st.snap.get(&cur).copied() {
        if g > 0 {
            let mut total = cosmwasm_std::Uint256::zero();
            let mut all_ok = true;
            for u in USER_IDS {
                let r: Result<white_whale_std::pool_network::incentive::RewardsShareResponse, _> = w.app.wrap().query_wasm_smart(&w.incentive,
                    &white_whale_std::pool_network::incentive::QueryMsg::CurrentEpochRewardsShare { address: w.name(u) });
                match r {
                    Ok(r) => {
                        total += r.share.atomics();
                        // what the share query reports is the weight the address history holds for this epoch
                        let h = post.st.awh.get(&w.name(u)).cloned().unwrap_or_default();
                        m.check(r.address_weight.u128() == weight_at(&h, cur) && r.global_weight.u128() == g, "share query disagrees with the stored weight history / snapshot");
                    }
                    Err(_) => all_ok = false,
                }
            }
            if all_ok {
                m.check(total <= cosmwasm_std::Uint256::from(DEC), &format!("shares_le_one: the reward shares of epoch {} add up to {} / 10^18", cur, total));
            }
        }
    }
    if let Op::Claim { sender } = op {
        let n = w.name(*sender);
        if ok {
            m.check(pre.st.last.get(&n) != Some(&pre.epoch), "second_claim_nothing: a second claim in the same epoch was accepted");
            let last = pre.st.last.get(&n).copied();
            // payouts per flow in storage order
            let paid: Vec<(i64, u128)> = pre.st.flows.iter().filter_map(|f| post.flow(f.id).map(|g| (w.asset_id(&f.asset), g.claimed - f.claimed))).filter(|x| x.1 > 0).collect();
            let few_epochs = match last { Some(l) => pre.epoch - l <= 100, None => true };
            // known class first_claim_beyond_epoch_cap: never claimed before and the chain is past epoch 99
            let first_claim_late = last.is_none() && pre.epoch > 99;
            if few_epochs {
                match pre.rewards.get(sender) {
                    Some(Ok(q)) if first_claim_late && *q != paid => {
                        m.out.monitor_evals += 1;
                        m.out.known_hit("C13", "first_claim_beyond_epoch_cap", &format!("first claim of an address past epoch 99: the rewards query reported {:?} immediately before the claim paid {:?}", q, paid), m.replay.clone());
                    }
                    Some(Ok(q)) => m.check(*q == paid, &format!("claim_eq_query: the rewards query reported {:?} immediately before the claim paid {:?}", q, paid)),
                    _ => m.check(false, "claim_eq_query: the rewards query failed although the claim succeeded"),
                }
            }
            // the claim pays, flow by flow and epoch by epoch, emission * (weight the history holds for that epoch / snapshot)
            let h = pre.st.awh.get(&n).cloned().unwrap_or_default();
            for f in &pre.st.flows {
                if f.start > pre.epoch { continue; }
                let (lat_amt, lat_end) = f.latest();
                if pre.epoch > lat_end && f.claimed == lat_amt { continue; }
                let g = match post.flow(f.id) { Some(g) => g, None => continue };
                let first = match last { Some(l) => l + 1, None => { let k0 = h.first().map(|x| x.0).unwrap_or(0); if f.start > k0 { k0 } else { f.start } } };
                let mut expected: u128 = 0;
                let mut count = 0u64;
                let mut e = first;
                // the emission of an epoch as the claim derives it from the flow's emitted_tokens ledger, replayed from the pre-state
                let mut emitted: std::collections::BTreeMap<u64, u128> = f.emitted.iter().cloned().collect();
                let mut bad_div = false;
                let mut le_emission = true;
                while e <= pre.epoch {
                    count += 1;
                    if count > 100 { break; }
                    if e >= f.start {
                        if e >= lat_end { break; }
                        let prev = if emitted.is_empty() { 0 } else { emitted.get(&e.saturating_sub(1)).copied().unwrap_or(0) };
                        let at = f.hist.iter().filter(|x| x.0 <= e).last();
                        let (amt_e, end_e) = match at { Some((_, a, x)) => (*a, *x), None => (f.amount, f.end) };
                        if end_e <= e { bad_div = true; break; }
                        let emission = amt_e.saturating_sub(prev) / (end_e - e) as u128;
                        emitted.entry(e).or_insert(emission + prev);
                        let wgt = weight_at(&h, e);
                        let gs = pre.st.snap.get(&e).copied().unwrap_or(0);
                        if gs > 0 && wgt > 0 {
                            let share = cosmwasm_std::Uint256::from(wgt) * cosmwasm_std::Uint256::from(DEC) / cosmwasm_std::Uint256::from(gs);
                            let r = cosmwasm_std::Uint256::from(emission) * share / cosmwasm_std::Uint256::from(DEC);
                            le_emission &= r <= cosmwasm_std::Uint256::from(emission);
                            expected += Uint128::try_from(r).map(|x| x.u128()).unwrap_or(u128::MAX / 4);
                        }
                    }
                    e += 1;
                }
                if bad_div { continue; }
                if g.claimed - f.claimed == expected { m.check(le_emission, "claim_le_emission: a claim paid more for an epoch than the epoch's emission (weight above the snapshot)"); }
                m.check(g.claimed - f.claimed == expected,
                    &format!("claim_uses_epoch_weight: flow {} paid {} but emission * (weight of each epoch / snapshot) gives {}", f.id, g.claimed - f.claimed, expected));
            }
        }
    }
}

fn impl_weight(d: u64, a: u128) -> Option<u128> {
    match std::panic::catch_unwind(|| inch::calculate_weight(d, Uint128::new(a))) { Ok(Ok(w)) => Some(w.u128()), _ => None }
}

pub fn run(args: &Args) {
    let mut out = Out::new(&args.out);
    out.rule = "histories: non-trivial = an OpenPosition, a Snapshot and a Claim succeeded in the history; distinct by hash of the op list \
                (how many claims paid something is in the histogram: claim:paid_something). weight stream: non-trivial = result strictly greater than the \
                amount (multiplier applied), distinct by (duration, amount)".into();
    // Rng::new seeds linearly (seed s+1 is seed s shifted by one draw); decorrelate the seeds of this property
    let mut rng = Rng::new(hash64(&[args.seed as u128, 0xC13_5EED]));
    let focus = focus_c13();
    let mut extra = |m: &mut Mon, w: &IncWorld, pre: &Snap, op: &Op, ok: bool, post: &Snap| monitor_c13(m, w, pre, op, ok, post);
    if let Some(path) = &args.replay {
        let j: serde_json::Value = serde_json::from_str(&std::fs::read_to_string(path).expect("replay file")).expect("json");
        let fi = j.get("failing_input").cloned().unwrap_or(j);
        if fi.get("kind").and_then(|k| k.as_str()) == Some("weight") {
            let d: u64 = fi["duration"].as_str().unwrap().parse().unwrap(); let a: u128 = fi["amount"].as_str().unwrap().parse().unwrap();
            println!("calculate_weight({}, {}) = {:?}", d, a, impl_weight(d, a));
            std::process::exit(0);
        }
        let cfg: IncCfg = serde_json::from_value(fi["cfg"].clone()).expect("cfg");
        let ops: Vec<Op> = serde_json::from_value(fi["ops"].clone()).expect("ops");
        let r = run_case(&mut out, &mut rng, &cfg, ops, 0, &focus, "C13", "replay", &mut extra);
        for f in &out.monitor_failures { println!("MONITOR-FAIL {}", f["what"]); }
        println!("replayed {} ops, {} monitor failures", r.map(|r| r.ops.len()).unwrap_or(0), out.monitor_failures.len());
        let bad = !out.monitor_failures.is_empty();
        out.finish();
        std::process::exit(if bad { 1 } else { 0 });
    }
    // ---- pure weight function: value, lower bound, monotonicity in amount and in duration
    let nw = args.n * 12;
    let durs: [u64; 12] = [86_399, 86_400, 86_401, 100_000, 259_200, 1_000_000, 15_778_462, 15_778_463, 15_778_464, 31_556_925, 31_556_926, 31_556_927];
    for i in 0..nw {
        let d = if i % 3 == 0 { *rng.pick(&durs) } else { 86_400 + rng.below(31_556_926 - 86_400 + 1) };
        let a = match rng.below(8) { 0 => rng.range128(0, 20), 1 => magnitude(&mut rng, 100), 2 => magnitude(&mut rng, 128), 3 => (u128::MAX / 16) + rng.range128(0, 3) - 1, _ => rng.range128(1, 10_000_000_000) };
        let r = impl_weight(d, a);
        let replay = json!({"kind": "weight", "duration": d.to_string(), "amount": a.to_string()});
        out.monitor_evals += 1;
        if let Some(wv) = r {
            if wv < a { out.monitor_fail("C13", "weight_ge_amount: weight below the amount", replay.clone()); }
            let da = rng.range128(1, 1000);
            if let (Some(a2), true) = (a.checked_add(da), true) { if let Some(w2) = impl_weight(d, a2) { if w2 < wv { out.monitor_fail("C13", "weight_mono_amount: weight decreased when the amount grew", replay.clone()); } } }
            let dd = rng.below(100_000) + 1;
            if let Some(w3) = impl_weight(d + dd, a) { if w3 < wv { out.monitor_fail("C13", "weight_mono_duration: weight decreased when the duration grew", replay.clone()); } }
            if wv > a { out.nontrivial_key(hash64(&[d as u128, a])); }
            out.count("weight:ok");
        } else { out.count("weight:err"); }
        out.case("weight", &format!("({}, {})", d, a), &match r { Some(wv) => vec!["0".to_string(), wv.to_string()], None => vec!["1".to_string()] }, replay);
    }
    // ---- histories
    let mut idx = 0u64;
    for (tag, cfg, ops) in corpus() {
        if let Some(r) = run_case(&mut out, &mut rng, &cfg, ops, 0, &focus, "C13", tag, &mut extra) {
            out.sample(json!({"tag": tag, "cfg": cfg, "ops": r.ops}));
            emit_case(&mut out, "inc", idx, NSTREAMS, &cfg, &r, tag);
            idx += 1;
        }
    }
    for i in 0..args.n {
        let mut cfg = gen_cfg(&mut rng, i);
        if rng.chance(2, 3) { cfg.min_unb = 86_400; cfg.max_unb = 31_556_926; }
        let len = focus.len.0 + rng.below(focus.len.1 - focus.len.0 + 1);
        let pre = if rng.chance(3, 4) { preamble(&mut rng, &cfg, i % 5 == 0) } else { vec![] };
        // amounts up to 2^100 / 2^124 in a third of the histories
        let mut focus_i = focus.clone();
        focus_i.big_amounts = i % 3 == 0;
        if let Some(r) = run_case(&mut out, &mut rng, &cfg, pre, len, &focus_i, "C13", "generated", &mut extra) {
            if r.kinds.contains("Claim") && r.kinds.contains("Snapshot") && r.kinds.contains("OpenPosition") { out.nontrivial_key(hash_str(&coq_ops(&r.ops))); }
            if i < 2 { out.sample(json!({"tag": "generated", "cfg": cfg, "ops": r.ops})); }
            emit_case(&mut out, "inc", idx, NSTREAMS, &cfg, &r, "generated");
            idx += 1;
        }
    }
    out.finish();
}
