//! C05 — vault share price never decreases: histories of deposits, withdrawals, flash loans (scripted borrower), fee
//! collections, fee / flag changes, donations and share burns on the REAL vault (native and cw20 asset).
use crate::common::*;
use crate::vault_hist::*;
use crate::w_vault::*;
use cosmwasm_std::Uint128;

fn u(x: u128) -> Uint128 { Uint128::new(x) }

/// the probed nested-loan witness (DESIGN section 5 #9)
pub fn nested_witness() -> ((u128, u128, u128), [u128; 5], Vec<Op>) {
    let p = DEC / 100;
    ((p, p, 0), [0, 4_000_000, 5_000_000, 0, 5_000_000], vec![
        Op::Deposit { u: 6, amount: u(1_000_000), sent: u(1_000_000) },
        Op::Run { script: vec![Act::Loan { amount: u(100_000), script: vec![
            Act::Loan { amount: u(800_000), script: vec![Act::Pay { to: I_VAULT, amount: u(816_000) }] },
            Act::Pay { to: I_VAULT, amount: u(86_000) }] }] },
    ])
}
/// donation to an empty vault, then first deposit and immediate withdrawal of the minted shares
pub fn donation_witness() -> ((u128, u128, u128), [u128; 5], Vec<Op>) {
    ((0, 0, 0), [0, 4_000_000, 5_000_000, 0, 0], vec![
        Op::Donate { u: 7, amount: u(1_000_000) },
        Op::Deposit { u: 6, amount: u(2_000), sent: u(2_000) },
        Op::Withdraw { u: 6, amount: u(1_000) },
    ])
}

/// round 8: inside an outstanding loan the borrower takes and repays a second loan and then deposits the outer loan's funds; the
/// deposit must be refused whatever the inner loan did to the vault's loan bookkeeping (here the whole call aborts; with the
/// deposit wrapped in a Try only the deposit does)
pub fn deposit_after_inner_loan(wrapped: bool, inner_first: bool) -> ((u128, u128, u128), [u128; 5], Vec<Op>) {
    let p = DEC / 100;
    let inner = Act::Loan { amount: u(100_000), script: vec![Act::RepayQ { neg: false, delta: u(0) }] };
    let dep = if wrapped { Act::Try { script: vec![Act::Deposit { amount: u(300_000) }] } } else { Act::Deposit { amount: u(300_000) } };
    let body = if inner_first { vec![inner, dep, Act::RepayQ { neg: false, delta: u(0) }] } else { vec![dep, inner, Act::RepayQ { neg: false, delta: u(0) }] };
    ((p, p, 0), [0, 4_000_000, 5_000_000, 0, 5_000_000], vec![
        Op::Deposit { u: 6, amount: u(1_500_000), sent: u(1_500_000) },
        Op::Run { script: vec![Act::Loan { amount: u(400_000), script: body }] },
        Op::Withdraw { u: 6, amount: u(10_000) },
    ])
}

pub fn run(args: &Args) {
    let mut out = Out::new(&args.out);
    out.rule = "one case = one history (8..16 operations drawn online from the current state) on a freshly deployed factory+vault+router+borrower; \
                non-trivial = at least 3 successful operations of at least 3 different kinds and at least one step that strictly changed the share price \
                (rounding remainder or fee accrual); distinct = by hash of fees, funding and the operation list".into();
    let mut rng = Rng::new(args.seed);
    if let Some(path) = &args.replay {
        match parse_replay(path) {
            Some((cw20, fees, funds, ops)) => {
                run_history(&mut out, "C05", "vault", &mut rng, Mix::SharePrice, cw20, fees, funds, Source::Fixed(ops));
                let bad = !out.monitor_failures.is_empty();
                for f in &out.monitor_failures { println!("REPLAY property predicate false: {}", f["what"]); }
                for f in &out.known_hits { println!("REPLAY known finding {}: {}", f["class"], f["what"]); }
                out.finish();
                std::process::exit(if bad { 1 } else { 0 });
            }
            None => { eprintln!("cannot parse replay file"); std::process::exit(2); }
        }
    }
    // corpus first
    for cw20 in [false, true] {
        let (f, fu, ops) = nested_witness();
        run_history(&mut out, "C05", "vault", &mut rng, Mix::SharePrice, cw20, f, fu, Source::Fixed(ops));
        let (f, fu, ops) = donation_witness();
        run_history(&mut out, "C05", "vault", &mut rng, Mix::SharePrice, cw20, f, fu, Source::Fixed(ops));
        for (wr, inf) in [(false, true), (true, true), (true, false)] {
            let (f, fu, ops) = deposit_after_inner_loan(wr, inf);
            run_history(&mut out, "C05", "vault", &mut rng, Mix::SharePrice, cw20, f, fu, Source::Fixed(ops));
        }
    }
    for i in 0..args.n {
        let cw20 = i % 2 == 1;
        let fees = gen_fees(&mut rng);
        let funds = gen_funds(&mut rng);
        let len = 8 + rng.below(9) as usize;
        let ops = run_history(&mut out, "C05", "vault", &mut rng, Mix::SharePrice, cw20, fees, funds, Source::Gen(len));
        // queries in the state reached by a prefix-closed re-run are covered by a separate small stream
        if i % 10 == 0 {
            if let Some(ops) = ops {
                if let Ok(mut w) = deploy(cw20, fees, funds) {
                    let d0 = w.dump();
                    for o in &ops { w.exec(o); }
                    let d = w.dump();
                    let z = frac(&mut rng, d.bal.max(1)) ;
                    let a = frac(&mut rng, d.supply.max(1));
                    let mut obs: Vec<String> = vec![];
                    match w.payback(z) { Ok((q, p, f, b)) => { obs.push("0".into()); obs.extend([q, p, f, b].iter().map(|x| x.to_string())); } Err(_) => obs.push("1".into()) }
                    match w.share(a) { Ok(s) => { obs.push("0".into()); obs.push(s.to_string()); } Err(_) => obs.push("1".into()) }
                    out.count("query_case");
                    out.case("vault_q", &format!("({}, ({}, {}))", history_term(cw20, fees, &d0.ab, &ops), z, a), &obs,
                             serde_json::json!({"kind": "queries after history", "history": history_replay("vault", cw20, fees, &funds, &ops), "payback_of": z.to_string(), "share_of": a.to_string()}));
                }
            }
        }
    }
    // monitor-only: the owner hands the vault over to another fee collector while protocol fees are pending. A configuration
    // update moves no funds and no ledger; the next collection pays exactly the pending amount to the NEW collector.
    for cw20 in [false, true] {
        for k in 0..3u128 {
            let fees = (DEC / 100 + k as u128 * DEC / 1000, DEC / 200, if k == 1 { DEC / 1000 } else { 0 });
            let mut w = match deploy(cw20, fees, [0, 4_000_000, 5_000_000, 3_000_000, 3_000_000]) { Ok(w) => w, Err(_) => continue };
            w.exec(&Op::Deposit { u: 6, amount: u(1_000_003), sent: u(1_000_003) });
            w.exec(&Op::Run { script: vec![Act::Loan { amount: u(700_001 + k * 1000), script: vec![Act::RepayQ { neg: false, delta: u(0) }] }] });
            let b = w.dump();
            let newc = "collector_two";
            let old_before = w.asset_bal(w.addr(I_COLL).as_str());
            let code = w.set_collector(newc);
            let a = w.dump();
            out.monitor_evals += 1;
            let replay = serde_json::json!({"kind": "vault fee collector handed over with pending fees", "asset_cw20": cw20, "fees": [fees.0.to_string(), fees.1.to_string(), fees.2.to_string()], "pending": b.pend.to_string()});
            if code != 0 { out.monitor_fail("C05", "the factory owner could not change the vault's fee collector", replay.clone()); continue; }
            if a != b || w.asset_bal(w.addr(I_COLL).as_str()) != old_before { out.monitor_fail("C05", "changing the fee collector moved funds or changed a ledger (assets backing a share changed)", replay.clone()); }
            let c = w.exec(&Op::Collect { u: 8 });
            let a2 = w.dump();
            if c != 0 || a2.pend != 0 || w.asset_bal(newc) != b.pend || a2.bal + b.pend != a.bal { out.monitor_fail("C05", "after the hand-over the pending fees did not reach the new collector exactly once", replay.clone()); }
            out.count("collector_handover");
        }
    }
    out.finish();
}
