//! Vault histories: seeded online generators (the next operation is drawn knowing the current state, so most operations
//! are valid), execution on the real contracts with a full dump after every operation, and the property monitors of
//! C05 / C06 evaluated on those dumps with independent arithmetic.
#![allow(dead_code)]
use crate::common::*;
use crate::w_vault::*;
use cosmwasm_std::{Uint128, Uint256};
use serde_json::json;

pub const MIN_LIQ: u128 = 1000;

fn u(x: u128) -> Uint128 { Uint128::new(x) }

pub fn frac(rng: &mut Rng, x: u128) -> u128 {
    if x == 0 { return rng.below(3) as u128; }
    match rng.below(12) {
        0 => x,
        1 => x / 2,
        2 => x / 3,
        3 => x / 10,
        4 => x / 1000,
        5 => 1,
        6 => x - 1,
        7 => x / 7 + 1,
        _ => 1 + rng.below128(x),
    }
}

/// which generator mix
#[derive(Clone, Copy, PartialEq)]
pub enum Mix { SharePrice, Loans }

pub fn gen_fees(rng: &mut Rng) -> (u128, u128, u128) {
    match rng.below(8) {
        0 => (DEC / 100, DEC / 100, 0),
        1 => (0, 0, 0),
        2 => (DEC / 1000, 3 * DEC / 1000, DEC / 1000),
        3 => (DEC / 3, DEC / 3, DEC / 3 - 1),
        _ => fee_triple(rng, true),
    }
}

pub fn gen_funds(rng: &mut Rng) -> [u128; 5] {
    let base: u128 = *rng.pick(&[10_000u128, 10_000_000, 1_000_000_000_000, DEC, 1_000_000_000_000_000_000_000_000, 1u128 << 100, 1u128 << 118]);
    let mut f = [0u128; 5];
    for x in f.iter_mut() { *x = base * (1 + rng.below(9) as u128) + rng.below128(base); }
    if rng.chance(1, 12) { f[4] = 0; }
    f
}

/// callback script of a loan of z at nesting depth `depth` (0 = outermost)
fn gen_loan_script(rng: &mut Rng, d: &Dump, z: u128, depth: u32, mix: Mix) -> Vec<Act> {
    let mut s: Vec<Act> = vec![];
    let fees = d.fees;
    let pf = floor_fee(z, fees.0); let ff = floor_fee(z, fees.1); let bf = floor_fee(z, fees.2);
    // extras before repaying
    let extras = rng.below(3);
    let mut inner_credit: u128 = 0;
    for _ in 0..extras {
        match rng.below(14) {
            0 | 1 => s.push(Act::Withdraw { amount: u(frac(rng, d.lp[I_ADV])) }),
            2 => s.push(Act::Collect {}),
            3 => s.push(Act::Deposit { amount: u(frac(rng, d.ab[I_ADV]).max(1)) }),
            4 => s.push(Act::Try { script: vec![Act::Deposit { amount: u(frac(rng, d.ab[I_ADV]).max(1)) }] }),
            5 => s.push(Act::Try { script: vec![Act::Pay { to: I_VAULT, amount: u(frac(rng, d.ab[I_ADV])) }, Act::Fail {}] }),
            6 => s.push(Act::Pay { to: I_VAULT, amount: u(frac(rng, d.ab[I_ADV] / 4)) }),
            7 | 8 | 9 if depth < 3 && (mix == Mix::Loans || rng.chance(1, 2)) => {
                // nested loan on the same vault
                let left = d.bal.saturating_sub(z);
                let z2 = match rng.below(6) { 0 => left, 1 => left.saturating_add(1), _ => frac(rng, left) };
                let inner = gen_loan_script(rng, d, z2, depth + 1, mix);
                if inner.iter().any(|a| matches!(a, Act::RepayQ { neg: false, .. })) {
                    inner_credit = inner_credit.saturating_add(floor_fee(z2, fees.0)).saturating_add(floor_fee(z2, fees.1));
                }
                s.push(Act::Loan { amount: u(z2), script: inner });
            }
            10 if rng.chance(1, 3) => s.push(Act::Try { script: vec![Act::Fail {}] }),
            _ => {}
        }
    }
    // repayment
    let q = z.saturating_add(pf).saturating_add(ff).saturating_add(bf);
    match rng.below(16) {
        0 => s.push(Act::RepayQ { neg: true, delta: u(1) }),
        1 => s.push(Act::RepayQ { neg: false, delta: u(1 + rng.below(1000) as u128) }),
        2 => s.push(Act::Pay { to: I_VAULT, amount: u(q) }),
        3 => s.push(Act::Pay { to: I_VAULT, amount: u(q.saturating_sub(1)) }),
        4 => s.push(Act::Pay { to: I_VAULT, amount: u(z) }),
        5 => {} // no repayment at all
        6 => s.push(Act::Fail {}),
        7 | 8 if inner_credit > 0 => {
            // pay the quote minus what the inner loans' fees already added to the balance (the known nested-loan shape)
            s.push(Act::Pay { to: I_VAULT, amount: u(q.saturating_sub(inner_credit).max(1)) });
        }
        _ => s.push(Act::RepayQ { neg: false, delta: u(0) }),
    }
    s
}

fn gen_loan_amount(rng: &mut Rng, d: &Dump) -> u128 {
    match rng.below(14) {
        0 => d.bal,
        1 => d.bal.saturating_add(1),
        2 => 0,
        3 => 1,
        _ => frac(rng, d.bal),
    }
}

pub fn gen_top_script(rng: &mut Rng, d: &Dump, mix: Mix) -> Vec<Act> {
    let mut s = vec![];
    let n = if mix == Mix::Loans { 1 + rng.below(2) } else { 1 + rng.below(3) };
    for _ in 0..n {
        let loan_w = if mix == Mix::Loans { 80 } else { 50 };
        if rng.below(100) < loan_w {
            let z = gen_loan_amount(rng, d);
            let sc = gen_loan_script(rng, d, z, 0, mix);
            let l = Act::Loan { amount: u(z), script: sc };
            if rng.chance(1, 12) { s.push(Act::Try { script: vec![l] }); } else { s.push(l); }
        } else {
            match rng.below(6) {
                0 | 1 => s.push(Act::Deposit { amount: u(frac(rng, d.ab[I_ADV] / 2).max(1)) }),
                2 | 3 => s.push(Act::Withdraw { amount: u(frac(rng, d.lp[I_ADV])) }),
                4 => s.push(Act::Pay { to: I_VAULT, amount: u(frac(rng, d.ab[I_ADV] / 8)) }),
                _ => s.push(Act::Collect {}),
            }
        }
    }
    s
}

pub fn gen_op(rng: &mut Rng, d: &Dump, mix: Mix, cw20: bool, last: Option<&(Op, i64, Dump, Dump)>) -> Op {
    let usr = 5 + rng.below(4) as usize;
    // deposit-then-withdraw round trip: immediately redeem what the last deposit minted
    if let Some((Op::Deposit { u: du, .. }, 0, b, a)) = last {
        if rng.chance(1, 3) && a.lp[*du] > b.lp[*du] { return Op::Withdraw { u: *du, amount: u(a.lp[*du] - b.lp[*du]) }; }
    }
    let (wd, ww, wrun, wrouter) = match mix { Mix::SharePrice => (26, 20, 18, 5), Mix::Loans => (12, 8, 45, 18) };
    let r = rng.below(100);
    if d.supply == 0 && rng.chance(3, 4) {
        // first deposit (or a donation before it)
        if rng.chance(1, 8) { return Op::Donate { u: usr, amount: u(frac(rng, d.ab[usr] / 100).max(1)) }; }
        let a = match rng.below(8) { 0 => MIN_LIQ, 1 => MIN_LIQ + 1, 2 => MIN_LIQ - 1, _ => frac(rng, d.ab[usr] / 2).max(MIN_LIQ + 1) };
        return Op::Deposit { u: usr, amount: u(a), sent: u(a) };
    }
    if r < wd {
        // zero-amount deposits into a cw20 vault are outside the modelled domain (cw20-base allowance records)
        let a = frac(rng, d.ab[usr] / 2).max(if cw20 { 1 } else { 0 });
        let sent = match rng.below(20) { 0 => a + 1, 1 => a.saturating_sub(1), 2 => 0, _ => a };
        Op::Deposit { u: usr, amount: u(a), sent: u(sent) }
    } else if r < wd + ww {
        let holders: Vec<usize> = (5..N_ACC).filter(|i| d.lp[*i] > 0).collect();
        let who = if holders.is_empty() || rng.chance(1, 10) { usr } else { *rng.pick(&holders) };
        let a = match rng.below(12) { 0 => d.lp[who] + 1, 1 => 0, 2 => d.lp[who], _ => frac(rng, d.lp[who]) };
        Op::Withdraw { u: who, amount: u(a) }
    } else if r < wd + ww + wrun {
        Op::Run { script: gen_top_script(rng, d, mix) }
    } else if r < wd + ww + wrun + wrouter {
        let z = gen_loan_amount(rng, d);
        let fees = d.fees;
        let q = z.saturating_add(floor_fee(z, fees.0)).saturating_add(floor_fee(z, fees.1)).saturating_add(floor_fee(z, fees.2));
        let pre = match rng.below(4) { 0 => z, 1 => frac(rng, z), _ => 0 };
        let mut script = vec![];
        match rng.below(10) {
            0 => {}
            1 => script.push(Act::Pay { to: I_ROUTER, amount: u((q - z + pre).saturating_sub(1)) }),
            2 => script.push(Act::Pay { to: I_VAULT, amount: u(q) }),
            3 => { script.push(Act::Collect {}); script.push(Act::Pay { to: I_ROUTER, amount: u(q - z + pre + d.pend) }); }
            4 => { let z2 = frac(rng, d.bal.saturating_sub(z)); script.push(Act::Loan { amount: u(z2), script: vec![Act::RepayQ { neg: false, delta: u(0) }] });
                   script.push(Act::Pay { to: I_ROUTER, amount: u(q - z + pre) }); }
            5 => script.push(Act::Pay { to: I_ROUTER, amount: u(q - z + pre + 1 + rng.below(100000) as u128) }),
            _ => script.push(Act::Pay { to: I_ROUTER, amount: u(q - z + pre) }),
        }
        Op::RouterLoan { u: usr, amount: u(z), pre: u(pre), script }
    } else {
        match rng.below(26) {
            0..=4 => Op::Collect { u: usr },
            5..=9 => Op::Donate { u: usr, amount: u(frac(rng, d.ab[usr] / 50)) },
            10 | 11 => Op::BurnLp { u: usr, amount: u(frac(rng, d.lp[usr])) },
            12..=18 => {
                let mut p = UParams::default();
                match rng.below(8) {
                    0 => p.dep = Some(rng.chance(1, 2)),
                    1 => p.wd = Some(rng.chance(1, 2)),
                    2 => p.fl = Some(rng.chance(1, 2)),
                    3 | 4 => { let f = gen_fees(rng); p.fees = Some((u(f.0), u(f.1), u(f.2))); }
                    5 => { let f = fee_triple(rng, false); p.fees = Some((u(f.0), u(f.1), u(f.2))); }
                    6 => { p.dep = Some(true); p.wd = Some(true); p.fl = Some(true); }
                    _ => { if rng.chance(1, 3) { p.owner = Some(if rng.chance(1, 2) { I_FACT } else { usr }); } else { p.fl = Some(true); } }
                }
                // mostly through the right channel: the factory while it owns the vault, directly once a user owns it
                let (who, via) = if d.owner == I_FACT { if rng.chance(5, 6) { (I_FOWNER, true) } else { (usr, rng.chance(1, 2)) } }
                                 else if rng.chance(5, 6) { (d.owner, false) } else { (usr, rng.chance(1, 2)) };
                Op::Update { u: who, via_factory: via, p }
            }
            19 => Op::WithdrawDirect { u: usr },
            20 => Op::RouterMany { u: usr, n: if rng.chance(1, 2) { 0 } else { 2 } },
            21 | 22 => Op::CallbackExt { u: usr, old: u(frac(rng, d.bal)), amount: u(frac(rng, d.bal)) },
            23 => Op::NextLoanExt { u: usr },
            24 => Op::CompleteLoanExt { u: usr },
            _ => Op::Collect { u: usr },
        }
    }
}

// ---- monitors ----------------------------------------------------------------------------------

/// sign-aware a*b compare helper: returns a1*b1 <= a2*b2 where a1,a2 are (nonneg?, magnitude)
fn le_signed(a1: (bool, u128), b1: u128, a2: (bool, u128), b2: u128) -> bool {
    let l = u256(a1.1) * u256(b1);
    let r = u256(a2.1) * u256(b2);
    match (a1.0 || l.is_zero(), a2.0 || r.is_zero()) {
        (true, true) => l <= r,
        (false, true) => true,
        (true, false) => l.is_zero() && r.is_zero(),
        (false, false) => l >= r,
    }
}

pub struct Ctx<'a> { pub replay: &'a serde_json::Value, pub step: usize }

fn fail_or_known(out: &mut Out, prop: &str, nested: bool, what: &str, ctx: &Ctx) {
    let mut r = ctx.replay.clone();
    r["failing_step"] = json!(ctx.step);
    if nested {
        out.known_hit(prop, "nested_loan_same_vault", what, r);
    } else {
        out.monitor_fail(prop, what, r);
    }
}

/// C05: the share price predicate and its companions, on the dumps around one operation
pub fn monitor_c05(out: &mut Out, b: &Dump, o: &Op, code: i64, a: &Dump, prev: Option<&(Op, i64, Dump, Dump)>, ctx: &Ctx) {
    out.monitor_evals += 1;
    let nested = op_has_nested(o);
    if code != 0 {
        if a != b { fail_or_known(out, "C05", false, "a rejected operation changed balances or ledgers", ctx); }
        return;
    }
    // share price never decreases
    if b.supply > 0 {
        if a.supply == 0 { fail_or_known(out, "C05", nested, "share supply fell to zero (minimum liquidity not locked)", ctx); }
        else if !le_signed(b.backing(), a.supply, a.backing(), b.supply) {
            fail_or_known(out, "C05", nested, "assets backing one vault share decreased: (balance - pending fees)/supply fell", ctx);
        }
    }
    // a deposit arriving while a flash loan is outstanding is priced against a balance that excludes the lent funds (more than the
    // pro-rata number of shares): the vault refuses it, so a script whose deposits all sit inside loan callbacks mints nothing.
    // Decided on the script's shape, independently of the nested-loan finding.
    if let Op::Run { script } | Op::RouterLoan { script, .. } | Op::RouterLoanF { script, .. } = o {
        let in_loan0 = !matches!(o, Op::Run { .. });
        let (all_inside, any) = script_deposits_inside_loans(script, in_loan0);
        if any && all_inside && a.supply > b.supply {
            fail_or_known(out, "C05", false, "shares were minted by a deposit made while a flash loan was outstanding (priced against a balance without the lent funds: more than pro-rata)", ctx);
        }
    }
    if a.supply > 0 && a.lp[I_VAULT] < MIN_LIQ { fail_or_known(out, "C05", nested, "vault holds less than the minimum liquidity of its own shares", ctx); }
    match o {
        Op::Deposit { u: who, amount, .. } => {
            let minted = a.lp[*who] - b.lp[*who];
            if b.supply == 0 {
                if a.lp[I_VAULT] != MIN_LIQ || minted != amount.u128() - MIN_LIQ { fail_or_known(out, "C05", false, "first deposit did not lock exactly the minimum liquidity", ctx); }
            } else {
                let (pos, t) = b.backing();
                if !pos || u256(minted) * u256(t) > u256(amount.u128()) * u256(b.supply) { fail_or_known(out, "C05", false, "deposit minted more than the pro-rata number of shares", ctx); }
                if a.supply != b.supply + minted { fail_or_known(out, "C05", false, "deposit changed the supply by something else than the depositor's shares", ctx); }
            }
        }
        Op::Withdraw { u: who, amount } => {
            let paid = a.ab[*who] - b.ab[*who];
            let (pos, t) = b.backing();
            if !pos || u256(paid) * u256(b.supply) > u256(amount.u128()) * u256(t) { fail_or_known(out, "C05", false, "withdrawal paid more than the pro-rata amount", ctx); }
            // deposit-then-withdraw of exactly the minted shares
            if let Some((Op::Deposit { u: du, amount: dz, .. }, 0, pb, pa)) = prev {
                if du == who && pa.lp[*du] - pb.lp[*du] == amount.u128() && paid > dz.u128() {
                    let mut r = ctx.replay.clone();
                    r["failing_step"] = json!(ctx.step);
                    if pb.supply == 0 && pb.bal > pb.pend {
                        out.known_hit("C05", "donation_before_first_deposit", "deposit-then-withdraw returned more than was deposited (first deposit into a vault that already held donated assets)", r);
                    } else {
                        out.monitor_fail("C05", "deposit-then-withdraw returned more than was deposited", r);
                    }
                }
            }
        }
        _ => {}
    }
}

/// C07 on the vault: pending ledger = charged - transferred to the collector; all-time counters = sums of charges
pub fn monitor_c07(out: &mut Out, b: &Dump, o: &Op, code: i64, a: &Dump, ctx: &Ctx) {
    out.monitor_evals += 1;
    let mut r = ctx.replay.clone();
    r["failing_step"] = json!(ctx.step);
    if code != 0 { if a != b { out.monitor_fail("C07", "a rejected vault operation changed balances or ledgers", r); } return; }
    let sent = a.ab[I_COLL] as i128 - b.ab[I_COLL] as i128;
    let d_pend = a.pend as i128 - b.pend as i128;
    let d_all = a.allf as i128 - b.allf as i128;
    let d_burn = a.burned as i128 - b.burned as i128;
    if d_all < 0 || d_burn < 0 { out.monitor_fail("C07", "an all-time vault counter decreased", r.clone()); }
    // internal identity: whatever was charged (all-time delta) is either still pending or was transferred
    if d_pend != d_all - sent { out.monitor_fail("C07", "vault pending ledger != charged - transferred to the collector", r.clone()); }
    match o {
        Op::Run { script } => {
            // independent recomputation for plain (un-nested, no Try/Fail) top-level loans
            let mut simple = true; let mut charged: u128 = 0; let mut burned: u128 = 0;
            for act in script { match act { Act::Loan { amount, script: inner } => {
                    if inner.iter().all(|x| matches!(x, Act::Pay { .. } | Act::RepayQ { .. })) {
                        charged += floor_fee(amount.u128(), b.fees.0); burned += floor_fee(amount.u128(), b.fees.2);
                    } else { simple = false; } }
                _ => { simple = false; } } }
            if simple && (d_all != charged as i128 || d_burn != burned as i128) {
                out.monitor_fail("C07", "vault all-time counters differ from the sum of floor(fee_share*loan) of the loans just completed", r.clone());
            }
        }
        Op::Collect { .. } => {
            if sent != b.pend as i128 || a.pend != 0 { out.monitor_fail("C07", "vault collection did not transfer exactly the pending amount to the collector", r.clone()); }
            if d_all != 0 || d_burn != 0 || a.supply != b.supply { out.monitor_fail("C07", "vault collection changed a counter or the share supply", r.clone()); }
            for i in 0..a.ab.len() { if i != I_COLL && i != I_VAULT && a.ab[i] != b.ab[i] { out.monitor_fail("C07", "vault collection moved funds of a third party", r.clone()); } }
        }
        Op::Deposit { .. } | Op::Withdraw { .. } | Op::Donate { .. } => {
            if sent != 0 || d_all != 0 || d_burn != 0 { out.monitor_fail("C07", "a non-loan vault operation moved the fee ledgers or paid the collector", r.clone()); }
        }
        _ => {}
    }
}

/// C14 on the vault: the Share query equals what a withdrawal of that many shares pays
pub fn monitor_c14(out: &mut Out, b: &Dump, o: &Op, code: i64, a: &Dump, quote: Option<&Result<u128, String>>, ctx: &Ctx) {
    if let (Op::Withdraw { u: who, amount }, Some(q)) = (o, quote) {
        out.monitor_evals += 1;
        let mut r = ctx.replay.clone();
        r["failing_step"] = json!(ctx.step);
        if code == 0 {
            let paid = a.ab[*who] - b.ab[*who];
            match q {
                Ok(v) => if *v != paid { r["detail"] = json!(format!("share query {} vs paid {} for {} shares", v, paid, amount)); out.monitor_fail("C14", "vault Share query differs from what the withdrawal paid", r); },
                Err(_) => out.monitor_fail("C14", "vault Share query failed but the withdrawal succeeded", r),
            }
        }
    }
}

/// sum of (protocol, flash, burn) fees over all loans of a script tree
fn loan_fee_sums(loans: &[(u128, u32, bool)], fees: (u128, u128, u128)) -> (Uint256, Uint256, Uint256) {
    let mut s = (Uint256::zero(), Uint256::zero(), Uint256::zero());
    for (z, _, _) in loans {
        s.0 += u256(floor_fee(*z, fees.0)); s.1 += u256(floor_fee(*z, fees.1)); s.2 += u256(floor_fee(*z, fees.2));
    }
    s
}

/// C06: settlement of flash loans, on the dumps around one operation
pub fn monitor_c06(out: &mut Out, b: &Dump, o: &Op, code: i64, a: &Dump, ctx: &Ctx) {
    out.monitor_evals += 1;
    let nested = op_has_nested(o);
    if code != 0 {
        if a != b { fail_or_known(out, "C06", false, "a rejected operation (reverted loan) changed balances or ledgers", ctx); }
    }
    if a.counter != 0 { fail_or_known(out, "C06", false, "loan counter is not zero after the transaction", ctx); }
    match o {
        Op::CallbackExt { .. } | Op::NextLoanExt { .. } | Op::CompleteLoanExt { .. } => {
            if code == 0 { fail_or_known(out, "C06", false, "a loan callback was accepted from an outside caller", ctx); }
        }
        _ => {}
    }
    // single top-level loan: Run [Loan z s] or a router loan
    let (z, script, via_router): (u128, &Vec<Act>, bool) = match o {
        Op::Run { script } if script.len() == 1 => match &script[0] { Act::Loan { amount, script } => (amount.u128(), script, false), _ => return },
        Op::RouterLoan { amount, script, .. } => (amount.u128(), script, true),
        _ => return,
    };
    let fees = b.fees;
    let (pf, ff, bf) = (floor_fee(z, fees.0), floor_fee(z, fees.1), floor_fee(z, fees.2));
    let only_quoted = script.len() == 1 && matches!(script[0], Act::RepayQ { .. }) && !via_router;
    if only_quoted {
        if let Act::RepayQ { neg, delta } = &script[0] {
            let q = u256(z) + u256(pf) + u256(ff) + u256(bf);
            let pays = if *neg { if u256(delta.u128()) >= q { Uint256::zero() } else { q - u256(delta.u128()) } } else { q + u256(delta.u128()) };
            let can = b.fl && z > 0 && z <= b.bal && u256(b.ab[I_ADV]) + u256(z) >= pays && q < (Uint256::from(1u8) << 128) && pays < (Uint256::from(1u8) << 128)
                && u256(b.bal) + q < (Uint256::from(1u8) << 128) && u256(b.pend) + u256(pf) < (Uint256::from(1u8) << 128);
            if !*neg || delta.is_zero() {
                if can && code != 0 { fail_or_known(out, "C06", false, "repaying the quoted payback amount did not suffice", ctx); }
            } else if code == 0 && z > 0 { fail_or_known(out, "C06", false, "a loan repaid with less than the quoted amount was accepted", ctx); }
        }
    }
    // through the router: when the payload leaves the router with at least the quoted payback, the loan must go through
    if let Op::RouterLoan { pre, script, .. } = o {
        let simple = script.iter().all(|x| matches!(x, Act::Pay { to, .. } if *to == I_ROUTER));
        if simple && code != 0 {
            let paid: Uint256 = script.iter().map(|x| if let Act::Pay { amount, .. } = x { u256(amount.u128()) } else { Uint256::zero() }).fold(Uint256::zero(), |x, y| x + y);
            let q = u256(z) + u256(pf) + u256(ff) + u256(bf);
            let lim = Uint256::from(1u8) << 127;
            let can = b.fl && z > 0 && z <= b.bal && u256(pre.u128()) <= u256(b.ab[I_ROUTER]) + u256(z)
                && paid <= u256(b.ab[I_ADV]) + u256(pre.u128())
                && u256(b.ab[I_ROUTER]) + u256(z) + paid >= q + u256(pre.u128())
                && q < lim && u256(b.bal) + q < lim && u256(b.pend) + q < lim && u256(b.allf) + q < lim && u256(b.burned) + q < lim
                && (b.cw20 || script.iter().all(|x| matches!(x, Act::Pay { amount, .. } if !amount.is_zero())))
                && u256(b.ab[I_ROUTER]) + u256(z) + paid - u256(pre.u128()) - q + u256(b.ab[if let Op::RouterLoan { u, .. } = o { *u } else { 0 }]) < lim;
            if can { fail_or_known(out, "C06", false, "a router loan whose payload returned at least the quoted payback amount to the router was rejected", ctx); }
        }
    }
    if code != 0 { return; }
    if a.supply > b.supply { fail_or_known(out, "C06", false, "vault shares were minted while a loan was outstanding", ctx); }
    let mut loans = vec![(z, 0u32, false)];
    script_loans(script, 1, false, &mut loans);
    let tried = loans.iter().any(|l| l.2);
    if !tried {
        // every loan of the tree completed
        let (spf, sff, sbf) = loan_fee_sums(&loans, fees);
        if u256(a.bal) < u256(b.bal) + spf + sff {
            fail_or_known(out, "C06", nested, "vault balance after the loan is below balance before + protocol and flash-loan fees of every completed loan", ctx);
        }
        if u256(a.burned) != u256(b.burned) + sbf { fail_or_known(out, "C06", nested, "burned-fee ledger did not grow by the burn fees of the completed loans", ctx); }
        if u256(a.allf) != u256(b.allf) + spf { fail_or_known(out, "C06", nested, "all-time protocol fee ledger did not grow by floor(share*loan) per loan", ctx); }
    } else if u256(a.bal) < u256(b.bal) + u256(pf) + u256(ff) {
        fail_or_known(out, "C06", false, "vault balance after the loan is below balance before + fees of the outer loan", ctx);
    }
    if via_router {
        if a.ab[I_ROUTER] != 0 { fail_or_known(out, "C06", false, "the router kept funds after a loan", ctx); }
        if let Op::RouterLoan { u: who, pre, script, .. } = o {
            let simple = script.iter().all(|x| matches!(x, Act::Pay { to, .. } if *to == I_ROUTER));
            if simple {
                let paid: Uint256 = script.iter().map(|x| if let Act::Pay { amount, .. } = x { u256(amount.u128()) } else { Uint256::zero() }).fold(Uint256::zero(), |x, y| x + y);
                let q = u256(z) + u256(pf) + u256(ff) + u256(bf);
                let expect = u256(b.ab[I_ROUTER]) + u256(z) + paid - u256(pre.u128()) - q;
                if u256(a.ab[*who]) != u256(b.ab[*who]) + expect { fail_or_known(out, "C06", false, "the initiator did not receive exactly the router's proceeds minus the quoted payback", ctx); }
                if u256(a.bal) != u256(b.bal) + u256(pf) + u256(ff) { fail_or_known(out, "C06", false, "the router did not pay the vault exactly the quoted payback amount", ctx); }
            }
        }
    }
}

// ---- running a history -------------------------------------------------------------------------

pub enum Source { Fixed(Vec<Op>), Gen(usize) }

/// deploy, run (generating online when asked), monitor, and emit one correspondence case
#[allow(clippy::too_many_arguments)]
pub fn run_history(out: &mut Out, prop: &str, stream: &str, rng: &mut Rng, mix: Mix, cw20: bool, fees: (u128, u128, u128), funds: [u128; 5], src: Source) -> Option<Vec<Op>> {
    let mut w = match deploy(cw20, fees, funds) { Ok(w) => w, Err(e) => { out.count(&format!("deploy_failed:{}", &e[..e.len().min(40)])); return None; } };
    let d0 = w.dump();
    let mut ops: Vec<Op> = vec![];
    let mut obs: Vec<String> = vec!["0".into()];
    let mut trail: Vec<(Op, i64, Dump, Dump)> = vec![];
    let (fixed, n) = match &src { Source::Fixed(v) => (Some(v.clone()), v.len()), Source::Gen(n) => (None, *n) };
    let mut cur = d0.clone();
    let mut quotes: Vec<Option<Result<u128, String>>> = vec![];
    for i in 0..n {
        let o = match &fixed { Some(v) => v[i].clone(), None => gen_op(rng, &cur, mix, cw20, trail.last()) };
        // C14: the Share query issued in the same state immediately before a withdrawal
        quotes.push(if let Op::Withdraw { amount, .. } = &o { Some(w.share(amount.u128())) } else { None });
        let code = w.exec(&o);
        let after = w.dump();
        obs.push(code.to_string());
        obs.extend(after.obs());
        ops.push(o.clone());
        trail.push((o, code, cur.clone(), after.clone()));
        cur = after;
    }
    let replay = history_replay(stream, cw20, fees, &funds, &ops);
    let mut kinds = std::collections::BTreeSet::new();
    let mut ok_ops = 0;
    let mut remainder = false;
    for (i, (o, code, b, a)) in trail.iter().enumerate() {
        let ctx = Ctx { replay: &replay, step: i };
        let prev = if i > 0 { Some(&trail[i - 1]) } else { None };
        if prop == "C05" { monitor_c05(out, b, o, *code, a, prev, &ctx); }
        if prop == "C06" { monitor_c06(out, b, o, *code, a, &ctx); }
        if prop == "C07" { monitor_c07(out, b, o, *code, a, &ctx); }
        if prop == "C14" { monitor_c14(out, b, o, *code, a, quotes[i].as_ref(), &ctx); }
        let name = serde_json::to_value(o).ok().and_then(|v| v.as_object().and_then(|m| m.keys().next().cloned())).unwrap_or_default();
        out.count(&format!("op:{}:{}", name, match code { 0 => "ok", 2 => "disabled", 3 => "unauthorized", _ => "rejected" }));
        if *code == 0 {
            ok_ops += 1; kinds.insert(name);
            if b.supply > 0 && a.supply > 0 && u256(b.backing().1) * u256(a.supply) != u256(a.backing().1) * u256(b.supply) { remainder = true; }
        }
        if op_has_nested(o) { out.count(if *code == 0 { "nested_loan:ok" } else { "nested_loan:rejected" }); }
    }
    out.count(if cw20 { "asset:cw20" } else { "asset:native" });
    if kinds.len() >= 3 && remainder && ok_ops >= 3 { out.nontrivial_key(hash_str(&format!("{:?}{:?}{:?}", fees, funds, ops))); }
    out.sample(json!({"asset": if cw20 {"cw20"} else {"native"}, "fees": [fees.0.to_string(), fees.1.to_string(), fees.2.to_string()], "ops": ops.iter().map(op_coq).collect::<Vec<_>>() }));
    out.case(stream, &history_term(cw20, fees, &d0.ab, &ops), &obs, replay);
    Some(ops)
}

pub fn parse_replay(path: &str) -> Option<(bool, (u128, u128, u128), [u128; 5], Vec<Op>)> {
    // ./check runs the harness from harness/: accept paths relative to the framework root as well
    let text = std::fs::read_to_string(path).or_else(|_| std::fs::read_to_string(format!("../{}", path))).ok()?;
    let v: serde_json::Value = serde_json::from_str(&text).ok()?;
    let f = v.get("failing_input").unwrap_or(&v);
    let cw20 = f.get("asset")?.as_str()? == "cw20";
    let fe: Vec<u128> = f.get("fees_protocol_flash_burn")?.as_array()?.iter().filter_map(|x| x.as_str()?.parse().ok()).collect();
    let fu: Vec<u128> = f.get("funds_owner_alice_bob_carol_borrower")?.as_array()?.iter().filter_map(|x| x.as_str()?.parse().ok()).collect();
    let ops: Vec<Op> = serde_json::from_value(f.get("ops")?.clone()).ok()?;
    if fe.len() != 3 || fu.len() != 5 { return None; }
    Some((cw20, (fe[0], fe[1], fe[2]), [fu[0], fu[1], fu[2], fu[3], fu[4]], ops))
}
