//! Deployment of the REAL stableswap_3pool contract (and helpers for stableswap pairs) under cw-multi-test.
#![allow(dead_code)]
use crate::world::*;
use cosmwasm_std::{coin, to_json_binary, Addr, Coin, Decimal, Uint128};
use cw20::{Cw20ExecuteMsg, Cw20QueryMsg};
use cw_multi_test::{App, AppResponse, Executor};
use white_whale_std::fee::Fee;
use white_whale_std::pool_network::asset::{Asset, AssetInfo, TrioInfo};
use white_whale_std::pool_network::trio;

pub fn trio_fee(p: u128, s: u128, b: u128) -> trio::PoolFee {
    trio::PoolFee { protocol_fee: Fee { share: dec(p) }, swap_fee: Fee { share: dec(s) }, burn_fee: Fee { share: dec(b) } }
}

pub struct TrioWorld {
    pub app: App,
    pub trio: Addr,
    pub lp: Addr,
    pub assets: [AssetInfo; 3],
    pub decimals: [u8; 3],
}

/// kinds: false = native, true = cw20
pub fn deploy_trio(kinds: [bool; 3], decimals: [u8; 3], fees: trio::PoolFee, amp: u64) -> Result<TrioWorld, String> {
    deploy_trio_denoms(kinds, decimals, fees, amp, [DENOMS[0], DENOMS[1], DENOMS[2]])
}
/// the same with the native denoms given (e.g. two that differ only in case: bank denoms are case-sensitive)
pub fn deploy_trio_denoms(kinds: [bool; 3], decimals: [u8; 3], fees: trio::PoolFee, amp: u64, denoms: [&str; 3]) -> Result<TrioWorld, String> {
    let mut app = new_app();
    let token_code = app.store_code(token_contract());
    let cw20_code = app.store_code(cw20_base_contract());
    let trio_code = app.store_code(trio_contract());
    let mut infos = vec![];
    for (i, k) in kinds.iter().enumerate() {
        if *k {
            let a = deploy_cw20(&mut app, cw20_code, ["TOKA", "TOKB", "TOKC"][i], decimals[i]);
            infos.push(token(&a));
        } else {
            infos.push(native(denoms[i]));
        }
    }
    let assets = [infos[0].clone(), infos[1].clone(), infos[2].clone()];
    let trio_addr = app.instantiate_contract(
        trio_code, Addr::unchecked(OWNER),
        &trio::InstantiateMsg {
            asset_infos: assets.clone(), token_code_id: token_code, asset_decimals: decimals,
            pool_fees: fees, fee_collector_addr: COLLECTOR.to_string(), amp_factor: amp, token_factory_lp: false,
        },
        &[], "trio", None,
    ).map_err(|e| format!("{:#}", e))?;
    let info: TrioInfo = app.wrap().query_wasm_smart(&trio_addr, &trio::QueryMsg::Trio {}).unwrap();
    let lp = match info.liquidity_token { AssetInfo::Token { contract_addr } => Addr::unchecked(contract_addr), _ => panic!("native lp") };
    Ok(TrioWorld { app, trio: trio_addr, lp, assets, decimals })
}

/// runs a closure on the world and converts a panic inside the contract into Err("PANIC ...")
pub fn guarded<T>(f: impl FnOnce() -> anyhow::Result<T>) -> Result<T, String> {
    match std::panic::catch_unwind(std::panic::AssertUnwindSafe(f)) {
        Ok(Ok(v)) => Ok(v),
        Ok(Err(e)) => Err(format!("{:#}", e)),
        Err(p) => {
            let msg = if let Some(s) = p.downcast_ref::<&str>() { s.to_string() }
                else if let Some(s) = p.downcast_ref::<String>() { s.clone() } else { "panic".into() };
            Err(format!("PANIC {}", msg))
        }
    }
}

impl TrioWorld {
    pub fn height(&self) -> u64 { self.app.block_info().height }
    pub fn advance(&mut self, dh: u64) { self.app.update_block(|b| { b.height += dh; b.time = b.time.plus_seconds(5 * dh.min(1 << 30)); }); }
    pub fn funds_for(&self, amounts: &[(usize, u128)]) -> Vec<Coin> {
        let mut v: Vec<Coin> = vec![];
        for (i, a) in amounts {
            if let AssetInfo::NativeToken { denom } = &self.assets[*i] { if *a > 0 { v.push(coin(*a, denom)); } }
        }
        v.sort_by(|a, b| a.denom.cmp(&b.denom));
        v
    }
    pub fn allow(&mut self, who: &str, i: usize, amount: u128) {
        if let AssetInfo::Token { contract_addr } = &self.assets[i] {
            let tok = Addr::unchecked(contract_addr);
            let cur: cw20::AllowanceResponse = self.app.wrap().query_wasm_smart(&tok,
                &Cw20QueryMsg::Allowance { owner: who.to_string(), spender: self.trio.to_string() }).unwrap();
            if !cur.allowance.is_zero() {
                self.app.execute_contract(Addr::unchecked(who), tok.clone(),
                    &Cw20ExecuteMsg::DecreaseAllowance { spender: self.trio.to_string(), amount: cur.allowance, expires: None }, &[]).unwrap();
            }
            if amount > 0 {
                self.app.execute_contract(Addr::unchecked(who), tok,
                    &Cw20ExecuteMsg::IncreaseAllowance { spender: self.trio.to_string(), amount: Uint128::new(amount), expires: None }, &[]).unwrap();
            }
        }
    }
    pub fn provide(&mut self, who: &str, d: [u128; 3], tol: Option<Decimal>) -> Result<AppResponse, String> {
        for i in 0..3 { self.allow(who, i, d[i]); }
        let funds = self.funds_for(&[(0, d[0]), (1, d[1]), (2, d[2])]);
        let msg = trio::ExecuteMsg::ProvideLiquidity {
            assets: [Asset { info: self.assets[0].clone(), amount: Uint128::new(d[0]) },
                     Asset { info: self.assets[1].clone(), amount: Uint128::new(d[1]) },
                     Asset { info: self.assets[2].clone(), amount: Uint128::new(d[2]) }],
            slippage_tolerance: tol, receiver: None };
        let (app, trio) = (&mut self.app, self.trio.clone());
        guarded(|| app.execute_contract(Addr::unchecked(who), trio, &msg, &funds))
    }
    pub fn withdraw(&mut self, who: &str, amount: u128) -> Result<AppResponse, String> {
        let msg = Cw20ExecuteMsg::Send { contract: self.trio.to_string(), amount: Uint128::new(amount),
            msg: to_json_binary(&trio::Cw20HookMsg::WithdrawLiquidity {}).unwrap() };
        let (app, lp) = (&mut self.app, self.lp.clone());
        guarded(|| app.execute_contract(Addr::unchecked(who), lp, &msg, &[]))
    }
    /// swap offering asset index `i` for asset index `j`
    pub fn swap(&mut self, who: &str, i: usize, j: usize, amount: u128, belief: Option<Decimal>, max_spread: Option<Decimal>) -> Result<AppResponse, String> {
        self.swap_to(who, i, j, amount, belief, max_spread, None)
    }
    /// `to`: the account the proceeds are addressed to (None = the sender)
    pub fn swap_to(&mut self, who: &str, i: usize, j: usize, amount: u128, belief: Option<Decimal>, max_spread: Option<Decimal>, to: Option<String>) -> Result<AppResponse, String> {
        let ask = self.assets[j].clone();
        let trio_addr = self.trio.clone();
        match self.assets[i].clone() {
            AssetInfo::NativeToken { denom } => {
                let funds = if amount > 0 { vec![coin(amount, denom.clone())] } else { vec![] };
                let msg = trio::ExecuteMsg::Swap { offer_asset: Asset { info: self.assets[i].clone(), amount: Uint128::new(amount) },
                    ask_asset: ask, belief_price: belief, max_spread, to: to.clone() };
                let app = &mut self.app;
                guarded(|| app.execute_contract(Addr::unchecked(who), trio_addr, &msg, &funds))
            }
            AssetInfo::Token { contract_addr } => {
                let msg = Cw20ExecuteMsg::Send { contract: trio_addr.to_string(), amount: Uint128::new(amount),
                    msg: to_json_binary(&trio::Cw20HookMsg::Swap { ask_asset: ask, belief_price: belief, max_spread, to: to.clone() }).unwrap() };
                let app = &mut self.app;
                guarded(|| app.execute_contract(Addr::unchecked(who), Addr::unchecked(contract_addr), &msg, &[]))
            }
        }
    }
    pub fn collect(&mut self, who: &str) -> Result<AppResponse, String> {
        let (app, trio) = (&mut self.app, self.trio.clone());
        guarded(|| app.execute_contract(Addr::unchecked(who), trio, &trio::ExecuteMsg::CollectProtocolFees {}, &[]))
    }
    pub fn ramp(&mut self, who: &str, future_a: u64, future_block: u64) -> Result<AppResponse, String> {
        let msg = trio::ExecuteMsg::UpdateConfig { owner: None, fee_collector_addr: None, pool_fees: None, feature_toggle: None,
            amp_factor: Some(trio::RampAmp { future_a, future_block }) };
        let (app, trio) = (&mut self.app, self.trio.clone());
        guarded(|| app.execute_contract(Addr::unchecked(who), trio, &msg, &[]))
    }
    pub fn donate(&mut self, who: &str, i: usize, amount: u128) -> Result<AppResponse, String> {
        let trio_addr = self.trio.clone();
        match self.assets[i].clone() {
            AssetInfo::NativeToken { denom } => { let app = &mut self.app; guarded(|| app.send_tokens(Addr::unchecked(who), trio_addr, &[coin(amount, denom)])) }
            AssetInfo::Token { contract_addr } => { let app = &mut self.app; guarded(|| app.execute_contract(Addr::unchecked(who), Addr::unchecked(contract_addr),
                &Cw20ExecuteMsg::Transfer { recipient: trio_addr.to_string(), amount: Uint128::new(amount) }, &[])) }
        }
    }
    pub fn config(&self) -> trio::Config {
        self.app.wrap().query_wasm_smart(&self.trio, &trio::QueryMsg::Config {}).unwrap()
    }
    pub fn bal(&self, i: usize, who: &str) -> u128 { asset_balance(&self.app, &self.assets[i], who) }
    pub fn pool_bal(&self, i: usize) -> u128 { self.bal(i, self.trio.as_str()) }
    pub fn lp_bal(&self, who: &str) -> u128 { cw20_balance(&self.app, &self.lp, who) }
    pub fn lp_supply(&self) -> u128 { cw20_supply(&self.app, &self.lp) }
    pub fn query_pool(&self) -> Result<trio::PoolResponse, String> {
        let (app, trio) = (&self.app, self.trio.clone());
        guarded(|| app.wrap().query_wasm_smart::<trio::PoolResponse>(&trio, &trio::QueryMsg::Pool {}).map_err(|e| anyhow::anyhow!(e.to_string())))
    }
    pub fn fees_query(&self, all_time: bool) -> [u128; 3] {
        let r: trio::ProtocolFeesResponse = self.app.wrap().query_wasm_smart(&self.trio,
            &trio::QueryMsg::ProtocolFees { asset_id: None, all_time: Some(all_time) }).unwrap();
        [r.fees[0].amount.u128(), r.fees[1].amount.u128(), r.fees[2].amount.u128()]
    }
    /// the single-asset forms of the ledger queries (`asset_id: Some(..)`) against the whole-ledger forms
    pub fn ledger_queries_disagree(&self) -> Option<String> {
        let (pend, burned, alltime) = (self.fees_query(false), self.burned_query(), self.fees_query(true));
        for i in 0..3 {
            let id = match &self.assets[i] { AssetInfo::NativeToken { denom } => denom.clone(), AssetInfo::Token { contract_addr } => contract_addr.clone() };
            let p: Result<trio::ProtocolFeesResponse, _> = self.app.wrap().query_wasm_smart(&self.trio, &trio::QueryMsg::ProtocolFees { asset_id: Some(id.clone()), all_time: None });
            let b: Result<trio::ProtocolFeesResponse, _> = self.app.wrap().query_wasm_smart(&self.trio, &trio::QueryMsg::BurnedFees { asset_id: Some(id.clone()) });
            match p { Ok(r) if r.fees.len() == 1 && r.fees[0].amount.u128() == pend[i] && r.fees[0].info == self.assets[i] => {}
                      _ => return Some(format!("ProtocolFees{{asset_id: {}}} disagrees with the pending ledger", id)) }
            match b { Ok(r) if r.fees.len() == 1 && r.fees[0].amount.u128() == burned[i] && r.fees[0].info == self.assets[i] => {}
                      _ => return Some(format!("BurnedFees{{asset_id: {}}} disagrees with the burned ledger", id)) }
            // asked for the all-time counter of one asset (the code answers with the whole all-time list): the asset's entry must be its all-time amount
            let a: Result<trio::ProtocolFeesResponse, _> = self.app.wrap().query_wasm_smart(&self.trio, &trio::QueryMsg::ProtocolFees { asset_id: Some(id.clone()), all_time: Some(true) });
            match a { Ok(r) if r.fees.iter().any(|f| f.info == self.assets[i]) && r.fees.iter().filter(|f| f.info == self.assets[i]).all(|f| f.amount.u128() == alltime[i]) => {}
                      _ => return Some(format!("ProtocolFees{{asset_id: {}, all_time: true}} disagrees with the all-time ledger", id)) }
        }
        None
    }
    pub fn burned_query(&self) -> [u128; 3] {
        let r: trio::ProtocolFeesResponse = self.app.wrap().query_wasm_smart(&self.trio,
            &trio::QueryMsg::BurnedFees { asset_id: None }).unwrap();
        [r.fees[0].amount.u128(), r.fees[1].amount.u128(), r.fees[2].amount.u128()]
    }
    pub fn simulate(&self, i: usize, j: usize, amount: u128) -> Result<trio::SimulationResponse, String> {
        let (app, trio) = (&self.app, self.trio.clone());
        let offer = Asset { info: self.assets[i].clone(), amount: Uint128::new(amount) };
        let ask = Asset { info: self.assets[j].clone(), amount: Uint128::zero() };
        guarded(|| app.wrap().query_wasm_smart::<trio::SimulationResponse>(&trio, &trio::QueryMsg::Simulation { offer_asset: offer, ask_asset: ask })
            .map_err(|e| anyhow::anyhow!(e.to_string())))
    }
}

/// class of a failed call as the model encodes it: PANIC -> None (observation [2]); otherwise Some(error class)
pub fn fail_class(e: &str) -> Option<i64> {
    if e.starts_with("PANIC") || e.contains("PANIC") { None } else { Some(crate::common::classify_text(e)) }
}
