//! Histories on a real constant-product pair: op alphabet shared with coq/theories/CP.v, generators,
//! execution with full observation, and the monitors of C01 / C07 / C14 / C15 (selected by `prop`).
#![allow(dead_code)]
use crate::common::*;
use crate::world::*;
use cosmwasm_std::{Isqrt, Uint128, Uint256, Uint512};
use cw_multi_test::AppResponse;
use serde_json::json;
use white_whale_std::pool_network::asset::PairType;
use white_whale_std::pool_network::pair;

pub const ACCTS: [&str; 6] = ["__pool__", "alice", "bob", "carol", "donor", OWNER];
/// receiver index standing for the pool's own fee collector (a self-referential receiver; the model's swap does not depend on the receiver)
pub const TO_COLLECTOR: usize = 99;
/// the second fee collector address an UpdateConfig may name
pub const COLLECTOR2: &str = "collector2";
pub const MIN_LIQ: u128 = 1000;

#[derive(Clone, Debug)]
pub enum POp {
    Provide { who: usize, d0: u128, d1: u128, tol: Option<u128>, receiver: Option<usize> },
    Withdraw { who: usize, a: u128 },
    Swap { who: usize, dir: bool, x: u128, belief: Option<u128>, max_spread: Option<u128>, to: Option<usize> },
    Collect { who: usize },
    /// `coll`: the message also names a fee collector (false = the original one, true = a second address). The model has no collector
    /// identity: `col` observed = what the two collector addresses together received from the pool.
    UpdateConfig { who: usize, new_owner: Option<usize>, new_fees: Option<(u128, u128, u128)>, toggles: Option<(bool, bool, bool)>, coll: Option<bool> },
    Donate { i: bool, z: u128 },
    TransferLp { from: usize, to: usize, a: u128 },
    /// ExecuteMsg::WithdrawLiquidity {} with `a` of DENOMS[denom] attached (token-factory LP entry point)
    WithdrawDirect { who: usize, denom: usize, a: u128 },
    BadFundsSwap { who: usize, dir: bool, declared: u128, sent: u128 },
    /// variant 0: funds one unit short; 1..4: malformed asset list (see PairWorld::provide_malformed). One model operation: always rejected.
    BadFundsProvide { who: usize, d0: u128, d1: u128, variant: u8 },
    ForeignHookSwap { who: usize, x: u128 },
    TokenViaNativeSwap { who: usize, dir: bool, x: u128 },
}

fn optz(o: &Option<u128>) -> String { match o { Some(v) => format!("(Some {})", v), None => "None".into() } }
fn optn(o: &Option<usize>) -> String { match o { Some(v) => format!("(Some {}%nat)", v), None => "None".into() } }

impl POp {
    pub fn coq(&self) -> String {
        match self {
            POp::Provide { who, d0, d1, tol, receiver } => format!("Provide {}%nat {} {} {} {}", who, d0, d1, optz(tol), optn(receiver)),
            POp::Withdraw { who, a } => format!("Withdraw {}%nat {}", who, a),
            POp::Swap { who, dir, x, belief, max_spread, to } =>
                format!("Swap {}%nat {} {} {} {} {}", who, coqbool(*dir), x, optz(belief), optz(max_spread), optn(to)),
            POp::Collect { who } => format!("Collect {}%nat", who),
            POp::UpdateConfig { who, new_owner, new_fees, toggles, .. } => format!("UpdateConfig {}%nat {} {} {}", who, optn(new_owner),
                match new_fees { Some(f) => format!("(Some (mkFees {} {} {}))", f.0, f.1, f.2), None => "None".into() },
                match toggles { Some(t) => format!("(Some ({}, {}, {}))", coqbool(t.0), coqbool(t.1), coqbool(t.2)), None => "None".into() }),
            POp::Donate { i, z } => format!("Donate {} {}", coqbool(*i), z),
            POp::TransferLp { from, to, a } => format!("TransferLP {}%nat {}%nat {}", from, to, a),
            POp::WithdrawDirect { who, denom, a } => format!("WithdrawDirect {}%nat {}%nat {}", who, denom, a),
            POp::BadFundsSwap { who, dir, declared, sent } => format!("BadFundsSwap {}%nat {} {} {}", who, coqbool(*dir), declared, sent),
            POp::BadFundsProvide { who, d0, d1, .. } => format!("BadFundsProvide {}%nat {} {}", who, d0, d1),
            POp::ForeignHookSwap { who, x } => format!("ForeignHookSwap {}%nat {}", who, x),
            POp::TokenViaNativeSwap { who, dir, x } => format!("TokenViaNativeSwap {}%nat {} {}", who, coqbool(*dir), x),
        }
    }
    pub fn json(&self) -> serde_json::Value { json!(format!("{:?}", self)) }
    pub fn kind(&self) -> &'static str {
        match self { POp::Provide { .. } => "provide", POp::Withdraw { .. } => "withdraw", POp::Swap { .. } => "swap", POp::Collect { .. } => "collect",
                     POp::UpdateConfig { .. } => "update_config", POp::Donate { .. } => "donate", POp::TransferLp { .. } => "transfer_lp", POp::WithdrawDirect { .. } => "withdraw_direct",
                     POp::BadFundsSwap { .. } => "bad_funds_swap", POp::BadFundsProvide { .. } => "bad_funds_provide", POp::ForeignHookSwap { .. } => "foreign_hook_swap",
                     POp::TokenViaNativeSwap { .. } => "token_via_native_swap" }
    }
}

#[derive(Clone, Debug)]
/// `decs`: the pair's asset_decimals (a constant-product pair must not care; the model has no decimals)
pub struct PairCase { pub kinds: [bool; 2], pub fees: (u128, u128, u128), pub ops: Vec<POp>, pub fab: bool, pub decs: [u8; 2] }

impl PairCase {
    pub fn coq(&self) -> String {
        let ops: Vec<String> = self.ops.iter().map(|o| o.coq()).collect();
        format!("(({}, {}), ({}, {}, {}), [{}])", coqbool(self.kinds[0]), coqbool(self.kinds[1]), self.fees.0, self.fees.1, self.fees.2, ops.join("; "))
    }
    pub fn json(&self) -> serde_json::Value {
        json!({"asset_kinds_cw20": self.kinds, "asset_decimals": self.decs, "second_asset_factory_denom": self.fab, "fees_protocol_swap_burn": [self.fees.0.to_string(), self.fees.1.to_string(), self.fees.2.to_string()],
               "accounts": ACCTS, "ops": self.ops.iter().map(|o| format!("{:?}", o)).collect::<Vec<_>>(),
               "machine": self.machine()})
    }
}

/// everything observable that the properties name
#[derive(Clone, Debug, PartialEq)]
pub struct Snap {
    pub bal: [u128; 2], pub res: [u128; 2], pub pending: [u128; 2], pub alltime: [u128; 2], pub burned: [u128; 2],
    pub supply: u128, pub lp: Vec<u128>, pub col: [u128; 2], pub users: Vec<[u128; 2]>,
}

pub fn snap(w: &PairWorld) -> Snap { try_snap(w).expect("Pool query") }
/// None when the pair's Pool query fails (it must answer in every reachable state)
pub fn try_snap(w: &PairWorld) -> Option<Snap> {
    // the query may also ABORT (e.g. pending fees exceeding a reserve make its subtraction overflow): same verdict as an error
    let pool = std::panic::catch_unwind(std::panic::AssertUnwindSafe(|| w.query_pool())).ok()?.ok()?;
    std::panic::catch_unwind(std::panic::AssertUnwindSafe(|| snap_with(w, pool))).ok()
}
fn snap_with(w: &PairWorld, pool: pair::PoolResponse) -> Snap {
    let who = |i: usize| -> &str { if i == 0 { w.pair.as_str() } else { ACCTS[i] } };
    Snap {
        bal: [w.pool_bal(0), w.pool_bal(1)],
        res: [pool.assets[0].amount.u128(), pool.assets[1].amount.u128()],
        pending: w.fees_query(false), alltime: w.fees_query(true), burned: w.burned_query(),
        supply: w.lp_supply(),
        lp: (0..ACCTS.len()).map(|i| w.lp_bal(who(i))).collect(),
        col: [w.bal(0, COLLECTOR) + w.bal(0, COLLECTOR2), w.bal(1, COLLECTOR) + w.bal(1, COLLECTOR2)],
        users: (1..ACCTS.len()).map(|i| [w.bal(0, ACCTS[i]), w.bal(1, ACCTS[i])]).collect(),
    }
}
impl Snap {
    pub fn state_obs(&self) -> Vec<String> {
        let mut v = vec![self.bal[0], self.bal[1], self.pending[0], self.pending[1], self.alltime[0], self.alltime[1],
                         self.burned[0], self.burned[1], self.supply];
        v.extend(self.lp.iter());
        v.push(self.col[0]); v.push(self.col[1]);
        v.iter().map(|x| x.to_string()).collect()
    }
    /// circulating amount of asset i over every tracked account
    pub fn total(&self, i: usize) -> Uint256 {
        let mut t = Uint256::from(self.bal[i]) + Uint256::from(self.col[i]);
        for u in &self.users { t += Uint256::from(u[i]); }
        t
    }
}

fn attr(resp: &AppResponse, key: &str) -> Option<u128> {
    for e in &resp.events {
        if e.ty == "wasm" && e.attributes.iter().any(|a| a.key == "action" && a.value == "swap") {
            for a in &e.attributes { if a.key == key { return a.value.parse().ok(); } }
        }
    }
    None
}

pub fn exec(w: &mut PairWorld, op: &POp) -> Outcome<AppResponse> {
    let d = |o: &Option<u128>| o.map(dec);
    let name = |i: usize, w: &PairWorld| -> String { if i == 0 { w.pair.to_string() } else if i == TO_COLLECTOR { COLLECTOR.to_string() } else { ACCTS[i].to_string() } };
    let r = std::panic::catch_unwind(std::panic::AssertUnwindSafe(|| match op {
        POp::Provide { who, d0, d1, tol, receiver } => { let rc = receiver.map(|r| name(r, w)); let rev = (*d0 ^ *d1) & 1 == 1; w.provide_ext(ACCTS[*who], *d0, *d1, d(tol), rc, rev, None) }
        POp::Withdraw { who, a } => w.withdraw(ACCTS[*who], *a),
        POp::Swap { who, dir, x, belief, max_spread, to } => { let t = to.map(|r| name(r, w)); w.swap(ACCTS[*who], *dir as usize, *x, d(belief), d(max_spread), t) }
        POp::Collect { who } => w.collect(ACCTS[*who]),
        POp::UpdateConfig { who, new_owner, new_fees, toggles, coll } => {
            let msg = pair::ExecuteMsg::UpdateConfig {
                owner: new_owner.map(|o| name(o, w)), fee_collector_addr: coll.map(|c| if c { COLLECTOR2.to_string() } else { COLLECTOR.to_string() }),
                pool_fees: new_fees.map(|f| pool_fee(f.0, f.1, f.2)),
                feature_toggle: toggles.map(|t| pair::FeatureToggle { withdrawals_enabled: t.0, deposits_enabled: t.1, swaps_enabled: t.2 }) };
            let pair = w.pair.clone();
            cw_multi_test::Executor::execute_contract(&mut w.app, cosmwasm_std::Addr::unchecked(ACCTS[*who]), pair, &msg, &[])
        }
        POp::Donate { i, z } => w.donate("donor", *i as usize, *z),
        POp::TransferLp { from, to, a } => {
            let lp = w.lp.clone(); let t = name(*to, w);
            cw_multi_test::Executor::execute_contract(&mut w.app, cosmwasm_std::Addr::unchecked(ACCTS[*from]), lp,
                &cw20::Cw20ExecuteMsg::Transfer { recipient: t, amount: Uint128::new(*a) }, &[])
        }
        POp::BadFundsSwap { who, dir, declared, sent } => {
            let i = *dir as usize; let pair = w.pair.clone();
            let denom = match &w.assets[i] { white_whale_std::pool_network::asset::AssetInfo::NativeToken { denom } => denom.clone(), _ => DENOMS[3].to_string() };
            // declared == attached marks the other malformation: the amounts agree, but the offer (and the coins) are in a denom that is the
            // pool asset's name in UPPER CASE - a different bank denom, which is not the pool's asset
            let (info, denom) = if sent == declared { (native(&denom.to_uppercase()), denom.to_uppercase()) } else { (w.assets[i].clone(), denom) };
            let funds = if *sent > 0 { vec![cosmwasm_std::coin(*sent, denom)] } else { vec![] };
            cw_multi_test::Executor::execute_contract(&mut w.app, cosmwasm_std::Addr::unchecked(ACCTS[*who]), pair,
                &pair::ExecuteMsg::Swap { offer_asset: white_whale_std::pool_network::asset::Asset { info, amount: Uint128::new(*declared) }, belief_price: None, max_spread: Some(dec(DEC / 2)), to: None }, &funds)
        }
        POp::BadFundsProvide { who, d0, d1, variant } => {
            if *variant == 0 {
                // attach one unit less than declared for every native asset
                w.provide_ext(ACCTS[*who], *d0, *d1, None, None, false, Some((d0.saturating_sub(1), d1.saturating_sub(1))))
            } else if *variant == 5 && w.assets.iter().any(|a| matches!(a, white_whale_std::pool_network::asset::AssetInfo::NativeToken { .. })) {
                // well-formed asset list, native amounts declared, NO coin attached at all
                w.provide_ext(ACCTS[*who], *d0, *d1, None, None, false, Some((0, 0)))
            } else { w.provide_malformed(ACCTS[*who], if *variant == 5 { 1 } else { *variant }, *d0, *d1) }
        }
        POp::ForeignHookSwap { who, x } => {
            let f = w.foreign.clone(); let pair = w.pair.to_string();
            cw_multi_test::Executor::execute_contract(&mut w.app, cosmwasm_std::Addr::unchecked(ACCTS[*who]), f,
                &cw20::Cw20ExecuteMsg::Send { contract: pair, amount: Uint128::new(*x), msg: cosmwasm_std::to_json_binary(&pair::Cw20HookMsg::Swap { belief_price: None, max_spread: None, to: None }).unwrap() }, &[])
        }
        POp::TokenViaNativeSwap { who, dir, x } => {
            let i = *dir as usize; let pair = w.pair.clone();
            let info = match &w.assets[i] { white_whale_std::pool_network::asset::AssetInfo::Token { .. } => w.assets[i].clone(), _ => token(&w.foreign) };
            cw_multi_test::Executor::execute_contract(&mut w.app, cosmwasm_std::Addr::unchecked(ACCTS[*who]), pair,
                &pair::ExecuteMsg::Swap { offer_asset: white_whale_std::pool_network::asset::Asset { info, amount: Uint128::new(*x) }, belief_price: None, max_spread: None, to: None }, &[])
        }
        POp::WithdrawDirect { who, denom, a } => {
            let pair = w.pair.clone();
            let funds = if *a > 0 { vec![cosmwasm_std::coin(*a, DENOMS[*denom % 4])] } else { vec![] };
            cw_multi_test::Executor::execute_contract(&mut w.app, cosmwasm_std::Addr::unchecked(ACCTS[*who]), pair, &pair::ExecuteMsg::WithdrawLiquidity {}, &funds)
        }
    }));
    match r {
        Ok(Ok(resp)) => Outcome::Ok(resp),
        Ok(Err(e)) => Outcome::Err(classify_text(&format!("{:#}", e))),
        // a malformed asset list aborts the contract (`expect`) today; how it is refused is not the property's concern
        Err(_) if matches!(op, POp::BadFundsProvide { variant, .. } if *variant > 0) => Outcome::Err(E_OTHER),
        Err(_) => Outcome::Panic("panic".into()),
    }
}

fn u512(x: u128) -> Uint512 { Uint512::from(Uint128::new(x)) }

pub struct CaseResult { pub obs: Vec<String>, pub ok_ops: usize, pub kinds_ok: std::collections::BTreeSet<&'static str>, pub had_remainder: bool }

/// run one case on the real contracts; `prop` selects which property's monitors are active
pub fn run_case(out: &mut Out, prop: &str, case: &PairCase) -> Option<CaseResult> {
    let mut w = deploy_pair_ext(case.kinds, case.decs, pool_fee(case.fees.0, case.fees.1, case.fees.2), PairType::ConstantProduct, case.fab).ok()?;
    let mut obs: Vec<String> = vec![];
    let mut prev = snap(&w);
    let mut fees = case.fees;
    let mut first_deposit_done = false;
    let mut last_provide: Option<(usize, u128, u128, u128)> = None; // who, d0, d1, minted
    let mut col_in = [0u128; 2];       // swap proceeds received by the fee collector as a swap receiver, per asset
    let mut res = CaseResult { obs: vec![], ok_ops: 0, kinds_ok: Default::default(), had_remainder: false };
    let replay = |k: usize, what: &str| json!({"case": case.json(), "failing_op_index": k, "detail": what});
    for (k, op) in case.ops.iter().enumerate() {
        // quote before a swap (C14)
        let sim = if let POp::Swap { dir, x, .. } = op { Some(w.simulate(*dir as usize, *x)) } else { None };
        let r = exec(&mut w, op);
        let mut cur = match try_snap(&w) { Some(s) => s, None => {
            out.monitor_fail(prop, "the pair's Pool query fails in a state the history reached (reported reserves must exist and be backed)", replay(k, "pool query"));
            break;
        } };
        // `col` = what the collector received FROM COLLECTIONS: swap proceeds addressed to the collector are kept apart
        for i in 0..2 { cur.col[i] -= col_in[i]; }
        let mut to_collector = 0u128;
        let mut to_coll = [0u128; 2];
        if let (Outcome::Ok(_), POp::Swap { dir, to: Some(TO_COLLECTOR), .. }) = (&r, op) {
            let ai = if *dir { 0 } else { 1 };
            to_collector = cur.col[ai] - prev.col[ai];
            col_in[ai] += to_collector; cur.col[ai] -= to_collector; to_coll[ai] = to_collector;
        }
        out.count(&format!("op:{}:{}", op.kind(), match &r { Outcome::Ok(_) => "ok".to_string(), Outcome::Err(c) => format!("err{}", c), Outcome::Panic(_) => "panic".into() }));
        match &r {
            Outcome::Ok(resp) => {
                res.ok_ops += 1; res.kinds_ok.insert(op.kind());
                // payout observation
                let mut pay = [0u128; 8];
                match op {
                    POp::Provide { who, receiver, d0, d1, .. } => {
                        let rc = receiver.unwrap_or(*who);
                        pay[0] = cur.lp[rc] - prev.lp[rc];
                        last_provide = if receiver.is_none() { Some((*who, *d0, *d1, pay[0])) } else { None };
                    }
                    POp::Withdraw { who, .. } => {
                        pay[1] = cur.users[*who - 1][0] - prev.users[*who - 1][0];
                        pay[2] = cur.users[*who - 1][1] - prev.users[*who - 1][1];
                    }
                    POp::Swap { who, dir, to, .. } => {
                        let rc = to.unwrap_or(*who);
                        let ai = if *dir { 0 } else { 1 };
                        pay[3] = if rc == 0 { 0 } else if rc == TO_COLLECTOR { to_collector } else { cur.users[rc - 1][ai].wrapping_sub(prev.users[rc - 1][ai]) };
                        if rc == 0 { pay[3] = attr(resp, "return_amount").unwrap_or(0); }
                        pay[4] = attr(resp, "spread_amount").unwrap_or(u128::MAX);
                        pay[5] = attr(resp, "swap_fee_amount").unwrap_or(u128::MAX);
                        pay[6] = attr(resp, "protocol_fee_amount").unwrap_or(u128::MAX);
                        pay[7] = attr(resp, "burn_fee_amount").unwrap_or(u128::MAX);
                    }
                    _ => {}
                }
                obs.push("0".into());
                obs.extend(pay.iter().map(|x| x.to_string()));
                obs.extend(cur.state_obs());

                // ---------------- monitors ----------------
                out.monitor_evals += 1;
                // entries whose declared and attached assets disagree (or that come from a foreign token / the wrong entry point) are refused:
                // an accepted one prices or pays on amounts that never arrived (or keeps a surplus the quote knew nothing of)
                if matches!(op, POp::BadFundsSwap { .. } | POp::BadFundsProvide { .. } | POp::ForeignHookSwap { .. } | POp::TokenViaNativeSwap { .. } | POp::WithdrawDirect { .. }) {
                    out.monitor_fail(prop, &format!("a malformed entry was accepted: {:?}", op), replay(k, "malformed entry"));
                }
                let (s0, s1) = (prev.supply, cur.supply);
                if prop == "C01" {
                    for i in 0..2 {
                        if cur.res[i] as u128 + cur.pending[i] > cur.bal[i] { out.monitor_fail("C01", "pool holds less than reported reserve + owed protocol fee", replay(k, "solvency")); }
                    }
                    if s0 > 0 && s1 > 0 {
                        let lhs = u512(prev.res[0]) * u512(prev.res[1]) * u512(s1) * u512(s1);
                        let rhs = u512(cur.res[0]) * u512(cur.res[1]) * u512(s0) * u512(s0);
                        if lhs > rhs { out.monitor_fail("C01", "value backing one LP token decreased (sqrt(R0*R1)/S)", replay(k, "lp value")); }
                    }
                    if let POp::Withdraw { who, a } = op {
                        for i in 0..2 {
                            if u512(pay[1 + i]) * u512(s0) > u512(prev.res[i]) * u512(*a) { out.monitor_fail("C01", "withdrawal paid more than the pro-rata share", replay(k, "pro rata")); }
                        }
                        if let Some((pw, d0, d1, m)) = last_provide {
                            if pw == *who && m == *a && m > 0 && (pay[1] > d0 || pay[2] > d1) {
                                out.monitor_fail("C01", "deposit then immediate withdrawal returned more than was deposited", replay(k, "deposit-withdraw"));
                            }
                        }
                    }
                    if let POp::Provide { d0, d1, .. } = op {
                        if s0 > 0 {
                            // minted at most pro rata
                            for (i, d) in [(0usize, d0), (1usize, d1)] {
                                if u512(pay[0]) * u512(prev.res[i]) > u512(*d) * u512(s0) { out.monitor_fail("C01", "deposit minted more than the pro-rata LP amount", replay(k, "mint pro rata")); }
                            }
                        } else { first_deposit_done = true; }
                    }
                    if first_deposit_done && (cur.lp[0] < MIN_LIQ || cur.supply < MIN_LIQ) { out.monitor_fail("C01", "minimum-liquidity stake no longer locked in the pool", replay(k, "min liquidity")); }
                }
                if prop == "C07" {
                    if let Some(m) = w.ledger_queries_disagree() { out.monitor_fail("C07", &m, replay(k, "single-asset ledger query")); }
                    let mut charged = [0u128; 2]; let mut burned = [0u128; 2];
                    if let POp::Swap { dir, x, .. } = op {
                        let ai = if *dir { 0 } else { 1 }; let oi = 1 - ai;
                        // independent recomputation of the charges
                        let gross = u512(prev.res[ai]) * u512(*x) / (u512(prev.res[oi]) + u512(*x));
                        let pf = gross * u512(fees.0) / u512(DEC); let bf = gross * u512(fees.2) / u512(DEC);
                        charged[ai] = Uint128::try_from(pf).map(|v| v.u128()).unwrap_or(u128::MAX);
                        burned[ai] = Uint128::try_from(bf).map(|v| v.u128()).unwrap_or(u128::MAX);
                    }
                    for i in 0..2 {
                        let sent = cur.col[i] - prev.col[i];
                        if cur.pending[i] as i128 - prev.pending[i] as i128 != charged[i] as i128 - sent as i128 {
                            out.monitor_fail("C07", "pending protocol-fee ledger != charged - transferred to the collector", replay(k, "ledger identity"));
                        }
                        if cur.alltime[i] != prev.alltime[i] + charged[i] { out.monitor_fail("C07", "all-time collected counter != sum of charges", replay(k, "all-time collected")); }
                        if cur.burned[i] != prev.burned[i] + burned[i] { out.monitor_fail("C07", "all-time burned counter != sum of burn charges", replay(k, "all-time burned")); }
                        // burned amounts leave circulation; nothing else appears or disappears
                        if cur.total(i) + Uint256::from(burned[i]) + Uint256::from(to_coll[i]) != prev.total(i) { out.monitor_fail("C07", "circulating amount changed by something other than the burn fee", replay(k, "conservation")); }
                        if !matches!(op, POp::Collect { .. }) && sent != 0 { out.monitor_fail("C07", "collector received funds outside a collection", replay(k, "collector")); }
                    }
                    if let POp::Collect { .. } = op {
                        for i in 0..2 {
                            if cur.res[i] != prev.res[i] { out.monitor_fail("C07", "collecting fees changed the LP reserves", replay(k, "collect frame")); }
                            for (u, pu) in cur.users.iter().zip(prev.users.iter()) { if u[i] != pu[i] { out.monitor_fail("C07", "collection moved funds of a third party", replay(k, "collect frame")); } }
                        }
                    }
                }
                if prop == "C14" {
                    if let (POp::Swap { .. }, Some(sim)) = (op, &sim) {
                        match sim {
                            Ok(s) => {
                                let q = [s.return_amount.u128(), s.spread_amount.u128(), s.swap_fee_amount.u128(), s.protocol_fee_amount.u128(), s.burn_fee_amount.u128()];
                                if q != [pay[3], pay[4], pay[5], pay[6], pay[7]] { out.monitor_fail("C14", "simulation differs from the executed swap", replay(k, &format!("sim {:?} exec {:?}", q, &pay[3..8]))); }
                                // recorded = transferred: ledgers moved by exactly the quoted fees
                                let ai = if let POp::Swap { dir, .. } = op { if *dir { 0 } else { 1 } } else { 0 };
                                if cur.pending[ai] - prev.pending[ai] != q[3] || cur.burned[ai] - prev.burned[ai] != q[4] || prev.bal[ai] - cur.bal[ai] != q[0] + q[4] {
                                    out.monitor_fail("C14", "executed swap recorded/transferred amounts other than quoted", replay(k, "ledger vs quote"));
                                }
                            }
                            Err(_) => out.monitor_fail("C14", "simulation failed but the swap executed", replay(k, "sim err")),
                        }
                    }
                }
                if prop == "C15" {
                    if let POp::Swap { x, belief, max_spread, .. } = op {
                        let g = pay[3] + pay[5] + pay[6] + pay[7]; let sp = pay[4];
                        let s_eff = max_spread.unwrap_or(DEC / 100).min(DEC / 2);
                        match belief {
                            None => { if g + sp > 0 && u512(sp) * u512(DEC) / u512(g + sp) > u512(s_eff) { out.monitor_fail("C15", "swap succeeded with spread/(return+spread) above the max spread", replay(k, "max spread")); } }
                            Some(bp) => {
                                if *bp > 0 {
                                    // er as documented: floor(offer * floor(10^36/p) / 10^18); accepted means g >= er or
                                    // floor((er-g)*1e18/er) <= s  <=>  (er-g)*1e18 < (s+1)*er
                                    let inv = u512(DEC) * u512(DEC) / u512(*bp);
                                    let er = u512(*x) * inv / u512(DEC);
                                    if u512(g) < er && (er - u512(g)) * u512(DEC) >= (u512(s_eff) + u512(1)) * er {
                                        out.monitor_fail("C15", "swap succeeded although (expected - gross)/expected exceeds the max spread", replay(k, "belief price"));
                                    }
                                    // exact quotient with the proved truncation slack: (g+1)*1e18*p + (er+offer)*p > offer*1e18*(1e18-s)
                                    let lhs = (u512(g) + u512(1)) * u512(DEC) * u512(*bp) + (er + u512(*x)) * u512(*bp);
                                    let rhs = u512(*x) * u512(DEC) * u512(DEC - s_eff);
                                    if u512(g) < er && lhs <= rhs { out.monitor_fail("C15", "swap succeeded with gross return below (offer/belief_price)*(1-s) beyond the truncation slack", replay(k, "belief price exact")); }
                                }
                            }
                        }
                    }
                    if let POp::Provide { d0, d1, tol: Some(t), .. } = op {
                        if s0 > 0 && *t <= DEC {
                            // documented bound: each deposit ratio*(1-t) <= pool ratio (18-decimal truncation)
                            let om = u512(DEC - *t);
                            let a = u512(*d0) * u512(DEC) / u512(*d1) * om / u512(DEC); let b = u512(prev.res[0]) * u512(DEC) / u512(prev.res[1]);
                            let c = u512(*d1) * u512(DEC) / u512(*d0) * om / u512(DEC); let e = u512(prev.res[1]) * u512(DEC) / u512(prev.res[0]);
                            if a > b || c > e { out.monitor_fail("C15", "deposit succeeded outside its slippage tolerance", replay(k, "tolerance")); }
                        }
                        if s0 > 0 && *t > DEC { out.monitor_fail("C15", "deposit with tolerance above 1 succeeded", replay(k, "tolerance>1")); }
                    }
                }
                if prev.res[0] > 0 && prev.res[1] > 0 { res.had_remainder = true; }
                if let POp::UpdateConfig { new_fees: Some(f), .. } = op { fees = *f; }
                // "immediate": the withdrawal is the very next successful operation after the deposit
                if !matches!(op, POp::Provide { receiver: None, .. }) { last_provide = None; }
            }
            Outcome::Err(c) => {
                obs.push("1".into()); obs.push(c.to_string());
                if cur != prev { out.monitor_fail(prop, "a rejected operation changed balances or ledgers", replay(k, "atomicity")); }
                if prop == "C15" && *c == E_SLIPPAGE {
                    // converse for deposits: a deposit whose two ratios satisfy the documented bound on the reported reserves is not refused for slippage
                    if let POp::Provide { d0, d1, tol: Some(t), .. } = op {
                        if prev.supply > 0 && *t <= DEC && *d0 > 0 && *d1 > 0 && prev.res[0] > 0 && prev.res[1] > 0 {
                            let om = u512(DEC - *t);
                            let a = u512(*d0) * u512(DEC) / u512(*d1) * om / u512(DEC); let b = u512(prev.res[0]) * u512(DEC) / u512(prev.res[1]);
                            let c2 = u512(*d1) * u512(DEC) / u512(*d0) * om / u512(DEC); let e = u512(prev.res[1]) * u512(DEC) / u512(prev.res[0]);
                            if a <= b && c2 <= e { out.monitor_fail("C15", "a deposit within its slippage tolerance (documented ratio bound on the reported reserves) was refused for slippage", replay(k, "tolerance converse")); }
                        }
                    }
                    // converse: requests within the limits are not rejected for slippage
                    if let (POp::Swap { belief: None, max_spread, .. }, Some(Ok(s))) = (op, &sim) {
                        let g = s.return_amount.u128() + s.swap_fee_amount.u128() + s.protocol_fee_amount.u128() + s.burn_fee_amount.u128();
                        let sp = s.spread_amount.u128();
                        let s_eff = max_spread.unwrap_or(DEC / 100).min(DEC / 2);
                        if g + sp > 0 && u512(sp) * u512(DEC) <= u512(s_eff) * u512(g + sp) { out.monitor_fail("C15", "swap within the max spread was rejected for slippage", replay(k, "converse")); }
                    }
                }
            }
            Outcome::Panic(_) => {
                obs.push("2".into());
                if cur != prev { out.monitor_fail(prop, "an aborted operation changed balances or ledgers", replay(k, "atomicity")); }
                // C15, converse clause: the deposit that funds an empty pool has no ratio to deviate from - with a tolerance given it is within the
                // limits by definition and must not be refused (an abort refuses it); amounts kept far from every overflow
                if let POp::Provide { d0, d1, tol: Some(_), .. } = op {
                    if prev.supply == 0 && *d0 > 0 && *d1 > 0 && *d0 < (1u128 << 100) && *d1 < (1u128 << 100) {
                        out.monitor_fail("C15", "the first deposit into an empty pool aborted because it carries a slippage tolerance", replay(k, "first deposit with tolerance"));
                    }
                }
            }
        }
        prev = cur;
    }
    res.obs = obs;
    Some(res)
}

// ---------------- generators ----------------
pub struct Bias { pub tiny_swaps: bool, pub spreads: bool, pub toggles: bool }

pub fn gen_case(rng: &mut Rng, len: usize, bias: &Bias) -> PairCase {
    let kinds = [rng.chance(1, 3), rng.chance(1, 3)];
    let mut fees = fee_triple(rng, true);
    if bias.tiny_swaps && rng.chance(1, 2) { fees = (DEC / 100 + rng.below128(DEC / 10), fee_share(rng).min(DEC / 10), if rng.chance(1, 2) { DEC / 200 } else { 0 }); }
    let cap: u32 = 100;
    // tracked approximations to keep most ops valid
    let mut r = [0u128, 0u128]; let mut supply: u128 = 0; let mut lp = [0u128; 6];
    let mut ops = vec![];
    let scale = if bias.tiny_swaps { *rng.pick(&[1_000_000u128, 50_000_000, 1_000_000_000_000]) } else { magnitude(rng, cap).max(5000) };
    let mut owner = 5usize;
    for k in 0..len {
        let who = 1 + rng.below(3) as usize;
        let choice = if k == 0 { 0 } else { rng.below(100) };
        let op = if choice < 22 || supply == 0 {
            let (d0, d1) = if supply == 0 {
                (scale.saturating_add(rng.below128(scale / 7 + 1)), (scale / (1 + rng.below(4) as u128)).max(1200).saturating_add(rng.below128(977)))
            } else if rng.chance(3, 4) && r[0] > 0 {
                // roughly proportional deposit
                let d0 = (r[0] / (2 + rng.below(50) as u128)).max(1) + rng.below(3) as u128;
                let d1 = ((Uint256::from(d0) * Uint256::from(r[1]) / Uint256::from(r[0].max(1))).to_string().parse::<u128>().unwrap_or(1)).max(1) + rng.below(3) as u128;
                (d0, d1)
            } else { (magnitude(rng, cap), magnitude(rng, cap)) };
            let tol = if bias.spreads || rng.chance(1, 4) { Some(*rng.pick(&[0u128, 1, DEC / 1000, DEC / 100, DEC / 2, DEC, DEC + 1, 2 * DEC])) } else { None };
            let receiver = if rng.chance(1, 6) { Some(1 + rng.below(3) as usize) } else { None };
            POp::Provide { who, d0: if rng.chance(1, 40) { 0 } else { d0 }, d1, tol, receiver }
        } else if choice < 40 {
            let have = lp[who];
            let a = match rng.below(6) { 0 => have, 1 => have / 2, 2 => 1, 3 => have.saturating_add(1), 4 => rng.below128(have.saturating_add(1)), _ => have / 3 + 1 };
            POp::Withdraw { who, a }
        } else if choice < 80 {
            let dir = rng.chance(1, 2);
            let base = if dir { r[1] } else { r[0] };
            let x = if bias.tiny_swaps { match rng.below(4) { 0 => 1 + rng.below(50) as u128, 1 => base / 5000 + 1, _ => base / 200 + rng.below(1000) as u128 } }
                    else { match rng.below(8) { 0 => magnitude(rng, cap), 1 => 1, 2 => base, 3 => base / 1000 + 1, 4 => 0, _ => base / (3 + rng.below(200) as u128) + rng.below(7) as u128 } };
            let max_spread = if bias.spreads { if rng.chance(1, 4) { None } else { Some(*rng.pick(&[0u128, 1, DEC / 1000, DEC / 100, DEC / 20, DEC / 2, DEC / 2 + 1, DEC, 2 * DEC])) } }
                             else if rng.chance(1, 3) { Some(*rng.pick(&[0u128, 1, DEC / 1000, DEC / 100, DEC / 20, DEC / 2, DEC / 2 + 1, DEC, 2 * DEC])) } else { if rng.chance(1, 2) { Some(DEC / 2) } else { None } };
            let belief = if (bias.spreads && rng.chance(1, 2)) || rng.chance(1, 8) {
                // around the pool price op/ask (belief price = offer per ask)
                let (o, a) = if dir { (r[1], r[0]) } else { (r[0], r[1]) };
                let p = (Uint256::from(o.max(1)) * Uint256::from(DEC) / Uint256::from(a.max(1))).to_string().parse::<u128>().unwrap_or(DEC);
                Some(match rng.below(5) { 0 => 0, 1 => p, 2 => p / 2 + 1, 3 => p.saturating_mul(2), _ => p.saturating_add(p / 100) })
            } else { None };
            let to = if rng.chance(1, 6) { Some(1 + rng.below(4) as usize) } else if rng.chance(1, 12) { Some(TO_COLLECTOR) } else { None };
            POp::Swap { who, dir, x, belief, max_spread, to }
        } else if choice < 88 { POp::Collect { who: 1 + rng.below(5) as usize }
        } else if choice < 93 {
            let sender = if rng.chance(4, 5) { owner } else { who };
            let new_owner = if rng.chance(1, 5) { Some(1 + rng.below(5) as usize) } else { None };
            let fv = !rng.chance(1, 6); let new_fees = if rng.chance(2, 3) { Some(fee_triple(rng, fv)) } else { None };
            let toggles = if bias.toggles || rng.chance(1, 4) { Some((rng.chance(3, 4), rng.chance(3, 4), rng.chance(3, 4))) } else { None };
            POp::UpdateConfig { who: sender, new_owner, new_fees, toggles, coll: if rng.chance(1, 3) { Some(rng.chance(1, 2)) } else { None } }
        } else if choice < 95 { POp::Donate { i: rng.chance(1, 2), z: magnitude(rng, 90) }
        } else if choice < 98 && rng.chance(3, 4) {
            // malformed entries (must be rejected and change nothing)
            let dirn = rng.chance(1, 2);
            match rng.below(6) {
                4 | 5 => { let small = rng.chance(1, 2);
                           let d = if small { 1000 + rng.below128(100_000) } else { magnitude(rng, 60).max(1) };
                           // (d1 is drawn before the variant, as ever: the generated stream stays what it was)
                           let d1 = if rng.chance(1, 2) { d } else { 1 + rng.below128(d.max(2)) };
                           let v = 1 + rng.below(4) as u8;
                           POp::BadFundsProvide { who, d0: d, d1, variant: if v == 4 && d % 2 == 0 { 5 } else { v } } }
                0 if !kinds[dirn as usize] => { let d = 1000 + rng.below128(1_000_000); POp::BadFundsSwap { who, dir: dirn, declared: d, sent: match rng.below(3) { 0 => d - 1, 1 => d + 1, _ => d } } }
                1 if !kinds[0] || !kinds[1] => POp::BadFundsProvide { who, d0: 1000 + rng.below128(100_000), d1: 1000 + rng.below128(100_000), variant: 0 },
                2 => POp::ForeignHookSwap { who, x: rng.below128(1_000_000) },
                _ => POp::TokenViaNativeSwap { who, dir: dirn, x: rng.below128(1_000_000) },
            }
        } else if choice < 98 { POp::WithdrawDirect { who: 1 + rng.below(4) as usize, denom: rng.below(4) as usize, a: *rng.pick(&[0u128, 1, 500, 1000, 54772]) }
        } else { let from = 1 + rng.below(5) as usize; POp::TransferLp { from, to: rng.below(6) as usize, a: rng.below128(lp[from.min(5)].saturating_add(2)) } };
        // deposit immediately followed by withdrawing the minted amount is generated by the executor feedback below
        // coarse tracking (exact values come from the run; this only keeps the stream mostly valid)
        match &op {
            POp::Provide { who, d0, d1, receiver, .. } if *d0 > 0 && *d1 > 0 => {
                let m = if supply == 0 { (Uint256::from(*d0) * Uint256::from(*d1)).isqrt().to_string().parse::<u128>().unwrap_or(0).saturating_sub(1000) }
                        else { (*d0 / r[0].max(1)).saturating_mul(supply).max(((Uint256::from(*d0) * Uint256::from(supply)) / Uint256::from(r[0].max(1))).to_string().parse::<u128>().unwrap_or(0)) };
                if supply == 0 { supply = 1000; }
                supply = supply.saturating_add(m); lp[receiver.unwrap_or(*who)] = lp[receiver.unwrap_or(*who)].saturating_add(m);
                r[0] = r[0].saturating_add(*d0); r[1] = r[1].saturating_add(*d1);
            }
            POp::Withdraw { who, a } if *a <= lp[*who] && supply > 0 => {
                for i in 0..2 { r[i] = r[i].saturating_sub((Uint256::from(r[i]) * Uint256::from(*a) / Uint256::from(supply)).to_string().parse::<u128>().unwrap_or(0)); }
                lp[*who] = lp[*who].saturating_sub(*a); supply = supply.saturating_sub(*a);
            }
            POp::Swap { dir, x, .. } => {
                let (o, a) = if *dir { (1, 0) } else { (0, 1) };
                let g = (Uint256::from(r[a]) * Uint256::from(*x) / (Uint256::from(r[o]) + Uint256::from(*x)).max(Uint256::one())).to_string().parse::<u128>().unwrap_or(0);
                r[o] = r[o].saturating_add(*x); r[a] = r[a].saturating_sub(g);
            }
            POp::UpdateConfig { who, new_owner: Some(o), new_fees, .. } if *who == owner => {
                let valid = match new_fees { Some(f) => f.0 < DEC && f.1 < DEC && f.2 < DEC && f.0 + f.1 + f.2 < DEC, None => true };
                if valid { owner = *o; }
            }
            _ => {}
        }
        ops.push(op);
    }
    let fab = !kinds[1] && rng.chance(1, 4);
    let decs = *rng.pick(&[[6u8, 6u8], [6, 6], [6, 8], [18, 6], [8, 6], [6, 18], [24, 6], [6, 20]]);
    PairCase { kinds, fees, ops, fab, decs }
}

/// after generation: insert "withdraw exactly what was just minted" ops using a dry run on the real contracts
pub fn add_deposit_withdraw_pairs(rng: &mut Rng, case: &mut PairCase) {
    let mut w = match deploy_pair_ext(case.kinds, case.decs, pool_fee(case.fees.0, case.fees.1, case.fees.2), PairType::ConstantProduct, case.fab) { Ok(w) => w, Err(_) => return };
    let mut new_ops = vec![];
    for op in case.ops.clone() {
        let before: Vec<u128> = (1..6).map(|i| w.lp_bal(ACCTS[i])).collect();
        let r = exec(&mut w, &op);
        new_ops.push(op.clone());
        if let (POp::Provide { who, receiver: None, .. }, Outcome::Ok(_)) = (&op, &r) {
            let minted = w.lp_bal(ACCTS[*who]) - before[*who - 1];
            if minted > 0 && rng.chance(1, 2) {
                let wop = POp::Withdraw { who: *who, a: minted };
                let _ = exec(&mut w, &wop);
                new_ops.push(wop);
            }
        }
    }
    case.ops = new_ops;
}

/// does the property's monitor fail on this case?
pub fn case_fails(prop: &str, case: &PairCase, scratch: &str) -> Option<usize> {
    let mut tmp = Out::new(scratch);
    run_case(&mut tmp, prop, case)?;
    tmp.monitor_failures.first().map(|f| f["replay"]["failing_op_index"].as_u64().unwrap_or(0) as usize)
}

/// delta-debugging over operations: cut after the failing op, then drop every op whose removal keeps the failure
pub fn shrink_case(prop: &str, case: &PairCase, scratch: &str) -> PairCase {
    let mut cur = case.clone();
    if let Some(k) = case_fails(prop, &cur, scratch) { cur.ops.truncate(k + 1); } else { return cur; }
    let mut i = cur.ops.len();
    while i > 0 {
        i -= 1;
        if cur.ops.len() <= 1 { break; }
        let mut cand = cur.clone();
        cand.ops.remove(i);
        if case_fails(prop, &cand, scratch).is_some() { cur = cand; }
    }
    cur
}

/// `--replay FILE`: re-run the recorded case with the property's monitors and report
pub fn replay_file(prop: &str, path: &str, scratch: &str) -> i32 {
    let txt = match std::fs::read_to_string(path) { Ok(t) => t, Err(e) => { eprintln!("cannot read {path}: {e}"); return 2; } };
    let v: serde_json::Value = match serde_json::from_str(&txt) { Ok(v) => v, Err(e) => { eprintln!("bad json: {e}"); return 2; } };
    let m = v.pointer("/failing_input/case/machine").or_else(|| v.pointer("/case/machine")).or_else(|| v.pointer("/disagreements/0/replay/machine"));
    let case: PairCase = match m.and_then(PairCase::from_machine) { Some(c) => c, None => { eprintln!("no pair-history case in {path}"); return 2; } };
    let mut tmp = Out::new(scratch);
    let r = run_case(&mut tmp, prop, &case);
    println!("replayed {} operations on the real pair contract; observation length {}", case.ops.len(), r.map(|r| r.obs.len()).unwrap_or(0));
    if tmp.monitor_failures.is_empty() { println!("property {prop} holds on this history"); 0 }
    else { for f in &tmp.monitor_failures { println!("FAILS: {} at op {}", f["what"], f["replay"]["failing_op_index"]); } 1 }
}

// ---- machine-readable form (u128 as strings) ----
fn os(o: &Option<u128>) -> serde_json::Value { match o { Some(v) => json!(v.to_string()), None => serde_json::Value::Null } }
fn ou(o: &Option<usize>) -> serde_json::Value { match o { Some(v) => json!(v), None => serde_json::Value::Null } }
fn ps(v: &serde_json::Value) -> Option<u128> { v.as_str()?.parse().ok() }
fn pos(v: &serde_json::Value) -> Option<Option<u128>> { if v.is_null() { Some(None) } else { Some(Some(ps(v)?)) } }
fn pou(v: &serde_json::Value) -> Option<Option<usize>> { if v.is_null() { Some(None) } else { Some(Some(v.as_u64()? as usize)) } }
impl PairCase {
    pub fn machine(&self) -> serde_json::Value {
        let ops: Vec<serde_json::Value> = self.ops.iter().map(|o| match o {
            POp::Provide { who, d0, d1, tol, receiver } => json!(["provide", who, d0.to_string(), d1.to_string(), os(tol), ou(receiver)]),
            POp::Withdraw { who, a } => json!(["withdraw", who, a.to_string()]),
            POp::Swap { who, dir, x, belief, max_spread, to } => json!(["swap", who, dir, x.to_string(), os(belief), os(max_spread), ou(to)]),
            POp::Collect { who } => json!(["collect", who]),
            POp::UpdateConfig { who, new_owner, new_fees, toggles, coll } => json!(["update_config", who, ou(new_owner),
                match new_fees { Some(f) => json!([f.0.to_string(), f.1.to_string(), f.2.to_string()]), None => serde_json::Value::Null },
                match toggles { Some(t) => json!([t.0, t.1, t.2]), None => serde_json::Value::Null }, coll]),
            POp::Donate { i, z } => json!(["donate", i, z.to_string()]),
            POp::TransferLp { from, to, a } => json!(["transfer_lp", from, to, a.to_string()]),
            POp::WithdrawDirect { who, denom, a } => json!(["withdraw_direct", who, denom, a.to_string()]),
            POp::BadFundsSwap { who, dir, declared, sent } => json!(["bad_funds_swap", who, dir, declared.to_string(), sent.to_string()]),
            POp::BadFundsProvide { who, d0, d1, variant } => json!(["bad_funds_provide", who, d0.to_string(), d1.to_string(), variant]),
            POp::ForeignHookSwap { who, x } => json!(["foreign_hook_swap", who, x.to_string()]),
            POp::TokenViaNativeSwap { who, dir, x } => json!(["token_via_native_swap", who, dir, x.to_string()]),
        }).collect();
        json!({"kinds": self.kinds, "fab": self.fab, "decs": self.decs, "fees": [self.fees.0.to_string(), self.fees.1.to_string(), self.fees.2.to_string()], "ops": ops})
    }
    pub fn from_machine(v: &serde_json::Value) -> Option<PairCase> {
        let kinds = [v["kinds"][0].as_bool()?, v["kinds"][1].as_bool()?];
        let fees = (ps(&v["fees"][0])?, ps(&v["fees"][1])?, ps(&v["fees"][2])?);
        let mut ops = vec![];
        for o in v["ops"].as_array()? {
            let u = |i: usize| -> Option<usize> { Some(o[i].as_u64()? as usize) };
            ops.push(match o[0].as_str()? {
                "provide" => POp::Provide { who: u(1)?, d0: ps(&o[2])?, d1: ps(&o[3])?, tol: pos(&o[4])?, receiver: pou(&o[5])? },
                "withdraw" => POp::Withdraw { who: u(1)?, a: ps(&o[2])? },
                "swap" => POp::Swap { who: u(1)?, dir: o[2].as_bool()?, x: ps(&o[3])?, belief: pos(&o[4])?, max_spread: pos(&o[5])?, to: pou(&o[6])? },
                "collect" => POp::Collect { who: u(1)? },
                "update_config" => POp::UpdateConfig { who: u(1)?, new_owner: pou(&o[2])?,
                    new_fees: if o[3].is_null() { None } else { Some((ps(&o[3][0])?, ps(&o[3][1])?, ps(&o[3][2])?)) },
                    toggles: if o[4].is_null() { None } else { Some((o[4][0].as_bool()?, o[4][1].as_bool()?, o[4][2].as_bool()?)) },
                    coll: o.get(5).and_then(|v| v.as_bool()) },
                "donate" => POp::Donate { i: o[1].as_bool()?, z: ps(&o[2])? },
                "transfer_lp" => POp::TransferLp { from: u(1)?, to: u(2)?, a: ps(&o[3])? },
                "withdraw_direct" => POp::WithdrawDirect { who: u(1)?, denom: u(2)?, a: ps(&o[3])? },
                "bad_funds_swap" => POp::BadFundsSwap { who: u(1)?, dir: o[2].as_bool()?, declared: ps(&o[3])?, sent: ps(&o[4])? },
                "bad_funds_provide" => POp::BadFundsProvide { who: u(1)?, d0: ps(&o[2])?, d1: ps(&o[3])?, variant: o.get(4).and_then(|v| v.as_u64()).unwrap_or(0) as u8 },
                "foreign_hook_swap" => POp::ForeignHookSwap { who: u(1)?, x: ps(&o[2])? },
                "token_via_native_swap" => POp::TokenViaNativeSwap { who: u(1)?, dir: o[2].as_bool()?, x: ps(&o[3])? },
                _ => return None,
            });
        }
        let decs = match v["decs"].as_array() { Some(a) if a.len() == 2 => [a[0].as_u64().unwrap_or(6) as u8, a[1].as_u64().unwrap_or(6) as u8], _ => [6, 6] };
        Some(PairCase { kinds, fees, ops, fab: v["fab"].as_bool().unwrap_or(false), decs })
    }
}

/// hand-built histories that put the pending protocol fee exactly at, one below and one above the collection threshold
pub fn threshold_corpus() -> Vec<PairCase> {
    let mut v = vec![];
    for (kinds, t) in [([false, false], 1000u128), ([false, true], 1000), ([true, false], 1001), ([false, false], 999), ([true, true], 1000), ([false, false], 1001), ([false, false], 1002), ([true, false], 1002)] {
        for dir in [false, true] {
            // pool 1e12/1e12, protocol fee 0.1 %: gross in [t*1000, t*1000+999] gives a protocol fee of exactly t
            let x = t * 1000 + 500 + t; // gross = x - x^2/(1e12+x) ~ x - 1
            let ms = Some(DEC / 2);
            v.push(PairCase { kinds, fab: !kinds[1] && t >= 1001, decs: if t == 1002 { [6, 7] } else { [6, 6] }, fees: (DEC / 1000, 3 * DEC / 1000, DEC / 500), ops: vec![
                POp::Provide { who: 1, d0: 1_000_000_000_000, d1: 1_000_000_000_000, tol: None, receiver: None },
                POp::Swap { who: 2, dir, x, belief: None, max_spread: ms, to: None },
                POp::Collect { who: 3 },
                POp::Swap { who: 2, dir: !dir, x: 7 * x, belief: None, max_spread: ms, to: Some(3) },
                POp::Collect { who: 4 },
                POp::Swap { who: 1, dir, x: 1, belief: None, max_spread: ms, to: None },
                POp::Collect { who: 2 },
                POp::Withdraw { who: 1, a: 1_000_000 },
                POp::WithdrawDirect { who: 4, denom: 3, a: 1000 },
                POp::WithdrawDirect { who: 4, denom: 0, a: 500 },
            ]});
        }
    }
    // every malformed entry once, on native and mixed pools with liquidity and a pending fee: refused, nothing changes
    for kinds in [[false, false], [false, true], [true, false]] {
        let ms = Some(DEC / 2);
        let mut ops = vec![
            POp::Provide { who: 1, d0: 5_000_000_000, d1: 4_000_000_000, tol: None, receiver: None },
            POp::Swap { who: 2, dir: false, x: 30_000_000, belief: None, max_spread: ms, to: None }];
        // (declared / attached mismatches exist for native offers only)
        for dir in [false, true] { if !kinds[dir as usize] {
            ops.push(POp::BadFundsSwap { who: 2, dir, declared: 1_000_000, sent: 1_000_001 });
            ops.push(POp::BadFundsSwap { who: 2, dir, declared: 1_000_000, sent: 999_999 });
            ops.push(POp::BadFundsSwap { who: 3, dir, declared: 5_000, sent: 50_000 });
            ops.push(POp::BadFundsSwap { who: 3, dir, declared: 700_000, sent: 700_000 });      // UPPER-CASE denom
        } }
        ops.extend(vec![
            POp::BadFundsProvide { who: 3, d0: 70_000, d1: 56_000, variant: 0 },
            POp::BadFundsProvide { who: 3, d0: 70_000, d1: 70_000, variant: 1 },
            POp::BadFundsProvide { who: 3, d0: 70_000, d1: 70_000, variant: 2 },
            POp::BadFundsProvide { who: 4, d0: 70_000, d1: 56_000, variant: 3 },
            POp::BadFundsProvide { who: 4, d0: 70_000, d1: 56_000, variant: 4 },
            POp::BadFundsProvide { who: 4, d0: 70_000, d1: 56_000, variant: 5 },
            POp::ForeignHookSwap { who: 2, x: 1_000_000 },
            POp::TokenViaNativeSwap { who: 2, dir: false, x: 1_000_000 },
            POp::TokenViaNativeSwap { who: 2, dir: true, x: 1_000_000 },
            POp::Swap { who: 1, dir: true, x: 20_000_000, belief: None, max_spread: ms, to: Some(TO_COLLECTOR) },
            POp::Withdraw { who: 1, a: 1_000_000 },
        ]);
        v.push(PairCase { kinds, fab: false, decs: [6, 8], fees: (DEC / 1000, 3 * DEC / 1000, DEC / 500), ops });
    }
    v
}
