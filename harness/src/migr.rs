//! Migration probe: the `migrate` entry point of a contract, run on a copy of a live contract's storage (cw-multi-test cannot
//! migrate a contract to its own version, so the stored cw2 version is lowered by one patch step in the copy). A migration from the
//! immediately preceding version has nothing to convert: the fee ledgers the contract reports must be the same before and after.
use crate::common::*;
use cosmwasm_std::testing::{mock_dependencies, mock_env, MockApi, MockQuerier, MockStorage};
use cosmwasm_std::{Binary, OwnedDeps, Storage};
use serde_json::{json, Value};

/// copy of a contract's storage with the cw2 version lowered to the preceding patch version; None when there is no such version
pub fn storage_one_version_back(dump: &[(Vec<u8>, Vec<u8>)]) -> Option<(OwnedDeps<MockStorage, MockApi, MockQuerier>, String)> {
    let mut deps = mock_dependencies();
    let mut lowered = None;
    for (k, v) in dump {
        if k.as_slice() == b"contract_info" {
            let mut j: Value = serde_json::from_slice(v).ok()?;
            let ver = j["version"].as_str()?.to_string();
            let parts: Vec<u64> = ver.split('.').filter_map(|p| p.parse().ok()).collect();
            if parts.len() != 3 { return None; }
            let prev = if parts[2] > 0 { format!("{}.{}.{}", parts[0], parts[1], parts[2] - 1) } else if parts[1] > 0 { format!("{}.{}.999", parts[0], parts[1] - 1) } else { return None };
            j["version"] = json!(prev.clone());
            deps.storage.set(k, &serde_json::to_vec(&j).ok()?);
            lowered = Some(prev);
        } else { deps.storage.set(k, v); }
    }
    lowered.map(|p| (deps, p))
}

fn answers<E: std::fmt::Debug>(qs: &[(&str, Result<Binary, E>)]) -> Vec<(String, String)> {
    qs.iter().map(|(n, r)| (n.to_string(), match r { Ok(b) => String::from_utf8_lossy(b.as_slice()).to_string(), Err(e) => format!("error: {:?}", e) })).collect()
}

/// answers are compared as JSON values (maps serialised from hash maps have no fixed key order)
fn canon(v: Vec<(String, String)>) -> Vec<(String, String)> {
    v.into_iter().map(|(n, s)| { let c = serde_json::from_str::<Value>(&s).map(|j| j.to_string()).unwrap_or(s); (n, c) }).collect()
}

fn judge_for(out: &mut Out, prop: &str, what: &str, from: &str, migrated: Result<(), String>, before: Vec<(String, String)>, after: Vec<(String, String)>) {
    let (before, after) = (canon(before), canon(after));
    out.monitor_evals += 1;
    let replay = json!({"kind": "migration_probe", "contract": what, "migrated_from_version": from, "queries_before": before, "queries_after": after});
    out.count(&format!("migration:{}:{}", what, if migrated.is_ok() { "ok" } else { "rejected" }));
    match migrated {
        Err(e) => out.monitor_fail(prop, &format!("{what}: the migration from the preceding version {from} fails: {e}"), replay),
        Ok(()) => if before != after { out.monitor_fail(prop, &format!("{what}: a migration from the preceding version {from} changed what the contract reports about its ledgers"), replay); },
    }
}

fn env_at(time: cosmwasm_std::Timestamp, height: u64) -> cosmwasm_std::Env { let mut e = mock_env(); e.block.time = time; e.block.height = height; e }

/// whale_lair: bonds, unbonding records, totals and the global index as reported before and after (C08)
pub fn probe_lair(out: &mut Out, dump: &[(Vec<u8>, Vec<u8>)], users: &[&str], denoms: &[&str], time: cosmwasm_std::Timestamp, height: u64) {
    use white_whale_std::whale_lair::{MigrateMsg, QueryMsg};
    let Some((mut deps, from)) = storage_one_version_back(dump) else { out.count("migration:lair:no_previous_version"); return };
    let q = |d: &OwnedDeps<MockStorage, MockApi, MockQuerier>| {
        let mut qs: Vec<(String, Result<Binary, cosmwasm_std::StdError>)> = vec![
            ("TotalBonded".into(), whale_lair::contract::query(d.as_ref(), env_at(time, height), QueryMsg::TotalBonded {})),
            ("GlobalIndex".into(), whale_lair::contract::query(d.as_ref(), env_at(time, height), QueryMsg::GlobalIndex {})),
            ("Config".into(), whale_lair::contract::query(d.as_ref(), env_at(time, height), QueryMsg::Config {}))];
        for u in users {
            qs.push((format!("Bonded{{{u}}}"), whale_lair::contract::query(d.as_ref(), env_at(time, height), QueryMsg::Bonded { address: u.to_string() })));
            for dn in denoms {
                qs.push((format!("Unbonding{{{u},{dn}}}"), whale_lair::contract::query(d.as_ref(), env_at(time, height), QueryMsg::Unbonding { address: u.to_string(), denom: dn.to_string(), start_after: None, limit: Some(30) })));
                qs.push((format!("Withdrawable{{{u},{dn}}}"), whale_lair::contract::query(d.as_ref(), env_at(time, height), QueryMsg::Withdrawable { address: u.to_string(), denom: dn.to_string() })));
            }
        }
        qs.into_iter().map(|(n, r)| (n, match r { Ok(b) => String::from_utf8_lossy(b.as_slice()).to_string(), Err(e) => format!("error: {:?}", e) })).collect::<Vec<_>>()
    };
    let before = q(&deps);
    let r = run_catch(|| whale_lair::contract::migrate(deps.as_mut(), env_at(time, height), MigrateMsg {}).map(|_| ()), |_e| E_OTHER);
    let migrated = match r { Outcome::Ok(()) => Ok(()), Outcome::Err(_) => Err("error".to_string()), Outcome::Panic(m) => Err(format!("abort: {m}")) };
    let after = q(&deps);
    judge_for(out, "C08", "whale_lair", &from, migrated, before, after);
}

/// fee_distributor: the epochs it reports before and after, with the clock well past the current epoch's end (C09)
pub fn probe_distributor(out: &mut Out, dump: &[(Vec<u8>, Vec<u8>)], time: cosmwasm_std::Timestamp, height: u64) {
    use white_whale_std::fee_distributor::{MigrateMsg, QueryMsg};
    let Some((mut deps, from)) = storage_one_version_back(dump) else { out.count("migration:distributor:no_previous_version"); return };
    let q = |d: &OwnedDeps<MockStorage, MockApi, MockQuerier>| {
        let mut qs: Vec<(String, Result<Binary, cosmwasm_std::StdError>)> = vec![
            ("CurrentEpoch".into(), fee_distributor::contract::query(d.as_ref(), env_at(time, height), QueryMsg::CurrentEpoch {})),
            ("ClaimableEpochs".into(), fee_distributor::contract::query(d.as_ref(), env_at(time, height), QueryMsg::ClaimableEpochs {})),
            ("Config".into(), fee_distributor::contract::query(d.as_ref(), env_at(time, height), QueryMsg::Config {}))];
        for id in 1..12u64 { qs.push((format!("Epoch{{{id}}}"), fee_distributor::contract::query(d.as_ref(), env_at(time, height), QueryMsg::Epoch { id: cosmwasm_std::Uint64::new(id) }))); }
        qs.into_iter().map(|(n, r)| (n, match r { Ok(b) => String::from_utf8_lossy(b.as_slice()).to_string(), Err(e) => format!("error: {:?}", e) })).collect::<Vec<_>>()
    };
    let before = q(&deps);
    let r = run_catch(|| fee_distributor::contract::migrate(deps.as_mut(), env_at(time, height), MigrateMsg {}).map(|_| ()), |_e| E_OTHER);
    let migrated = match r { Outcome::Ok(()) => Ok(()), Outcome::Err(_) => Err("error".to_string()), Outcome::Panic(m) => Err(format!("abort: {m}")) };
    let after = q(&deps);
    judge_for(out, "C09", "fee_distributor", &from, migrated, before, after);
}

fn judge(out: &mut Out, what: &str, from: &str, migrated: Result<(), String>, before: Vec<(String, String)>, after: Vec<(String, String)>) {
    let (before, after) = (canon(before), canon(after));
    out.monitor_evals += 1;
    let replay = json!({"kind": "migration_probe", "contract": what, "migrated_from_version": from, "ledger_queries_before": before, "ledger_queries_after": after});
    out.count(&format!("migration:{}:{}", what, if migrated.is_ok() { "ok" } else { "rejected" }));
    match migrated {
        Err(e) => out.monitor_fail("C07", &format!("{what}: the migration from the preceding version {from} fails: {e}"), replay),
        Ok(()) => if before != after { out.monitor_fail("C07", &format!("{what}: a migration from the preceding version {from} changed a fee ledger"), replay); },
    }
}

pub fn probe_vault(out: &mut Out, dump: &[(Vec<u8>, Vec<u8>)]) {
    use white_whale_std::vault_network::vault::{MigrateMsg, QueryMsg};
    let Some((mut deps, from)) = storage_one_version_back(dump) else { out.count("migration:vault:no_previous_version"); return };
    let q = |d: &OwnedDeps<MockStorage, MockApi, MockQuerier>| answers(&[
        ("ProtocolFees{all_time:false}", vault::contract::query(d.as_ref(), mock_env(), QueryMsg::ProtocolFees { all_time: false })),
        ("ProtocolFees{all_time:true}", vault::contract::query(d.as_ref(), mock_env(), QueryMsg::ProtocolFees { all_time: true })),
        ("BurnedFees", vault::contract::query(d.as_ref(), mock_env(), QueryMsg::BurnedFees {})),
        ("Config", vault::contract::query(d.as_ref(), mock_env(), QueryMsg::Config {}))]);
    let before = q(&deps);
    let r = run_catch(|| vault::contract::migrate(deps.as_mut(), mock_env(), MigrateMsg {}).map(|_| ()), |_e| E_OTHER);
    let migrated = match r { Outcome::Ok(()) => Ok(()), Outcome::Err(_) => Err("error".to_string()), Outcome::Panic(m) => Err(format!("abort: {m}")) };
    let after = q(&deps);
    judge(out, "vault", &from, migrated, before, after);
}

pub fn probe_pair(out: &mut Out, dump: &[(Vec<u8>, Vec<u8>)]) {
    use white_whale_std::pool_network::pair::{MigrateMsg, QueryMsg};
    let Some((mut deps, from)) = storage_one_version_back(dump) else { out.count("migration:pair:no_previous_version"); return };
    let q = |d: &OwnedDeps<MockStorage, MockApi, MockQuerier>| answers(&[
        ("ProtocolFees{all_time:false}", terraswap_pair::contract::query(d.as_ref(), mock_env(), QueryMsg::ProtocolFees { asset_id: None, all_time: Some(false) })),
        ("ProtocolFees{all_time:true}", terraswap_pair::contract::query(d.as_ref(), mock_env(), QueryMsg::ProtocolFees { asset_id: None, all_time: Some(true) })),
        ("BurnedFees", terraswap_pair::contract::query(d.as_ref(), mock_env(), QueryMsg::BurnedFees { asset_id: None })),
        ("Config", terraswap_pair::contract::query(d.as_ref(), mock_env(), QueryMsg::Config {}))]);
    let before = q(&deps);
    let r = run_catch(|| terraswap_pair::contract::migrate(deps.as_mut(), mock_env(), MigrateMsg {}).map(|_| ()), |_e| E_OTHER);
    let migrated = match r { Outcome::Ok(()) => Ok(()), Outcome::Err(_) => Err("error".to_string()), Outcome::Panic(m) => Err(format!("abort: {m}")) };
    let after = q(&deps);
    judge(out, "pair", &from, migrated, before, after);
}

pub fn probe_trio(out: &mut Out, dump: &[(Vec<u8>, Vec<u8>)]) {
    use white_whale_std::pool_network::trio::{MigrateMsg, QueryMsg};
    let Some((mut deps, from)) = storage_one_version_back(dump) else { out.count("migration:trio:no_previous_version"); return };
    let q = |d: &OwnedDeps<MockStorage, MockApi, MockQuerier>| answers(&[
        ("ProtocolFees{all_time:false}", stableswap_3pool::contract::query(d.as_ref(), mock_env(), QueryMsg::ProtocolFees { asset_id: None, all_time: Some(false) })),
        ("ProtocolFees{all_time:true}", stableswap_3pool::contract::query(d.as_ref(), mock_env(), QueryMsg::ProtocolFees { asset_id: None, all_time: Some(true) })),
        ("BurnedFees", stableswap_3pool::contract::query(d.as_ref(), mock_env(), QueryMsg::BurnedFees { asset_id: None })),
        ("Config", stableswap_3pool::contract::query(d.as_ref(), mock_env(), QueryMsg::Config {}))]);
    let before = q(&deps);
    let r = run_catch(|| stableswap_3pool::contract::migrate(deps.as_mut(), mock_env(), MigrateMsg {}).map(|_| ()), |_e| E_OTHER);
    let migrated = match r { Outcome::Ok(()) => Ok(()), Outcome::Err(_) => Err("error".to_string()), Outcome::Panic(m) => Err(format!("abort: {m}")) };
    let after = q(&deps);
    judge(out, "three-asset pool", &from, migrated, before, after);
}

/// incentive: `migrate` from 1.0.5, the last version whose flows had neither a label nor an asset history. The flow records of a live
/// contract whose flows carry no label and were never expanded ARE that layout once the two fields are removed; the migration then has
/// to give back exactly the flows the contract reported before (funding, claimed amount, emitted tokens, range). (C12)
pub fn probe_incentive(out: &mut Out, dump: &[(Vec<u8>, Vec<u8>)]) {
    use white_whale_std::pool_network::incentive::{MigrateMsg, QueryMsg};
    let mut deps = mock_dependencies();
    let mut prefix = (5u16).to_be_bytes().to_vec(); prefix.extend_from_slice(b"flows");
    let mut applicable = false;
    for (k, v) in dump {
        if k.as_slice() == b"contract_info" { continue; }
        if k.starts_with(&prefix) {
            let Ok(mut j) = serde_json::from_slice::<Value>(v) else { out.count("migration:incentive:unreadable_flow"); return };
            let plain = j.get("flow_label").map(|l| l.is_null()).unwrap_or(true) && j.get("asset_history").and_then(|h| h.as_object()).map(|h| h.is_empty()).unwrap_or(true);
            if !plain { out.count("migration:incentive:flows_not_in_the_old_shape"); return; }
            if let Some(o) = j.as_object_mut() { o.remove("flow_label"); o.remove("asset_history"); }
            deps.storage.set(k, &serde_json::to_vec(&j).unwrap());
            applicable = true;
        } else { deps.storage.set(k, v); }
    }
    if !applicable { out.count("migration:incentive:no_flows"); return; }
    // what the live contract reported (its own storage, untouched)
    let mut live = mock_dependencies();
    for (k, v) in dump { live.storage.set(k, v); }
    let ask = |d: &OwnedDeps<MockStorage, MockApi, MockQuerier>| -> Vec<(String, String)> {
        [("Flows", QueryMsg::Flows { start_epoch: None, end_epoch: None }), ("Config", QueryMsg::Config {})].into_iter()
            .map(|(n, m)| (n.to_string(), match incentive::contract::query(d.as_ref(), mock_env(), m) { Ok(b) => String::from_utf8_lossy(b.as_slice()).to_string(), Err(e) => format!("error: {:?}", e) })).collect()
    };
    let before = ask(&live);
    let info = dump.iter().find(|(k, _)| k.as_slice() == b"contract_info").and_then(|(_, v)| serde_json::from_slice::<Value>(v).ok());
    let Some(mut info) = info else { return };
    info["version"] = json!("1.0.5");
    deps.storage.set(b"contract_info", &serde_json::to_vec(&info).unwrap());
    let r = run_catch(|| incentive::contract::migrate(deps.as_mut(), mock_env(), MigrateMsg {}).map(|_| ()), |_e| E_OTHER);
    let migrated = match r { Outcome::Ok(()) => Ok(()), Outcome::Err(_) => Err("error".to_string()), Outcome::Panic(m) => Err(format!("abort: {m}")) };
    let after = ask(&deps);
    judge_for(out, "C12", "incentive (from the 1.0.5 flow layout)", "1.0.5", migrated, before, after);
}
