//! Pool-network world for C17: REAL terraswap_factory, terraswap_pair, stableswap_3pool, terraswap_token, terraswap_router,
//! incentive_factory + incentive + fee-distributor-mock and frontend_helper, deployed the way the repo's own tests do.
#![allow(dead_code)]
use cosmwasm_std::{coin, to_json_binary, Addr, Coin, Decimal, Empty, Uint128};
use cw20::{Cw20Coin, Cw20ExecuteMsg, Cw20QueryMsg, MinterResponse};
use cw_multi_test::{App, AppBuilder, BankKeeper, Contract, ContractWrapper, Executor};
use white_whale_std::fee::Fee;
use white_whale_std::pool_network::asset::{Asset, AssetInfo, PairInfo, PairType, TrioInfo};
use white_whale_std::pool_network::{factory, frontend_helper as fh, incentive_factory as ifac, pair, router, trio};

pub const OWNER: &str = "owner";
pub const ALICE: &str = "alice";
pub const BOB: &str = "bob";
pub const COLLECTOR: &str = "collector";
pub const DENOMS: [&str; 3] = ["uwhale", "uusdc", "uatom"];
const RICH: u128 = 1_000_000_000_000_000;

#[derive(Clone, Copy, PartialEq, Debug)]
pub enum PoolKind { PairNN, PairNC, TrioNNN, TrioNNC, StableNN, StableNC }
impl PoolKind {
    pub fn is_pair(self) -> bool { matches!(self, PoolKind::PairNN | PoolKind::PairNC | PoolKind::StableNN | PoolKind::StableNC) }
    pub fn name(self) -> &'static str { match self { PoolKind::PairNN => "pair(native,native)", PoolKind::PairNC => "pair(native,cw20)", PoolKind::TrioNNN => "3pool(native,native,native)", PoolKind::TrioNNC => "3pool(native,native,cw20)", PoolKind::StableNN => "stableswap pair(native,native)", PoolKind::StableNC => "stableswap pair(native,cw20)" } }
    pub fn index(self) -> u32 { match self { PoolKind::PairNN => 0, PoolKind::PairNC => 1, PoolKind::TrioNNN => 2, PoolKind::TrioNNC => 3, PoolKind::StableNN => 4, PoolKind::StableNC => 5 } }
}

/// entry paths, numbered as Toggles.v `ppath_of_Z`
pub const P_PROVIDE: u32 = 0;
pub const P_PROVIDE_HELPER: u32 = 1;
pub const P_WITHDRAW_HOOK: u32 = 2;
pub const P_WITHDRAW_DIRECT: u32 = 3;
pub const P_SWAP_DIRECT: u32 = 4;
pub const P_SWAP_HOOK: u32 = 5;
pub const P_SWAP_ROUTER: u32 = 6;
pub const P_SWAP_ROUTER_HOOK: u32 = 7;
pub const P_COLLECT: u32 = 8;
pub fn path_name(p: u32) -> &'static str {
    ["ProvideLiquidity (direct)", "frontend_helper Deposit", "LP Send WithdrawLiquidity hook", "WithdrawLiquidity {} (direct)", "Swap (direct, native offer)",
     "cw20 Send Swap hook", "terraswap_router ExecuteSwapOperations (native offer)", "cw20 Send to terraswap_router", "CollectProtocolFees"][p as usize]
}

pub struct PoolWorld {
    pub app: App,
    pub kind: PoolKind,
    pub factory: Addr,
    pub pool: Addr,
    pub lp: Addr,
    pub assets: Vec<AssetInfo>,
    pub tok: Addr,
    pub router: Addr,
    pub helper: Addr,
    pub incentive: Option<Addr>,
}

pub fn native(d: &str) -> AssetInfo { AssetInfo::NativeToken { denom: d.to_string() } }
fn fee(atomics: u128) -> Fee { Fee { share: Decimal::new(Uint128::new(atomics)) } }

pub fn deploy(kind: PoolKind) -> Result<PoolWorld, String> {
    let e = |x: anyhow::Error| format!("{:#}", x);
    let mut app: App = AppBuilder::new().with_bank(BankKeeper::new()).build(|router, _api, storage| {
        for a in [OWNER, ALICE, BOB] {
            let coins: Vec<Coin> = DENOMS.iter().map(|d| coin(RICH, *d)).collect();
            router.bank.init_balance(storage, &Addr::unchecked(a), coins).unwrap();
        }
    });
    let token_code = app.store_code(Box::new(ContractWrapper::new_with_empty(terraswap_token::contract::execute, terraswap_token::contract::instantiate, terraswap_token::contract::query)));
    let cw20_code = app.store_code(Box::new(ContractWrapper::new_with_empty(cw20_base::contract::execute, cw20_base::contract::instantiate, cw20_base::contract::query)));
    let pair_code = app.store_code(Box::new(ContractWrapper::new_with_empty(terraswap_pair::contract::execute, terraswap_pair::contract::instantiate, terraswap_pair::contract::query)
        .with_reply(terraswap_pair::contract::reply)));
    let trio_code = app.store_code(Box::new(ContractWrapper::new_with_empty(stableswap_3pool::contract::execute, stableswap_3pool::contract::instantiate, stableswap_3pool::contract::query)
        .with_reply(stableswap_3pool::contract::reply)));
    let factory_code = app.store_code(Box::new(ContractWrapper::new_with_empty(terraswap_factory::contract::execute, terraswap_factory::contract::instantiate, terraswap_factory::contract::query)
        .with_reply(terraswap_factory::contract::reply)));
    let router_code = app.store_code(Box::new(ContractWrapper::new_with_empty(terraswap_router::contract::execute, terraswap_router::contract::instantiate, terraswap_router::contract::query)));
    let ifac_code = app.store_code(Box::new(ContractWrapper::new_with_empty(incentive_factory::contract::execute, incentive_factory::contract::instantiate, incentive_factory::contract::query)
        .with_reply(incentive_factory::contract::reply)));
    let incentive_code = app.store_code(Box::new(ContractWrapper::new_with_empty(incentive::contract::execute, incentive::contract::instantiate, incentive::contract::query)));
    let fdm_code = app.store_code(Box::new(ContractWrapper::new_with_empty(fee_distributor_mock::contract::execute, fee_distributor_mock::contract::instantiate, fee_distributor_mock::contract::query)));
    let helper_code = app.store_code(Box::new(ContractWrapper::new_with_empty(frontend_helper::contract::execute, frontend_helper::contract::instantiate, frontend_helper::contract::query)
        .with_reply(frontend_helper::contract::reply)));
    let owner = Addr::unchecked(OWNER);
    let tok = app.instantiate_contract(cw20_code, owner.clone(), &cw20_base::msg::InstantiateMsg {
        name: "token".into(), symbol: "TOK".into(), decimals: 6,
        initial_balances: [OWNER, ALICE, BOB].iter().map(|a| Cw20Coin { address: a.to_string(), amount: Uint128::new(RICH) }).collect(),
        mint: Some(MinterResponse { minter: OWNER.into(), cap: None }), marketing: None }, &[], "tok", None).map_err(e)?;
    let factory = app.instantiate_contract(factory_code, owner.clone(), &factory::InstantiateMsg {
        pair_code_id: pair_code, trio_code_id: trio_code, token_code_id: token_code, fee_collector_addr: COLLECTOR.into() }, &[], "factory", None).map_err(e)?;
    for d in DENOMS {
        app.execute_contract(owner.clone(), factory.clone(), &factory::ExecuteMsg::AddNativeTokenDecimals { denom: d.to_string(), decimals: 6 }, &[coin(1, d)]).map_err(e)?;
    }
    let tokinfo = AssetInfo::Token { contract_addr: tok.to_string() };
    let assets: Vec<AssetInfo> = match kind {
        PoolKind::PairNN | PoolKind::StableNN => vec![native(DENOMS[0]), native(DENOMS[1])],
        PoolKind::PairNC | PoolKind::StableNC => vec![native(DENOMS[0]), tokinfo.clone()],
        PoolKind::TrioNNN => vec![native(DENOMS[0]), native(DENOMS[1]), native(DENOMS[2])],
        PoolKind::TrioNNC => vec![native(DENOMS[0]), native(DENOMS[1]), tokinfo.clone()],
    };
    let (pool, lp) = if kind.is_pair() {
        app.execute_contract(owner.clone(), factory.clone(), &factory::ExecuteMsg::CreatePair {
            asset_infos: [assets[0].clone(), assets[1].clone()],
            pool_fees: pair::PoolFee { protocol_fee: fee(1_000_000_000_000_000), swap_fee: fee(2_000_000_000_000_000), burn_fee: fee(0) },
            pair_type: if matches!(kind, PoolKind::StableNN | PoolKind::StableNC) { PairType::StableSwap { amp: 100 } } else { PairType::ConstantProduct }, token_factory_lp: false }, &[]).map_err(e)?;
        let info: PairInfo = app.wrap().query_wasm_smart(&factory, &factory::QueryMsg::Pair { asset_infos: [assets[0].clone(), assets[1].clone()] }).map_err(|x| x.to_string())?;
        let lp = match info.liquidity_token { AssetInfo::Token { contract_addr } => Addr::unchecked(contract_addr), _ => return Err("native lp".into()) };
        (Addr::unchecked(info.contract_addr), lp)
    } else {
        app.execute_contract(owner.clone(), factory.clone(), &factory::ExecuteMsg::CreateTrio {
            asset_infos: [assets[0].clone(), assets[1].clone(), assets[2].clone()],
            pool_fees: trio::PoolFee { protocol_fee: fee(1_000_000_000_000_000), swap_fee: fee(2_000_000_000_000_000), burn_fee: fee(0) },
            amp_factor: 100, token_factory_lp: false }, &[]).map_err(e)?;
        let info: TrioInfo = app.wrap().query_wasm_smart(&factory, &factory::QueryMsg::Trio { asset_infos: [assets[0].clone(), assets[1].clone(), assets[2].clone()] }).map_err(|x| x.to_string())?;
        let lp = match info.liquidity_token { AssetInfo::Token { contract_addr } => Addr::unchecked(contract_addr), _ => return Err("native lp".into()) };
        (Addr::unchecked(info.contract_addr), lp)
    };
    let router = app.instantiate_contract(router_code, owner.clone(), &router::InstantiateMsg { terraswap_factory: factory.to_string() }, &[], "router", None).map_err(e)?;
    let fdm = app.instantiate_contract(fdm_code, owner.clone(), &fee_distributor_mock::msg::InstantiateMsg {}, &[], "fdm", None).map_err(e)?;
    let ifactory = app.instantiate_contract(ifac_code, owner.clone(), &ifac::InstantiateMsg {
        fee_collector_addr: COLLECTOR.into(), fee_distributor_addr: fdm.to_string(),
        create_flow_fee: Asset { info: native(DENOMS[0]), amount: Uint128::zero() }, max_concurrent_flows: 7, incentive_code_id: incentive_code,
        max_flow_epoch_buffer: 100, min_unbonding_duration: 86400, max_unbonding_duration: 100000 }, &[], "ifactory", None).map_err(e)?;
    let mut incentive_addr = None;
    if kind.is_pair() {
        app.execute_contract(owner.clone(), ifactory.clone(), &ifac::ExecuteMsg::CreateIncentive { lp_asset: AssetInfo::Token { contract_addr: lp.to_string() } }, &[]).map_err(e)?;
        let r: ifac::IncentiveResponse = app.wrap().query_wasm_smart(&ifactory, &ifac::QueryMsg::Incentive { lp_asset: AssetInfo::Token { contract_addr: lp.to_string() } }).map_err(|x| x.to_string())?;
        incentive_addr = r;
    }
    let helper = app.instantiate_contract(helper_code, owner.clone(), &fh::InstantiateMsg { incentive_factory: ifactory.to_string() }, &[], "helper", None).map_err(e)?;
    Ok(PoolWorld { app, kind, factory, pool, lp, assets, tok, router, helper, incentive: incentive_addr })
}

pub fn classify(e: &anyhow::Error) -> i64 {
    let t = format!("{:#}", e).to_lowercase();
    if t.contains("operation disabled") { 2 } else if t.contains("unauthorized") { 3 } else { 1 }
}

impl PoolWorld {
    fn bal(&self, info: &AssetInfo, who: &str) -> u128 {
        match info {
            AssetInfo::NativeToken { denom } => self.app.wrap().query_balance(who, denom).unwrap().amount.u128(),
            AssetInfo::Token { contract_addr } => { let r: cw20::BalanceResponse = self.app.wrap().query_wasm_smart(contract_addr, &Cw20QueryMsg::Balance { address: who.into() }).unwrap(); r.balance.u128() }
        }
    }
    pub fn lp_bal(&self, who: &str) -> u128 {
        let r: cw20::BalanceResponse = self.app.wrap().query_wasm_smart(&self.lp, &Cw20QueryMsg::Balance { address: who.into() }).unwrap(); r.balance.u128()
    }
    pub fn flags(&self) -> (bool, bool, bool) {
        if self.kind.is_pair() {
            let c: pair::ConfigResponse = self.app.wrap().query_wasm_smart(&self.pool, &pair::QueryMsg::Config {}).unwrap();
            (c.feature_toggle.deposits_enabled, c.feature_toggle.withdrawals_enabled, c.feature_toggle.swaps_enabled)
        } else {
            let c: trio::ConfigResponse = self.app.wrap().query_wasm_smart(&self.pool, &trio::QueryMsg::Config {}).unwrap();
            (c.feature_toggle.deposits_enabled, c.feature_toggle.withdrawals_enabled, c.feature_toggle.swaps_enabled)
        }
    }
    /// the factory's owner moves the switches (the factory owns the pools it creates)
    pub fn set_flags(&mut self, who: &str, f: (bool, bool, bool)) -> i64 { self.set_flags_with(who, f, false) }
    /// `companions`: the same message also names the other updatable fields with values that change nothing (the current fees and
    /// collector; for the three-asset pool a ramp to the current amplification): a switch update need not travel alone
    pub fn set_flags_with(&mut self, who: &str, f: (bool, bool, bool), companions: bool) -> i64 {
        let r = if self.kind.is_pair() {
            let c: pair::ConfigResponse = self.app.wrap().query_wasm_smart(&self.pool, &pair::QueryMsg::Config {}).unwrap();
            self.app.execute_contract(Addr::unchecked(who), self.factory.clone(), &factory::ExecuteMsg::UpdatePairConfig { pair_addr: self.pool.to_string(), owner: None,
                fee_collector_addr: if companions { Some(c.fee_collector_addr.to_string()) } else { None }, pool_fees: if companions { Some(c.pool_fees.clone()) } else { None },
                feature_toggle: Some(pair::FeatureToggle { withdrawals_enabled: f.1, deposits_enabled: f.0, swaps_enabled: f.2 }) }, &[])
        } else {
            let c: trio::ConfigResponse = self.app.wrap().query_wasm_smart(&self.pool, &trio::QueryMsg::Config {}).unwrap();
            let h = self.app.block_info().height;
            self.app.execute_contract(Addr::unchecked(who), self.factory.clone(), &factory::ExecuteMsg::UpdateTrioConfig { trio_addr: self.pool.to_string(), owner: None,
                fee_collector_addr: if companions { Some(c.fee_collector_addr.to_string()) } else { None }, pool_fees: if companions { Some(c.pool_fees.clone()) } else { None },
                feature_toggle: Some(trio::FeatureToggle { withdrawals_enabled: f.1, deposits_enabled: f.0, swaps_enabled: f.2 }),
                amp_factor: if companions { Some(trio::RampAmp { future_a: c.future_amp, future_block: h + 20_000 }) } else { None } }, &[])
        };
        match r { Ok(_) => 0, Err(e) => classify(&e) }
    }
    /// everything the property talks about except the switches themselves
    pub fn dump(&self) -> Vec<u128> {
        let mut v = vec![];
        let mut accts: Vec<String> = vec![self.pool.to_string(), ALICE.into(), BOB.into(), COLLECTOR.into(), self.router.to_string(), self.helper.to_string()];
        if let Some(i) = &self.incentive { accts.push(i.to_string()); }
        for a in &self.assets { for who in &accts { v.push(self.bal(a, who)); } }
        for who in &accts { v.push(self.lp_bal(who)); }
        let ti: cw20::TokenInfoResponse = self.app.wrap().query_wasm_smart(&self.lp, &Cw20QueryMsg::TokenInfo {}).unwrap();
        v.push(ti.total_supply.u128());
        if self.kind.is_pair() {
            let r: pair::ProtocolFeesResponse = self.app.wrap().query_wasm_smart(&self.pool, &pair::QueryMsg::ProtocolFees { asset_id: None, all_time: Some(false) }).unwrap();
            for f in r.fees { v.push(f.amount.u128()); }
        } else {
            let r: trio::ProtocolFeesResponse = self.app.wrap().query_wasm_smart(&self.pool, &trio::QueryMsg::ProtocolFees { asset_id: None, all_time: Some(false) }).unwrap();
            for f in r.fees { v.push(f.amount.u128()); }
        }
        v
    }
    fn allow(&mut self, who: &str, spender: &str, amount: u128) {
        let cur: cw20::AllowanceResponse = self.app.wrap().query_wasm_smart(&self.tok, &Cw20QueryMsg::Allowance { owner: who.into(), spender: spender.into() }).unwrap();
        if !cur.allowance.is_zero() {
            self.app.execute_contract(Addr::unchecked(who), self.tok.clone(), &Cw20ExecuteMsg::DecreaseAllowance { spender: spender.into(), amount: cur.allowance, expires: None }, &[]).unwrap();
        }
        if amount > 0 {
            self.app.execute_contract(Addr::unchecked(who), self.tok.clone(), &Cw20ExecuteMsg::IncreaseAllowance { spender: spender.into(), amount: Uint128::new(amount), expires: None }, &[]).unwrap();
        }
    }
    fn funds(&self, amounts: &[u128]) -> Vec<Coin> {
        let mut v: Vec<Coin> = self.assets.iter().zip(amounts).filter_map(|(a, x)| match a { AssetInfo::NativeToken { denom } if *x > 0 => Some(coin(*x, denom)), _ => None }).collect();
        v.sort_by(|a, b| a.denom.cmp(&b.denom));
        v
    }
    fn asset_list(&self, amounts: &[u128]) -> Vec<Asset> {
        self.assets.iter().zip(amounts).map(|(a, x)| Asset { info: a.clone(), amount: Uint128::new(*x) }).collect()
    }
    pub fn has_path(&self, p: u32) -> bool {
        match p {
            P_PROVIDE | P_WITHDRAW_HOOK | P_WITHDRAW_DIRECT | P_SWAP_DIRECT | P_COLLECT => true,
            P_PROVIDE_HELPER | P_SWAP_ROUTER => self.kind.is_pair(),
            P_SWAP_HOOK => matches!(self.kind, PoolKind::PairNC | PoolKind::TrioNNC | PoolKind::StableNC),
            P_SWAP_ROUTER_HOOK => matches!(self.kind, PoolKind::PairNC | PoolKind::StableNC),
            _ => false,
        }
    }
    /// run one entry path with canonical arguments; `x` scales the amounts. Result: 0 ok / 1 rejected / 2 disabled / 3 unauthorized
    pub fn exec(&mut self, p: u32, x: u128) -> i64 {
        let r = std::panic::catch_unwind(std::panic::AssertUnwindSafe(|| self.exec_inner(p, x)));
        match r { Ok(Ok(_)) => 0, Ok(Err(e)) => classify(&e), Err(_) => 1 }
    }
    fn exec_inner(&mut self, p: u32, x: u128) -> anyhow::Result<cw_multi_test::AppResponse> {
        let n = self.assets.len();
        let spread = Some(Decimal::percent(50));
        let tokinfo = AssetInfo::Token { contract_addr: self.tok.to_string() };
        let pool = self.pool.clone();
        match p {
            P_PROVIDE => {
                let amounts: Vec<u128> = (0..n).map(|i| x * 100 + (i as u128) * 7).collect();
                if self.assets.contains(&tokinfo) { let i = self.assets.iter().position(|a| *a == tokinfo).unwrap(); self.allow(ALICE, pool.as_str(), amounts[i]); }
                let funds = self.funds(&amounts);
                let al = self.asset_list(&amounts);
                // odd amount scales: the minted LP is addressed to another account (`receiver`), with a slippage tolerance given
                let receiver = if x % 2 == 1 { Some(BOB.to_string()) } else { None };
                let tol = if x % 2 == 1 { Some(cosmwasm_std::Decimal::percent(50)) } else { None };
                if self.kind.is_pair() {
                    self.app.execute_contract(Addr::unchecked(ALICE), pool, &pair::ExecuteMsg::ProvideLiquidity { assets: [al[0].clone(), al[1].clone()], slippage_tolerance: tol, receiver }, &funds)
                } else {
                    self.app.execute_contract(Addr::unchecked(ALICE), pool, &trio::ExecuteMsg::ProvideLiquidity { assets: [al[0].clone(), al[1].clone(), al[2].clone()], slippage_tolerance: tol, receiver }, &funds)
                }
            }
            P_PROVIDE_HELPER => {
                let amounts: Vec<u128> = (0..n).map(|i| x * 100 + (i as u128) * 7).collect();
                let helper = self.helper.clone();
                if self.assets.contains(&tokinfo) { let i = self.assets.iter().position(|a| *a == tokinfo).unwrap(); self.allow(ALICE, helper.as_str(), amounts[i]); }
                let funds = self.funds(&amounts);
                let al = self.asset_list(&amounts);
                self.app.execute_contract(Addr::unchecked(ALICE), helper, &fh::ExecuteMsg::Deposit { pair_address: pool.to_string(), assets: [al[0].clone(), al[1].clone()],
                    slippage_tolerance: None, unbonding_duration: 86400 }, &funds)
            }
            P_WITHDRAW_HOOK => {
                let have = self.lp_bal(ALICE);
                let amount = (have / 3).max(if have > 0 { 1 } else { 5 });
                let msg = if self.kind.is_pair() { to_json_binary(&pair::Cw20HookMsg::WithdrawLiquidity {})? } else { to_json_binary(&trio::Cw20HookMsg::WithdrawLiquidity {})? };
                self.app.execute_contract(Addr::unchecked(ALICE), self.lp.clone(), &Cw20ExecuteMsg::Send { contract: pool.to_string(), amount: Uint128::new(amount), msg }, &[])
            }
            P_WITHDRAW_DIRECT => {
                let funds = vec![coin(1, DENOMS[0])];
                if self.kind.is_pair() { self.app.execute_contract(Addr::unchecked(ALICE), pool, &pair::ExecuteMsg::WithdrawLiquidity {}, &funds) }
                else { self.app.execute_contract(Addr::unchecked(ALICE), pool, &trio::ExecuteMsg::WithdrawLiquidity {}, &funds) }
            }
            P_SWAP_DIRECT => {
                let offer = Asset { info: self.assets[0].clone(), amount: Uint128::new(x) };
                let funds = vec![coin(x, DENOMS[0])];
                // odd amounts direct the proceeds to the pool's fee collector (a receiver the pool knows about)
                let to = if x % 2 == 1 { Some(COLLECTOR.to_string()) } else { None };
                if self.kind.is_pair() {
                    self.app.execute_contract(Addr::unchecked(BOB), pool, &pair::ExecuteMsg::Swap { offer_asset: offer, belief_price: None, max_spread: spread, to }, &funds)
                } else {
                    self.app.execute_contract(Addr::unchecked(BOB), pool, &trio::ExecuteMsg::Swap { offer_asset: offer, ask_asset: self.assets[1].clone(), belief_price: None, max_spread: spread, to }, &funds)
                }
            }
            P_SWAP_HOOK => {
                let to = if x % 2 == 1 { Some(COLLECTOR.to_string()) } else { None };
                let msg = if self.kind.is_pair() { to_json_binary(&pair::Cw20HookMsg::Swap { belief_price: None, max_spread: spread, to })? }
                          else { to_json_binary(&trio::Cw20HookMsg::Swap { ask_asset: self.assets[0].clone(), belief_price: None, max_spread: spread, to })? };
                self.app.execute_contract(Addr::unchecked(BOB), self.tok.clone(), &Cw20ExecuteMsg::Send { contract: pool.to_string(), amount: Uint128::new(x), msg }, &[])
            }
            P_SWAP_ROUTER => {
                let ops = vec![router::SwapOperation::TerraSwap { offer_asset_info: self.assets[0].clone(), ask_asset_info: self.assets[1].clone() }];
                self.app.execute_contract(Addr::unchecked(BOB), self.router.clone(), &router::ExecuteMsg::ExecuteSwapOperations { operations: ops, minimum_receive: None, to: None, max_spread: spread },
                    &[coin(x, DENOMS[0])])
            }
            P_SWAP_ROUTER_HOOK => {
                let ops = vec![router::SwapOperation::TerraSwap { offer_asset_info: tokinfo, ask_asset_info: self.assets[0].clone() }];
                let msg = to_json_binary(&router::Cw20HookMsg::ExecuteSwapOperations { operations: ops, minimum_receive: None, to: None, max_spread: spread })?;
                self.app.execute_contract(Addr::unchecked(BOB), self.tok.clone(), &Cw20ExecuteMsg::Send { contract: self.router.to_string(), amount: Uint128::new(x), msg }, &[])
            }
            _ => {
                if self.kind.is_pair() { self.app.execute_contract(Addr::unchecked(BOB), pool, &pair::ExecuteMsg::CollectProtocolFees {}, &[]) }
                else { self.app.execute_contract(Addr::unchecked(BOB), pool, &trio::ExecuteMsg::CollectProtocolFees {}, &[]) }
            }
        }
    }
}
