//! C14 — quotes equal execution: pair histories (simulate before every swap) + router multi-hop stream
use crate::common::*;
use crate::pairhist::*;

pub fn run(args: &Args) {
    // replay of a recorded pair history (router / pure cases are re-run by the generators with the recorded seed)
    if let Some(f) = &args.replay { std::process::exit(replay_file("C14", f, &format!("{}/scratch", args.out))); }
    let mut out = Out::new(&args.out);
    out.rule = "pair: histories on a real constant-product pair where every swap is preceded by the Simulation query in the same state (pending protocol fees non-zero after the first swaps); \
                router: factory + 3 pairs over assets A,B,C + router, 1-3 hop chains incl. routes revisiting a pair, donations to the router, native and cw20 first offers; \
                non-trivial = pair history with >= 3 successful op kinds, or a router case with >= 2 hops that paid out > 0; distinct by hash".into();
    let mut rng = Rng::new(args.seed);
    let bias = Bias { tiny_swaps: false, spreads: false, toggles: false };
    let corpus = threshold_corpus();
    let ncorpus = corpus.len() as u64;
    for c in 0..(args.n + ncorpus) {
        let len = 5 + rng.below(25) as usize;
        let case = if c < ncorpus { corpus[c as usize].clone() } else {
            match std::panic::catch_unwind(std::panic::AssertUnwindSafe(|| gen_case(&mut rng, len, &bias))) { Ok(c) => c, Err(_) => { out.count("generator_panic"); continue } } };
        let r = match run_case(&mut out, "C14", &case) { Some(r) => r, None => continue };
        if r.kinds_ok.len() >= 3 && r.had_remainder { out.nontrivial_key(hash_str(&case.coq())); }
        if c < 2 { out.sample(case.json()); }
        out.case("pairhist", &case.coq(), &r.obs, case.json());
    }
    crate::routerstream::run_stream(&mut out, "C14", &mut rng, args.n);
    // vault: Share query issued right before every withdrawal
    for i in 0..args.n {
        let cw20 = i % 2 == 1;
        let fees = crate::vault_hist::gen_fees(&mut rng);
        let funds = crate::vault_hist::gen_funds(&mut rng);
        let len = 8 + rng.below(9) as usize;
        crate::vault_hist::run_history(&mut out, "C14", "vault", &mut rng, crate::vault_hist::Mix::SharePrice, cw20, fees, funds, crate::vault_hist::Source::Gen(len));
    }
    // stableswap pair and three-asset pool: Simulation issued right before every swap of their pool-history streams
    crate::c03::histories(&mut out, &mut rng, (args.n / 3).max(20));
    crate::c04_pool::pool_histories(&mut out, &mut rng, (args.n / 3).max(20));
    out.finish();
}
