//! C14 — quotes equal execution: pair histories (simulate before every swap) + router multi-hop stream
use crate::common::*;
use crate::pairhist::*;


/// LP tokens of a vault that somebody sent to the vault itself by a plain cw20 Transfer are stranded there (nobody can redeem them).
/// The Share query still equals what a withdrawal of that many shares pays. (Monitor-only probe: the vault model has no LP transfer.)
fn vault_stranded_lp_probe(out: &mut Out) {
    use crate::w_vault::{self as wv, Op};
    use cosmwasm_std::Uint128;
    for cw20 in [false, true] {
        let mut w = match wv::deploy(cw20, (DEC / 100, DEC / 200, 0), [0, 9_000_000, 5_000_000, 3_000_000, 3_000_000]) { Ok(w) => w, Err(_) => return };
        let rp = serde_json::json!({"kind": "vault_stranded_lp_probe", "asset_cw20": cw20, "script": "alice deposits 2 000 000, bob 1 500 000; alice sends 300 000 LP to the vault itself (cw20 Transfer); \
                 bob, then alice ask Share { amount } and withdraw that amount: the payout equals the quote"});
        let (alice, bob) = (6usize, 7usize);
        out.monitor_evals += 1;
        if w.exec(&Op::Deposit { u: alice, amount: Uint128::new(2_000_000), sent: Uint128::new(2_000_000) }) != 0 || w.exec(&Op::Deposit { u: bob, amount: Uint128::new(1_500_000), sent: Uint128::new(1_500_000) }) != 0 {
            out.monitor_fail("C14", "probe: the deposits failed", rp.clone()); continue;
        }
        let (lp, vault) = (w.lp.clone(), w.vault.to_string());
        let a = w.addr(alice);
        if cw_multi_test::Executor::execute_contract(&mut w.app, a, lp, &cw20::Cw20ExecuteMsg::Transfer { recipient: vault, amount: Uint128::new(300_000) }, &[]).is_err() {
            out.monitor_fail("C14", "probe: the LP transfer to the vault failed", rp.clone()); continue;
        }
        for (u, amount) in [(bob, 123_456u128), (alice, 700_001), (bob, 1)] {
            let who = w.addr(u).to_string();
            let quote = w.share(amount);
            let b0 = w.asset_bal(&who);
            let c = w.exec(&Op::Withdraw { u, amount: Uint128::new(amount) });
            let paid = w.asset_bal(&who) - b0;
            out.monitor_evals += 1;
            match (c, quote) {
                (0, Ok(q)) => if q != paid { out.monitor_fail("C14", &format!("vault with LP stranded in it: Share {{ {} }} answered {} but the withdrawal paid {}", amount, q, paid), rp.clone()); },
                (0, Err(_)) => out.monitor_fail("C14", "vault Share query failed but the withdrawal succeeded", rp.clone()),
                _ => out.count("probe:stranded_lp_withdraw_refused"),
            }
        }
        out.count("probe:vault_stranded_lp");
    }
}

pub fn run(args: &Args) {
    // replay of a recorded pair history (router / pure cases are re-run by the generators with the recorded seed)
    if let Some(f) = &args.replay {
        if replay_kind(f) == "vault_stranded_lp_probe" { let mut o = Out::new(&args.out); replay_probe(&mut o, &mut |o| vault_stranded_lp_probe(o)); }
        std::process::exit(replay_file("C14", f, &format!("{}/scratch", args.out)));
    }
    let mut out = Out::new(&args.out);
    out.rule = "pair: histories on a real constant-product pair where every swap is preceded by the Simulation query in the same state (pending protocol fees non-zero after the first swaps); \
                router: factory + 3 pairs over assets A,B,C + router, 1-3 hop chains incl. routes revisiting a pair, donations to the router, native and cw20 first offers; \
                non-trivial = pair history with >= 3 successful op kinds, or a router case with >= 2 hops that paid out > 0; distinct by hash".into();
    let mut rng = Rng::new(args.seed);
    let bias = Bias { tiny_swaps: false, spreads: false, toggles: false };
    let corpus = threshold_corpus();
    let ncorpus = corpus.len() as u64;
    for c in 0..(args.n + ncorpus) {
        let len = 5 + rng.below(25) as usize;
        let case = if c < ncorpus { corpus[c as usize].clone() } else {
            match std::panic::catch_unwind(std::panic::AssertUnwindSafe(|| gen_case(&mut rng, len, &bias))) { Ok(c) => c, Err(_) => { out.count("generator_panic"); continue } } };
        let r = match run_case(&mut out, "C14", &case) { Some(r) => r, None => continue };
        if r.kinds_ok.len() >= 3 && r.had_remainder { out.nontrivial_key(hash_str(&case.coq())); }
        if c < 2 { out.sample(case.json()); }
        out.case("pairhist", &case.coq(), &r.obs, case.json());
    }
    crate::routerstream::run_stream(&mut out, "C14", &mut rng, args.n);
    // vault: Share query issued right before every withdrawal
    for i in 0..args.n {
        let cw20 = i % 2 == 1;
        let fees = crate::vault_hist::gen_fees(&mut rng);
        let funds = crate::vault_hist::gen_funds(&mut rng);
        let len = 8 + rng.below(9) as usize;
        crate::vault_hist::run_history(&mut out, "C14", "vault", &mut rng, crate::vault_hist::Mix::SharePrice, cw20, fees, funds, crate::vault_hist::Source::Gen(len));
    }
    // stableswap pair and three-asset pool: Simulation issued right before every swap of their pool-history streams
    crate::c03::histories(&mut out, &mut rng, (args.n / 3).max(20));
    crate::c04_pool::pool_histories(&mut out, &mut rng, (args.n / 3).max(20));
    vault_stranded_lp_probe(&mut out);
    out.finish();
}
