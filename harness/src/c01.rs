//! C01 — constant-product pool histories: solvency, LP value monotone, pro-rata, locked minimum liquidity.
use crate::common::*;
use crate::pairhist::*;

pub fn run_prop(args: &Args, prop: &str, bias: Bias, rule: &str) { run_prop_with(args, prop, bias, rule, &|_, _, _| {}) }

pub fn run_prop_with(args: &Args, prop: &str, bias: Bias, rule: &str, extra: &dyn Fn(&mut Out, &mut Rng, u64)) {
    if let Some(f) = &args.replay { std::process::exit(replay_file(prop, f, &format!("{}/scratch", args.out))); }
    let mut out = Out::new(&args.out);
    out.rule = rule.to_string();
    let mut rng = Rng::new(args.seed);
    let corpus = threshold_corpus();
    let ncorpus = corpus.len() as u64;
    for c in 0..(args.n + ncorpus) {
        let len = 5 + rng.below(if args.tier == "thorough" { 56 } else { 30 }) as usize;
        let mut case = if c < ncorpus { corpus[c as usize].clone() } else {
            // a generator arithmetic slip must not take the check down: skip the case
            match std::panic::catch_unwind(std::panic::AssertUnwindSafe(|| gen_case(&mut rng, len, &bias))) { Ok(c) => c, Err(_) => { out.count("generator_panic"); continue } }
        };
        if c >= ncorpus && (prop == "C01" || c % 3 == 0) { add_deposit_withdraw_pairs(&mut rng, &mut case); }
        let nfail = out.monitor_failures.len();
        let r = match run_case(&mut out, prop, &case) { Some(r) => r, None => { out.count("deploy_failed"); continue } };
        if out.monitor_failures.len() > nfail && nfail == 0 {
            // shrink the first failing history and put the minimal one in front
            let small = shrink_case(prop, &case, &format!("{}/scratch", args.out));
            let mut tmp = Out::new(&format!("{}/scratch", args.out));
            let _ = run_case(&mut tmp, prop, &small);
            if let Some(f) = tmp.monitor_failures.into_iter().next() { out.monitor_failures.insert(0, f); }
        }
        out.count(&format!("kinds:{}{}", case.kinds[0] as u8, case.kinds[1] as u8));
        out.count(&format!("len:{}", case.ops.len() / 10 * 10));
        if r.kinds_ok.len() >= 3 && r.had_remainder { out.nontrivial_key(hash_str(&case.coq())); }
        if c < 3 { out.sample(case.json()); }
        out.case("pairhist", &case.coq(), &r.obs, case.json());
    }
    extra(&mut out, &mut rng, args.n);
    out.finish();
}

pub fn run(args: &Args) {
    run_prop(args, "C01", Bias { tiny_swaps: false, spreads: false, toggles: false },
        "histories of 5-35 (thorough 5-60) operations on a real constant-product pair by 3 users + donor + owner over native/cw20 asset kinds, \
         amounts from the magnitude buckets, deposits mostly proportional, deposit-then-withdraw pairs inserted; non-trivial = at least 3 different \
         operation kinds succeeded with both reserves non-zero; distinct = by hash of the whole case");
}
