//! C03 — two-asset stableswap in terraswap_pair: hooked pure functions (compute_swap with PairType::StableSwap, compute_d,
//! compute_lp_mint_amount_for_stableswap_deposit) and histories on the deployed pair; monitors incl. the exact-curve VALIDATION
//! against an independent wide-integer solver on decimal-normalised reserves.
use crate::big::{self, b, pow10, B};
use crate::common::*;
use crate::w_stable::{fail_class, guarded};
use crate::world::*;
use cosmwasm_std::{Decimal, Uint128};
use serde_json::json;
use terraswap_pair::verif_hooks as pairh;
use white_whale_std::pool_network::asset::PairType;

pub const E_NONE: i64 = 9;
pub const KNOWN_DUST: &str = "stable2_rounding_dust";
pub const KNOWN_DECIMALS: &str = "lp_mint_raw_decimals";
pub const DECIMALS: [(u8, u8); 6] = [(6, 6), (6, 8), (8, 6), (6, 18), (18, 6), (4, 5)];

fn u(x: u128) -> Uint128 { Uint128::new(x) }
pub struct Swap5 { pub ret: u128, pub spread: u128, pub sf: u128, pub pf: u128, pub bf: u128 }
impl Swap5 { fn gross(&self) -> B { b(self.ret) + b(self.sf) + b(self.pf) + b(self.bf) } }

pub fn impl_swap(op: u128, ask: u128, x: u128, f: (u128, u128, u128), amp: u64, dp: (u8, u8)) -> Outcome<Swap5> {
    run_catch(|| pairh::compute_swap(u(op), u(ask), u(x), pool_fee(f.0, f.1, f.2), &PairType::StableSwap { amp }, dp.0, dp.1)
        .map(|s| Swap5 { ret: s.return_amount.u128(), spread: s.spread_amount.u128(), sf: s.swap_fee_amount.u128(),
                         pf: s.protocol_fee_amount.u128(), bf: s.burn_fee_amount.u128() }), |_| E_OTHER)
}
pub fn impl_d(amp: u64, a: u128, b_: u128) -> Outcome<String> {
    run_catch(|| pairh::compute_d(&amp, u(a), u(b_)).map(|d| d.to_string()).ok_or(()), |_| E_NONE)
}
pub fn impl_mint(amp: u64, d: [u128; 2], r: [u128; 2], s: u128) -> Outcome<u128> {
    run_catch(|| pairh::compute_lp_mint_amount_for_stableswap_deposit(&amp, u(d[0]), u(d[1]), u(r[0]), u(r[1]), u(s)).map(|m| m.u128()).ok_or(()), |_| E_NONE)
}

/// reserves in 18-decimal units (what Decimal256::from_atomics(value, decimals) holds)
fn norm(x: u128, dec: u8) -> B { b(x) * pow10(18 - dec as u32) }

/// dust allowance of the swap clause, in ask base units: 3 * (1 + ceil(local slope)), slope = ask base units per offer base unit on the exact curve
fn swap_dust(ann: u128, xn: &B, d: &B, dp: (u8, u8)) -> (B, B) {
    // the code truncates the offer side to the ask precision: the effective offer granularity is the coarser of the two units
    let unit_o = pow10(18 - dp.0.min(dp.1) as u32);
    let unit_a = pow10(18 - dp.1 as u32);
    let y0 = big::y2_true_ceil(ann, xn, d);
    let y1 = big::y2_true_ceil(ann, &(*xn + unit_o), d);
    let slope = if y0 > y1 { (y0 - y1 + unit_a - B::ONE) / unit_a } else { B::ZERO };
    (b(3) * (B::ONE + slope), (y0 + unit_a - B::ONE) / unit_a)
}

fn monitor_swap(out: &mut Out, op: u128, ask: u128, x: u128, f: (u128, u128, u128), amp: u64, dp: (u8, u8), r: &Outcome<Swap5>, rp: &serde_json::Value) {
    out.monitor_evals += 1;
    let s = match r { Outcome::Ok(s) => s, Outcome::Panic(m) => { out.monitor_fail("C03", &format!("stableswap computation aborted ({m})"), rp.clone()); return; } _ => return };
    let g = s.gross();
    let fl = |share: u128| g * b(share) / b(DEC);
    if b(s.sf) != fl(f.1) || b(s.pf) != fl(f.0) || b(s.bf) != fl(f.2) { out.monitor_fail("C03", "a fee differs from floor(share * curve output)", rp.clone()); }
    if g > b(ask) { out.monitor_fail("C03", "proceeds + fees exceed the ask reserve", rp.clone()); }
    // VALIDATION (independent exact solver on decimal-normalised reserves): the ask reserve kept is not below the curve point by more than dust
    if op > 0 && ask > 0 && amp > 0 && amp <= 1_000_000 {
        out.monitor_evals += 1;
        out.count("validation:swap_vs_exact_curve");
        let ann = amp as u128 * 2;
        let (xn, yn) = (norm(op, dp.0), norm(ask, dp.1));
        let d = big::d2_true_floor(ann, &xn, &yn);
        let xn1 = xn + norm(x, dp.0);
        let (dust, y_true) = swap_dust(ann, &xn1, &d, dp);
        let kept = b(ask) - g;
        if kept + dust < y_true {
            out.monitor_fail("C03", &format!("VALIDATION exact curve: ask reserve after the swap {} is below the curve point {} by more than the dust allowance {}", kept, y_true, dust), rp.clone());
        } else if kept < y_true { out.count("validation:swap_within_dust"); }
    }
    // proceeds do not decrease when the offer grows
    for delta in [1u128, x / 1000 + 1, x] {
        if let Some(x2) = x.checked_add(delta) {
            if let Outcome::Ok(s2) = impl_swap(op, ask, x2, f, amp, dp) {
                out.monitor_evals += 1;
                out.count("monotone:evaluated");
                if s2.ret < s.ret {
                    let loss = s.ret - s2.ret;
                    if loss <= 2 { out.known_hit("C03", KNOWN_DUST, &format!("proceeds fell by {} base unit(s) when the offer grew (Newton rounding)", loss), rp.clone()); }
                    else { out.monitor_fail("C03", &format!("proceeds fell from {} to {} when the offer grew by {}", s.ret, s2.ret, delta), rp.clone()); }
                }
            }
        }
    }
}

fn monitor_mint(out: &mut Out, amp: u64, dep: [u128; 2], r: [u128; 2], supply: u128, mint: u128, dp: (u8, u8), rp: &serde_json::Value) {
    out.monitor_evals += 1;
    let n = [r[0] + dep[0], r[1] + dep[1]];
    if let (Outcome::Ok(d0), Outcome::Ok(d1)) = (impl_d(amp, r[0], r[1]), impl_d(amp, n[0], n[1])) {
        let (d0, d1) = (big::bs(&d0), big::bs(&d1));
        if (b(supply) + b(mint)) * d0 > b(supply) * d1 { out.monitor_fail("C03", "deposit minted more LP than the increase of the pool's own (raw) invariant", rp.clone()); }
    }
    norm_per_lp(out, amp, r, n, supply, supply as u128 + 0, mint, dp, "deposit", rp);
}

/// VALIDATION: exact invariant of the decimal-normalised reserves per LP token does not fall (dust: 4 units of the smaller decimal unit + relative 1e-12)
fn norm_per_lp(out: &mut Out, amp: u64, r0: [u128; 2], r1: [u128; 2], s0: u128, _s0b: u128, minted: u128, dp: (u8, u8), what: &str, rp: &serde_json::Value) {
    if r0.iter().any(|v| *v == 0) || r1.iter().any(|v| *v == 0) || s0 == 0 || amp == 0 { return; }
    out.monitor_evals += 1;
    out.count("validation:norm_invariant_per_lp");
    let ann = amp as u128 * 2;
    let f0 = big::d2_true_floor(ann, &norm(r0[0], dp.0), &norm(r0[1], dp.1));
    let f1 = big::d2_true_floor(ann, &norm(r1[0], dp.0), &norm(r1[1], dp.1));
    let s1 = b(s0) + b(minted);
    // dust: a few base units of the coarser asset, in 18-decimal units, plus the conditioning of the pool
    let unit = pow10(18 - dp.0.min(dp.1) as u32);
    let kappa = { let a = norm(r1[0], dp.0); let c = norm(r1[1], dp.1); if a > c { a / c } else { c / a } };
    // the code's D is an integer: a truncation of a few units of D0 is magnified by the growth D1/D0 of the deposit
    let growth = if f0.is_zero() { B::ONE } else { B::ONE + f1 / f0 };
    let dust = unit * b(8) * (B::ONE + kappa / b(ann)) * growth;
    if (f1 + B::ONE) * b(s0) > f0 * s1 { return; }
    if (f1 + B::ONE + dust) * b(s0) > f0 * s1 {
        out.known_hit("C03", KNOWN_DUST, &format!("normalised invariant per LP fell by rounding dust across a {what}"), rp.clone());
    } else if dp.0 != dp.1 && what == "deposit" {
        // signature of the known finding: a deposit into a pair whose assets have different decimals
        let num = f0 * s1; let den = (f1 + B::ONE) * b(s0);
        let bps = ((num - den) * b(10_000)) / num;
        out.known_hit("C03", KNOWN_DECIMALS, &format!("deposit into a pair with decimals ({}, {}) minted LP beyond the increase of the normalised invariant: invariant per LP fell by {} bps", dp.0, dp.1, bps), rp.clone());
    } else {
        out.monitor_fail("C03", &format!("VALIDATION exact curve: normalised invariant per LP token fell across a {what} beyond rounding dust (D {} -> {}, supply {} -> {}, dust {}, reserves {:?} -> {:?})", f0, f1, s0, s1, dust, r0, r1), rp.clone());
    }
}

fn gen_amp(rng: &mut Rng) -> u64 {
    match rng.below(12) { 0 => 0, 1 => 1 + rng.below(1_000_000), 2 => rng.next(), _ => *rng.pick(&[1u64, 2, 10, 85, 85, 100, 1000, 1_000_000]) }
}

/// whole tokens -> base units for a decimal setting; reserves hold at least one whole token of each asset in most cases
fn gen_pair_reserves(rng: &mut Rng, dp: (u8, u8)) -> [u128; 2] {
    let one = [10u128.pow(dp.0 as u32), 10u128.pow(dp.1 as u32)];
    let tokens = |rng: &mut Rng| -> u128 { match rng.below(8) { 0 => 1, 1 => 1000, 2 => 1_000_000, 3 => 1_000_000_000, 4 => rng.range128(1, 100), _ => rng.range128(1, 10_000_000) } };
    match rng.below(12) {
        0..=5 => { let t = tokens(rng); [one[0].saturating_mul(t) + rng.below128(one[0]), one[1].saturating_mul(t.saturating_mul(rng.range128(80, 125)) / 100).max(one[1]) + rng.below128(one[1])] }
        6..=7 => [one[0].saturating_mul(tokens(rng)), one[1].saturating_mul(tokens(rng))],
        8 => [magnitude(rng, 100), magnitude(rng, 100)],
        9 => [rng.range128(0, 10), one[1].saturating_mul(tokens(rng))],
        10 => [one[0], one[1]],
        _ => [one[0].saturating_mul(tokens(rng)).min(1u128 << 100), one[1].saturating_mul(tokens(rng)).min(1u128 << 100)],
    }
}

fn pure(out: &mut Out, rng: &mut Rng, n: u64) {
    let mut cases: Vec<(u64, (u8, u8), [u128; 2], u128, (u128, u128, u128))> = vec![
        (100, (6, 6), [1_000_000_000, 1_000_000_000], 1_000_000, (0, 0, 0)),
        (100, (6, 18), [1_000_000_000, 1_000_000_000_000_000_000_000], 1_000_000, (DEC / 1000, 3 * DEC / 1000, 0)),
        (100, (18, 6), [1_000_000_000_000_000_000_000, 1_000_000_000], 1_000_000_000_000_000_000, (0, 0, 0)),
        (85, (4, 5), [10_000, 100_000], 1, (0, 0, 0)),
        (0, (6, 6), [1_000_000, 1_000_000], 5, (0, 0, 0)),
        (1000, (6, 8), [0, 0], 5, (0, 0, 0)),
    ];
    for _ in 0..n {
        let dp = *rng.pick(&DECIMALS);
        let r = gen_pair_reserves(rng, dp);
        let x = match rng.below(10) { 0 => 0, 1 => 1, 2 => r[0], 3 => r[0].saturating_mul(3), 4 => r[0] / 1000 + 1, 5 => magnitude(rng, 100), _ => rng.range128(1, r[0].max(2) / 2 + 1) };
        let valid = !rng.chance(1, 30);
        cases.push((gen_amp(rng), dp, r, x, fee_triple(rng, valid)));
    }
    for (amp, dp, r, x, f) in cases {
        let rp = json!({"kind": "pure_stableswap", "amp": amp, "decimals": [dp.0, dp.1], "offer_pool": r[0].to_string(), "ask_pool": r[1].to_string(),
                        "offer": x.to_string(), "fees_protocol_swap_burn": [f.0.to_string(), f.1.to_string(), f.2.to_string()]});
        let s = impl_swap(r[0], r[1], x, f, amp, dp);
        out.count(match &s { Outcome::Ok(_) => "swap:ok", Outcome::Err(_) => "swap:err", Outcome::Panic(_) => "swap:panic" });
        out.count(&format!("decimals:{}_{}", dp.0, dp.1));
        let valid = f.0 < DEC && f.1 < DEC && f.2 < DEC && f.0 + f.1 + f.2 < DEC;
        if valid { monitor_swap(out, r[0], r[1], x, f, amp, dp, &s, &rp); }
        if let Outcome::Ok(v) = &s { if v.ret > 0 { out.nontrivial_key(hash64(&[amp as u128, dp.0 as u128, dp.1 as u128, r[0], r[1], x, f.0, f.1, f.2])); } }
        out.sample(rp.clone());
        out.case("c03_swap", &format!("(({}, {}, {}), ({}, {}, {}), ({}, {}, {}))", r[0], r[1], x, f.0, f.1, f.2, amp, dp.0, dp.1),
                 &obs(&s, |v| vec![v.ret.to_string(), v.spread.to_string(), v.sf.to_string(), v.pf.to_string(), v.bf.to_string()]), rp.clone());
        // compute_d on the raw amounts
        let d = impl_d(amp, r[0], r[1]);
        out.count(match &d { Outcome::Ok(_) => "d:ok", Outcome::Err(_) => "d:none", Outcome::Panic(_) => "d:panic" });
        out.case("c03_d", &format!("({}, {}, {})", amp, r[0], r[1]), &obs(&d, |v| vec![v.clone()]), rp.clone());
        // deposit
        if rng.chance(2, 3) {
            let dep = match rng.below(6) {
                0 => [r[0] / 10 + 1, r[1] / 10 + 1],
                1 => [1, r[1].max(1)],
                2 => [r[0].max(1), 1],
                3 => [1, 1],
                _ => [rng.range128(1, r[0].max(2)), rng.range128(1, r[1].max(2))],
            };
            let supply = match rng.below(4) { 0 => 1, 1 => magnitude(rng, 110), _ => match impl_d(amp, r[0], r[1]) { Outcome::Ok(v) => v.parse::<u128>().unwrap_or(1u128 << 100).max(1), _ => 1_000_000 } };
            let m = impl_mint(amp, dep, r, supply);
            let mut rp2 = rp.clone();
            rp2["deposit"] = json!([dep[0].to_string(), dep[1].to_string()]);
            rp2["lp_supply"] = json!(supply.to_string());
            out.count(match &m { Outcome::Ok(_) => "mint:ok", Outcome::Err(_) => "mint:none", Outcome::Panic(_) => "mint:panic" });
            if let Outcome::Ok(mv) = &m { if r[0].checked_add(dep[0]).is_some() && r[1].checked_add(dep[1]).is_some() { monitor_mint(out, amp, dep, r, supply, *mv, dp, &rp2); } }
            out.case("c03_mint", &format!("({}, ({}, {}), ({}, {}), {})", amp, dep[0], dep[1], r[0], r[1], supply), &obs(&m, |v| vec![v.to_string()]), rp2);
        }
    }
}

// ---------------------------------------------------------------------------------------------
// histories on the deployed pair
// ---------------------------------------------------------------------------------------------
const USERS4: [&str; 4] = ["alice", "bob", "carol", "donor"];
#[derive(Clone, Debug)]
pub enum Op { Provide { u: usize, d: [u128; 2] }, Withdraw { u: usize, amount: u128 }, Swap { u: usize, i: usize, x: u128, ms: Option<u128> }, Collect, Donate { i: usize, x: u128 },
              /// the owner's UpdateConfig { pool_fees } (protocol, swap, burn)
              SetFees { f: (u128, u128, u128) } }
impl Op {
    fn coq(&self) -> String {
        match self {
            Op::Provide { u, d } => format!("Provide2 {}%nat ({}, {})", u, d[0], d[1]),
            Op::Withdraw { u, amount } => format!("Withdraw2 {}%nat {}", u, amount),
            Op::Swap { u, i, x, ms } => format!("Swap2 {}%nat {} {} {}", u, i, x, match ms { Some(m) => format!("(Some {})", m), None => "None".into() }),
            Op::Collect => "Collect2".into(),
            Op::Donate { i, x } => format!("Donate2 {} {}", i, x),
            Op::SetFees { f } => format!("SetFees2 (mkFees {} {} {})", f.0, f.1, f.2),
        }
    }
    fn json(&self) -> serde_json::Value {
        match self {
            Op::Provide { u, d } => json!({"op": "provide", "user": USERS4[*u], "amounts": [d[0].to_string(), d[1].to_string()]}),
            Op::Withdraw { u, amount } => json!({"op": "withdraw", "user": USERS4[*u], "lp": amount.to_string()}),
            Op::Swap { u, i, x, ms } => json!({"op": "swap", "user": USERS4[*u], "offer_index": i, "offer": x.to_string(), "max_spread_atomics": ms.map(|m| m.to_string())}),
            Op::Collect => json!({"op": "collect"}),
            Op::Donate { i, x } => json!({"op": "donate", "index": i, "amount": x.to_string()}),
            Op::SetFees { f } => json!({"op": "set_fees", "fees_protocol_swap_burn": [f.0.to_string(), f.1.to_string(), f.2.to_string()]}),
        }
    }
    fn kind(&self) -> &'static str { match self { Op::Provide { .. } => "provide", Op::Withdraw { .. } => "withdraw", Op::Swap { .. } => "swap", Op::Collect => "collect", Op::Donate { .. } => "donate", Op::SetFees { .. } => "set_fees" } }
}

#[derive(Clone, PartialEq, Debug)]
struct Snap { bal: [u128; 2], fee: [u128; 2], all: [u128; 2], burn: [u128; 2], supply: u128, lp: [u128; 4], lp_self: u128, user: [[u128; 2]; 4], coll: [u128; 2] }
fn snap(w: &PairWorld) -> Snap {
    let mut user = [[0u128; 2]; 4];
    for (k, name) in USERS4.iter().enumerate() { for i in 0..2 { user[k][i] = w.bal(i, name); } }
    Snap { bal: [w.pool_bal(0), w.pool_bal(1)], fee: w.fees_query(false), all: w.fees_query(true), burn: w.burned_query(), supply: w.lp_supply(),
           lp: [w.lp_bal("alice"), w.lp_bal("bob"), w.lp_bal("carol"), w.lp_bal("donor")], lp_self: w.lp_bal(w.pair.as_str()), user,
           coll: [w.bal(0, COLLECTOR), w.bal(1, COLLECTOR)] }
}
fn pool_obs(s: &Snap) -> Vec<String> {
    let mut v: Vec<String> = vec![];
    for a in [&s.bal, &s.fee, &s.all, &s.burn] { v.extend(a.iter().map(|x| x.to_string())); }
    v.push(s.supply.to_string());
    v.extend(s.lp.iter().map(|x| x.to_string()));
    v.push(s.lp_self.to_string());
    v
}
fn sdiff(a: u128, bb: u128) -> String { if a >= bb { (a - bb).to_string() } else { format!("-{}", bb - a) } }
fn reserves(s: &Snap) -> [u128; 2] { [s.bal[0].saturating_sub(s.fee[0]), s.bal[1].saturating_sub(s.fee[1])] }

/// who receives the proceeds of a swap: for offers with x % 5 == 2 another user than the sender (`to` argument), else the sender.
/// The model's swap does not depend on the receiver; the user effect observed is the sum over sender and receiver.
fn receiver(op: &Op) -> Option<usize> {
    match op { Op::Swap { u, x, .. } => Some(if *x % 5 == 2 { (*u + 1) % 4 } else { *u }), _ => None }
}

fn exec(w: &mut PairWorld, op: &Op) -> Result<(), String> {
    match op {
        Op::Provide { u, d } => guarded(|| w.provide_ext(USERS4[*u], d[0], d[1], None, None, (d[0] ^ d[1]) & 1 == 1, None)).map(|_| ()),
        Op::Withdraw { u, amount } => guarded(|| w.withdraw(USERS4[*u], *amount)).map(|_| ()),
        Op::Swap { u, i, x, ms } => { let rc = receiver(op).unwrap();
            guarded(|| w.swap(USERS4[*u], *i, *x, None, ms.map(|m| Decimal::new(m.into())), if rc != *u { Some(USERS4[rc].to_string()) } else { None })).map(|_| ()) }
        Op::Collect => guarded(|| w.collect("bob")).map(|_| ()),
        Op::Donate { i, x } => guarded(|| w.donate("donor", *i, *x)).map(|_| ()),
        Op::SetFees { f } => {
            let msg = white_whale_std::pool_network::pair::ExecuteMsg::UpdateConfig { owner: None, fee_collector_addr: None, pool_fees: Some(pool_fee(f.0, f.1, f.2)), feature_toggle: None };
            let pair = w.pair.clone();
            guarded(|| cw_multi_test::Executor::execute_contract(&mut w.app, cosmwasm_std::Addr::unchecked(OWNER), pair.clone(), &msg, &[])).map(|_| ())
        }
    }
}

pub struct History { pub amp: u64, pub dp: (u8, u8), pub fees: (u128, u128, u128), pub kinds: [bool; 2], pub fixed: Option<Vec<Op>>, pub len: usize }

fn gen_op(rng: &mut Rng, s: &Snap, dp: (u8, u8)) -> Op {
    let r = reserves(s);
    let u = rng.below(3) as usize;
    let one = [10u128.pow(dp.0 as u32), 10u128.pow(dp.1 as u32)];
    match rng.below(16) {
        0..=3 => Op::Provide { u, d: match rng.below(6) {
            0 => [r[0] / 10 + 1, r[1] / 10 + 1],
            1 => [1, rng.range128(1, r[1].max(2))],
            2 => [rng.range128(1, r[0].max(2)), 1],
            3 => [rng.range128(0, 2), one[1]],
            _ => [rng.range128(1, r[0].max(2)), rng.range128(1, r[1].max(2))] } },
        4..=6 => { let have = s.lp[u]; Op::Withdraw { u, amount: match rng.below(6) { 0 => have, 1 => have.saturating_add(1), 2 => 0, 3 => have / 2, _ => rng.range128(0, have) } } }
        7..=12 => { let i = rng.below(2) as usize; Op::Swap { u, i, x: match rng.below(8) { 0 => 0, 1 => 1, 2 => r[i] / 2, 3 => one[i], _ => rng.range128(1, r[i].max(3) / 3) },
                                                             ms: match rng.below(4) { 0 => None, _ => Some(DEC / 2) } } }
        13 | 14 => Op::Collect,
        _ => Op::Donate { i: rng.below(2) as usize, x: 1 + rng.range128(0, r[0].max(2) / 10) },
    }
}

fn monitors(out: &mut Out, h: &History, op: &Op, ok: bool, before: &Snap, after: &Snap, rp: &serde_json::Value) {
    out.monitor_evals += 1;
    for k in 0..2 {
        if after.bal[k] < after.fee[k] { out.monitor_fail("C03", "pool balance below the pending protocol fee", rp.clone()); }
    }
    if b(after.supply) != after.lp.iter().fold(b(after.lp_self), |a, x| a + b(*x)) { out.monitor_fail("C03", "LP supply != sum of LP balances", rp.clone()); }
    if !ok { if before != after { out.monitor_fail("C03", "a rejected operation changed balances or contract state", rp.clone()); } return; }
    let (r0, r1) = (reserves(before), reserves(after));
    match op {
        Op::Swap { u, i, x, .. } => {
            let j = 1 - i;
            let dpd = if *i == 0 { h.dp } else { (h.dp.1, h.dp.0) };
            let s = impl_swap(r0[*i], r0[j], *x, h.fees, h.amp, dpd);
            if let Outcome::Ok(sv) = &s {
                let u = &receiver(op).unwrap_or(*u);
                let got = after.user[*u][j] - before.user[*u][j];
                if got != sv.ret || after.fee[j] - before.fee[j] != sv.pf || after.burn[j] - before.burn[j] != sv.bf {
                    out.monitor_fail("C03", "swap paid / booked something else than compute_swap on the reported reserves", rp.clone());
                }
                if b(r1[j]) + sv.gross() != b(r0[j]) + b(sv.sf) { out.monitor_fail("C03", "ask reserve did not fall by exactly curve output - swap fee", rp.clone()); }
                monitor_swap(out, r0[*i], r0[j], *x, h.fees, h.amp, dpd, &s, rp);
            } else { out.monitor_fail("C03", "swap executed although compute_swap fails on the same reserves", rp.clone()); }
            // (the swap clause of C03 is the reserve-vs-exact-curve comparison inside monitor_swap, with the slope-scaled dust the property grants)
        }
        Op::Provide { d, .. } => {
            if before.supply > 0 {
                // the LP minted is the pool's own mint formula (through the hook) on the reported reserves and the amounts deposited
                if let Outcome::Ok(m) = impl_mint(h.amp, *d, r0, before.supply) {
                    let minted = after.supply - before.supply;
                    if m != minted { out.monitor_fail("C03", &format!("a deposit minted {} LP but the mint formula on the reported reserves and the deposited amounts gives {}", minted, m), rp.clone()); }
                }
                norm_per_lp(out, h.amp, r0, r1, before.supply, 0, after.supply - before.supply, h.dp, "deposit", rp);
            }
        }
        Op::Withdraw { u, amount } => {
            for k in 0..2 {
                let got = b(after.user[*u][k] - before.user[*u][k]);
                if got * b(before.supply) > b(r0[k]) * b(*amount) { out.monitor_fail("C03", "withdrawal paid more than the pro-rata share of a reserve", rp.clone()); }
            }
        }
        _ => {}
    }
}

pub fn run_history(out: &mut Out, rng: &mut Rng, h: &History) {
    let mut rp = json!({"kind": "pair_history", "amp": h.amp, "decimals": [h.dp.0, h.dp.1], "fees_protocol_swap_burn": [h.fees.0.to_string(), h.fees.1.to_string(), h.fees.2.to_string()],
                        "asset_kinds_cw20": h.kinds, "ops": []});
    let mut w = match deploy_pair(h.kinds, [h.dp.0, h.dp.1], pool_fee(h.fees.0, h.fees.1, h.fees.2), PairType::StableSwap { amp: h.amp }) { Ok(w) => w, Err(_) => { out.count("pool:instantiate_rejected"); return; } };
    let mut obsv: Vec<String> = vec![];
    let mut items: Vec<String> = vec![];
    let mut seen = std::collections::BTreeSet::new();
    // deposit-then-withdraw: what a user put in by a deposit and got back by withdrawing exactly the LP minted for it
    let mut last_provide: Option<(usize, [u128; 2], u128, [u128; 2], u128)> = None;
    let mut k = 0usize;
    // the fee schedule in force (UpdateConfig may change it mid-history); the monitors judge every step by it
    let mut hc = History { amp: h.amp, dp: h.dp, fees: h.fees, kinds: h.kinds, fixed: None, len: 0 };
    // fee changes come from a generator state of their own and only in every second generated history, so the other histories stay what they were
    let mut side = Rng::new(h.amp ^ (h.fees.0 as u64).rotate_left(7) ^ (h.fees.1 as u64).rotate_left(29) ^ (h.len as u64) << 3 ^ 0x5345_5446);
    let fee_changes = h.fixed.is_none() && side.chance(1, 2);
    let mut just_changed = true;
    loop {
        let before = snap(&w);
        let op = if fee_changes && !just_changed && k >= 2 && k < h.len && side.chance(1, 7) {
                     just_changed = true;
                     let valid = !side.chance(1, 8);
                     let mut nf = fee_triple(&mut side, valid);
                     if side.chance(1, 2) { nf.0 = 0; }
                     k -= 1;
                     Op::SetFees { f: nf }
                 }
                 else if let Some(f) = &h.fixed { match f.get(k) { Some(Op::Withdraw { u, amount: u128::MAX }) => Op::Withdraw { u: *u, amount: before.lp[*u] }, Some(o) => o.clone(), None => break } }
                 else if k >= h.len { break }
                 else if k == 0 {
                     let one = [10u128.pow(h.dp.0 as u32), 10u128.pow(h.dp.1 as u32)];
                     let t = match rng.below(5) { 0 => 1, 1 => 1000, 2 => 1_000_000, _ => rng.range128(1, 5_000_000) };
                     Op::Provide { u: 0, d: [one[0].saturating_mul(t), one[1].saturating_mul(t * rng.range128(90, 110) / 100).max(one[1])] }
                 }
                 else if let (Some((u, _, minted, _, _)), true) = (last_provide.clone(), rng.chance(1, 3)) { Op::Withdraw { u, amount: minted } }
                 else { gen_op(rng, &before, h.dp) };
        k += 1;
        rp["ops"].as_array_mut().unwrap().push(op.json());
        // C14: the Simulation query issued in the same state right before the swap
        let quote = if let Op::Swap { i, x, .. } = &op { Some(w.simulate(*i, *x)) } else { None };
        if let (Some(q), Op::Swap { i, x, .. }) = (&quote, &op) {
            // correspondence of the query path itself (Stable2Quotes.simulate2 on the state the model reaches by the same history)
            let input = format!("(({}, ({}, {}), ({}, {}, {}), ({}, {})), {}, ({}, {}))", h.amp, h.dp.0, h.dp.1, h.fees.0, h.fees.1, h.fees.2,
                                coqbool(h.kinds[0]), coqbool(h.kinds[1]), coqlist(&items), i, x);
            let o: Vec<String> = match q { Ok(s) => vec!["0".into(), s.return_amount.to_string(), s.spread_amount.to_string(), s.swap_fee_amount.to_string(),
                                                         s.protocol_fee_amount.to_string(), s.burn_fee_amount.to_string()], Err(_) => vec!["1".into()] };
            out.case("c14_sim2", &input, &o, rp.clone());
        }
        if !matches!(op, Op::SetFees { .. }) { just_changed = false; }
        let r = exec(&mut w, &op);
        let after = snap(&w);
        if let (Ok(_), Op::SetFees { f }) = (&r, &op) { hc.fees = *f; out.count(if f.0 == 0 { "pool:fees_changed_protocol_zero" } else { "pool:fees_changed" }); }
        out.count(&format!("pool:{}:{}", op.kind(), match &r { Ok(_) => "ok", Err(e) => if fail_class(e).is_none() { "panic" } else { "rejected" } }));
        monitors(out, &hc, &op, r.is_ok(), &before, &after, &rp);
        if let (Some(q), Ok(_), Op::Swap { i, .. }) = (&quote, &r, &op) {
            let u = &receiver(&op).unwrap();
            out.monitor_evals += 1;
            let j = 1 - *i;
            let got = after.user[*u][j] - before.user[*u][j];
            match q {
                Ok(sim) => {
                    if sim.return_amount.u128() != got || sim.protocol_fee_amount.u128() != after.fee[j] - before.fee[j] || sim.burn_fee_amount.u128() != after.burn[j] - before.burn[j] {
                        out.monitor_fail("C14", &format!("stableswap pair: simulation (return {}, protocol fee {}, burn fee {}) differs from the executed swap (received {}, ledger +{}, burned +{})",
                            sim.return_amount, sim.protocol_fee_amount, sim.burn_fee_amount, got, after.fee[j] - before.fee[j], after.burn[j] - before.burn[j]), rp.clone());
                    }
                }
                Err(_) => out.monitor_fail("C14", "stableswap pair: simulation failed but the swap executed", rp.clone()),
            }
        }
        // deposit-then-withdraw never returns more VALUE than was deposited; value measured by the exact normalised invariant:
        // the invariant per LP token of everybody else after the withdrawal is not below what it was before the deposit
        if let (Ok(_), Op::Withdraw { u, amount }) = (&r, &op) {
            if let Some((pu, dep, minted, r_before, s_before)) = last_provide.clone() {
                if pu == *u && minted == *amount && after.supply > 0 && r_before.iter().all(|v| *v > 0) && reserves(&after).iter().all(|v| *v > 0) {
                    out.monitor_evals += 1;
                    out.count("deposit_withdraw:evaluated");
                    let ann = h.amp as u128 * 2;
                    let ra = reserves(&after);
                    let f0 = big::d2_true_floor(ann, &norm(r_before[0], h.dp.0), &norm(r_before[1], h.dp.1));
                    let f1 = big::d2_true_floor(ann, &norm(ra[0], h.dp.0), &norm(ra[1], h.dp.1));
                    let unit = pow10(18 - h.dp.0.min(h.dp.1) as u32);
                    let kappa = { let a = norm(ra[0], h.dp.0); let c = norm(ra[1], h.dp.1); if a > c { a / c } else { c / a } };
                    let dust = unit * b(16) * (B::ONE + kappa / b(ann.max(1)));
                    if !((f1 + B::ONE + dust) * b(s_before) > f0 * b(after.supply)) {
                        let what = format!("deposit ({}, {}) then withdrawal of the LP minted for it left the other LPs with less invariant per LP token (value extracted)", dep[0], dep[1]);
                        if h.dp.0 != h.dp.1 { out.known_hit("C03", KNOWN_DECIMALS, &what, rp.clone()); } else { out.monitor_fail("C03", &what, rp.clone()); }
                    }
                }
            }
        }
        last_provide = match (&r, &op) { (Ok(_), Op::Provide { u, d }) if before.supply > 0 => Some((*u, *d, after.lp[*u] - before.lp[*u], reserves(&before), before.supply)), _ => None };
        match &r {
            Ok(_) => {
                seen.insert(op.kind());
                obsv.push("0".into());
                let uu = match &op { Op::Provide { u, .. } | Op::Withdraw { u, .. } | Op::Swap { u, .. } => Some(*u), _ => None };
                let rc = receiver(&op).filter(|rc| Some(*rc) != uu);
                for i in 0..2 { obsv.push(match uu { Some(u) => match rc {
                    Some(rc) => sdiff(after.user[u][i].saturating_add(after.user[rc][i]), before.user[u][i].saturating_add(before.user[rc][i])),
                    None => sdiff(after.user[u][i], before.user[u][i]) }, None => "0".into() }); }
                for i in 0..2 { obsv.push(sdiff(after.coll[i], before.coll[i])); }
            }
            Err(e) => match fail_class(e) { Some(c) => { obsv.push("1".into()); obsv.push(c.to_string()); } None => obsv.push("2".into()) },
        }
        obsv.extend(pool_obs(&after));
        items.push(op.coq());
    }
    if seen.len() >= 3 { out.nontrivial_key(hash_str(&items.join(";"))); }
    out.sample(rp.clone());
    let input = format!("(({}, ({}, {}), ({}, {}, {}), ({}, {})), {})", h.amp, h.dp.0, h.dp.1, h.fees.0, h.fees.1, h.fees.2, coqbool(h.kinds[0]), coqbool(h.kinds[1]), coqlist(&items));
    out.case("c03_pool", &input, &obsv, rp);
}

pub fn histories(out: &mut Out, rng: &mut Rng, n: u64) {
    // corpus: the unequal-decimals LP mint witness (1000 whole tokens each; bob deposits 1000 tokens of the 18-decimal asset only, then withdraws)
    let corpus = vec![
        History { amp: 100, dp: (6, 18), fees: (0, 0, 0), kinds: [false, false], len: 0, fixed: Some(vec![
            Op::Provide { u: 0, d: [1_000_000_000, 1_000_000_000_000_000_000_000] },
            Op::Provide { u: 1, d: [1, 1_000_000_000_000_000_000_000] },
            Op::Withdraw { u: 1, amount: 0 },   // replaced below by the minted amount (fixed histories are literal; see gen in run)
        ]) },
        History { amp: 85, dp: (6, 6), fees: (DEC / 1000, 3 * DEC / 1000, DEC / 1000), kinds: [false, true], len: 0, fixed: Some(vec![
            Op::Provide { u: 0, d: [1_000_000_000, 1_010_000_000] },
            Op::Swap { u: 1, i: 0, x: 5_000_000, ms: None },
            Op::Swap { u: 2, i: 1, x: 7_000_000, ms: None },
            Op::Provide { u: 1, d: [10_000_000, 1] },
            Op::Collect,
            Op::Withdraw { u: 0, amount: 1_000_000_000 },
        ]) },
        // reserves imbalanced by 1e16:1 and 1e18:1: the 32-round solver gives up (ConvergeError), every swap must be refused
        // and change nothing; offers of the scarce asset first
        History { amp: 1, dp: (6, 6), fees: (0, 0, 0), kinds: [false, false], len: 0, fixed: Some(vec![
            Op::Provide { u: 0, d: [10u128.pow(22), 1_000_000] },
            Op::Swap { u: 1, i: 1, x: 100_000, ms: Some(DEC / 2) },
            Op::Swap { u: 1, i: 1, x: 100, ms: None },
            Op::Swap { u: 2, i: 0, x: 10u128.pow(16), ms: Some(DEC / 2) },
        ]) },
        History { amp: 1000, dp: (6, 6), fees: (DEC / 1000, 3 * DEC / 1000, 0), kinds: [false, true], len: 0, fixed: Some(vec![
            Op::Provide { u: 0, d: [10u128.pow(24), 1_000_000] },
            Op::Swap { u: 1, i: 1, x: 100_000, ms: Some(DEC / 2) },
            Op::Swap { u: 2, i: 0, x: 10u128.pow(18), ms: Some(DEC / 2) },
            Op::Withdraw { u: 0, amount: 1_000_000 },
        ]) },
        // one asset is bought out of the pool until it is scarce (the protocol fees of those swaps are pending in it, several per cent
        // of its reserve); the owner then switches the protocol fee off; deposits of the abundant asset follow, then the depositor leaves
        History { amp: 100, dp: (6, 6), fees: (5 * DEC / 1000, DEC / 1000, 0), kinds: [false, true], len: 0, fixed: Some(vec![
            Op::Provide { u: 0, d: [1_000_000_000, 1_000_000_000] },
            Op::Provide { u: 1, d: [20_000_000, 5_000_000] },
            Op::Swap { u: 2, i: 1, x: 900_000_000, ms: Some(DEC / 2) },
            Op::Swap { u: 2, i: 1, x: 150_000_000, ms: Some(DEC / 2) },
            Op::Provide { u: 1, d: [1_000, 10_000_000] },
            Op::SetFees { f: (0, DEC / 1000, 0) },
            Op::Provide { u: 1, d: [1_000, 10_000_000_000] },
            Op::Withdraw { u: 1, amount: u128::MAX },      // = everything the user holds (resolved when the step runs)
            Op::SetFees { f: (DEC / 100, 0, DEC / 1000) },
            Op::Swap { u: 2, i: 0, x: 40_000_000, ms: Some(DEC / 2) },
            Op::SetFees { f: (0, 0, 0) },
            Op::Provide { u: 1, d: [10_000_000_000, 1_000] },
            Op::Withdraw { u: 1, amount: u128::MAX },
        ]) },
    ];
    for mut h in corpus {
        // the literal LP amount minted to bob in the first corpus history (amp 100, decimals (6,18)): computed once through the hook
        if h.dp == (6, 18) {
            if let (Outcome::Ok(d0), Some(ops)) = (impl_d(100, 1_000_000_000, 1_000_000_000_000_000_000_000), h.fixed.as_mut()) {
                let supply: u128 = d0.parse().unwrap();
                if let Outcome::Ok(m) = impl_mint(100, [1, 1_000_000_000_000_000_000_000], [1_000_000_000, 1_000_000_000_000_000_000_000], supply) { ops[2] = Op::Withdraw { u: 1, amount: m }; }
            }
        }
        run_history(out, rng, &h);
    }
    for _ in 0..n {
        let dp = *rng.pick(&DECIMALS);
        let amp = *rng.pick(&[1u64, 10, 85, 100, 1000, 1_000_000]);
        let fees = if rng.chance(1, 4) { (0, 0, 0) } else { fee_triple(rng, true) };
        let kinds = [rng.chance(1, 3), rng.chance(1, 3)];
        let len = 4 + rng.below(10) as usize;
        run_history(out, rng, &History { amp, dp, fees, kinds, fixed: None, len });
    }
}

/// `./check C03 --replay FILE`
fn replay(args: &Args, path: &str) {
    std::panic::set_hook(Box::new(|i| eprintln!("[panic] {i}")));
    let mut out = Out::new(&args.out);
    let j: serde_json::Value = serde_json::from_str(&std::fs::read_to_string(path).or_else(|_| std::fs::read_to_string(format!("../{path}"))).expect("replay file")).expect("json");
    let fi = if j.get("failing_input").is_some() { j["failing_input"].clone() } else { j.clone() };
    let us = |v: &serde_json::Value| -> u128 { v.as_str().map(|s| s.parse().unwrap()).or(v.as_u64().map(|x| x as u128)).unwrap_or(0) };
    let u6 = |v: &serde_json::Value| -> u64 { v.as_u64().or(v.as_str().map(|s| s.parse().unwrap())).unwrap_or(0) };
    let mut rng = Rng::new(1);
    match fi["kind"].as_str().unwrap_or("") {
        "pure_stableswap" => {
            let amp = u6(&fi["amp"]);
            let dp = (u6(&fi["decimals"][0]) as u8, u6(&fi["decimals"][1]) as u8);
            let r = [us(&fi["offer_pool"]), us(&fi["ask_pool"])];
            let x = us(&fi["offer"]);
            let f = (us(&fi["fees_protocol_swap_burn"][0]), us(&fi["fees_protocol_swap_burn"][1]), us(&fi["fees_protocol_swap_burn"][2]));
            let s = impl_swap(r[0], r[1], x, f, amp, dp);
            println!("compute_swap -> {}", match &s { Outcome::Ok(v) => format!("return {} spread {} swap_fee {} protocol_fee {} burn_fee {}", v.ret, v.spread, v.sf, v.pf, v.bf), Outcome::Err(_) => "Err".into(), Outcome::Panic(m) => format!("panic: {m}") });
            monitor_swap(&mut out, r[0], r[1], x, f, amp, dp, &s, &fi);
            if let Some(d) = fi.get("deposit") {
                let dep = [us(&d[0]), us(&d[1])];
                let supply = us(&fi["lp_supply"]);
                if let Outcome::Ok(mv) = impl_mint(amp, dep, r, supply) { println!("mint -> {mv}"); monitor_mint(&mut out, amp, dep, r, supply, mv, dp, &fi); }
            }
        }
        "pair_history" => {
            let uidx = |v: &serde_json::Value| -> usize { USERS4.iter().position(|n| Some(*n) == v.as_str()).unwrap_or(0) };
            let ops: Vec<Op> = fi["ops"].as_array().unwrap().iter().map(|o| match o["op"].as_str().unwrap() {
                "provide" => Op::Provide { u: uidx(&o["user"]), d: [us(&o["amounts"][0]), us(&o["amounts"][1])] },
                "withdraw" => Op::Withdraw { u: uidx(&o["user"]), amount: us(&o["lp"]) },
                "swap" => Op::Swap { u: uidx(&o["user"]), i: u6(&o["offer_index"]) as usize, x: us(&o["offer"]), ms: if o["max_spread_atomics"].is_null() { None } else { Some(us(&o["max_spread_atomics"])) } },
                "collect" => Op::Collect,
                "set_fees" => Op::SetFees { f: (us(&o["fees_protocol_swap_burn"][0]), us(&o["fees_protocol_swap_burn"][1]), us(&o["fees_protocol_swap_burn"][2])) },
                _ => Op::Donate { i: u6(&o["index"]) as usize, x: us(&o["amount"]) },
            }).collect();
            let f = &fi["fees_protocol_swap_burn"];
            let k = &fi["asset_kinds_cw20"];
            let h = History { amp: u6(&fi["amp"]), dp: (u6(&fi["decimals"][0]) as u8, u6(&fi["decimals"][1]) as u8), fees: (us(&f[0]), us(&f[1]), us(&f[2])),
                              kinds: [k[0].as_bool().unwrap_or(false), k[1].as_bool().unwrap_or(false)], fixed: Some(ops), len: 0 };
            run_history(&mut out, &mut rng, &h);
        }
        other => { println!("unknown replay kind {other:?}"); std::process::exit(2); }
    }
    for h in &out.known_hits { println!("KNOWN-FINDING (class {}): {}", h["class"].as_str().unwrap_or(""), h["what"].as_str().unwrap_or("")); }
    let fails = out.monitor_failures.clone();
    for f in &fails { println!("PROPERTY VIOLATED on the implementation: {}", f["what"].as_str().unwrap_or("")); }
    out.finish();
    if fails.is_empty() { println!("replay: no property violation on this input"); std::process::exit(0); } else { std::process::exit(1); }
}

pub fn run(args: &Args) {
    if let Some(p) = &args.replay { replay(args, p); return; }
    let mut out = Out::new(&args.out);
    out.rule = "pure: non-trivial = compute_swap returned Ok with proceeds > 0, distinct by full input; histories: non-trivial = at least 3 different successful operation kinds, distinct by op list".into();
    let mut rng = Rng::new(hash64(&[args.seed as u128, 0xC03]));
    pure(&mut out, &mut rng, args.n);
    histories(&mut out, &mut rng, (args.n / 8).max(20));
    out.finish();
}
