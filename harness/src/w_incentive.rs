//! Incentive family world: the REAL incentive_factory + incentive + fee-distributor-mock (epoch source)
//! (+ optionally terraswap_pair + frontend_helper) under cw-multi-test, an op alphabet mirroring
//! coq/theories/Incentive.v `op`, and the observation (state dump) both sides print.
#![allow(dead_code)]
use crate::common::*;
use crate::world::*;
use cosmwasm_std::{coin, Addr, Coin, Empty, Timestamp, Uint128};
use cw20::{Cw20ExecuteMsg, Cw20QueryMsg};
use cw_multi_test::{App, Contract, ContractWrapper, Executor};
use serde::{Deserialize, Serialize};
use std::collections::BTreeMap;
use white_whale_std::pool_network::asset::{Asset, AssetInfo};
use white_whale_std::pool_network::incentive::{self, Flow, FlowIdentifier};
use white_whale_std::pool_network::incentive_factory;

pub const SELF_ID: i64 = 100;
pub const COLLECTOR_ID: i64 = 9;
pub const HELPER_ID: i64 = 101;
pub const ASSETS: [i64; 6] = [0, 1, 2, 3, 10, 11];
/// accounts whose balances are observed, in observation order
pub const OBS_ACCOUNTS: [i64; 7] = [SELF_ID, COLLECTOR_ID, 0, 1, 2, 3, 4];
pub const USER_IDS: [i64; 5] = [0, 1, 2, 3, 4];
pub const START_TIME: u64 = 1_684_342_800;

pub fn incentive_code() -> Box<dyn Contract<Empty>> {
    Box::new(
        ContractWrapper::new(::incentive::contract::execute, ::incentive::contract::instantiate, ::incentive::contract::query)
            .with_migrate(::incentive::contract::migrate),
    )
}
pub fn incentive_factory_code() -> Box<dyn Contract<Empty>> {
    Box::new(
        ContractWrapper::new(::incentive_factory::contract::execute, ::incentive_factory::contract::instantiate, ::incentive_factory::contract::query)
            .with_reply(::incentive_factory::contract::reply)
            .with_migrate(::incentive_factory::contract::migrate),
    )
}
pub fn distributor_mock_code() -> Box<dyn Contract<Empty>> {
    Box::new(ContractWrapper::new(
        fee_distributor_mock::contract::execute,
        fee_distributor_mock::contract::instantiate,
        fee_distributor_mock::contract::query,
    ))
}
pub fn frontend_helper_code() -> Box<dyn Contract<Empty>> {
    Box::new(
        ContractWrapper::new(frontend_helper::contract::execute, frontend_helper::contract::instantiate, frontend_helper::contract::query)
            .with_reply(frontend_helper::contract::reply)
            .with_migrate(frontend_helper::contract::migrate),
    )
}

pub mod u128s {
    use serde::{Deserialize, Deserializer, Serializer};
    pub fn serialize<S: Serializer>(v: &u128, s: S) -> Result<S::Ok, S::Error> { s.serialize_str(&v.to_string()) }
    pub fn deserialize<'de, D: Deserializer<'de>>(d: D) -> Result<u128, D::Error> {
        let s = String::deserialize(d)?; s.parse().map_err(serde::de::Error::custom)
    }
}
pub mod coins {
    use serde::{Deserialize, Deserializer, Serialize, Serializer};
    pub fn serialize<S: Serializer>(v: &Vec<(i64, u128)>, s: S) -> Result<S::Ok, S::Error> {
        v.iter().map(|(a, x)| (*a, x.to_string())).collect::<Vec<_>>().serialize(s)
    }
    pub fn deserialize<'de, D: Deserializer<'de>>(d: D) -> Result<Vec<(i64, u128)>, D::Error> {
        let v = Vec::<(i64, String)>::deserialize(d)?;
        v.into_iter().map(|(a, x)| x.parse().map(|y| (a, y)).map_err(serde::de::Error::custom)).collect()
    }
}

#[derive(Clone, Debug, Serialize, Deserialize)]
pub struct IncCfg {
    pub lp: i64,
    pub fee_asset: i64,
    #[serde(with = "u128s")]
    pub fee: u128,
    pub max_flows: u64,
    pub buffer: u64,
    pub min_unb: u64,
    pub max_unb: u64,
}
impl IncCfg {
    /// Coq term of type Incentive.cfg
    pub fn coq(&self) -> String {
        format!("(mkCfg {} {} {} {} {} {} {} 0 {})", self.lp, self.fee_asset, self.fee, self.max_flows, self.buffer, self.min_unb, self.max_unb, COLLECTOR_ID)
    }
}

#[derive(Clone, Debug, Serialize, Deserialize)]
pub enum Ident { Id(u64), Label(u64) }
impl Ident {
    pub fn coq(&self) -> String { match self { Ident::Id(i) => format!("(ById {})", i), Ident::Label(l) => format!("(ByLabel {})", l) } }
    pub fn to_msg(&self) -> FlowIdentifier { match self { Ident::Id(i) => FlowIdentifier::Id(*i), Ident::Label(l) => FlowIdentifier::Label(format!("L{}", l)) } }
}

pub type Coins = Vec<(i64, u128)>;

#[derive(Clone, Debug, Serialize, Deserialize)]
pub enum Op {
    NewEpoch,
    Donate { sender: i64, asset: i64, #[serde(with = "u128s")] amount: u128 },
    Gift { sender: i64, to: i64, asset: i64, #[serde(with = "u128s")] amount: u128 },
    Snapshot,
    OpenFlow { sender: i64, #[serde(with = "coins")] funds: Coins, #[serde(with = "coins")] allow: Coins, start: Option<u64>, end: Option<u64>, asset: i64, #[serde(with = "u128s")] amount: u128, label: Option<u64> },
    ExpandFlow { sender: i64, #[serde(with = "coins")] funds: Coins, #[serde(with = "coins")] allow: Coins, ident: Ident, end: Option<u64>, asset: i64, #[serde(with = "u128s")] amount: u128 },
    CloseFlow { sender: i64, ident: Ident },
    Claim { sender: i64 },
    OpenPosition { sender: i64, #[serde(with = "coins")] funds: Coins, #[serde(with = "coins")] allow: Coins, #[serde(with = "u128s")] amount: u128, dur: u64, receiver: Option<i64> },
    ExpandPosition { sender: i64, #[serde(with = "coins")] funds: Coins, #[serde(with = "coins")] allow: Coins, #[serde(with = "u128s")] amount: u128, dur: u64, receiver: Option<i64> },
    ClosePosition { sender: i64, dur: u64, now: u64 },
    Withdraw { sender: i64 },
    /// frontend_helper Deposit; `pair_ok` / `minted` are filled in by `exec` (the pair is an oracle of the model)
    HelperDeposit { user: i64, #[serde(with = "coins")] funds: Coins, #[serde(with = "coins")] allow: Coins, a0: i64, #[serde(with = "u128s")] d0: u128, a1: i64, #[serde(with = "u128s")] d1: u128,
                    dur: u64, pair_ok: bool, #[serde(with = "u128s")] minted: u128 },
}

fn coq_coins(c: &Coins) -> String { coqlist(&c.iter().map(|(a, v)| format!("({}, {})", a, v)).collect::<Vec<_>>()) }
fn coq_opt<T: ToString>(o: &Option<T>) -> String { match o { Some(v) => format!("(Some {})", v.to_string()), None => "None".into() } }

impl Op {
    pub fn coq(&self) -> String {
        match self {
            Op::NewEpoch => "NewEpoch".into(),
            Op::Donate { sender, asset, amount } => format!("Donate {} {} {}", sender, asset, amount),
            Op::Gift { sender, to, asset, amount } => format!("Gift {} {} {} {}", sender, to, asset, amount),
            Op::Snapshot => "Snapshot".into(),
            Op::OpenFlow { sender, funds, allow, start, end, asset, amount, label } =>
                format!("OpenFlow {} {} {} {} {} {} {} {}", sender, coq_coins(funds), coq_coins(allow), coq_opt(start), coq_opt(end), asset, amount, coq_opt(label)),
            Op::ExpandFlow { sender, funds, allow, ident, end, asset, amount } =>
                format!("ExpandFlow {} {} {} {} {} {} {}", sender, coq_coins(funds), coq_coins(allow), ident.coq(), coq_opt(end), asset, amount),
            Op::CloseFlow { sender, ident } => format!("CloseFlow {} {}", sender, ident.coq()),
            Op::Claim { sender } => format!("Claim {}", sender),
            Op::OpenPosition { sender, funds, allow, amount, dur, receiver } =>
                format!("OpenPosition {} {} {} {} {} {}", sender, coq_coins(funds), coq_coins(allow), amount, dur, coq_opt(receiver)),
            Op::ExpandPosition { sender, funds, allow, amount, dur, receiver } =>
                format!("ExpandPosition {} {} {} {} {} {}", sender, coq_coins(funds), coq_coins(allow), amount, dur, coq_opt(receiver)),
            Op::ClosePosition { sender, dur, now } => format!("ClosePosition {} {} {}", sender, dur, now),
            Op::Withdraw { sender } => format!("Withdraw {}", sender),
            Op::HelperDeposit { user, funds, allow, a0, d0, a1, d1, dur, pair_ok, minted } =>
                format!("HelperDeposit {} {} {} {} {} {} {} {} {} {}", user, coq_coins(funds), coq_coins(allow), a0, d0, a1, d1, dur, coqbool(*pair_ok), minted),
        }
    }
    pub fn kind(&self) -> &'static str {
        match self {
            Op::NewEpoch => "NewEpoch", Op::Donate { .. } => "Donate", Op::Gift { .. } => "Gift", Op::Snapshot => "Snapshot", Op::OpenFlow { .. } => "OpenFlow",
            Op::ExpandFlow { .. } => "ExpandFlow", Op::CloseFlow { .. } => "CloseFlow", Op::Claim { .. } => "Claim",
            Op::OpenPosition { .. } => "OpenPosition", Op::ExpandPosition { .. } => "ExpandPosition",
            Op::ClosePosition { .. } => "ClosePosition", Op::Withdraw { .. } => "Withdraw", Op::HelperDeposit { .. } => "HelperDeposit",
        }
    }
    pub fn sender(&self) -> Option<i64> {
        match self {
            Op::NewEpoch | Op::Snapshot => None,
            Op::Gift { sender, .. } | Op::Donate { sender, .. } | Op::OpenFlow { sender, .. } | Op::ExpandFlow { sender, .. } | Op::CloseFlow { sender, .. }
            | Op::Claim { sender } | Op::OpenPosition { sender, .. } | Op::ExpandPosition { sender, .. }
            | Op::ClosePosition { sender, .. } | Op::Withdraw { sender } => Some(*sender),
            Op::HelperDeposit { user, .. } => Some(*user),
        }
    }
}
pub fn coq_ops(ops: &[Op]) -> String { coqlist(&ops.iter().map(|o| o.coq()).collect::<Vec<_>>()) }

/// decoded storage of the incentive contract
#[derive(Clone, Debug, Default, PartialEq)]
pub struct IncState {
    pub gw: u128,
    pub counter: u64,
    pub aw: BTreeMap<String, u128>,
    pub last: BTreeMap<String, u64>,
    pub open: BTreeMap<String, Vec<(u128, u64)>>,
    pub closed: BTreeMap<String, Vec<(u128, u64)>>,
    pub awh: BTreeMap<String, Vec<(u64, u128)>>,
    pub snap: BTreeMap<u64, u128>,
    pub flows: Vec<FlowRec>,
}
#[derive(Clone, Debug, PartialEq)]
pub struct FlowRec {
    pub key: (u64, u64),
    pub id: u64, pub label: Option<String>, pub creator: String, pub asset: AssetInfo, pub amount: u128, pub claimed: u128,
    pub start: u64, pub end: u64, pub emitted: Vec<(u64, u128)>, pub hist: Vec<(u64, u128, u64)>,
}
impl FlowRec {
    pub fn latest(&self) -> (u128, u64) { match self.hist.last() { Some((_, a, e)) => (*a, *e), None => (self.amount, self.end) } }
    pub fn outstanding(&self) -> u128 { self.latest().0.saturating_sub(self.claimed) }
}

pub struct IncWorld {
    pub app: App,
    pub cfg: IncCfg,
    pub factory: Addr,
    pub incentive: Addr,
    pub distributor: Addr,
    pub cw20: [Addr; 2],
    pub helper: Option<Addr>,
    pub pair: Option<Addr>,
    pub pair_assets: (i64, i64),
}

pub fn init_balance(acct: i64, asset: i64) -> u128 {
    if (0..=4).contains(&acct) { if asset < 10 { RICH } else { RICH / 8 } } else { 0 }
}
pub const PAIR_ID: i64 = 102;

pub fn account_name(id: i64) -> String {
    match id {
        0 => OWNER.to_string(),
        1..=4 => USERS[(id - 1) as usize].to_string(),
        COLLECTOR_ID => COLLECTOR.to_string(),
        _ => format!("acct{}", id),
    }
}

impl IncWorld {
    pub fn asset_info(&self, a: i64) -> AssetInfo {
        if a < 10 { native(DENOMS[a as usize]) } else { token(&self.cw20[(a - 10) as usize]) }
    }
    pub fn asset_id(&self, info: &AssetInfo) -> i64 {
        match info {
            AssetInfo::NativeToken { denom } => DENOMS.iter().position(|d| d == denom).map(|i| i as i64).unwrap_or(-1),
            AssetInfo::Token { contract_addr } => self.cw20.iter().position(|t| t.as_str() == contract_addr).map(|i| 10 + i as i64).unwrap_or(-1),
        }
    }
    pub fn name(&self, id: i64) -> String {
        if id == SELF_ID { self.incentive.to_string() }
        else if id == HELPER_ID { self.helper.as_ref().map(|h| h.to_string()).unwrap_or_else(|| "nohelper".into()) }
        else { account_name(id) }
    }
    pub fn id_of(&self, name: &str) -> i64 {
        if name == self.incentive.as_str() { return SELF_ID; }
        if name == OWNER { return 0; }
        if name == COLLECTOR { return COLLECTOR_ID; }
        if let Some(i) = USERS.iter().position(|u| *u == name) { return 1 + i as i64; }
        if let Some(h) = &self.helper { if h.as_str() == name { return HELPER_ID; } }
        -1
    }
    /// in the helper world asset 10 is the pair's LP token: nobody holds any at the start
    pub fn init_bal(&self, acct: i64, asset: i64) -> u128 { if self.helper.is_some() && asset == 10 { 0 } else { init_balance(acct, asset) } }
    pub fn obs_accounts(&self) -> Vec<i64> { let mut v = OBS_ACCOUNTS.to_vec(); if self.helper.is_some() { v.push(HELPER_ID); } v }
    pub fn bal(&self, acct: i64, asset: i64) -> u128 { asset_balance(&self.app, &self.asset_info(asset), &self.name(acct)) }

    pub fn deploy(cfg: &IncCfg) -> Result<IncWorld, String> {
        let mut app = new_app();
        app.update_block(|b| { b.time = Timestamp::from_seconds(START_TIME); });
        let cw20_code = app.store_code(cw20_base_contract());
        let inc_code = app.store_code(incentive_code());
        let fac_code = app.store_code(incentive_factory_code());
        let dist_code = app.store_code(distributor_mock_code());
        let tok_a = deploy_cw20(&mut app, cw20_code, "TOKA", 6);
        let tok_b = deploy_cw20(&mut app, cw20_code, "TOKB", 6);
        let cw20 = [tok_a, tok_b];
        let info = |a: i64| if a < 10 { native(DENOMS[a as usize]) } else { token(&cw20[(a - 10) as usize]) };
        let distributor = app.instantiate_contract(dist_code, Addr::unchecked(OWNER), &fee_distributor_mock::msg::InstantiateMsg {}, &[], "dist", None)
            .map_err(|e| format!("{:#}", e))?;
        let factory = app.instantiate_contract(fac_code, Addr::unchecked(OWNER), &incentive_factory::InstantiateMsg {
            fee_collector_addr: COLLECTOR.to_string(),
            fee_distributor_addr: distributor.to_string(),
            create_flow_fee: Asset { info: info(cfg.fee_asset), amount: Uint128::new(cfg.fee) },
            max_concurrent_flows: cfg.max_flows,
            incentive_code_id: inc_code,
            max_flow_epoch_buffer: cfg.buffer,
            min_unbonding_duration: cfg.min_unb,
            max_unbonding_duration: cfg.max_unb,
        }, &[], "factory", None).map_err(|e| format!("{:#}", e))?;
        app.execute_contract(Addr::unchecked(OWNER), factory.clone(), &incentive_factory::ExecuteMsg::CreateIncentive { lp_asset: info(cfg.lp) }, &[])
            .map_err(|e| format!("{:#}", e))?;
        let inc: incentive_factory::IncentiveResponse = app.wrap().query_wasm_smart(&factory, &incentive_factory::QueryMsg::Incentive { lp_asset: info(cfg.lp) })
            .map_err(|e| e.to_string())?;
        let incentive = inc.ok_or("no incentive")?;
        Ok(IncWorld { app, cfg: cfg.clone(), factory, incentive, distributor, cw20, helper: None, pair: None, pair_assets: (0, 0) })
    }

    /// world for the frontend helper: a real constant-product pair over (a0, a1), its cw20 LP token becomes asset 10,
    /// an incentive contract for that LP token, and the frontend helper. cfg.lp must be 10.
    pub fn deploy_with_helper(cfg: &IncCfg, a0: i64, a1: i64) -> Result<IncWorld, String> {
        let mut app = new_app();
        app.update_block(|b| { b.time = Timestamp::from_seconds(START_TIME); });
        let cw20_code = app.store_code(cw20_base_contract());
        let token_code = app.store_code(token_contract());
        let pair_code = app.store_code(pair_contract());
        let inc_code = app.store_code(incentive_code());
        let fac_code = app.store_code(incentive_factory_code());
        let dist_code = app.store_code(distributor_mock_code());
        let helper_code = app.store_code(frontend_helper_code());
        let tok_b = deploy_cw20(&mut app, cw20_code, "TOKB", 6);
        let info0 = |a: i64, tb: &Addr| if a < 10 { native(DENOMS[a as usize]) } else { token(tb) };
        let pair = app.instantiate_contract(pair_code, Addr::unchecked(OWNER), &white_whale_std::pool_network::pair::InstantiateMsg {
            asset_infos: [info0(a0, &tok_b), info0(a1, &tok_b)], token_code_id: token_code, asset_decimals: [6, 6],
            pool_fees: pool_fee(0, 3 * DEC / 1000, 0), fee_collector_addr: COLLECTOR.to_string(),
            pair_type: white_whale_std::pool_network::asset::PairType::ConstantProduct, token_factory_lp: false,
        }, &[], "pair", None).map_err(|e| format!("{:#}", e))?;
        let pinfo: white_whale_std::pool_network::asset::PairInfo = app.wrap().query_wasm_smart(&pair, &white_whale_std::pool_network::pair::QueryMsg::Pair {}).map_err(|e| e.to_string())?;
        let lp = match pinfo.liquidity_token { AssetInfo::Token { contract_addr } => Addr::unchecked(contract_addr), _ => return Err("native lp".into()) };
        let cw20 = [lp.clone(), tok_b];
        let info = |a: i64| if a < 10 { native(DENOMS[a as usize]) } else { token(&cw20[(a - 10) as usize]) };
        let distributor = app.instantiate_contract(dist_code, Addr::unchecked(OWNER), &fee_distributor_mock::msg::InstantiateMsg {}, &[], "dist", None)
            .map_err(|e| format!("{:#}", e))?;
        let factory = app.instantiate_contract(fac_code, Addr::unchecked(OWNER), &incentive_factory::InstantiateMsg {
            fee_collector_addr: COLLECTOR.to_string(), fee_distributor_addr: distributor.to_string(),
            create_flow_fee: Asset { info: info(cfg.fee_asset), amount: Uint128::new(cfg.fee) },
            max_concurrent_flows: cfg.max_flows, incentive_code_id: inc_code, max_flow_epoch_buffer: cfg.buffer,
            min_unbonding_duration: cfg.min_unb, max_unbonding_duration: cfg.max_unb,
        }, &[], "factory", None).map_err(|e| format!("{:#}", e))?;
        app.execute_contract(Addr::unchecked(OWNER), factory.clone(), &incentive_factory::ExecuteMsg::CreateIncentive { lp_asset: info(10) }, &[])
            .map_err(|e| format!("{:#}", e))?;
        let inc: incentive_factory::IncentiveResponse = app.wrap().query_wasm_smart(&factory, &incentive_factory::QueryMsg::Incentive { lp_asset: info(10) })
            .map_err(|e| e.to_string())?;
        let incentive = inc.ok_or("no incentive")?;
        let helper = app.instantiate_contract(helper_code, Addr::unchecked(OWNER),
            &white_whale_std::pool_network::frontend_helper::InstantiateMsg { incentive_factory: factory.to_string() }, &[], "helper", None)
            .map_err(|e| format!("{:#}", e))?;
        Ok(IncWorld { app, cfg: cfg.clone(), factory, incentive, distributor, cw20, helper: Some(helper), pair: Some(pair), pair_assets: (a0, a1) })
    }

    /// what the constant-product pair will mint for (d0, d1), computed from its public Pool query (oracle input of the model)
    pub fn predict_mint(&self, d0: u128, d1: u128) -> u128 {
        let pair = match &self.pair { Some(p) => p.clone(), None => return 0 };
        let pool: white_whale_std::pool_network::pair::PoolResponse = match self.app.wrap().query_wasm_smart(&pair, &white_whale_std::pool_network::pair::QueryMsg::Pool {}) { Ok(p) => p, Err(_) => return 0 };
        let s = pool.total_share.u128();
        let (p0, p1) = (pool.assets[0].amount.u128(), pool.assets[1].amount.u128());
        use cosmwasm_std::{Isqrt, Uint256};
        if s == 0 {
            let prod = Uint256::from(d0) * Uint256::from(d1);
            let r: u128 = Uint128::try_from(prod.isqrt()).map(|x| x.u128()).unwrap_or(0);
            r.saturating_sub(1000)
        } else {
            if p0 == 0 || p1 == 0 { return 0; }
            let x = Uint128::try_from(Uint256::from(d0) * Uint256::from(s) / Uint256::from(p0)).map(|x| x.u128()).unwrap_or(u128::MAX);
            let y = Uint128::try_from(Uint256::from(d1) * Uint256::from(s) / Uint256::from(p1)).map(|x| x.u128()).unwrap_or(u128::MAX);
            x.min(y)
        }
    }

    /// runs a helper deposit and fills in the oracle fields (pair_ok, minted) of the op
    pub fn exec_helper(&mut self, op: &mut Op) -> Result<(), String> {
        if let Op::HelperDeposit { user, funds, allow, a0, d0, a1, d1, dur, pair_ok, minted } = op {
            let helper = self.helper.clone().ok_or("no helper")?;
            let pair = self.pair.clone().ok_or("no pair")?;
            self.set_allowances_for(*user, allow, &helper);
            let predicted = self.predict_mint(*d0, *d1);
            let lp_before = self.bal(SELF_ID, 10) + self.bal(HELPER_ID, 10);
            let msg = white_whale_std::pool_network::frontend_helper::ExecuteMsg::Deposit {
                pair_address: pair.to_string(),
                assets: [Asset { info: self.asset_info(*a0), amount: Uint128::new(*d0) }, Asset { info: self.asset_info(*a1), amount: Uint128::new(*d1) }],
                slippage_tolerance: None, unbonding_duration: *dur };
            let s = Addr::unchecked(self.name(*user));
            let f = self.coins(funds);
            let app = &mut self.app;
            let r = match std::panic::catch_unwind(std::panic::AssertUnwindSafe(|| app.execute_contract(s, helper, &msg, &f))) {
                Ok(Ok(_)) => Ok(()),
                Ok(Err(e)) => Err(format!("{:#}", e)),
                Err(_) => Err("PANIC".into()),
            };
            match &r {
                Ok(()) => { *pair_ok = true; *minted = self.bal(SELF_ID, 10) + self.bal(HELPER_ID, 10) - lp_before; }
                Err(e) => { *pair_ok = !e.contains("Failed to deposit due to"); *minted = if *pair_ok { predicted } else { 0 }; }
            }
            r
        } else { Err("not a helper op".into()) }
    }

    pub fn epoch(&self) -> u64 {
        let r: white_whale_std::fee_distributor::EpochResponse = self.app.wrap()
            .query_wasm_smart(&self.distributor, &white_whale_std::fee_distributor::QueryMsg::CurrentEpoch {}).unwrap();
        r.epoch.id.u64()
    }

    fn coins(&self, c: &Coins) -> Vec<Coin> {
        c.iter().map(|(a, v)| coin(*v, DENOMS[*a as usize])).collect()
    }

    /// set the allowance (owner -> incentive contract) of both cw20 tokens to exactly what the op declares
    pub fn set_allowances(&mut self, owner: i64, allow: &Coins) {
        self.set_allowances_for(owner, allow, &self.incentive.clone());
    }
    pub fn set_allowances_for(&mut self, owner: i64, allow: &Coins, spender: &Addr) {
        let who = self.name(owner);
        for (i, tok) in self.cw20.clone().iter().enumerate() {
            let want = allow.iter().find(|(a, _)| *a == 10 + i as i64).map(|x| x.1).unwrap_or(0);
            let cur: cw20::AllowanceResponse = self.app.wrap().query_wasm_smart(tok,
                &Cw20QueryMsg::Allowance { owner: who.clone(), spender: spender.to_string() }).unwrap();
            if cur.allowance.u128() == want { continue; }
            if !cur.allowance.is_zero() {
                self.app.execute_contract(Addr::unchecked(&who), tok.clone(),
                    &Cw20ExecuteMsg::DecreaseAllowance { spender: spender.to_string(), amount: cur.allowance, expires: None }, &[]).unwrap();
            }
            if want > 0 {
                self.app.execute_contract(Addr::unchecked(&who), tok.clone(),
                    &Cw20ExecuteMsg::IncreaseAllowance { spender: spender.to_string(), amount: Uint128::new(want), expires: None }, &[]).unwrap();
            }
        }
    }

    fn exec_inc(&mut self, sender: i64, msg: &incentive::ExecuteMsg, funds: &Coins) -> Result<(), String> {
        let s = Addr::unchecked(self.name(sender));
        let f = self.coins(funds);
        let inc = self.incentive.clone();
        let app = &mut self.app;
        match std::panic::catch_unwind(std::panic::AssertUnwindSafe(|| app.execute_contract(s, inc, msg, &f))) {
            Ok(Ok(_)) => Ok(()),
            Ok(Err(e)) => Err(format!("{:#}", e)),
            Err(_) => Err("PANIC".into()),
        }
    }

    /// run one op on the real contracts; Ok(()) or the rendered error
    pub fn exec(&mut self, op: &Op) -> Result<(), String> {
        match op {
            Op::NewEpoch => {
                self.app.execute_contract(Addr::unchecked(OWNER), self.distributor.clone(),
                    &white_whale_std::fee_distributor::ExecuteMsg::NewEpoch {}, &[]).map(|_| ()).map_err(|e| format!("{:#}", e))
            }
            Op::Donate { sender, asset, amount } => {
                let s = Addr::unchecked(self.name(*sender));
                match self.asset_info(*asset) {
                    AssetInfo::NativeToken { denom } => self.app.send_tokens(s, self.incentive.clone(), &[coin(*amount, denom)]).map(|_| ()).map_err(|e| format!("{:#}", e)),
                    AssetInfo::Token { contract_addr } => self.app.execute_contract(s, Addr::unchecked(contract_addr),
                        &Cw20ExecuteMsg::Transfer { recipient: self.incentive.to_string(), amount: Uint128::new(*amount) }, &[]).map(|_| ()).map_err(|e| format!("{:#}", e)),
                }
            }
            Op::Gift { sender, to, asset, amount } => {
                let s = Addr::unchecked(self.name(*sender));
                let t = self.name(*to);
                match self.asset_info(*asset) {
                    AssetInfo::NativeToken { denom } => self.app.send_tokens(s, Addr::unchecked(t), &[coin(*amount, denom)]).map(|_| ()).map_err(|e| format!("{:#}", e)),
                    AssetInfo::Token { contract_addr } => self.app.execute_contract(s, Addr::unchecked(contract_addr),
                        &Cw20ExecuteMsg::Transfer { recipient: t, amount: Uint128::new(*amount) }, &[]).map(|_| ()).map_err(|e| format!("{:#}", e)),
                }
            }
            Op::Snapshot => self.exec_inc(0, &incentive::ExecuteMsg::TakeGlobalWeightSnapshot {}, &vec![]),
            Op::OpenFlow { sender, funds, allow, start, end, asset, amount, label } => {
                self.set_allowances(*sender, allow);
                let msg = incentive::ExecuteMsg::OpenFlow { start_epoch: *start, end_epoch: *end, curve: None,
                    flow_asset: Asset { info: self.asset_info(*asset), amount: Uint128::new(*amount) }, flow_label: label.map(|l| format!("L{}", l)) };
                self.exec_inc(*sender, &msg, funds)
            }
            Op::ExpandFlow { sender, funds, allow, ident, end, asset, amount } => {
                self.set_allowances(*sender, allow);
                let msg = incentive::ExecuteMsg::ExpandFlow { flow_identifier: ident.to_msg(), end_epoch: *end,
                    flow_asset: Asset { info: self.asset_info(*asset), amount: Uint128::new(*amount) } };
                self.exec_inc(*sender, &msg, funds)
            }
            Op::CloseFlow { sender, ident } => self.exec_inc(*sender, &incentive::ExecuteMsg::CloseFlow { flow_identifier: ident.to_msg() }, &vec![]),
            Op::Claim { sender } => self.exec_inc(*sender, &incentive::ExecuteMsg::Claim {}, &vec![]),
            Op::OpenPosition { sender, funds, allow, amount, dur, receiver } => {
                self.set_allowances(*sender, allow);
                let msg = incentive::ExecuteMsg::OpenPosition { amount: Uint128::new(*amount), unbonding_duration: *dur, receiver: receiver.map(|r| self.name(r)) };
                self.exec_inc(*sender, &msg, funds)
            }
            Op::ExpandPosition { sender, funds, allow, amount, dur, receiver } => {
                self.set_allowances(*sender, allow);
                let msg = incentive::ExecuteMsg::ExpandPosition { amount: Uint128::new(*amount), unbonding_duration: *dur, receiver: receiver.map(|r| self.name(r)) };
                self.exec_inc(*sender, &msg, funds)
            }
            Op::ClosePosition { sender, dur, now } => {
                let t = *now;
                self.app.update_block(|b| { b.time = Timestamp::from_seconds(t); });
                self.exec_inc(*sender, &incentive::ExecuteMsg::ClosePosition { unbonding_duration: *dur }, &vec![])
            }
            Op::Withdraw { sender } => self.exec_inc(*sender, &incentive::ExecuteMsg::Withdraw {}, &vec![]),
            Op::HelperDeposit { .. } => Err("use exec_helper".into()),
        }
    }

    /// full decoded storage of the incentive contract (raw dump; independent of the contract's queries)
    pub fn state(&self) -> IncState {
        let mut st = IncState::default();
        for (k, v) in self.app.dump_wasm_raw(&self.incentive) {
            if k == b"global_weight" { st.gw = serde_json::from_slice::<Uint128>(&v).unwrap().u128(); continue; }
            if k == b"flow_counter" { st.counter = serde_json::from_slice::<u64>(&v).unwrap(); continue; }
            if k.len() < 2 { continue; }
            let nl = u16::from_be_bytes([k[0], k[1]]) as usize;
            if k.len() < 2 + nl { continue; }
            let ns = String::from_utf8_lossy(&k[2..2 + nl]).to_string();
            let rest = &k[2 + nl..];
            match ns.as_str() {
                "address_weight" => { st.aw.insert(String::from_utf8_lossy(rest).to_string(), serde_json::from_slice::<Uint128>(&v).unwrap().u128()); }
                "last_claimed_epoch" => { st.last.insert(String::from_utf8_lossy(rest).to_string(), serde_json::from_slice::<u64>(&v).unwrap()); }
                "open_positions" => {
                    let p: Vec<incentive::OpenPosition> = serde_json::from_slice(&v).unwrap();
                    st.open.insert(String::from_utf8_lossy(rest).to_string(), p.iter().map(|x| (x.amount.u128(), x.unbonding_duration)).collect());
                }
                "closed_positions" => {
                    let p: Vec<incentive::ClosedPosition> = serde_json::from_slice(&v).unwrap();
                    st.closed.insert(String::from_utf8_lossy(rest).to_string(), p.iter().map(|x| (x.amount.u128(), x.unbonding_timestamp)).collect());
                }
                "global_weight_snapshot" => {
                    let e = u64::from_be_bytes(rest.try_into().unwrap());
                    st.snap.insert(e, serde_json::from_slice::<Uint128>(&v).unwrap().u128());
                }
                "address_weight_snapshot" => {
                    let al = u16::from_be_bytes([rest[0], rest[1]]) as usize;
                    let addr = String::from_utf8_lossy(&rest[2..2 + al]).to_string();
                    let e = u64::from_be_bytes(rest[2 + al..].try_into().unwrap());
                    st.awh.entry(addr).or_default().push((e, serde_json::from_slice::<Uint128>(&v).unwrap().u128()));
                }
                "flows" => {
                    let sl = u16::from_be_bytes([rest[0], rest[1]]) as usize;
                    let s = u64::from_be_bytes(rest[2..2 + sl].try_into().unwrap());
                    let i = u64::from_be_bytes(rest[2 + sl..].try_into().unwrap());
                    let f: Flow = serde_json::from_slice(&v).unwrap();
                    let mut emitted: Vec<(u64, u128)> = f.emitted_tokens.iter().map(|(k, v)| (*k, v.u128())).collect();
                    emitted.sort();
                    st.flows.push(FlowRec { key: (s, i), id: f.flow_id, label: f.flow_label.clone(), creator: f.flow_creator.to_string(),
                        asset: f.flow_asset.info.clone(), amount: f.flow_asset.amount.u128(), claimed: f.claimed_amount.u128(), start: f.start_epoch, end: f.end_epoch,
                        emitted, hist: f.asset_history.iter().map(|(k, (a, e))| (*k, a.u128(), *e)).collect() });
                }
                _ => {}
            }
        }
        for v in st.awh.values_mut() { v.sort(); }
        st.flows.sort_by_key(|f| f.key);
        st
    }

    pub fn rewards(&self, user: i64) -> Result<Vec<(i64, u128)>, String> {
        let app = &self.app;
        let inc = self.incentive.clone();
        let name = self.name(user);
        let r = std::panic::catch_unwind(std::panic::AssertUnwindSafe(|| {
            app.wrap().query_wasm_smart::<incentive::RewardsResponse>(&inc, &incentive::QueryMsg::Rewards { address: name })
        }));
        match r {
            Ok(Ok(r)) => Ok(r.rewards.iter().map(|a| (self.asset_id(&a.info), a.amount.u128())).collect()),
            Ok(Err(e)) => Err(e.to_string()),
            Err(_) => Err("PANIC".into()),
        }
    }

    /// QueryMsg::Flows {} and QueryMsg::Flow { id } against the raw FLOWS entries: the queries must report every stored flow
    /// with the identity, funding, claimed amount and epoch range it is stored with (the history maps may be windowed)
    pub fn flow_queries_disagree(&self, st: &IncState) -> Option<String> {
        // (the contract answers with the bare list of flows, not with the FlowsResponse wrapper its schema declares)
        let all: Vec<Flow> = match self.app.wrap().query_wasm_smart(&self.incentive, &incentive::QueryMsg::Flows { start_epoch: None, end_epoch: None }) {
            Ok(r) => r, Err(e) => return Some(format!("Flows query fails: {}", e)) };
        if all.len() != st.flows.len() { return Some(format!("Flows reports {} flows, {} are stored", all.len(), st.flows.len())); }
        let same = |f: &Flow, r: &FlowRec| f.flow_id == r.id && f.flow_label == r.label && f.flow_creator.as_str() == r.creator && f.flow_asset.info == r.asset
            && f.flow_asset.amount.u128() == r.amount && f.claimed_amount.u128() == r.claimed && f.start_epoch == r.start && f.end_epoch == r.end;
        for r in &st.flows {
            if !all.iter().any(|f| same(f, r)) { return Some(format!("Flows does not report flow {} as stored", r.id)); }
            let one: Result<Option<incentive::FlowResponse>, _> = self.app.wrap().query_wasm_smart(&self.incentive,
                &incentive::QueryMsg::Flow { flow_identifier: FlowIdentifier::Id(r.id), start_epoch: None, end_epoch: None });
            match one { Ok(Some(incentive::FlowResponse { flow: Some(f) })) if same(&f, r) => {}
                        _ => return Some(format!("Flow{{id:{}}} does not report the flow as stored", r.id)) }
            // labels are not unique (open_flow does not check); a label lookup returns the first stored flow carrying it
            if let Some(l) = r.label.as_ref().filter(|l| st.flows.iter().filter(|x| x.label.as_ref() == Some(*l)).count() == 1) {
                let one: Result<Option<incentive::FlowResponse>, _> = self.app.wrap().query_wasm_smart(&self.incentive,
                    &incentive::QueryMsg::Flow { flow_identifier: FlowIdentifier::Label(l.clone()), start_epoch: None, end_epoch: None });
                match one { Ok(Some(incentive::FlowResponse { flow: Some(f) })) if same(&f, r) => {}
                            _ => return Some(format!("Flow{{label:{}}} does not report the flow as stored", l)) }
            }
        }
        None
    }

    /// CurrentEpochRewardsShare: (global weight, address weight, share atomics)
    pub fn share(&self, user: i64) -> Result<(u128, u128, String), String> {
        let app = &self.app;
        let inc = self.incentive.clone();
        let name = self.name(user);
        let r = std::panic::catch_unwind(std::panic::AssertUnwindSafe(|| {
            app.wrap().query_wasm_smart::<incentive::RewardsShareResponse>(&inc, &incentive::QueryMsg::CurrentEpochRewardsShare { address: name })
        }));
        match r {
            Ok(Ok(r)) => Ok((r.global_weight.u128(), r.address_weight.u128(), r.share.atomics().to_string())),
            Ok(Err(e)) => Err(e.to_string()),
            Err(_) => Err("PANIC".into()),
        }
    }

    /// the observation after an op, encoded exactly as CorrIncentive.observe
    pub fn observe(&self, ok: bool) -> Vec<String> {
        let mut o: Vec<String> = vec![if ok { "0".into() } else { "1".into() }];
        let st = self.state();
        o.push(self.epoch().to_string());
        // balances are printed relative to the initial funding (small literals keep the Coq side fast)
        for a in self.obs_accounts() { for s in ASSETS { o.push((self.bal(a, s) as i128 - self.init_bal(a, s) as i128).to_string()); } }
        o.push(st.gw.to_string());
        o.push(st.counter.to_string());
        for u in USER_IDS {
            let n = self.name(u);
            o.push(st.aw.get(&n).copied().unwrap_or(0).to_string());
            o.push(st.last.get(&n).map(|x| x.to_string()).unwrap_or_else(|| "-1".into()));
            let op = st.open.get(&n).cloned().unwrap_or_default();
            o.push(op.len().to_string());
            for (a, d) in op { o.push(a.to_string()); o.push(d.to_string()); }
            let cl = st.closed.get(&n).cloned().unwrap_or_default();
            o.push(cl.len().to_string());
            for (a, d) in cl { o.push(a.to_string()); o.push(d.to_string()); }
            let h = st.awh.get(&n).cloned().unwrap_or_default();
            o.push(h.len().to_string());
            for (e, w) in h { o.push(e.to_string()); o.push(w.to_string()); }
        }
        o.push(st.snap.get(&self.epoch()).map(|x| x.to_string()).unwrap_or_else(|| "-1".into()));
        o.push(st.flows.len().to_string());
        for f in &st.flows {
            o.push(f.id.to_string());
            o.push(f.label.as_ref().map(|l| l.trim_start_matches('L').to_string()).unwrap_or_else(|| "-1".into()));
            o.push(self.id_of(&f.creator).to_string());
            o.push(self.asset_id(&f.asset).to_string());
            o.push(f.amount.to_string()); o.push(f.claimed.to_string()); o.push(f.start.to_string()); o.push(f.end.to_string());
            o.push(f.emitted.len().to_string());
            for (e, a) in &f.emitted { o.push(e.to_string()); o.push(a.to_string()); }
            o.push(f.hist.len().to_string());
            for (e, a, x) in &f.hist { o.push(e.to_string()); o.push(a.to_string()); o.push(x.to_string()); }
        }
        for u in USER_IDS {
            match self.rewards(u) {
                Ok(r) => { o.push("0".into()); o.push(r.len().to_string()); for (a, v) in r { o.push(a.to_string()); o.push(v.to_string()); } }
                Err(_) => o.push("1".into()),
            }
        }
        for u in USER_IDS {
            match self.share(u) {
                Ok((g, w, s)) => { o.push("0".into()); o.push(g.to_string()); o.push(w.to_string()); o.push(s); }
                Err(_) => o.push("1".into()),
            }
        }
        o
    }
}
